#!/bin/bash
# usage: tools/collect_seed.sh <Cxx-n>   -- verify an agent's change in its scratch worktree /tmp/wt/<id> myself and keep it under seeded/<id>/
set -u
id=$1; wt=/tmp/wt/$id
[ -f $wt/patch.diff ] || { echo "no patch.diff"; exit 2; }
cd $wt
git checkout -q -- . 2>/dev/null
git status --short | grep -v "^??" && { echo "worktree not clean after checkout"; }
# unchanged: demo passes
PYTHONPATH=$wt/src /venv/bin/python demo.py >/tmp/wt/$id.demo0.log 2>&1; d0=$?
git apply patch.diff || { echo "patch does not apply"; exit 2; }
PYTHONPATH=$wt/src /venv/bin/python demo.py >/tmp/wt/$id.demo1.log 2>&1; d1=$?
t=$(PYTHONPATH=$wt/src /venv/bin/python -m pytest -q -p no:cacheprovider test 2>&1 | tail -1)
echo "$id demo_unchanged_exit=$d0 demo_changed_exit=$d1 tests: $t"
if [ $d0 -eq 0 ] && [ $d1 -ne 0 ] && echo "$t" | grep -q "53 passed"; then
  mkdir -p /verif/seeded/$id; cp patch.diff demo.py meta.json /verif/seeded/$id/; echo "kept /verif/seeded/$id"
else
  echo "NOT kept"; tail -3 /tmp/wt/$id.demo0.log /tmp/wt/$id.demo1.log
fi
rm -f /tmp/wt/$id.demo0.log /tmp/wt/$id.demo1.log
