#!/bin/bash
# usage: tools/try_seed.sh <seed dir name under seeded/> <Cxx> [more props]   -- applies the patch to /repo, runs the checks, reverts
set -u
cd /verif
S=/verif/seeded/$1; shift
if ! git -C /repo diff --quiet; then echo "/repo dirty, refusing"; exit 2; fi
git -C /repo apply $S/patch.diff || { echo "patch does not apply"; exit 2; }
BAK=$(mktemp -d /var/tmp/evbak.XXXX); cp -r /verif/evidence $BAK/
for p in "$@"; do
  timeout 3000 ./check $p --tier ${TIER:-quick} 2>&1 | grep -v conda | grep -E "VIOLATION|KNOWN-FINDING|^\[$p\]" 
  echo "exit=${PIPESTATUS[0]}"
done
rm -rf /verif/evidence; cp -r $BAK/evidence /verif/evidence; rm -rf $BAK
git -C /repo checkout -- . ; git -C /repo reset -q ; git -C /repo status --short | head -3
