#!/usr/bin/env python3
"""Applies every seeded change under /verif/seeded to /repo in turn, runs the quick check of its property (and of any
extra properties named on the command line as seed=Cxx,Cyy), reverts, and writes seeded/RESULTS.md + RESULTS.json.
usage: tools/seed_matrix.py [seed ...]"""
import json, os, re, subprocess, sys, time
V = os.path.dirname(os.path.dirname(os.path.abspath(__file__)))
S = os.path.join(V, 'seeded')


def sh(cmd, **kw):
    return subprocess.run(cmd, shell=True, capture_output=True, text=True, **kw)


def prop_of(seed):
    try:
        m = json.load(open(os.path.join(S, seed, 'meta.json')))
        p = m.get('property') or m.get('property_id')
        if isinstance(p, str) and re.match(r'C\d\d', p):
            return p[:3], m
    except Exception:
        m = {}
    mm = re.match(r'(C\d\d)', seed)
    return (mm.group(1) if mm else None), m


def main():
    seeds = sys.argv[1:] or sorted(d for d in os.listdir(S) if os.path.isdir(os.path.join(S, d)))
    if sh('git -C /repo diff --quiet').returncode != 0:
        print('/repo dirty, refusing'); sys.exit(2)
    out = []
    old = {}
    # the evidence files describe the unchanged tree: keep them out of the way while seeds are applied
    import shutil, tempfile
    ev = os.path.join(V, 'evidence')
    bak = tempfile.mkdtemp(prefix='evidence_bak_', dir='/var/tmp')
    shutil.copytree(ev, os.path.join(bak, 'evidence'))
    rp = os.path.join(S, 'RESULTS.json')
    if os.path.exists(rp) and sys.argv[1:]:
        old = {r['seed']: r for r in json.load(open(rp))}
    for seed in seeds:
        prop, meta = prop_of(seed)
        rec = {'seed': seed, 'property': prop, 'summary': (meta.get('summary') or meta.get('what') or '')[:300]}
        a = sh(f'git -C /repo apply {S}/{seed}/patch.diff')
        if a.returncode != 0:
            rec['result'] = 'patch-does-not-apply'; rec['detail'] = a.stderr[-200:]
            out.append(rec); print(seed, rec['result']); continue
        if seed.startswith('harmless'):
            # a behaviour-preserving rewrite: every check must stay quiet
            try:
                t = time.time(); loud = []
                for i in range(1, 21):
                    pid = 'C%02d' % i
                    r = sh(f'cd {V} && timeout 3000 ./check {pid} --tier quick')
                    if r.returncode != 0 or 'VIOLATION' in r.stdout:
                        loud.append(pid)
                rec['property'] = 'all 20'
                rec['result'] = 'quiet (no alarm, as expected)' if not loud else 'FALSE ALARM in ' + ','.join(loud)
                rec['wall'] = round(time.time() - t, 1)
            finally:
                sh('git -C /repo checkout -- . ; git -C /repo reset -q')
            out.append(rec); print(seed, rec['result']); continue
        try:
            t = time.time()
            r = sh(f'cd {V} && timeout 3000 ./check {prop} --tier quick')
            lines = [l for l in r.stdout.splitlines() if l.startswith('VIOLATION') or l.startswith('[' + prop)]
            rec['exit'] = r.returncode
            rec['violation'] = next((l for l in lines if l.startswith('VIOLATION')), None)
            rec['summary_line'] = next((l for l in lines if l.startswith('[')), None)
            rec['result'] = ('not-detected' if r.returncode == 0 else 'detected-no-failing-input' if rec['violation'] and rec['violation'].endswith('no-failing-input-found')
                             else 'detected-with-replay')
            if rec['violation']:
                m = re.search(r'replay=(\S+)', rec['violation'])
                if m and os.path.exists(m.group(1)):
                    rp_ = json.load(open(m.group(1)))
                    v = rp_.get('oracle_verdict') or {}
                    rec['replay_kind'] = rp_.get('kind'); rec['oracle_key'] = v.get('key'); rec['broken'] = rp_.get('broken')
            rec['wall'] = round(time.time() - t, 1)
        finally:
            sh('git -C /repo checkout -- . ; git -C /repo reset -q')
        out.append(rec); print(seed, rec['result'], rec.get('oracle_key'), rec.get('summary_line'))
    shutil.rmtree(ev); shutil.copytree(os.path.join(bak, 'evidence'), ev); shutil.rmtree(bak)
    for r in out:
        old[r['seed']] = r
    allr = [old[k] for k in sorted(old)]
    json.dump(allr, open(rp, 'w'), indent=1)
    with open(os.path.join(S, 'RESULTS.md'), 'w') as f:
        f.write('| seed | property | result | how it shows | what the change is |\n|---|---|---|---|---|\n')
        for r in allr:
            how = r.get('oracle_key') or (('broken: ' + ', '.join(map(str, r.get('broken') or []))[:80]) if r.get('broken') else r.get('replay_kind') or '')
            f.write(f"| {r['seed']} | {r['property']} | {r['result']} | {how} | {r['summary'].replace('|', '/')[:160]} |\n")


main()
