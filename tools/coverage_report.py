#!/venv/bin/python
"""Line / branch coverage of /repo/src/emdfile reached by the scenario runs of all checks (quick tier, one seed), to see
which parts of the implementation no check ever executes.  usage: VERIF_JOBS=1 PYTHONPATH=/repo/src:/verif /venv/bin/python tools/coverage_report.py [seed]
Writes /verif/evidence_extra/coverage.json and prints the missing lines per file."""
import importlib, json, os, sys, tempfile, shutil
os.environ['VERIF_JOBS'] = '1'
sys.path.insert(0, '/verif')
import coverage
seed = int(sys.argv[1]) if len(sys.argv) > 1 else 0
cov = coverage.Coverage(source=['/repo/src/emdfile'], branch=True, data_file=None)
scratch = tempfile.mkdtemp(prefix='emdcov_', dir='/var/tmp')
per = {}
cov.start()
try:
    for i in range(1, 21):
        name = 'c%02d' % i
        mod = importlib.import_module('harness.props.' + name)
        cases = mod.cases(seed, 'quick')
        res = mod.run_all(cases, scratch)
        per[name] = len(cases)
finally:
    cov.stop()
    shutil.rmtree(scratch, ignore_errors=True)
out = {}
for f in sorted(cov.get_data().measured_files()):
    _, stmts, _, missing, _ = cov.analysis2(f)
    out[os.path.relpath(f, '/repo/src')] = {'statements': len(stmts), 'missing': missing}
os.makedirs('/verif/evidence_extra', exist_ok=True)
json.dump({'seed': seed, 'cases': per, 'files': out}, open('/verif/evidence_extra/coverage.json', 'w'), indent=1)
tot = sum(v['statements'] for v in out.values()); miss = sum(len(v['missing']) for v in out.values())
print('statements', tot, 'missing', miss, 'covered %.1f%%' % (100.0 * (tot - miss) / tot))
for f, v in out.items():
    if v['missing']:
        print(f, len(v['missing']), 'of', v['statements'], 'not executed:', v['missing'])
