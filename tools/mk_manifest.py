#!/usr/bin/env python3
"""Writes /verif/MANIFEST.json from the table below (kept in one place so it stays valid)."""
import json, os
V = os.path.dirname(os.path.dirname(os.path.abspath(__file__)))
TB = ("Trusted: Coq 8.16.1 kernel + vm_compute (no native_compute); no axioms (Print Assumptions per theorem in evidence); "
      "translator gen/py2coq.py; correspondence harness + CPython/numpy/h5py as reference. ")
CLAIMED = {
 'C20': dict(
   text="Theorem over the function *generated from the current source* by the translator: for all integer triples the helper's truthiness equals lexicographic >=; plus the version of the header the package writes (generated constant table) satisfies it against (1,0,0). Correspondence (generated function vs real function on ~700 triple pairs incl. all 27 order types and large magnitudes; real written files) re-validates the translator on every run.",
   note=TB + "Modelled not verified: _get_EMD_version (hand model written_version, tied by correspondence on real written files). Python ints modelled as Z.",
   technique="Coq proof over source-translated Gallina (lia); translator validated by vm_compute correspondence", ref="5 C20"),
}
CLAIMED['C12'] = dict(
   text="Invariant proof by induction over operation sequences on a forest model that follows the stored _root/_treepath pointers exactly as classes/node.py does: every add/force_add/graft/cut step preserves well-formedness (unique identities, every node of a root's tree stamped with that root and its real path, unrooted nodes childless), conserves the multiset of (identity, kind, name) labels (no node lost or duplicated; cut adds exactly one fresh root), looking up a node's stored path from its root returns that node, forbidden calls fail and failing calls change nothing. The model is tied to the real classes by evaluating ~3000 operation sequences (exhaustive short ones + random up to 25 ops) in Coq against snapshots of the live Python objects, and an independent parent-pointer oracle checks the statement on the real objects after every operation.",
   note=TB + "PARTIAL: the step theorem's domain excludes a Root as the donor of graft/cut (root donors are exercised by correspondence + oracle only); grafts onto an own descendant are outside the property. Modelled not verified: Python object identity (numeric ids), dict insertion order (lists). Names assumed valid and pairwise distinct as the property quantifies.",
   technique="Coq invariant proof (structural induction, Permutation of labels) + vm_compute correspondence with live objects", ref="5 C12")
CLAIMED['C13'] = dict(
   text="Theorems about the five-way root-metadata merge of _graft as modelled (md_merge): 'no metadata' changes nothing; receiver-only entries always survive; default/copy keep every receiver entry; for each donor entry the result is the shared donor object (default on absent key, overwrite always) or a fresh object with equal content under the same key (copy on absent key, copyover always); graft applies exactly this merge to the receiving root and leaves every other root (the donor's included) untouched; cut is graft onto a fresh empty root. Correspondence: all 64 pairs of key sets over 3 names x 5 options x donor node/root x cut options exhaustively plus random operation sequences, compared with object identities of the live Metadata objects.",
   note=TB + "Hypotheses: donor root's metadata dict has distinct keys and each Metadata is named like its key (what Node.metadata's setter produces). Object identity of copies is modelled by fresh numeric ids allocated in donor-key order.",
   technique="Coq proof over assoc-list model of the merge + exhaustive small-scope correspondence", ref="5 C13")
PENDING = {}
props = [json.loads(l) for l in open(os.path.join(V, 'properties.jsonl'))]
checks, na = [], []
for p in props:
    i = p['id']
    if i in CLAIMED:
        c = CLAIMED[i]
        checks.append({
            'property_id': i,
            'quick_cmd': f'./check {i} --tier quick',
            'thorough_cmd': f'./check {i} --tier thorough',
            'evidence_file': f'/verif/evidence/{i}.json',
            'replay_cmd_template': f'./check {i} --replay {{path}}',
            'engine': 'coq-proof+correspondence',
            'level_claimed': {'category': 'proof', 'text': c['text'], 'design_ref': 'DESIGN.md section ' + c['ref']},
            'level_note': c['note'],
            'technique': c['technique'],
        })
    else:
        na.append({'property_id': i, 'reason': PENDING.get(i, 'not claimed yet: model, theorems and correspondence for this property are still under construction (see DESIGN.md section 10 build order); the technique applies and the check will be registered when it is sound')})
m = {
 'version': 1,
 'setup_cmd': './check --setup',
 'hooks': {'guard': 'EMDFILE_VERIF', 'enable': 'no source hooks are needed: fault injection and observation are done from the harness by wrapping h5py at run time; EMDFILE_VERIF=1 is exported by ./check for completeness',
           'baseline_off_cmd': 'cd /repo && /venv/bin/python -m pytest -ra -q -p no:cacheprovider --timeout=900 --continue-on-collection-errors',
           'source_commits': [], 'add_only': True},
 'engines': [{'name': 'coq-proof+correspondence', 'path': '/verif/check', 'serves_properties': [c['property_id'] for c in checks],
              'kind_free_text': 'Coq 8.16.1 theorems over an executable Gallina model (coq/), tied to /repo on every run by a source translator (gen/py2coq.py) and a vm_compute correspondence check against the real emdfile (harness/)'}],
 'checks': checks,
 'not_applicable': na,
 'notes': 'See DESIGN.md. Known findings: known_findings.jsonl. Seeded changes used to validate the checks: seeded/.',
}
json.dump(m, open(os.path.join(V, 'MANIFEST.json'), 'w'), indent=1)
print('claimed', [c['property_id'] for c in checks], 'not claimed', len(na))
