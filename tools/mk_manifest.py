#!/usr/bin/env python3
"""Writes /verif/MANIFEST.json from the table below (kept in one place so it stays valid)."""
import json, os
V = os.path.dirname(os.path.dirname(os.path.abspath(__file__)))
TB = ("Trusted: Coq 8.16.1 kernel + vm_compute (no native_compute); no axioms (Print Assumptions per theorem in evidence); "
      "translator gen/py2coq.py; correspondence harness + CPython/numpy/h5py as reference. ")
CLAIMED = {
 'C20': dict(
   text="Theorem over the function *generated from the current source* by the translator: for all integer triples the helper's truthiness equals lexicographic >=; plus the version of the header the package writes (generated constant table) satisfies it against (1,0,0). Correspondence (generated function vs real function on ~700 triple pairs incl. all 27 order types and large magnitudes; real written files) re-validates the translator on every run.",
   note=TB + "Modelled not verified: _get_EMD_version (hand model written_version, tied by correspondence on real written files). Python ints modelled as Z.",
   technique="Coq proof over source-translated Gallina (lia); translator validated by vm_compute correspondence", ref="5 C20"),
}
PENDING = {}
props = [json.loads(l) for l in open(os.path.join(V, 'properties.jsonl'))]
checks, na = [], []
for p in props:
    i = p['id']
    if i in CLAIMED:
        c = CLAIMED[i]
        checks.append({
            'property_id': i,
            'quick_cmd': f'./check {i} --tier quick',
            'thorough_cmd': f'./check {i} --tier thorough',
            'evidence_file': f'/verif/evidence/{i}.json',
            'replay_cmd_template': f'./check {i} --replay {{path}}',
            'engine': 'coq-proof+correspondence',
            'level_claimed': {'category': 'proof', 'text': c['text'], 'design_ref': 'DESIGN.md section ' + c['ref']},
            'level_note': c['note'],
            'technique': c['technique'],
        })
    else:
        na.append({'property_id': i, 'reason': PENDING.get(i, 'not claimed yet: model, theorems and correspondence for this property are still under construction (see DESIGN.md section 10 build order); the technique applies and the check will be registered when it is sound')})
m = {
 'version': 1,
 'setup_cmd': './check --setup',
 'hooks': {'guard': 'EMDFILE_VERIF', 'enable': 'no source hooks are needed: fault injection and observation are done from the harness by wrapping h5py at run time; EMDFILE_VERIF=1 is exported by ./check for completeness',
           'baseline_off_cmd': 'cd /repo && /venv/bin/python -m pytest -ra -q -p no:cacheprovider --timeout=900 --continue-on-collection-errors',
           'source_commits': [], 'add_only': True},
 'engines': [{'name': 'coq-proof+correspondence', 'path': '/verif/check', 'serves_properties': [c['property_id'] for c in checks],
              'kind_free_text': 'Coq 8.16.1 theorems over an executable Gallina model (coq/), tied to /repo on every run by a source translator (gen/py2coq.py) and a vm_compute correspondence check against the real emdfile (harness/)'}],
 'checks': checks,
 'not_applicable': na,
 'notes': 'See DESIGN.md. Known findings: known_findings.jsonl. Seeded changes used to validate the checks: seeded/.',
}
json.dump(m, open(os.path.join(V, 'MANIFEST.json'), 'w'), indent=1)
print('claimed', [c['property_id'] for c in checks], 'not claimed', len(na))
