#!/usr/bin/env python3
"""Writes /verif/MANIFEST.json from the table below (kept in one place so it stays valid)."""
import json, os
V = os.path.dirname(os.path.dirname(os.path.abspath(__file__)))
TB = ("Trusted: Coq 8.16.1 kernel + vm_compute (no native_compute); no axioms (Print Assumptions per theorem in evidence); "
      "translator gen/py2coq.py; correspondence harness + CPython/numpy/h5py as reference. ")
CLAIMED = {
 'C20': dict(
   text="Theorem over the function *generated from the current source* by the translator: for all integer triples the helper's truthiness equals lexicographic >=; plus the version of the header the package writes (generated constant table) satisfies it against (1,0,0). Correspondence (generated function vs real function on ~700 triple pairs incl. all 27 order types and large magnitudes; real written files) re-validates the translator on every run.",
   note=TB + "Modelled not verified: _get_EMD_version (hand model written_version, tied by correspondence on real written files). Python ints modelled as Z.",
   technique="Coq proof over source-translated Gallina (lia); translator validated by vm_compute correspondence", ref="5 C20"),
}
CLAIMED['C12'] = dict(
   text="Invariant proof by induction over operation sequences on a forest model that follows the stored _root/_treepath pointers exactly as classes/node.py does: every add/force_add/graft/cut step preserves well-formedness (unique identities, every node of a root's tree stamped with that root and its real path, unrooted nodes childless), conserves the multiset of (identity, kind, name) labels (no node lost or duplicated; cut adds exactly one fresh root), looking up a node's stored path from its root returns that node, forbidden calls fail and failing calls change nothing. The model is tied to the real classes by evaluating ~3000 operation sequences (exhaustive short ones + random up to 25 ops) in Coq against snapshots of the live Python objects, and an independent parent-pointer oracle checks the statement on the real objects after every operation.",
   note=TB + "PARTIAL: the step theorem's domain excludes a Root as the donor of graft/cut (root donors are exercised by correspondence + oracle only); grafts onto an own descendant are outside the property. Modelled not verified: Python object identity (numeric ids), dict insertion order (lists). Names assumed valid and pairwise distinct as the property quantifies.",
   technique="Coq invariant proof (structural induction, Permutation of labels) + vm_compute correspondence with live objects", ref="5 C12")
CLAIMED['C13'] = dict(
   text="Theorems about the five-way root-metadata merge of _graft as modelled (md_merge): 'no metadata' changes nothing; receiver-only entries always survive; default/copy keep every receiver entry; for each donor entry the result is the shared donor object (default on absent key, overwrite always) or a fresh object with equal content under the same key (copy on absent key, copyover always); graft applies exactly this merge to the receiving root and leaves every other root (the donor's included) untouched; cut is graft onto a fresh empty root. Correspondence: all 64 pairs of key sets over 3 names x 5 options x donor node/root x cut options exhaustively plus random operation sequences, compared with object identities of the live Metadata objects.",
   note=TB + "Hypotheses: donor root's metadata dict has distinct keys and each Metadata is named like its key (what Node.metadata's setter produces). Object identity of copies is modelled by fresh numeric ids allocated in donor-key order.",
   technique="Coq proof over assoc-list model of the merge + exhaustive small-scope correspondence", ref="5 C13")

TREE = ("Shared executable model of write.py / utils.py / read.py (coq/Model/H5.v, Emd.v, EmdList.v, Reader.v) with class payloads as "
        "templates parameterised by content tokens; tied to /repo on every run by evaluating the scenarios in Coq (vm_compute) against "
        "a raw-h5py walk of the files the real emdfile wrote, plus constant tables generated from the sources. ")
CLAIMED['C01'] = dict(
   text="Both halves proved for every tree (structural induction over the nested tree type). Writer: the recursive writer stores each child's whole branch inside its parent's group (write_tree = enc); a saved file is the header plus one top-level group holding the encoded tree; each node is the HDF5 group at /<root name><node path> with its class tags; a node's group links exactly its own datasets/bundle and its children. Reader: the detector accepts the file, and read(path) of the saved file returns canon(tree) -- the same tree with, at every node, the same class, name, payload token / rank as its class stores them, all metadata, children in name order -- handed back as the root, its only child or its only Metadata exactly as read() selects; a path leads to a node in the tree read back iff it does in the tree saved, and to the same node. Correspondence on exhaustive small trees x class assignments + random trees (rank-0 Arrays included), and an independent oracle comparing paths/classes of the raw file and of the read-back tree.",
   note=TB + TREE + "Hypotheses: ok_tree = sibling names distinct and not clashing with the parent's own datasets (format limitation F18); rd_tree = no node below the top is a Root or is named 'metadatabundle' (refused by Node.to_h5); root name non-empty without '/'. Payload content by token (per-class codecs are C02-C04). Modelled not verified: h5py link/attribute semantics, name-ordered iteration.",
   technique="Coq proof by structural induction (writer refines an encoding function, reader inverts it up to name order) + vm_compute correspondence", ref="5 C01 / 12.3")
CLAIMED['C05'] = dict(
   text="Proved layout facts about everything the writer model produces: valid group-type tags (from the generated vocabulary) and python_class on every node group at every path, metadata in a tagged bundle of tagged typed items, the written header passing the package detector, program/user from the session configuration, the bundle created by the append path tagged, no scratch group after a replace (C09/C18 theorems). The full validator (incl. Array data/dim datasets and every dispatch branch, every mode, histories, author settings) runs as an h5py-only oracle after every successful save of ~600 scenarios, with the package detector/version query.",
   note=TB + TREE + "PARTIAL: no single theorem covers the whole dispatcher; Array dim-dataset clauses are checked by the oracle (templates) and in C02/C14.",
   technique="Coq lemmas over the writer model + validator oracle on real files + vm_compute correspondence", ref="5 C05")
CLAIMED['C07'] = dict(
   text="For each of the selection cases the theorem gives the COMPLETE content of the fresh file as a closed term: root target (whole tree / root alone), inner target with tree=False (root + node alone), tree=True (root + node with its whole encoded branch, relative shape unchanged), tree=None (root + only the branch below the node attached at root level); the root always carries its own name and all its metadata; an unrooted node is wrapped in <name>_root. 'Nothing outside the selection' is the equality. Correspondence: every node x 3 options of random trees, up to 40 saves from the same live objects per scenario.",
   note=TB + TREE + "Hypotheses: the target is reachable at tp in the runtime tree (C12), names do not clash with the root's own bundle. Payload content by token.",
   technique="Coq proof (equational, on top of write_tree = enc) + vm_compute correspondence", ref="5 C07")
CLAIMED['C08'] = dict(
   text="Proved: over the open-mode table generated from the sources every h5py.File( call on the read path uses 'r'; for every saved tree and every inner node the result of read(path, emdpath, tree) for each of the three tree options as a closed term (root with its metadata plus exactly the node alone / the node with its whole branch / the branch below the node at root level), which is the subtree the full read holds at that path; the tree reader is compositional on arbitrary files; a missing path component is an error; a leading slash is ignored. Correspondence + oracle: every node path x 3 options x leading slash, missing paths, multi-root files, sha256 before/after each read.",
   note=TB + TREE + "Hypotheses as C01 plus non-empty slash-free names along the path. Byte immutability under open mode 'r' is HDF5's (trusted); sha256 before/after is observed by the oracle.",
   technique="Coq proof (string split/join lemmas, walk over the encoding, reader inverse) + generated open-mode table + vm_compute correspondence", ref="5 C08 / 12.3")
CLAIMED['C09'] = dict(
   text="Proved for every runtime tree and file group: append mode only EXTENDS the file tree (every object already there is still at its path with the same attributes and datasets, at any depth); a runtime child the file lacks is written with its whole branch at its runtime path; the append-over replace step gives the node the runtime node's own content (tags, metadata, datasets), keeps the data children that exist only in the file, leaves siblings untouched and no scratch group. The full dispatcher (which branch for which target/emdpath/tree option, root metadata, sequences) is tied by correspondence on ~700 pair/sequence scenarios and by an independent reference model of union/replace used as oracle.",
   note=TB + TREE + "PARTIAL: composition over the dispatcher not proved. str.replace path arithmetic of write.py modelled path-wise.",
   technique="Coq proof (extension order by nested induction; replace-step specification) + reference-model oracle + vm_compute correspondence", ref="5 C09")
CLAIMED['C10'] = dict(
   text="Frame theorem over the WHOLE append dispatcher (all branches, by case analysis): a save into an existing file changes only the targeted top-level tree; every other tree and the header attributes (UUID included) are equal before and after; a new root name adds exactly one top-level tree; a read without a path on a multi-root file returns the root names. Correspondence + oracle on histories of 2-6 saves incl. list/tuple saves mixing roots, rooted nodes, unrooted nodes, arrays, dicts.",
   note=TB + TREE + "PARTIAL: 'each tree equals its source' and the list storage rules are tied by correspondence + oracle (the list path is modelled in EmdList.v).",
   technique="Coq frame proof by exhaustive case analysis of the dispatcher model + vm_compute correspondence", ref="5 C10")
CLAIMED['C11'] = dict(
   text="Theorems over the mode tables and the prelude order GENERATED from write.py on every run: write mode onto anything existing fails and returns the slot unchanged; an unknown mode is rejected before anything is touched whatever the other arguments (also for lists); overwrite equals the same save into a fresh path; append/append-over to nothing equals write; with emdpath write/overwrite behave as append. Correspondence + oracle: every spelling + invalid strings x 6 kinds of old content x emdpath x tree x 6 input kinds, sha256 for byte-for-byte.",
   note=TB + TREE + "The filesystem is modelled as a slot (Absent / raw bytes token / HDF5 object).",
   technique="Coq proof by case analysis over source-generated tables + exhaustive small-scope correspondence", ref="5 C11")
CLAIMED['C18'] = dict(
   text="Fault model = budget of HDF5 mutations still allowed to succeed; theorems quantify over EVERY budget: in append mode the file group is only extended whether the save completes or fails at any point; a failing append-over replace step (move / write new / any relink / final delete) restores the parent group EXACTLY (no _tmp_ scratch); likewise a failing root-metadata entry. The strict statement for append-over is refuted by a vm_compute witness (known finding: not transactional). Tie: real saves with the k-th h5py mutation failing (all k for small cases, all move/link/delete steps always), natural failures, compared with the model under SOME budget on the pre-existing nodes; oracle = raw walk + targeted read of every pre-existing path.",
   note=TB + TREE + "PARTIAL: node creation is atomic in the model (real partial nodes are removed by the rollback or are new nodes the property does not speak about); single fault per save; crashes/power loss not modelled. Known finding ao-node-replaced-before-failure.",
   technique="Coq proof over a budgeted state-transformer model (all fault points) + fault-injection correspondence", ref="5 C18")
CLAIMED['C19'] = dict(
   text="Effect model of what write() does to live objects (temporary root, metadata names, list iteration) on the C12 forest model; theorems: the public view of every object is unchanged by saving an unrooted node or a list, on success and on failure, and the node is still unrooted. Oracle: before/after snapshots (shape, names, roots, payload tokens, metadata keys/names/identities, list contents) around every save incl. failing ones, re-adding unrooted nodes to a tree, twin saves to two fresh paths compared.",
   note=TB + TREE + "PARTIAL: the effect model is tied to the code by the live-object snapshots (oracle) rather than by a Coq-evaluated correspondence; repeatability rests on the writer model being a function plus the twin-save oracle.",
   technique="Coq proof over an effect model + live-object snapshot oracle + vm_compute correspondence of file contents", ref="5 C19")

ARRM = ("Executable model of the calibration logic of classes/array.py (coq/Model/Arr.v): argument padding/truncation, _unpack_dim with numpy's start + step*arange(n) written out in binary64 (PrimFloat, bit-exact), _dim_is_linear, to_h5/_get_constructor_args for the dim datasets and labels, setters, stack algebra, labelled slicing; tied to /repo by evaluating every scenario in Coq against the live Array objects and the raw files, floats compared bit for bit. ")
CLAIMED['C14'] = dict(
   text="Invariant proofs: construction yields exactly one dim vector / unit / name per (non-label) axis with each dim vector of the axis length, for every form of the arguments, and set_dim / set_dim_units / set_dim_name keep it (so any setter sequence does); every expansion has the axis length for ALL ints and binary64 values (no arange off-by-one); omitted entry = 0..N-1; integer number/pair = the exact arithmetic ramp; full vector kept as given; supplied units/names kept, defaults pixels/unknown/dim<i>; stack depth/rank/shape; indexing by the i-th label returns slice i with the same calibrations (distinct labels; duplicate labels refuted by witness = known finding).",
   note=TB + ARRM + "PARTIAL for floats: length and the stated binary64 formula are proved; equality with the exact rational ramp only for integers (oracle checks floats within 2^-49 relative). Print Assumptions lists only kernel primitives of PrimFloat/Uint63 (native floats), no declared axiom.",
   technique="Coq invariant proof + bit-exact PrimFloat model validated by vm_compute correspondence", ref="5 C14")
CLAIMED['C02'] = dict(
   text="Proved for all ints and all binary64 values: the calibration part of the Array codec round-trips -- shape, depth, units, names and labels identical, every dim vector elementwise equal (a vector passing the exact linearity test is stored as two entries and re-expands to equal values; any other is stored in full and returned as is); what is stored per axis has 2 or N entries; every constructed Array satisfies the hypotheses. Data/dtype/shape/units/name and label-addressed slices across 18 dtypes x 6 memory layouts: correspondence (stored dim datasets bit-exact) + oracle on the read-back object.",
   note=TB + ARRM + "PARTIAL: bulk data preservation (h5py) is observed, not modelled. Extents >= 1.",
   technique="Coq proof (codec round-trip by construction of the linearity test) + bit-exact correspondence with files", ref="5 C02")

MDM = ("Executable model of Metadata._save_item/_read_item (coq/Model/Md.v) over a value universe that also contains unsupported and reader-produced forms, with numpy promotion of number sequences, 0-d datasets/.item(), tuple(array) written out; tied to /repo by evaluating every case in Coq against the raw file item (h5py walk) and the read-back value, floats bit-exact. ")
CLAIMED['C03'] = dict(
   text="Theorem by induction over the value universe (nested lists, dicts to ANY depth): every documented value saves, reads back, and is kind-sensitively equal (bool/int/float/complex/str/None of the same kind and bit-equal, arrays same dtype/shape/content, tuples stay tuples and lists lists with elements losslessly converted to the common numeric kind, dict keys and values recursively). Every 'type' tag the writer stamps is dispatched by the reader, over tag lists generated from the sources. The two forced hypotheses have refutation witnesses (known findings F10, F19). Correspondence: ~650 values incl. every pool leaf at top level and under 1..6 dict levels, on root / inner node / leaf Array, with a second Metadata beside it; oracle = independent Python kind-sensitive comparison.",
   note=TB + MDM + "Modelled not verified: numpy promotion rules, h5py refusing U/O dtypes and NUL in strings, array content by token. 'Any number of Metadata per node, any node position' is exercised by the correspondence (2 per node, 3 positions) and by the tree-level model (bundles).",
   technique="Coq proof by nested structural induction over the value universe + bit-exact vm_compute correspondence", ref="5 C03")

CLAIMED['C04'] = dict(
   text="Proved: every scalar field dtype HDF5 can hold survives its string form (np.dtype(str(dt)) = dt over the enumerated universe, fixed-width bytes of any width, big-endian included); a PointList comes back with the same length and, in name order, exactly its fields, each with its dtype and content; the same set of fields; a PointListArray re-populated cell by cell from what h5py returns equals the original (empty cells, zero extents); the swallowed per-cell ValueError is shown by witness to drop a cell if a read ever raised. Correspondence + oracle on 500 PointLists/PointListArrays over 22 dtypes: raw per-field datasets and dtype attributes, read-back, second generation.",
   note=TB + "Model coq/Model/Pl.v. PARTIAL: column/cell contents are tokens (digest of dtype+bytes); that h5py stores/returns them and the vlen machinery are observed, not modelled. Field order is not part of the guarantee (name order after read).",
   technique="Coq proof (finite dtype universe by evaluation lifted to a theorem; sort/permutation lemmas) + vm_compute correspondence", ref="5 C04")

CLAIMED['C15'] = dict(
   text="Total theorem for the metadata codec over its WHOLE value universe (numpy scalars, bytes, sets, mixed and nested sequences, tuples of tuples of anything, dicts to any depth): save_item fails, or the item it wrote reads back to a kind-sensitively equal value -- up to exactly the two known findings, excluded by a decidable side condition and refuted by witnesses in C03. Bad keys and unsupported kinds are proved to be rejected. The Array calibration round trip is proved for ALL extents incl. zero-length axes. Names (empty, '.', '/', NUL, reserved, 5000 chars, colliding with datasets) at 6 positions, 0-d and zero-extent arrays, PointList edge inputs (sub-array fields, 0-d, unstructured) and empty containers are decided on the real code by the oracle stream (408 edge inputs): save raised, or read succeeded with equal content.",
   note=TB + MDM + "PARTIAL: the names / PointList / empty-container streams are oracle-only (no Coq model of HDF5 name parsing). Known findings as in C03.",
   technique="Coq total theorem (inversion of every accepting branch of the writer model) + edge-input oracle + vm_compute correspondence", ref="5 C15")

CLAIMED['C17'] = dict(
   text="Over arbitrary HDF5 objects (model of h5py's visititems scan): non-HDF5 bytes and HDF5 files that are neither EMD 1.0 nor hold a group tagged as EMD 0.1 data are refused; every tagged data group at any depth is found; each data group becomes an Array with the group's name, the same data and, per axis, the dim vector, name and units of the corresponding 1-based dim dataset; one group gives a single Array, several give a root holding all of them (names pairwise distinct -- the same-name case is refuted by a witness = known finding). Correspondence + oracle on 300 generated 0.1 files (1-5 groups, depth 0-5, rank 1-4, 7 dtypes, malformed variants) and 150 non-EMD / junk files; sha256 unchanged by read.",
   note=TB + TREE + "Model coq/Model/Legacy.v. Data and dim vectors by token (first element) and length; the bare `except:` around the importer is modelled as refusal on any failure. Modelled not verified: h5py parsing of junk bytes (refusal is observed).",
   technique="Coq proof over arbitrary file objects (scan completeness by induction on paths; import spec) + vm_compute correspondence", ref="5 C17")

CLAIMED['C16'] = dict(
   text="Proved for the two codecs whose reader produces forms the writer must accept again: for every documented metadata value the first generation is again in a (generalised) documented domain -- numpy scalars inside sequences included -- which is closed under a generation and on which save is accepted and the read-back is kind-sensitively equal, hence any number of generations; for Array calibrations the loaded Array again satisfies the C14 invariant, so the second generation has identical shape/units/names/labels and elementwise equal dim vectors. For trees (model of C01): what read returned is writable and readable again and the second generation -- saved under any session configuration -- reads back as the very same tree (canon idempotent, ok_tree / rd_tree preserved). Trees (full, node, branch, below-node reads and the Metadata returned for a childless root), PointLists/PointListArrays and legacy imports are also pushed through 2-3 real generations and compared by the oracle (960 objects).",
   note=TB + MDM + "PARTIAL: PointList / legacy streams and partial-read selections of trees are oracle-only. Domain = the documented domain of C01-C04 and the legacy files of C17 (numpy uint64 scalars >= 2^63 given as metadata read back as Python ints that cannot be saved: outside the documented kinds).",
   technique="Coq proof (closure of the documented domain under read o save, then the total codec theorem) + multi-generation oracle", ref="5 C16")
CLAIMED['C06'] = dict(
   text="Proved for every module graph (model coq/Model/ClassLookup.v of _get_class / _get_dependent_packages / _walk_module_find_classes: modules as (hook value, namespace), members classes / modules / other objects, getmembers in name order, depth limit from the generated table): a class exposed under its own name by a hooked module -- directly or through hooked sub-modules up to the documented depth -- is the class found; built-ins are always found; whatever is found was bound under exactly the recorded name (never a substitute); a class no hooked module exposes is an error; sub-modules 0..5 deep are searched, 6+ are not; un-hooked modules are never searched (only `_emd_hook is True` opts in at top level). Custom layout: node-valued attributes are stored as custom_<type> links under their attribute names, the reader hook receives exactly those names, the tree reader exactly the tree children. Correspondence: the real _get_class on 150 synthesised sys.modules graphs (+ ~260 read-time placements), every name looked up; Custom groups of real files. End-to-end oracle: 75 scenarios of real subclass hierarchies (own reader hooks) over all six bases incl. indirect subclasses and Metadata promotion, read under 3-4 placements each (top, nested 1-5, un-hooked link, too deep, split, hook = 1, absent): exact class identity, hook-supplied argument, populate hook, content, attributes vs children; read must fail when a class is missing.",
   note=TB + "PARTIAL: from_h5 instantiating through the found class's own hooks and type(node) are observed end to end, not modelled. Modelled not verified: Python module objects / inspect.getmembers / class identity. Hypothesis binds_only = the property's 'distinct class names'.",
   technique="Coq proof over a module-graph model (nested induction on fuel and namespaces) + vm_compute correspondence with the real _get_class + end-to-end subclass oracle", ref="5 C06")
PENDING = {}
props = [json.loads(l) for l in open(os.path.join(V, 'properties.jsonl'))]
checks, na = [], []
for p in props:
    i = p['id']
    if i in CLAIMED:
        c = CLAIMED[i]
        checks.append({
            'property_id': i,
            'quick_cmd': f'./check {i} --tier quick',
            'thorough_cmd': f'./check {i} --tier thorough',
            'evidence_file': f'/verif/evidence/{i}.json',
            'replay_cmd_template': f'./check {i} --replay {{path}}',
            'engine': 'coq-proof+correspondence',
            'level_claimed': {'category': 'proof', 'text': c['text'], 'design_ref': 'DESIGN.md section ' + c['ref']},
            'level_note': c['note'],
            'technique': c['technique'],
        })
    else:
        na.append({'property_id': i, 'reason': PENDING.get(i, 'not claimed yet: model, theorems and correspondence for this property are still under construction (see DESIGN.md section 10 build order); the technique applies and the check will be registered when it is sound')})
m = {
 'version': 1,
 'setup_cmd': './check --setup',
 'hooks': {'guard': 'EMDFILE_VERIF', 'enable': 'no source hooks are needed: fault injection and observation are done from the harness by wrapping h5py at run time; EMDFILE_VERIF=1 is exported by ./check for completeness',
           'baseline_off_cmd': 'cd /repo && /venv/bin/python -m pytest -ra -q -p no:cacheprovider --timeout=900 --continue-on-collection-errors',
           'source_commits': [], 'add_only': True},
 'engines': [{'name': 'coq-proof+correspondence', 'path': '/verif/check', 'serves_properties': [c['property_id'] for c in checks],
              'kind_free_text': 'Coq 8.16.1 theorems over an executable Gallina model (coq/), tied to /repo on every run by a source translator (gen/py2coq.py) and a vm_compute correspondence check against the real emdfile (harness/)'}],
 'checks': checks,
 'not_applicable': na,
 'notes': 'See DESIGN.md. Known findings: known_findings.jsonl. Seeded changes used to validate the checks: seeded/.',
}
json.dump(m, open(os.path.join(V, 'MANIFEST.json'), 'w'), indent=1)
print('claimed', [c['property_id'] for c in checks], 'not claimed', len(na))
