"""C12 -- tree operations keep every node consistent with the tree it is in."""
from harness import forest
from harness.forest import run_all, emit, COQ_IMPORTS, CASETY
CHECKFN = 'check_nomd'

PROP = 'C12'
TARGETS = ['Props/C12.vo', 'Corr/XForest.vo']
PROPS_FILE = 'Props/C12.v'
RULE = ('operation sequences (add_to_tree, force_add_to_tree, graft with 5 metadata options, cut with 3) over forests of '
        'distinctly named nodes: exhaustive sequences of length<=2 (quick) / <=3 (thorough) over 2 roots + 3 nodes from several '
        'base shapes, plus random sequences of length 4..25 over 1..3 roots and 3..12 nodes (about 12% forbidden operations); '
        'grafts onto own descendants excluded; every operation is issued under rotating spellings (the method, .tree(add= / graft= / cut=), '
        '.tree(node), .tree(node, force=True)); non-trivial = distinct sequences containing at least one successful graft or cut')
MODELLED = ['Python object identity is modelled by numeric ids; dict insertion order by list order']
ASSUMPTIONS = ['node names are valid (no "/") and pairwise distinct, as the property quantifies']


def cases(seed, tier):
    return forest.gen_cases(seed, tier, 'C12')


oracle = forest.oracle_c12
shrink = forest.shrink_with(forest.oracle_c12)


def pick_smallest(cases_, idxs):
    return min(idxs, key=lambda i: forest.size(cases_[i]))


def nontrivial(cases_, results):
    s = set()
    for c, r in zip(cases_, results):
        if any(st['ok'] and op[0] in ('graft', 'cut') for op, st in zip(c['ops'], r['steps'])):
            s.add(repr(c['ops']) + repr(len(c['objs'])))
    return len(s)


def samples(cases_, results):
    out = []
    for c, r in list(zip(cases_, results))[-3:]:
        out.append({'objs': [(o['id'], 'Root' if o['root'] else 'Node', o['name'], [m['key'] for m in o['mds']]) for o in c['objs']],
                    'ops': c['ops'], 'ok_flags': [s['ok'] for s in r['steps']]})
    return out


def distribution(cases_, results):
    d = {'ops': {}, 'ok': 0, 'raised': 0, 'len_hist': {}}
    for c, r in zip(cases_, results):
        L = len(c['ops']); d['len_hist'][L] = d['len_hist'].get(L, 0) + 1
        for op, st in zip(c['ops'], r['steps']):
            d['ops'][op[0]] = d['ops'].get(op[0], 0) + 1
            d['ok' if st['ok'] else 'raised'] += 1
    return d
