"""C09 -- append is a name-based union; append-over additionally replaces common nodes."""
import copy, itertools, random
from harness import tree as T, fileabs as FA
from harness.tree import run_all, emit, COQ_IMPORTS, CASETY, CHECKFN

PROP = 'C09'
TARGETS = ['Props/C09.vo', 'Corr/XTree.vo']
PROPS_FILE = 'Props/C09.v'
RULE = ('pairs (file tree, runtime tree) over a 5-name space incl. look-alikes, <=4 nodes each (disjoint, nested, overlapping, deeper '
        'either side), both modes (several spellings), every runtime node as target x 3 tree options, without emdpath / with every '
        'existing file path as emdpath / foreign root under an emdpath, root metadata sets over 3 names; plus sequences of 2-4 appends; plus '
        'look-alike paths (sibling names a / ab / abc, a node named like its root) x every file path as emdpath; plus an inner node with an '
        'emdpath naming a file node below it / a target the runtime tree lacks / a target off its path, every mode and tree flag; '
        'plus append-over of a data node (3 classes) by a same-layout node carrying fewer metadata entries than the file node; '
        'non-trivial = distinct cases in which the append returned normally and the file changed')
MODELLED = ['payload templates with content tokens', 'group paths as lists of names (the source computes them as strings; look-alike paths are generated on purpose)']
ASSUMPTIONS = ['valid, sibling-distinct names; runtime trees well formed (C12)']
NAMES = ['a', 'b', 'c', 'ab', 'd', '_tmp_a', 'r', 'rr']      # 'r', 'rr': nodes spelled with the letters of the root's name;      # '_tmp_a': the scratch name the replace step of append-over uses for a node called 'a'


def small_tree(rng, rootname, n, md=True):
    t = T.rand_tree(rng, rootname, n, names=NAMES, md_p=0.0, max_depth=3)
    if md:
        t['mds'] = [[k, T.fresh_tok()] for k in ('m1', 'm2', 'm3') if rng.random() < 0.4]
        for p in T.all_paths(t)[1:]:
            if rng.random() < 0.25:
                T.spec_at(t, p)['mds'] = [[k, T.fresh_tok()] for k in ('m1', 'm2') if rng.random() < 0.6]
    return t


def cases(seed, tier):
    rng = random.Random(seed * 101 + 9)
    out = []
    n = 700 if tier == 'quick' else 20000
    modes_a = ['a', '+', 'append']
    modes_ao = ['ao', 'oa', 'o+', '+o', 'appendover']
    for i in range(n):
        ft = small_tree(rng, 'r', rng.choice([0, 1, 2, 3, 4]))
        kind = rng.choice(['A', 'A', 'A', 'B', 'B', 'F', 'seq'])
        rt = small_tree(rng, 'r' if kind != 'F' else 'other', rng.choice([1, 2, 3, 4]))
        if rng.random() < 0.5 and ft['kids'] and kind != 'F':
            # make the runtime tree an evolved copy of the file tree (typical use): new tokens, extra nodes
            rt = copy.deepcopy(ft)
            for p in T.all_paths(rt):
                s = T.spec_at(rt, p)
                if s['cls'] != 'Node' and s['cls'] != 'Root':
                    s['tok'] = T.fresh_tok()
                s['mds'] = [[k, T.fresh_tok()] for k, _ in s['mds']] + ([['m3', T.fresh_tok()]] if rng.random() < 0.3 else [])
            for _ in range(rng.choice([0, 1, 2])):
                ps = T.all_paths(rt)
                par = T.spec_at(rt, rng.choice(ps))
                cand = [x for x in NAMES if x not in {k['name'] for k in par['kids']}]
                if par['cls'] in ('Node', 'Root') and cand:
                    sub = {'cls': rng.choice(['Node', 'Array', 'PointList']), 'name': rng.choice(cand), 'tok': T.fresh_tok(), 'rank': 1, 'mds': [], 'kids': []}
                    if rng.random() < 0.6:
                        sub['kids'].append({'cls': 'Array', 'name': rng.choice(NAMES), 'tok': T.fresh_tok(), 'rank': 1, 'mds': [], 'kids': []})
                    par['kids'].append(sub)
        ao = rng.random() < 0.5
        mode = rng.choice(modes_ao if ao else modes_a)
        steps = [{'op': 'save', 'file': 0, 'top': 0, 'tp': [], 'mode': 'w', 'tree': True}]
        rpaths = T.all_paths(rt)
        fpaths = T.all_paths(ft)
        def one_append():
            tp = rng.choice(rpaths)
            tree = rng.choice([True, False, None])
            st = {'op': 'save', 'file': 0, 'top': 1, 'tp': tp, 'mode': mode, 'tree': tree}
            if kind in ('B', 'F'):
                ep = rng.choice(fpaths)
                if kind == 'B' and rng.random() < 0.6:
                    ep = tp if rng.random() < 0.7 else tp[:-1]
                st['emdpath'] = ('/' if rng.random() < 0.3 else '') + '/'.join(['r'] + list(ep))
                if rng.random() < 0.05:
                    st['emdpath'] = 'r/nonexistent'
            return st
        if kind == 'seq':
            for _ in range(rng.choice([2, 3, 4])):
                steps.append(one_append())
        else:
            steps.append(one_append())
        steps.append({'op': 'read', 'file': 0, 'tree': True, 'emdpath': 'r'})
        out.append({'tops': [ft, rt], 'steps': steps, 'kind': kind})
    # look-alike paths: sibling names that are string prefixes of one another, a node named like its root
    def nd(name, kids=(), cls='Node'):
        return {'cls': cls, 'name': name, 'tok': T.fresh_tok() if cls != 'Node' else 0, 'rank': 1 if cls == 'Array' else 0, 'mds': [], 'kids': list(kids)}
    for i in range(n // 12):
        ft = {'cls': 'Root', 'name': 'r', 'tok': 0, 'rank': 0, 'mds': [], 'kids': [
            nd('a', [nd('r', [nd('c')]), nd('ab')]), nd('ab', [nd('a')] if rng.random() < 0.5 else []), nd('abc', cls='Array')]}
        rt = copy.deepcopy(ft)
        for p_ in T.all_paths(rt):
            s_ = T.spec_at(rt, p_)
            if rng.random() < 0.5 and s_['cls'] in ('Node', 'Root'):
                cand = [x for x in NAMES + ['r'] if x not in {k['name'] for k in s_['kids']}]
                if cand:
                    s_['kids'].append(nd(rng.choice(cand), cls=rng.choice(['Node', 'Array'])))
        rpaths, fpaths = T.all_paths(rt), T.all_paths(ft)
        steps = [{'op': 'save', 'file': 0, 'top': 0, 'tp': [], 'mode': 'w', 'tree': True}]
        tp = rng.choice(rpaths[:6])
        ep = rng.choice(fpaths)
        steps.append({'op': 'save', 'file': 0, 'top': 1, 'tp': tp, 'mode': rng.choice(modes_a + modes_ao[:1]), 'tree': rng.choice([True, None, False]),
                      'emdpath': '/'.join(['r'] + list(ep))})
        steps.append({'op': 'read', 'file': 0, 'tree': True, 'emdpath': 'r'})
        out.append({'tops': [ft, rt], 'steps': steps, 'kind': 'P'})
    # a user node called like the scratch name of its sibling ('_tmp_a' beside 'a') under append-over: refused without damage, or
    # carried out correctly -- never a lost node or a scratch group left behind
    for i in range(max(6, n // 40)):
        order = [nd('a', [nd('x')], cls=rng.choice(['Node', 'Array'])), nd('_tmp_a', [nd('kid')] if rng.random() < 0.5 else [], cls=rng.choice(['Node', 'Array'])), nd('b')]
        if i % 2:
            order[0], order[1] = order[1], order[0]
        ft = {'cls': 'Root', 'name': 'r', 'tok': 0, 'rank': 0, 'mds': [], 'kids': order}
        rt = copy.deepcopy(ft)
        for p_ in T.all_paths(rt):
            s_ = T.spec_at(rt, p_)
            if s_['cls'] not in ('Node', 'Root'):
                s_['tok'] = T.fresh_tok()
        tp = rng.choice([[], ['a'], ['_tmp_a']])
        st = {'op': 'save', 'file': 0, 'top': 1, 'tp': tp, 'mode': rng.choice(modes_ao), 'tree': rng.choice([True, False, None]) if tp else rng.choice([True, None])}
        if rng.random() < 0.3:
            st['emdpath'] = 'r' if not tp else '/'.join(['r'] + tp)
        out.append({'tops': [ft, rt], 'steps': [{'op': 'save', 'file': 0, 'top': 0, 'tp': [], 'mode': 'w', 'tree': True}, st,
                                                {'op': 'read', 'file': 0, 'tree': True, 'emdpath': 'r'}], 'kind': 'S'})
    # an inner node together with an emdpath that names a file node downstream of it (the data moves to the target), a target the
    # runtime tree lacks, or a target that is not downstream at all -- both modes, every tree flag
    for i in range(n // 8):
        ft = {'cls': 'Root', 'name': 'r', 'tok': 0, 'rank': 0, 'mds': [], 'kids': [
            nd('a', [nd('b', [nd('c', cls=rng.choice(['Node', 'Array'])), nd('g')], cls=rng.choice(['Node', 'Array'])), nd('d')]), nd('e', [nd('f')])]}
        rt = copy.deepcopy(ft)
        for p_ in T.all_paths(rt):
            s_ = T.spec_at(rt, p_)
            if s_['cls'] not in ('Node', 'Root'):
                s_['tok'] = T.fresh_tok()
            if rng.random() < 0.4:
                cand = [x for x in NAMES if x not in {k['name'] for k in s_['kids']}]
                s_['kids'].append(nd(rng.choice(cand), cls=rng.choice(['Node', 'Array'])))
        if rng.random() < 0.3:
            # the runtime tree lacks part of what the file has below the node
            par = T.spec_at(rt, rng.choice([['a'], ['a', 'b']]))
            if par['kids']:
                par['kids'].pop(0)
        tp = rng.choice([q for q in [['a'], ['a'], ['a', 'b'], ['e']] if tuple(q) in {tuple(x) for x in T.all_paths(rt)}])
        below = [q for q in T.all_paths(ft) if len(q) > len(tp) and list(q[:len(tp)]) == tp]
        others = [q for q in T.all_paths(ft) if list(q[:len(tp)]) != tp and len(q) > 0]
        ep = rng.choice(below) if below and rng.random() < 0.75 else rng.choice(others)
        steps = [{'op': 'save', 'file': 0, 'top': 0, 'tp': [], 'mode': 'w', 'tree': True},
                 {'op': 'save', 'file': 0, 'top': 1, 'tp': tp, 'mode': rng.choice(modes_a + modes_ao), 'tree': rng.choice([True, None, False]),
                  'emdpath': '/'.join(['r'] + list(ep))},
                 {'op': 'read', 'file': 0, 'tree': True, 'emdpath': 'r'}]
        out.append({'tops': [ft, rt], 'steps': steps, 'kind': 'D'})
    # append-over of a data node by a node of the same class and layout that carries LESS than the file node (no metadata of its
    # own, or fewer entries): the file node ends up as the runtime node is, the old entries are gone
    for i in range(max(6, n // 40)):
        cls = ['Array', 'PointList', 'PointListArray'][i % 3]
        fa = nd('a', [nd('k', cls='Array')] if i % 2 else [], cls=cls)
        fa['mds'] = [['m1', T.fresh_tok()], ['m2', T.fresh_tok()]]
        ft = {'cls': 'Root', 'name': 'r', 'tok': 0, 'rank': 0, 'mds': [], 'kids': [fa, nd('b')]}
        rt = copy.deepcopy(ft)
        ra = rt['kids'][0]
        ra['tok'] = T.fresh_tok()
        ra['mds'] = [] if i % 4 < 2 else [['m2', T.fresh_tok()]]
        tp = [[], ['a']][(i // 3) % 2]
        steps = [{'op': 'save', 'file': 0, 'top': 0, 'tp': [], 'mode': 'w', 'tree': True},
                 {'op': 'save', 'file': 0, 'top': 1, 'tp': tp, 'mode': modes_ao[i % len(modes_ao)], 'tree': [True, False, None][(i // 2) % 3] if tp else True},
                 {'op': 'read', 'file': 0, 'tree': True, 'emdpath': 'r'}]
        out.append({'tops': [ft, rt], 'steps': steps, 'kind': 'M'})
    return out


# ------------------------------------------------------------------ reference semantics
def selection(rt_map, tp, tree):
    tp = tuple(tp)
    if tree is True:
        return {p for p in rt_map if p[:len(tp)] == tp and (len(p) > 0)}
    if tree is False:
        return {tp} if tp else set()
    return {p for p in rt_map if p[:len(tp)] == tp and len(p) > len(tp)}


def merge_root_md(F, R, ao):
    fm = dict(F[()][2]); rm = dict(R[()][2])
    for k, v in rm.items():
        if k not in fm or ao:
            fm[k] = v
    c = F[()]
    F[()] = (c[0], c[1], tuple(sorted(fm.items())), c[3])


def expected_after(F, rt, st, rootname_file='r'):
    """F: file map before; returns ('raise',) | ('map', newF) | ('unknown',)"""
    R = FA.runtime_map(rt)
    tp = tuple(st['tp'])
    tree = st['tree']
    ao = st['mode'] in ('ao', 'oa', 'o+', '+o', 'appendover')
    ep = st.get('emdpath')
    same_root = rt['name'] == rootname_file
    F = dict(F)
    if ep is None and not same_root:
        return ('unknown',)          # a new tree: C10's business
    if ep is not None:
        comps = [x for x in ep.split('/')]
        if comps and comps[0] == '':
            comps = comps[1:]
        target = tuple(comps[1:])
        if comps[0] != rootname_file and not same_root:
            return ('raise',)
    if not same_root:
        # foreign placement under target
        if target not in F:
            return ('raise',)
        if not tp:
            if tree is False:
                return ('raise',)
            placed = {target + p: R[p] for p in R if p}
        elif tree is False:
            placed = {target + (tp[-1],): R[tp]}
        elif tree is True:
            placed = {target + (tp[-1],) + p[len(tp):]: R[p] for p in R if p[:len(tp)] == tp}
        else:
            placed = {target + p[len(tp):]: R[p] for p in R if p[:len(tp)] == tp and len(p) > len(tp)}
        if any(p in F for p in placed):
            return ('unknown',)      # name collision: either outcome acceptable here
        F.update(placed)
        return ('map', F)
    # same root
    if ep is not None:
        if target not in F:
            return ('raise',)
        if not tp:
            if target not in R:
                return ('raise',)
            eff = target
        elif tp in F:
            if target == tp or target + (tp[-1],) in F:
                eff = tp             # the target is the node, or holds a node of that name: merged at the node's own path
            elif len(target) > len(tp) and target[:len(tp)] == tp:
                # the target lies below the source node: the runtime node at the target's path is what gets appended
                if target not in R:
                    return ('raise',)
                eff = target
            else:
                return ('raise',)    # the target is not on the source node's path: refused
        elif tp[:-1] in F:
            if target != tp[:-1]:
                return ('raise',)    # a node one beyond the file can only go under its own parent
            eff = tp
        else:
            return ('raise',)
    else:
        eff = tp
    if eff and eff not in F and eff[:-1] not in F:
        # refused; root metadata may already be merged (reported by C18, not here)
        return ('raise',)
    merge_root_md(F, R, ao)
    if not eff:
        sel = selection(R, (), tree) if tree is not False else set()
        if ep is not None and ao and tree is not None:
            return ('raise',)        # a root cannot be overwritten in place
    elif eff in F:
        sel = selection(R, eff, tree)
        if tree is False and not ao:
            sel = set()
    else:
        # one beyond the file
        if tree is None:
            placed = {eff[:-1] + p[len(eff):]: R[p] for p in R if p[:len(eff)] == eff and len(p) > len(eff)}
            if any(p in F for p in placed):
                return ('unknown',)
            F.update(placed)
            return ('map', F)
        sel = selection(R, eff, tree)
    for p in sorted(sel, key=len):
        if p not in F:
            if p[:-1] in F:
                F[p] = R[p]
            else:
                return ('unknown',)
        elif ao and not (tree is None and p == eff):
            F[p] = R[p]
    return ('map', F)


def oracle(case, obs):
    ft, rt = case['tops']
    if obs[0]['raised']:
        return None
    F = FA.tree_map(obs[0]['slot'], 'r')
    for j, st in enumerate(case['steps'][1:-1], start=1):
        o = obs[j]
        where = f"step {j} mode={st['mode']} tree={st['tree']} tp={'/'.join(st['tp'])} emdpath={st.get('emdpath')}"
        after = FA.tree_map(o['slot'], 'r')
        exp = expected_after(F, rt, st)
        if after is None:
            return {'key': 'file-tree-gone', 'what': where + ': the tree is no longer in the file'}
        # invariants that hold whatever the branch: nothing already in the file is lost or changed in append mode
        ao = st['mode'] in ('ao', 'oa', 'o+', '+o', 'appendover')
        R = FA.runtime_map(rt)
        # the replace step of append-over parks the old node under '_tmp_<name>': with a sibling of exactly that name the save is
        # refused part-way (the one name clash the theorems exclude: compat_ao); what a refused append-over leaves is C18's subject
        clash = ao and any(p and ('_tmp_' + p[-1]) in {q[-1] for q in list(F) + list(R) if q and q[:-1] == p[:-1]} for p in list(F) + list(R))
        if clash and o['raised']:
            if any(p not in after for p in F):
                return {'key': 'existing-node-lost', 'what': where + ': a node disappeared in a refused append-over'}
            F = after
            continue
        for p, c in F.items():
            if p not in after:
                return {'key': 'existing-node-lost', 'what': where + f': node /{"/".join(p)} disappeared'}
            if p and after[p] != c and not (ao and not o['raised']):
                return {'key': 'existing-node-changed-in-append', 'what': where + f': node /{"/".join(p)} changed'}
        for p, c in after.items():
            if c[3]:
                return {'key': 'residue', 'what': where + f': unexpected groups {c[3]} in /{"/".join(p)}'}
        if o['raised']:
            if exp[0] == 'map' and exp[1] != F:
                return {'key': 'append-raised', 'what': where + f": raised {o['exc']}"}
        else:
            if exp[0] == 'raise':
                if after != F:
                    return {'key': 'invalid-append-changed-file', 'what': where + ': expected refusal, file tree changed'}
            elif exp[0] == 'map':
                if after != exp[1]:
                    E = exp[1]
                    missing = sorted(set(E) - set(after)); extra = sorted(set(after) - set(E))
                    diff = sorted(p for p in E if p in after and E[p] != after[p])
                    return {'key': 'append-result', 'what': where + f': missing {missing[:3]} unexpected {extra[:3]} wrong content {diff[:3]}'}
        F = after
    return None


def pick_smallest(cases_, idxs):
    return min(idxs, key=lambda i: (len(cases_[i]['steps']), T.count_nodes(cases_[i]['tops'][0]) + T.count_nodes(cases_[i]['tops'][1])))


def nontrivial(cases_, results):
    s = set()
    for c, r in zip(cases_, results):
        for j in range(1, len(c['steps']) - 1):
            if not r[j].get('raised') and r[j].get('sha_before') != r[j].get('sha_after'):
                s.add(repr(c['tops']) + repr(c['steps'][j]))
    return len(s)


def samples(cases_, results):
    return [{'file_tree': c['tops'][0], 'runtime_tree': c['tops'][1], 'steps': c['steps']} for c in cases_[:2]]


def distribution(cases_, results):
    d = {'kind': {}, 'raised': 0, 'ok': 0, 'tree': {}, 'mode': {}}
    for c, r in zip(cases_, results):
        d['kind'][c['kind']] = d['kind'].get(c['kind'], 0) + 1
        for st, o in list(zip(c['steps'], r))[1:-1]:
            d['raised' if o['raised'] else 'ok'] += 1
            d['tree'][str(st['tree'])] = d['tree'].get(str(st['tree']), 0) + 1
            d['mode'][st['mode']] = d['mode'].get(st['mode'], 0) + 1
    return d
