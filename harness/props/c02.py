"""C02 -- Array round-trip: data, dtype, shape, units, calibrations and stack labels."""
import math, random
from harness import arrays as A
from harness.arrays import run_all, emit, COQ_IMPORTS, CASETY, CHECKFN
from harness.props import c14

PROP = 'C02'
TARGETS = ['Props/C02.vo', 'Corr/XArr.vo']
PROPS_FILE = 'Props/C02.v'
RULE = ('the Arrays of the C14 stream (every dims form, setters applied, stacks with every label form) with data of every '
        'HDF5-representable dtype (bool, (u)int8-64, float16/32/64, complex64/128, S3, big-endian, structured) in C / Fortran / '
        'strided / reversed / transposed layouts, with nan/inf/extreme values; each is saved, the raw file inspected (which dim '
        'vectors were compressed to two entries, stored values bit-exact), and read back; non-trivial = distinct cases whose save '
        'and read succeeded with at least one compressed and re-expanded dim vector')
MODELLED = ['bulk data: emdfile hands the array to h5py and takes it back unchanged; that h5py preserves dtype/shape/bytes is observed, not modelled',
            "numpy's start + step*np.arange(n) in binary64 (PrimFloat)"]
ASSUMPTIONS = ['extents >= 1 (zero-length axes belong to C15)']
PARTIAL = 'bulk data by observation only; dim vectors bit-exact in the model'


def cases(seed, tier):
    rng = random.Random(seed * 89 + 2)
    return [A.gen_scenario(rng, tier) for _ in range(600 if tier == 'quick' else 30000)]


def dims_equal(a, b):
    if len(a) != len(b):
        return False
    for x, y in zip(a, b):
        if x[0] != y[0] or len(x[1]) != len(y[1]):
            return False
        if x[0] == 'strs':
            if x[1] != y[1]:
                return False
            continue
        for p, q in zip(x[1], y[1]):
            u, v = A.unlit(p), A.unlit(q)
            if not (u == v or (isinstance(u, float) and isinstance(v, float) and math.isnan(u) and math.isnan(v))):
                return False
    return True


def oracle(case, obs):
    if obs['init'] is None:
        return None        # C14's business
    for op, o in zip(case['ops'], obs['ops']):
        if op['op'] != 'save':
            continue
        if o.get('raised'):
            return {'key': 'harness', 'what': str(o)}
        where = f"dtype={case['dtype']} layout={case['layout']} shape={case['datashape']} dims={case['dims']} labels={case['labels']}"
        if 'save_exc' in o:
            return {'key': 'save-raised', 'what': where + f": save raised {o['save_exc']}"}
        if 'read_exc' in o:
            return {'key': 'read-raised', 'what': where + f": read raised {o['read_exc']}"}
        if o.get('back_type') != 'Array':
            return {'key': 'class', 'what': where + f": read back as {o.get('back_type')}"}
        if not o['data_equal']:
            return {'key': 'data', 'what': where + f": data differs (dtype back {o.get('back_dtype')})"}
        if not o['units_equal'] or not o['name_equal']:
            return {'key': 'units-or-name', 'what': where}
        b, a = o['before'], o['back']
        if a['shape'] != b['shape'] or a['depth'] != b['depth']:
            return {'key': 'shape', 'what': where + f": shape {b['shape']}/{b['depth']} -> {a['shape']}/{a['depth']}"}
        if not dims_equal(b['dims'], a['dims']):
            return {'key': 'dim-vectors', 'what': where + f": dim vectors differ: {b['dims']} -> {a['dims']}"}
        if a['units'] != b['units'] or a['names'] != b['names']:
            return {'key': 'dim-units-or-names', 'what': where + f": {b['units']}/{b['names']} -> {a['units']}/{a['names']}"}
        if a['labels'] != b['labels']:
            return {'key': 'labels', 'what': where + f": labels {b['labels']} -> {a['labels']}"}
        if b['depth'] is not None and o.get('slices_equal') is False:
            return {'key': 'label-slices', 'what': where + ': labels address different slices after the round trip'}
    return None


pick_smallest = c14.pick_smallest


def nontrivial(cases_, results):
    s = set()
    for c, r in zip(cases_, results):
        if isinstance(r, list) or r['init'] is None:
            continue
        for op, o in zip(c['ops'], r['ops']):
            if op['op'] == 'save' and 'back' in o and any(len(d[1]) == 2 and n != 2 for d, n in zip(o['file']['dims'], o['before']['shape'])):
                s.add(repr((c['datashape'], c['dims'], c['dtype'], c['layout'], c['labels'])))
    return len(s)


def samples(cases_, results):
    return [{k: c[k] for k in ('datashape', 'dims', 'units', 'names', 'labels', 'dtype', 'layout')} for c in cases_[:3]]


def distribution(cases_, results):
    d = {'dtype': {}, 'layout': {}, 'saved': 0, 'compressed_dims': 0, 'full_dims': 0, 'stacks': 0}
    for c, r in zip(cases_, results):
        d['dtype'][c['dtype']] = d['dtype'].get(c['dtype'], 0) + 1
        d['layout'][c['layout']] = d['layout'].get(c['layout'], 0) + 1
        if isinstance(r, list) or r['init'] is None:
            continue
        for op, o in zip(c['ops'], r['ops']):
            if op['op'] == 'save' and 'file' in o:
                d['saved'] += 1; d['stacks'] += o['before']['depth'] is not None
                for dd, n in zip(o['file']['dims'], o['before']['shape']):
                    if len(dd[1]) == 2 and n != 2:
                        d['compressed_dims'] += 1
                    else:
                        d['full_dims'] += 1
    return d
