"""C19 -- saving does not disturb the caller's objects and is repeatable."""
import random
from harness import tree as T, fileabs as FA
from harness.tree import COQ_IMPORTS, CASETY, CHECKFN
from harness import classes as K, core

PROP = 'C19'
TARGETS = ['Props/C19.vo', 'Corr/XTree.vo']
PROPS_FILE = 'Props/C19.v'
RULE = ('saves of every input kind (rooted node at any depth, root, unrooted node, ndarray, dict, Metadata, list and tuple mixing '
        'them) x modes x tree options, successful and failing (name clash deep in the tree, missing emdpath, write mode onto an '
        'existing file, unknown mode), with Metadata renamed after attachment; a snapshot of every live object (shape, names, roots, '
        'payload tokens, metadata keys / names / identities, list contents) is compared before/after each save; unrooted nodes are '
        're-added to a tree afterwards; the same input is saved twice to two fresh paths and the files are compared; non-trivial = '
        'distinct saves with an unrooted node, a list/tuple, a renamed Metadata or a failing save')
MODELLED = ['Python aliasing/mutation is observed on the live objects by the harness; the Coq side is the effect model in Model/Effects.v']
ASSUMPTIONS = []


def cases(seed, tier):
    rng = random.Random(seed * 23 + 19)
    out = []
    n = 250 if tier == 'quick' else 8000
    for i in range(n):
        t = T.rand_tree(rng, 'r', rng.choice([2, 4, 7]), names=['a', 'b', 'c', 'd', 'e'], md_p=0.5)
        deep_first = i % 8 == 0
        if deep_first:
            # a root with metadata, a first-level node and a node below it (see the list saves further down)
            if not t['mds']:
                t['mds'] = [['m1', T.fresh_tok()], ['m2', T.fresh_tok()]]
            if not t['kids']:
                t['kids'].append({'cls': 'Node', 'name': 'a', 'tok': 0, 'rank': 0, 'mds': [], 'kids': []})
            if not t['kids'][0]['kids']:
                t['kids'][0]['kids'].append({'cls': 'Array', 'name': 'deep', 'tok': T.fresh_tok(), 'rank': 1, 'mds': [], 'kids': []})
        if rng.random() < 0.4:
            # rename some metadata after attachment
            for p in T.all_paths(t)[1:]:      # node metadata only (root metadata renamed after attachment: see DESIGN.md F31)
                s = T.spec_at(t, p)
                s['mds'] = [[m[0], m[1], m[0] + '_renamed'] if rng.random() < 0.5 else m for m in s['mds']]
        if rng.random() < 0.25 and len(T.all_paths(t)) > 1:
            # one Metadata instance held under two keys of one node (attached, renamed, attached again): its name is the second key
            s = T.spec_at(t, rng.choice(T.all_paths(t)[1:] or [[]]))     # (not the root: how the append path names root entries is F31)
            tok = T.fresh_tok()
            s['mds'] = [m for m in s['mds'] if m[0] not in ('calib', 'calibration')] + [['calib', tok, 'calibration', 'shared'], ['calibration', tok, 'calibration', 'shared']]
        t2 = T.rand_tree(rng, 'q', rng.choice([1, 3]), names=['a', 'b'], md_p=0.3)
        tops = [t, t2]
        for k in range(2):
            c = rng.choice(['Node', 'Array', 'PointList', 'PointListArray'])
            tops.append({'cls': c, 'name': 'u%d' % (k if rng.random() < 0.7 else 0), 'tok': T.fresh_tok() if c != 'Node' else 0, 'rank': 1 if c == 'Array' else 0,
                         'mds': [['m1', T.fresh_tok()] + (['zz'] if rng.random() < 0.3 else [])] if rng.random() < 0.5 else [], 'kids': []})
        if rng.random() < 0.25:
            # a name clash deep in the tree: an Array with a child called like one of its datasets
            arrs = [p for p in T.all_paths(t) if T.spec_at(t, p)['cls'] == 'Array']
            if arrs:
                T.spec_at(t, rng.choice(arrs))['kids'].append({'cls': 'Node', 'name': rng.choice(['data', 'dim0']), 'tok': 0, 'rank': 0, 'mds': [], 'kids': []})
        # a second, different tree whose root is called like the first one's: lists naming nodes of both are refused
        t3 = T.rand_tree(rng, 'r', rng.choice([1, 2]), names=['a', 'z'], md_p=0.2)
        tops.append(t3)
        steps = []
        fid = [0]
        def fresh():
            fid[0] += 1
            return fid[0]
        for j in range(rng.choice([2, 3, 5])):
            kind = rng.choice(['node', 'node', 'unrooted', 'unrooted', 'list', 'list', 'arr', 'dict', 'md', 'bad'])
            mode = rng.choice(['w', 'o', 'a', 'ao'])
            tr = rng.choice([True, False, None])
            if kind == 'node':
                tp = rng.choice(T.all_paths(t))
                f = fresh()
                steps.append({'op': 'save', 'file': f, 'top': 0, 'tp': tp, 'mode': mode, 'tree': tr, 'twin': True})
                steps.append({'op': 'save', 'file': fresh(), 'top': 0, 'tp': tp, 'mode': mode, 'tree': tr})
            elif kind == 'unrooted':
                u = rng.choice([2, 3])
                f = fresh()
                steps.append({'op': 'save', 'file': f, 'top': u, 'tp': [], 'mode': mode, 'tree': tr, 'readd': True, 'twin': True})
                steps.append({'op': 'save', 'file': fresh(), 'top': u, 'tp': [], 'mode': mode, 'tree': tr, 'readd': True})
                if rng.random() < 0.5:   # failing save of an unrooted node: emdpath into nothing
                    steps.append({'op': 'save', 'file': f, 'top': u, 'tp': [], 'mode': 'a', 'tree': tr, 'emdpath': 'nonexistent/x', 'readd': True})
            elif kind == 'list':
                items = [{'kind': 'top', 'top': 1, 'tp': []}] if rng.random() < 0.5 else []
                for u in (2, 3):
                    if rng.random() < 0.6:
                        items.append({'kind': 'top', 'top': u, 'tp': []})
                if t['kids'] and rng.random() < 0.5:
                    items.append({'kind': 'top', 'top': 0, 'tp': [rng.choice(t['kids'])['name']]})
                if rng.random() < 0.5:
                    items.append({'kind': 'arr', 'tok': T.fresh_tok(), 'rank': 1})
                if rng.random() < 0.5:
                    items.append({'kind': 'dict', 'tok': T.fresh_tok()})
                rng.shuffle(items)
                if rng.random() < 0.15:
                    # the same unrooted node named twice: refused, and the node must come back unrooted
                    us = [it for it in items if it['kind'] == 'top' and it['top'] in (2, 3)]
                    if us:
                        items.insert(rng.randrange(len(items) + 1), dict(rng.choice(us)))
                if rng.random() < 0.15 and t['kids'] and t3['kids']:
                    # nodes of two different roots of one name: refused before anything is touched -- with unrooted items in the list too
                    items.insert(rng.randrange(len(items) + 1), {'kind': 'top', 'top': 0, 'tp': [rng.choice(t['kids'])['name']]})
                    items.insert(rng.randrange(len(items) + 1), {'kind': 'top', 'top': 4, 'tp': [rng.choice(t3['kids'])['name']]})
                if items:
                    inp = {'kind': rng.choice(['list', 'tuple']), 'items': items}
                    steps.append({'op': 'save', 'file': fresh(), 'input': inp, 'mode': mode, 'tree': True, 'twin': True})
                    steps.append({'op': 'save', 'file': fresh(), 'input': inp, 'mode': mode, 'tree': True})
            elif kind in ('arr', 'dict', 'md'):
                inp = {'kind': kind, 'tok': T.fresh_tok(), 'rank': 2, 'name': 'mm'}
                steps.append({'op': 'save', 'file': fresh(), 'input': inp, 'mode': mode, 'tree': tr, 'twin': True})
                steps.append({'op': 'save', 'file': fresh(), 'input': inp, 'mode': mode, 'tree': tr})
            else:
                f = fresh()
                steps.append({'op': 'save', 'file': f, 'top': 1, 'tp': [], 'mode': 'w', 'tree': True})
                steps.append({'op': 'save', 'file': f, 'top': 0, 'tp': rng.choice(T.all_paths(t)), 'mode': rng.choice(['w', 'bogus', 'a']), 'tree': tr,
                              'emdpath': rng.choice([None, 'q/zz/yy', 'nope'])})
                if steps[-1]['emdpath'] is None:
                    del steps[-1]['emdpath']
        if deep_first:
            # a list naming a first-level node of the tree and then a node of the SAME tree further down: the later item is refused
            # after the earlier one was written -- the caller's root keeps all it had
            k0 = t['kids'][0]
            inp = {'kind': 'list', 'items': [{'kind': 'top', 'top': 0, 'tp': [k0['name']]}, {'kind': 'top', 'top': 0, 'tp': [k0['name'], k0['kids'][0]['name']]}]}
            steps.append({'op': 'save', 'file': fresh(), 'input': inp, 'mode': 'w', 'tree': True})
            steps.append({'op': 'save', 'file': fresh(), 'top': 0, 'tp': [], 'mode': 'w', 'tree': True})
        sc = {'tops': tops, 'steps': steps}
        if rng.random() < 0.2 and t['mds']:
            # root metadata renamed after attachment as well, and the tree appended twice into one file (the second time every
            # entry is already there and is skipped).  How such entries are named in the file is outside the model: oracle only
            t['mds'] = [[m[0], m[1], m[0] + '_v2'] for m in t['mds']]
            f = fresh()
            for md_ in (rng.choice(['w', 'a']), 'a', rng.choice(['a', 'append', 'ao'])):
                steps.append({'op': 'save', 'file': f, 'top': 0, 'tp': rng.choice([[], rng.choice(T.all_paths(t))]), 'mode': md_, 'tree': rng.choice([True, None])})
            sc['oracle_only'] = True
        out.append(sc)
    # composition (Custom) nodes: the nodes held in attributes are caller objects too (this stream comes last: see emit)
    return out + [K.gen_c19_custom(rng) for _ in range(n // 4)] + [K.gen_c19_state(rng) for _ in range(n // 5)]


def _run_custom(args):
    c, scratch = args
    try:
        if c.get('kind') == 'state':
            return K.run_c19_state(c, scratch)
        return K.run_c19_custom(c, scratch)
    except BaseException:
        import traceback
        return [{'harness_error': traceback.format_exc()[-800:]}]


def run_all(cases, scratch):
    nt = sum(1 for c in cases if c.get('kind') not in ('custom', 'state'))
    return T.run_all(cases[:nt], scratch) + core.pmap(_run_custom, [(c, scratch) for c in cases[nt:]])


def emit(cases, results):
    nt = sum(1 for c in cases if c.get('kind') not in ('custom', 'state'))
    return T.emit(cases[:nt], results[:nt])


def oracle(case, obs):
    if case.get('kind') == 'state':
        where = f"save of {case['what']} (mode={case['mode']}, in_tree={case['in_tree']}, raised={obs['raised']})"
        if not obs['unchanged']:
            return {'key': 'object-state-changed-by-save' + ('-on-failure' if obs['raised'] else ''), 'what': where + f": {obs.get('diff')}"}
        if obs.get('second_unchanged') is False:
            return {'key': 'object-state-changed-by-save', 'what': where + ': changed by the second save'}
        if obs.get('same_files') is False:
            return {'key': 'repeat-save-differs', 'what': where + ': saving the same object twice to fresh paths gives different content'}
        if obs['raised'] is None and 'second_raised' in obs:
            return {'key': 'second-save-raised', 'what': where + f": {obs['second_raised']}"}
        return None
    if case.get('kind') == 'custom':
        where = f"save of a Custom node (attributes {[(a['attr'], a['name'], a['kind']) for a in case['attrs']]}, mode={case['mode']}, raised={obs['raised']})"
        if not obs['unchanged']:
            return {'key': 'custom-attribute-nodes-changed' + ('-on-failure' if obs['raised'] else ''), 'what': where + f": caller objects changed: {obs.get('diff')}"}
        if obs.get('second_unchanged') is False:
            return {'key': 'custom-attribute-nodes-changed', 'what': where + ': changed by the second save'}
        if obs.get('same_files') is False:
            return {'key': 'repeat-save-differs', 'what': where + ': saving the same Custom node twice to fresh paths gives different content'}
        if obs['raised'] is None and 'second_raised' in obs:
            return {'key': 'second-save-raised', 'what': where + f": {obs['second_raised']}"}
        return None
    for j, (st, o) in enumerate(zip(case['steps'], obs)):
        if st['op'] != 'save':
            continue
        what = st['input']['kind'] if st.get('input') else f"top={st['top']} tp={st['tp']}"
        where = f"save #{j} {what} mode={st['mode']} tree={st['tree']} raised={o['raised']}"
        if not o['objects_unchanged']:
            d = o.get('objects_diff', {})
            kind = 'renamed-metadata' if '_renamed' in repr(d) or "'zz'" in repr(d) else 'objects'
            return {'key': f'caller-{kind}-changed' + ('-on-failure' if o['raised'] else ''), 'what': where + f': caller objects changed: {d}'}
        if o.get('list_unchanged') is False:
            return {'key': 'list-argument-consumed', 'what': where + ': the list argument no longer holds its items'}
        if st.get('input') and st['input']['kind'] == 'tuple' and o['raised'] and 'AttributeError' in (o['exc'] or ''):
            return {'key': 'tuple-argument-crashes', 'what': where + f": {o['exc']}"}
        if o.get('readd_ok') is False:
            return {'key': 'unrooted-node-not-addable', 'what': where + ': the unrooted node can no longer be added to a tree'}
        if st.get('twin') and not o['raised'] and j + 1 < len(obs) and not obs[j + 1]['raised']:
            if o['slot'] != obs[j + 1]['slot']:
                return {'key': 'repeat-save-differs', 'what': where + ': saving the same input twice to fresh paths gives different content'}
    return None


def pick_smallest(cases_, idxs):
    return min(idxs, key=lambda i: len(cases_[i]['steps']) if 'steps' in cases_[i] else len(cases_[i].get('attrs', [])))


def nontrivial(cases_, results):
    s = set()
    for c, r in zip(cases_, results):
        if c.get('kind') in ('custom', 'state'):
            s.add(repr(c)); continue
        for st, o in zip(c['steps'], r):
            if st['op'] == 'save' and (st.get('input') or st.get('readd') or o['raised']):
                s.add(repr(c['tops'])[:100] + repr(st))
    return len(s)


def samples(cases_, results):
    return [{'steps': c['steps'][:4]} for c in cases_[:3]] + [cases_[-1]]


def distribution(cases_, results):
    d = {'saves': 0, 'raised': 0, 'inputs': {}, 'custom_saves': 0, 'custom_raised': 0}
    for c, r in zip(cases_, results):
        if c.get('kind') in ('custom', 'state'):
            d['custom_saves'] += 1; d['custom_raised'] += (not isinstance(r, list) and r['raised'] is not None)
            continue
        for st, o in zip(c['steps'], r):
            if st['op'] == 'save':
                d['saves'] += 1; d['raised'] += o['raised']
                k = st['input']['kind'] if st.get('input') else ('unrooted' if st.get('readd') else 'node')
                d['inputs'][k] = d['inputs'].get(k, 0) + 1
    return d
