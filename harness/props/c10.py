"""C10 -- several trees in one file stay separate and individually readable."""
import random
from harness import tree as T, fileabs as FA
from harness.tree import run_all, emit, COQ_IMPORTS, CASETY, CHECKFN
from harness.props import c09

PROP = 'C10'
TARGETS = ['Props/C10.vo', 'Corr/XTree.vo']
PROPS_FILE = 'Props/C10.v'
RULE = ('histories of 2-6 saves into one file over 4 root names: whole trees by append / append-over / write-to-absent, targeted '
        'appends into an existing tree (also with an emdpath under every write / overwrite / append spelling), list and tuple saves mixing given roots, rooted nodes (direct children), unrooted nodes, '
        'numpy arrays and dicts (incl. user names colliding with the automatic array_<i> names), in any order; after every step the '
        'abstract content of every top-level tree, the header and the UUID are compared; reads without a path and by each root name; '
        'non-trivial = distinct histories with at least two trees in the file at the end')
MODELLED = ['payload templates with content tokens', 'ndarray/dict/Metadata inputs are modelled by the roots write() wraps them in']
ASSUMPTIONS = ['distinct root names; list items with distinct names; rooted list items are direct children of their root']
RN = ['r1', 'r2', '_tmp_r1', 'r4']      # '_tmp_r1': a root called like the scratch name of another root


def cases(seed, tier):
    rng = random.Random(seed * 3 + 10)
    out = []
    n = 250 if tier == 'quick' else 8000
    for i in range(n):
        tops = [T.rand_tree(rng, RN[k], rng.choice([1, 2, 4]), names=['a', 'b', 'c', 'array_0', 'r1', 'r2', 'r3'], md_p=0.4, max_depth=3) for k in range(4)]
        for k in range(3):
            c = rng.choice(['Node', 'Array', 'PointList'])
            tops.append({'cls': c, 'name': rng.choice(['u%d' % k, 'array_%d' % k]), 'tok': T.fresh_tok() if c != 'Node' else 0, 'rank': 1 if c == 'Array' else 0,
                         'mds': [['m1', T.fresh_tok()]] if rng.random() < 0.3 else [], 'kids': []})
        steps = []
        present = set()
        for j in range(rng.choice([2, 3, 4, 6])):
            k = rng.choice(['root', 'root', 'list', 'list', 'target', 'emd', 'arr', 'dict'])
            mode = rng.choice(['a', 'ao', 'append', '+o']) if steps else rng.choice(['w', 'a', 'ao', 'o'])
            if k == 'root':
                t = rng.randrange(4)
                steps.append({'op': 'save', 'file': 0, 'top': t, 'tp': [], 'mode': mode, 'tree': rng.choice([True, True, None])})
                present.add(RN[t])
            elif k == 'target' and [x for x in present if x in RN]:
                t = RN.index(rng.choice(sorted(x for x in present if x in RN)))
                ps = [p for p in T.all_paths(tops[t]) if p]
                if ps:
                    steps.append({'op': 'save', 'file': 0, 'top': t, 'tp': rng.choice(ps), 'mode': mode, 'tree': rng.choice([True, False, None])})
            elif k == 'emd' and [x for x in present if x in RN] and steps:
                # a targeted save: with an emdpath every write / overwrite spelling means append (the docstring's rule)
                t = RN.index(rng.choice(sorted(x for x in present if x in RN)))
                ps = [p for p in T.all_paths(tops[t]) if p]
                if ps:
                    tp = rng.choice(ps)
                    ep = rng.choice([tp, tp[:-1]])
                    steps.append({'op': 'save', 'file': 0, 'top': t, 'tp': tp, 'mode': rng.choice(['a', 'w', 'write', 'o', 'overwrite', 'ao', 'append']),
                                  'tree': rng.choice([True, False, None]), 'emdpath': '/'.join([RN[t]] + list(ep))})
            elif k == 'arr' and not steps:
                steps.append({'op': 'save', 'file': 0, 'input': {'kind': 'arr', 'tok': T.fresh_tok(), 'rank': 2}, 'mode': mode, 'tree': True})
                present.add('root')
            elif k == 'dict' and not steps:
                steps.append({'op': 'save', 'file': 0, 'input': {'kind': rng.choice(['dict', 'md']), 'tok': T.fresh_tok(), 'name': 'mymd'}, 'mode': mode, 'tree': True})
                present.add('root')
            elif k == 'list':
                items = []
                absent = [x for x in range(4) if RN[x] not in present]
                rng.shuffle(absent)
                used_un = False
                for t in absent[:rng.choice([0, 1, 2])]:
                    if rng.random() < 0.5 or not tops[t]['kids']:
                        items.append({'kind': 'top', 'top': t, 'tp': []})
                        if tops[t]['kids'] and rng.random() < 0.35:
                            # the root given whole AND one of its own nodes in the same list: the tree is stored whole
                            items.append({'kind': 'top', 'top': t, 'tp': [rng.choice(tops[t]['kids'])['name']]})
                    else:
                        for kid in rng.sample(tops[t]['kids'], rng.choice([1, min(2, len(tops[t]['kids']))])):
                            items.append({'kind': 'top', 'top': t, 'tp': [kid['name']]})
                    present.add(RN[t])
                if 'root_savedlist' not in present:
                    names = set()
                    for u in (4, 5, 6):
                        if rng.random() < 0.5 and tops[u]['name'] not in names:
                            items.append({'kind': 'top', 'top': u, 'tp': []}); names.add(tops[u]['name']); used_un = True
                    for _ in range(rng.choice([0, 1, 2])):
                        items.append({'kind': 'arr', 'tok': T.fresh_tok(), 'rank': rng.choice([1, 2])}); used_un = True
                    for _ in range(rng.choice([0, 0, 1, 2])):
                        items.append({'kind': 'dict', 'tok': T.fresh_tok()}); used_un = True
                    if used_un:
                        present.add('root_savedlist')
                rng.shuffle(items)
                if items:
                    steps.append({'op': 'save', 'file': 0, 'input': {'kind': rng.choice(['list', 'list', 'tuple']), 'items': items}, 'mode': mode, 'tree': True})
            if steps and rng.random() < 0.3:
                steps.append({'op': 'read', 'file': 0, 'tree': True})
        if i % 7 == 3:
            # the session author is set after the file was created: later saves into the file leave its header alone (decided by
            # the oracle only: the model takes one author per scenario)
            k0 = next((j for j, st_ in enumerate(steps) if st_['op'] == 'save'), None)
            if k0 is not None:
                steps.insert(k0 + 1, {'op': 'raw', 'file': 0, 'kind': 'author', 'name': rng.choice(['alice', 'b\u00f6b'])})
        steps.append({'op': 'read', 'file': 0, 'tree': True})
        for r in sorted(present):
            steps.append({'op': 'read', 'file': 0, 'tree': True, 'emdpath': r})
        out.append({'tops': tops, 'steps': steps})
        if any(st_['op'] == 'raw' for st_ in steps):
            out[-1]['oracle_only'] = True
    return out


def expected_list(tops, items):
    """root name -> expected map, for a list save into a file lacking those roots"""
    E = {}
    saved_kids, saved_mds = [], []
    node_names = [tops[it['top']]['name'] for it in items if it['kind'] == 'top' and tops[it['top']]['cls'] != 'Root']
    unrooted = [it for it in items if it['kind'] == 'top' and tops[it['top']]['cls'] != 'Root']
    others = [it for it in items if it['kind'] != 'top']
    ia = idc = 0
    for it in unrooted:
        t = tops[it['top']]
        saved_kids.append(FA.runtime_map(t)[()] + ())
        E.setdefault('root_savedlist', {})[(t['name'],)] = FA.runtime_map(t)[()]
    for it in others:
        if it['kind'] == 'arr':
            while 'array_%d' % ia in node_names:
                ia += 1
            E.setdefault('root_savedlist', {})[('array_%d' % ia,)] = ('Array', it['tok'], (), ())
            ia += 1
        else:
            saved_mds.append(('dictionary_%d' % idc, it['tok'])); idc += 1
    if unrooted or others:
        E.setdefault('root_savedlist', {})[()] = ('Root', 0, tuple(sorted(saved_mds)), ())
    for it in items:
        if it['kind'] == 'top' and tops[it['top']]['cls'] == 'Root':
            t = tops[it['top']]
            if not it['tp']:
                E[t['name']] = FA.runtime_map(t)
            else:
                R = FA.runtime_map(t)
                m = E.setdefault(t['name'], {(): R[()]})
                m[tuple(it['tp'])] = R[tuple(it['tp'])]
    return E


def oracle(case, obs):
    tops = case['tops']
    E = {}            # root name -> expected map (None = no crisp expectation)
    uuid = None
    header = None
    prev_slot = None
    for j, (st, o) in enumerate(zip(case['steps'], obs)):
        where = f'step {j} ' + (f"save mode={st['mode']} " + (st['input']['kind'] if st.get('input') else f"top={st['top']} tp={st['tp']} tree={st['tree']} emdpath={st.get('emdpath')}") if st['op'] == 'save' else f"read emdpath={st.get('emdpath')}")
        if st['op'] == 'raw':
            continue
        if st['op'] == 'read':
            roots = sorted(E)
            if not o.get('sha_unchanged', True):
                return {'key': 'file-modified-by-read', 'what': where}
            if st.get('emdpath') is None and len(roots) > 1:
                if o['raised'] or o['res'][0] != 'names' or sorted(o['res'][1]) != roots:
                    return {'key': 'root-names', 'what': where + f': expected exactly the root names {roots}, got {o.get("res")}'}
            if st.get('emdpath') is not None and E.get(st['emdpath']) is not None:
                if o['raised']:
                    return {'key': 'tree-unreadable', 'what': where + f": raised {o['exc']}"}
                r = o['res']
                if r[0] == 'tree':
                    got = {k: v[:3] for k, v in FA.runtime_map(r[1]).items()}
                    want = {k: v[:3] for k, v in E[st['emdpath']].items()}
                    if got != want:
                        return {'key': 'tree-read-differs', 'what': where + ': tree read by its root name differs from its source'}
            continue
        if o['raised'] and st.get('input') and st['input']['kind'] in ('list', 'tuple') and (prev_slot is None or prev_slot[0] == 'Absent' or st['mode'] in ('o', 'overwrite')):
            # a list into a fresh file is refused only for the documented reasons: the same unrooted node twice, nodes of two
            # different roots of one name, rooted items that are not direct children of their root
            its = [it for it in st['input']['items'] if it['kind'] == 'top']
            un = [it['top'] for it in its if tops[it['top']]['cls'] != 'Root']
            rooted = [it for it in its if tops[it['top']]['cls'] == 'Root' and it['tp']]
            by_name = {}
            for it in rooted:
                by_name.setdefault(tops[it['top']]['name'], set()).add(it['top'])
            documented = len(set(un)) != len(un) or any(len(v) > 1 for v in by_name.values()) or any(len(it['tp']) != 1 for it in rooted) or \
                st['mode'] not in ('w', 'write', 'o', 'overwrite', 'a', '+', 'append', 'ao', 'oa', 'o+', '+o', 'appendover')
            if not documented:
                return {'key': 'valid-list-refused', 'what': where + f": a list the documentation accepts was refused: {o.get('exc')}"}
        if o['raised']:
            # a refused save must leave everything as it was (checked by C18); expectations unchanged
            cur = o['slot']
            if prev_slot is not None and cur != prev_slot:
                for r in E:
                    E[r] = None
            prev_slot = cur
            continue
        slot = o['slot']
        mode = st['mode']
        fresh = (mode in ('o', 'overwrite') and st.get('emdpath') is None) or prev_slot is None or prev_slot[0] == 'Absent'
        if fresh:
            E = {}
        old = dict(E)
        # header and UUID never change once the file exists
        hdr = tuple(sorted(slot[1][1])) if slot[0] == 'H5' else None
        if not fresh:
            if o.get('uuid') != uuid:
                return {'key': 'uuid-changed', 'what': where + f": UUID {uuid} -> {o.get('uuid')}"}
            if hdr != header:
                return {'key': 'header-changed', 'what': where}
        uuid, header = o.get('uuid'), hdr
        # what this save should have produced
        touched = set()
        if st.get('input') is None:
            top = tops[st['top']]
            rn = top['name']
            touched.add(rn)
            if rn not in E:
                from harness.props import c07
                _, m = c07.expected(top, st['tp'], st['tree'])
                E[rn] = m
            elif E[rn] is not None:
                exp = c09.expected_after(E[rn], top, st, rootname_file=rn)
                E[rn] = exp[1] if exp[0] == 'map' else None
        else:
            inp = st['input']
            if inp['kind'] == 'arr':
                E['root'] = {(): ('Root', 0, (), ()), ('np.array',): ('Array', inp['tok'], (), ())}; touched.add('root')
            elif inp['kind'] in ('dict', 'md'):
                nm = 'dictionary' if inp['kind'] == 'dict' else inp['name']
                E['root'] = {(): ('Root', 0, ((nm, inp['tok']),), ())}; touched.add('root')
            else:
                for rn, m in expected_list(tops, inp['items']).items():
                    touched.add(rn)
                    E[rn] = m if rn not in old else None
        roots = FA.root_names(slot)
        if roots != sorted(E):
            return {'key': 'top-level-trees', 'what': where + f': top-level trees {roots}, expected {sorted(E)}'}
        for rn in E:
            got = FA.tree_map(slot, rn)
            if rn not in touched:
                if prev_slot is not None and got != FA.tree_map(prev_slot, rn):
                    return {'key': 'other-tree-changed', 'what': where + f': tree {rn} was not targeted but changed'}
            elif E[rn] is not None and got != E[rn]:
                missing = sorted(set(E[rn]) - set(got)); extra = sorted(set(got) - set(E[rn]))
                diff = sorted(p for p in E[rn] if p in got and E[rn][p] != got[p])
                return {'key': 'tree-content', 'what': where + f': tree {rn}: missing {missing[:3]} unexpected {extra[:3]} wrong content {diff[:3]}'}
        prev_slot = slot
    return None


def pick_smallest(cases_, idxs):
    return min(idxs, key=lambda i: len(cases_[i]['steps']))


def nontrivial(cases_, results):
    s = set()
    for c, r in zip(cases_, results):
        last = next((o for st, o in reversed(list(zip(c['steps'], r))) if st['op'] == 'save' and not o['raised']), None)
        if last and last['slot'][0] == 'H5' and len(FA.root_names(last['slot'])) >= 2:
            s.add(repr(c['steps']))
    return len(s)


def samples(cases_, results):
    return [{'steps': c['steps']} for c in cases_[:3]]


def distribution(cases_, results):
    d = {'saves': 0, 'lists': 0, 'raised': 0, 'roots_at_end': {}}
    for c, r in zip(cases_, results):
        for st, o in zip(c['steps'], r):
            if st['op'] == 'save':
                d['saves'] += 1; d['lists'] += bool(st.get('input') and st['input']['kind'] in ('list', 'tuple')); d['raised'] += o['raised']
        last = next((o for st, o in reversed(list(zip(c['steps'], r))) if st['op'] == 'save'), None)
        if last and last['slot'][0] == 'H5':
            k = len(FA.root_names(last['slot'])); d['roots_at_end'][k] = d['roots_at_end'].get(k, 0) + 1
    return d
