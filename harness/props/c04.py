"""C04 -- PointList and PointListArray round-trip: fields, dtypes, ragged contents."""
import random
from harness import pl as P
from harness.pl import run_all, emit, COQ_IMPORTS, CASETY, CHECKFN

PROP = 'C04'
TARGETS = ['Props/C04.vo', 'Corr/XPl.vo']
PROPS_FILE = 'Props/C04.v'
RULE = ('PointLists with 1-6 fields over 22 scalar dtypes (bool, (u)int8-64, float16/32/64, complex64/128, S1/S5/S12, big-endian '
        'f/i/u/c), field names with spaces / non-ASCII / digits / names that look like other datasets, lengths 0, 1, 2, 5, 17; '
        'PointListArrays of shapes incl. 0xn, nx0, 0x0, 1x1 with ragged / all-empty / half-empty cells, structured or plain numeric '
        'dtype; each saved, the raw per-field datasets and dtype attributes inspected, read back, and pushed through a second '
        'generation; non-trivial = distinct cases with >= 2 fields or a non-empty ragged array')
MODELLED = ['column and cell contents are tokens (sha256 of dtype + bytes); that h5py stores and returns them is observed',
            'str(numpy dtype) / np.dtype(str) on the enumerated scalar dtype universe']
ASSUMPTIONS = ['field names are valid HDF5 link names; scalar field dtypes (sub-array fields, 0-d and unstructured data belong to C15)']


def cases(seed, tier):
    rng = random.Random(seed * 61 + 4)
    n = 300 if tier == 'quick' else 15000
    return [P.gen_pl(rng) for _ in range(n)] + [P.gen_pla(rng) for _ in range(n * 2 // 3)]


def oracle(c, r):
    where = f"{c['kind']} {str({k: c[k] for k in c if k not in ('seed',)})[:200]}"
    if 'build_exc' in r:
        return None
    if 'save_exc' in r:
        return {'key': 'save-raised', 'what': where + f": {r['save_exc']}"}
    if 'read_exc' in r and P.plain_nonnative(c):
        return {'key': 'pla-plain-nonnative-dtype', 'what': where + f": {r['read_exc']}"}
    if 'read_exc' in r:
        return {'key': 'read-raised', 'what': where + f": {r['read_exc']}"}
    o, b = r['orig'], r['back']
    if c['kind'] == 'pl':
        if r['back_type'] != 'PointList':
            return {'key': 'class', 'what': where + f": read back as {r['back_type']}"}
        if b['len'] != o['len']:
            return {'key': 'length', 'what': where + f": length {o['len']} -> {b['len']}"}
        if sorted(f[0] for f in b['fields']) != sorted(f[0] for f in o['fields']):
            return {'key': 'field-set', 'what': where + f": fields {[f[0] for f in b['fields']]}"}
        bo = {f[0]: f for f in b['fields']}
        for f, dt, tok in o['fields']:
            if bo[f][1] != dt:
                return {'key': 'field-dtype', 'what': where + f": field {f!r} dtype {dt} -> {bo[f][1]}"}
            if bo[f][2] != tok and o['len'] > 0:
                return {'key': 'field-values', 'what': where + f": field {f!r} values changed"}
    else:
        if r['back_type'] != 'PointListArray':
            return {'key': 'class', 'what': where + f": read back as {r['back_type']}"}
        if b['shape'] != o['shape']:
            return {'key': 'shape', 'what': where + f": shape {o['shape']} -> {b['shape']}"}
        if b['dtype'] != o['dtype']:
            return {'key': 'dtype', 'what': where + f": dtype {o['dtype']} -> {b['dtype']}"}
        if b['cells'] != o['cells']:
            return {'key': 'cell-contents', 'what': where + ': some cell does not hold the points stored in it'}
    return None


def pick_smallest(cases_, idxs):
    return min(idxs, key=lambda i: len(str(cases_[i])))


def nontrivial(cases_, results):
    return len({str(c) for c in cases_ if (c['kind'] == 'pl' and len(c['fields']) >= 2) or (c['kind'] == 'pla' and any(n for row in c['cells'] for n in row))})


def samples(cases_, results):
    return [cases_[0], cases_[-1]]


def distribution(cases_, results):
    d = {'pl': 0, 'pla': 0, 'dtypes': {}, 'zero_extent_pla': 0, 'empty_pl': 0}
    for c in cases_:
        d[c['kind']] += 1
        if c['kind'] == 'pl':
            d['empty_pl'] += c['len'] == 0
            for f, t in c['fields']:
                d['dtypes'][t] = d['dtypes'].get(t, 0) + 1
        else:
            d['zero_extent_pla'] += 0 in c['shape']
    return d
