"""C07 -- partial save writes exactly the selected part of the tree, always with the root."""
import random
from harness import tree as T, fileabs as FA
from harness.tree import run_all, emit, COQ_IMPORTS, CASETY, CHECKFN

PROP = 'C07'
TARGETS = ['Props/C07.vo', 'Corr/XTree.vo']
PROPS_FILE = 'Props/C07.v'
RULE = ('every node (root, inner, leaf) of random trees (2..25 nodes, depth <= 8, root metadata 0..3 entries) as save target x '
        '3 tree options into fresh files, all from the SAME live objects within one scenario (up to 40 saves per scenario), plus '
        'unrooted targets; several mode spellings; non-trivial = distinct (tree, target, option) triples with a non-root target')
MODELLED = ['payload templates with content tokens']
ASSUMPTIONS = ['runtime trees well formed (C12); valid names']


def cases(seed, tier):
    rng = random.Random(seed * 77 + 7)
    out = []
    n = 60 if tier == 'quick' else 1500
    for i in range(n):
        t = T.rand_tree(rng, rng.choice(['root', 'r', 'my tree']), rng.choice([2, 4, 7, 12, 25]), md_p=0.5)
        if t['mds'] and rng.random() < 0.4:
            # root Metadata renamed after it was attached (the key it is held under no longer equals its name, possibly the name of
            # another entry's key): a save into a fresh file stores every entry under its key
            keys = [m[0] for m in t['mds']]
            t['mds'] = [[m[0], m[1], rng.choice([m[0] + '_v2', rng.choice(keys), 'zz'])] for m in t['mds']]
        paths = T.all_paths(t)
        combos = [(p, tr) for p in paths for tr in (True, False, None)]
        rng.shuffle(combos)
        combos = combos[:40]
        # make sure the whole tree is written first sometimes (state carried between saves shows up later)
        if rng.random() < 0.5:
            combos.insert(0, ([], True))
        steps = []
        for k, (p, tr) in enumerate(combos):
            steps.append({'op': 'save', 'file': k, 'top': 0, 'tp': p, 'mode': rng.choice(['w', 'write', 'o', 'a', 'ao']), 'tree': tr})
        tops = [t]
        if rng.random() < 0.5:
            c = rng.choice(['Node', 'Array', 'PointList', 'PointListArray'])
            tops.append({'cls': c, 'name': rng.choice(['lonely', 'u n', 'a']), 'tok': T.fresh_tok() if c != 'Node' else 0, 'rank': 2 if c == 'Array' else 0,
                         'mds': [['m1', T.fresh_tok()]] if rng.random() < 0.5 else [], 'kids': []})
            for tr in (True, False, None):
                steps.append({'op': 'save', 'file': len(steps), 'top': 1, 'tp': [], 'mode': 'w', 'tree': tr})
        out.append({'tops': tops, 'steps': steps})
    return out


def expected(top, tp, tree):
    R = FA.runtime_map(top)
    tp = tuple(tp)
    if top['cls'] != 'Root':
        rootname = top['name'] + '_root'
        E = {(): ('Root', 0, (), ())}
        if tree is not None:
            E[(top['name'],)] = R[()]
        return rootname, E
    E = {(): R[()]}
    if not tp:
        if tree is not False:
            E = dict(R)
    elif tree is False:
        E[(tp[-1],)] = R[tp]
    elif tree is True:
        for p in R:
            if p[:len(tp)] == tp:
                E[(tp[-1],) + p[len(tp):]] = R[p]
    else:
        for p in R:
            if p[:len(tp)] == tp and len(p) > len(tp):
                E[p[len(tp):]] = R[p]
    return top['name'], E


def oracle(case, obs):
    for st, o in zip(case['steps'], obs):
        top = case['tops'][st['top']]
        where = f"save #{st['file']} target=/{'/'.join(st['tp'])} tree={st['tree']}"
        if o['raised']:
            return {'key': 'save-raised', 'what': where + f": raised {o['exc']}"}
        rootname, E = expected(top, st['tp'], st['tree'])
        names = FA.root_names(o['slot'])
        if names != [rootname]:
            return {'key': 'top-groups', 'what': where + f': top-level trees {names}, expected [{rootname}]'}
        got = FA.tree_map(o['slot'], rootname)
        if got != E:
            missing = sorted(set(E) - set(got)); extra = sorted(set(got) - set(E))
            diff = sorted(p for p in E if p in got and E[p] != got[p])
            return {'key': 'selection', 'what': where + f': missing {missing[:3]} unexpected {extra[:3]} wrong content {diff[:3]}'}
    return None


def pick_smallest(cases_, idxs):
    return min(idxs, key=lambda i: T.count_nodes(cases_[i]['tops'][0]))


def nontrivial(cases_, results):
    return len({(repr(c['tops'][st['top']]), tuple(st['tp']), st['tree']) for c in cases_ for st in c['steps'] if st['tp']})


def samples(cases_, results):
    return [{'tree': c['tops'][0], 'steps': c['steps'][:4]} for c in cases_[:2]]


def distribution(cases_, results):
    d = {'saves': 0, 'tree': {}, 'target_depth': {}, 'unrooted': 0}
    for c in cases_:
        for st in c['steps']:
            d['saves'] += 1
            d['tree'][str(st['tree'])] = d['tree'].get(str(st['tree']), 0) + 1
            d['target_depth'][len(st['tp'])] = d['target_depth'].get(len(st['tp']), 0) + 1
            d['unrooted'] += st['top'] == 1
    return d
