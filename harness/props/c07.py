"""C07 -- partial save writes exactly the selected part of the tree, always with the root."""
import random
from harness import tree as T, fileabs as FA
from harness.tree import COQ_IMPORTS, CASETY, CHECKFN
from harness import core

PROP = 'C07'
TARGETS = ['Props/C07.vo', 'Corr/XTree.vo']
PROPS_FILE = 'Props/C07.v'
RULE = ('every node (root, inner, leaf) of random trees (2..25 nodes, depth <= 8, root metadata 0..3 entries) as save target x '
        '3 tree options into fresh files, all from the SAME live objects within one scenario (up to 40 saves per scenario), plus '
        'unrooted targets; several mode spellings; plus trees holding a Custom node whose attribute node is also its own child / placed '
        'elsewhere / not in the tree, every target x 3 options, group paths compared by a raw h5py walk; non-trivial = distinct '
        '(tree, target, option) triples with a non-root target')
MODELLED = ['payload templates with content tokens']
ASSUMPTIONS = ['runtime trees well formed (C12); valid names']


def cases(seed, tier):
    rng = random.Random(seed * 77 + 7)
    out = []
    n = 60 if tier == 'quick' else 1500
    for i in range(n):
        t = T.rand_tree(rng, rng.choice(['root', 'r', 'my tree']), rng.choice([2, 4, 7, 12, 25]), md_p=0.5)
        if t['mds'] and rng.random() < 0.4:
            # root Metadata renamed after it was attached (the key it is held under no longer equals its name, possibly the name of
            # another entry's key): a save into a fresh file stores every entry under its key
            keys = [m[0] for m in t['mds']]
            t['mds'] = [[m[0], m[1], rng.choice([m[0] + '_v2', rng.choice(keys), 'zz'])] for m in t['mds']]
        paths = T.all_paths(t)
        combos = [(p, tr) for p in paths for tr in (True, False, None)]
        rng.shuffle(combos)
        combos = combos[:40]
        # make sure the whole tree is written first sometimes (state carried between saves shows up later)
        if rng.random() < 0.5:
            combos.insert(0, ([], True))
        steps = []
        for k, (p, tr) in enumerate(combos):
            steps.append({'op': 'save', 'file': k, 'top': 0, 'tp': p, 'mode': rng.choice(['w', 'write', 'o', 'a', 'ao']), 'tree': tr})
        tops = [t]
        if rng.random() < 0.5:
            c = rng.choice(['Node', 'Array', 'PointList', 'PointListArray'])
            tops.append({'cls': c, 'name': rng.choice(['lonely', 'u n', 'a']), 'tok': T.fresh_tok() if c != 'Node' else 0, 'rank': 2 if c == 'Array' else 0,
                         'mds': [['m1', T.fresh_tok()]] if rng.random() < 0.5 else [], 'kids': []})
            for tr in (True, False, None):
                steps.append({'op': 'save', 'file': len(steps), 'top': 1, 'tp': [], 'mode': 'w', 'tree': tr})
        out.append({'tops': tops, 'steps': steps})
    # a composition (Custom) node whose attribute node is ALSO a node of the tree -- its own child, or placed elsewhere -- under a node
    # name that differs from the attribute's name (this stream comes last: see emit)
    for i in range(9 if tier == 'quick' else 90):
        out.append({'kind': 'customattr', 'where': ['own_child', 'elsewhere', 'not_in_tree'][i % 3], 'depth': 1 + (i // 3) % 2, 'cls': ['Array', 'PointList', 'Node'][(i // 3) % 3]})
    return out


def _custom_layout(c):
    """the runtime tree of a customattr case as nested (name, groups written with the node itself, children)"""
    pc = ('pc', [], [('deep', [], [])])
    box = ('box', ['part'], [('other', [], [])] + ([pc] if c['where'] == 'own_child' else []))
    cur = box
    for d in reversed(range(c['depth'])):
        cur = ('plain%d' % d, [], [cur] + ([pc] if c['where'] == 'elsewhere' and d == c['depth'] - 1 else []))
    return ('root', [], [cur])


def _custom_expected(layout, tp, tree):
    def sub(n, prefix, with_kids=True):
        out = {prefix + '/' + n[0]} | {prefix + '/' + n[0] + '/' + g for g in n[1]}
        if with_kids:
            for k in n[2]:
                out |= sub(k, prefix + '/' + n[0])
        return out
    node = layout
    for x in tp:
        node = next(k for k in node[2] if k[0] == x)
    if not tp:
        return sub(layout, '', tree is not False)
    E = {'/root'}
    if tree is None:
        for k in node[2]:
            E |= sub(k, '/root')
    else:
        E |= sub(node, '/root', tree is True)
    return E


def _run_custom(args):
    c, scratch = args
    import os, sys, types, numpy as np, h5py
    import emdfile as emd
    try:
        class Box(emd.Custom):
            def __init__(self, name='box'):
                emd.Custom.__init__(self, name=name)
                if c['cls'] == 'Array':
                    self.part = emd.Array(np.arange(3), name='pc')
                elif c['cls'] == 'PointList':
                    self.part = emd.PointList(np.zeros(2, dtype=[('x', float)]), name='pc')
                else:
                    self.part = emd.Node(name='pc')
        root = emd.Root(name='root')
        cur = root
        path = []
        for d in range(c['depth']):
            nd = emd.Node(name='plain%d' % d); cur.tree(nd); cur = nd; path.append(nd.name)
        box = Box(); cur.tree(box); box.tree(emd.Node(name='other'))
        if c['where'] == 'own_child':
            box.tree(box.part); box.part.tree(emd.Node(name='deep'))
        elif c['where'] == 'elsewhere':
            cur.tree(box.part); box.part.tree(emd.Node(name='deep'))
        layout = _custom_layout(c)
        out = {'saves': []}
        p = os.path.join(scratch, 'customattr_%d.h5' % os.getpid())
        targets = [[], path[:1], path + ['box']] + ([path + ['box', 'pc']] if c['where'] == 'own_child' else [])
        for tp in targets:
            for tr in (True, False, None):
                rec = {'tp': tp, 'tree': tr, 'expected': sorted(_custom_expected(layout, tp, tr))}
                try:
                    with core.quiet():
                        emd.save(p, root.tree('/'.join(tp)) if tp else root, mode='o', tree=tr)
                    got = []
                    with h5py.File(p, 'r') as f:
                        f.visititems(lambda name, g: got.append('/' + name) if isinstance(g, h5py.Group) and 'emd_group_type' in g.attrs and
                                     g.attrs['emd_group_type'] not in ('metadatabundle', 'metadata') else None)
                    rec['got'] = sorted(got)
                except BaseException as e:
                    rec['raised'] = type(e).__name__ + ': ' + str(e)[:100]
                out['saves'].append(rec)
        if os.path.exists(p):
            os.remove(p)
        return out
    except BaseException:
        import traceback
        return [{'harness_error': traceback.format_exc()[-800:]}]


def run_all(cases_, scratch):
    nt = sum(1 for c in cases_ if c.get('kind') != 'customattr')
    return T.run_all(cases_[:nt], scratch) + core.pmap(_run_custom, [(c, scratch) for c in cases_[nt:]])


def emit(cases_, results):
    nt = sum(1 for c in cases_ if c.get('kind') != 'customattr')
    return T.emit(cases_[:nt], results[:nt])


def expected(top, tp, tree):
    R = FA.runtime_map(top)
    tp = tuple(tp)
    if top['cls'] != 'Root':
        rootname = top['name'] + '_root'
        E = {(): ('Root', 0, (), ())}
        if tree is not None:
            E[(top['name'],)] = R[()]
        return rootname, E
    E = {(): R[()]}
    if not tp:
        if tree is not False:
            E = dict(R)
    elif tree is False:
        E[(tp[-1],)] = R[tp]
    elif tree is True:
        for p in R:
            if p[:len(tp)] == tp:
                E[(tp[-1],) + p[len(tp):]] = R[p]
    else:
        for p in R:
            if p[:len(tp)] == tp and len(p) > len(tp):
                E[p[len(tp):]] = R[p]
    return top['name'], E


def oracle(case, obs):
    if case.get('kind') == 'customattr':
        for rec in obs['saves']:
            where = f"save of /{'/'.join(rec['tp'])} tree={rec['tree']} from a tree holding a Custom node whose attribute node is {case['where']} ({case['cls']})"
            if 'raised' in rec:
                return {'key': 'save-raised', 'what': where + f": raised {rec['raised']}"}
            if rec['got'] != rec['expected']:
                missing = sorted(set(rec['expected']) - set(rec['got'])); extra = sorted(set(rec['got']) - set(rec['expected']))
                return {'key': 'selection', 'what': where + f': missing {missing[:4]} unexpected {extra[:4]}'}
        return None
    for st, o in zip(case['steps'], obs):
        top = case['tops'][st['top']]
        where = f"save #{st['file']} target=/{'/'.join(st['tp'])} tree={st['tree']}"
        if o['raised']:
            return {'key': 'save-raised', 'what': where + f": raised {o['exc']}"}
        rootname, E = expected(top, st['tp'], st['tree'])
        names = FA.root_names(o['slot'])
        if names != [rootname]:
            return {'key': 'top-groups', 'what': where + f': top-level trees {names}, expected [{rootname}]'}
        got = FA.tree_map(o['slot'], rootname)
        if got != E:
            missing = sorted(set(E) - set(got)); extra = sorted(set(got) - set(E))
            diff = sorted(p for p in E if p in got and E[p] != got[p])
            return {'key': 'selection', 'what': where + f': missing {missing[:3]} unexpected {extra[:3]} wrong content {diff[:3]}'}
    return None


def pick_smallest(cases_, idxs):
    return min(idxs, key=lambda i: T.count_nodes(cases_[i]['tops'][0]) if 'tops' in cases_[i] else 30)


def nontrivial(cases_, results):
    return len({(repr(c['tops'][st['top']]), tuple(st['tp']), st['tree']) for c in cases_ if 'steps' in c for st in c['steps'] if st['tp']})


def samples(cases_, results):
    return [{'tree': c['tops'][0], 'steps': c['steps'][:4]} for c in cases_[:2] if 'tops' in c]


def distribution(cases_, results):
    d = {'saves': 0, 'tree': {}, 'target_depth': {}, 'unrooted': 0}
    for c in cases_:
        if 'steps' not in c:
            d['custom_attribute_cases'] = d.get('custom_attribute_cases', 0) + 1
            continue
        for st in c['steps']:
            d['saves'] += 1
            d['tree'][str(st['tree'])] = d['tree'].get(str(st['tree']), 0) + 1
            d['target_depth'][len(st['tp'])] = d['target_depth'].get(len(st['tp']), 0) + 1
            d['unrooted'] += st['top'] == 1
    return d
