"""C05 -- every file written is a well-formed EMD 1.0 file."""
import random
from harness import tree as T, fileabs as FA, validator as V
from harness.tree import COQ_IMPORTS, CASETY, CHECKFN
from harness.props import c07, c09, c10, c11
from harness import classes as K, core

PROP = 'C05'
TARGETS = ['Props/C05.vo', 'Corr/XTree.vo']
PROPS_FILE = 'Props/C05.v'
RULE = ('trees holding downstream subclasses and composition (Custom) nodes, also Custom inside Custom (validator only); every successful save of: partial saves (C07 stream), append / append-over pairs and sequences with and without emdpath '
        '(C09 stream), multi-tree histories and list saves (C10 stream), all mode spellings over all kinds of old content (C11 '
        'stream), each under a random author/program setting; after each one an h5py-only validator checks header, root tags, node '
        'tags, Array data/dim datasets, metadata bundles, absence of scratch groups, and the package detector / version query must '
        'agree; non-trivial = distinct successful saves into an already existing file')
MODELLED = ['payload templates (Array rank 1-3 with default calibrations); detailed calibration layouts are checked in C02/C14']
ASSUMPTIONS = ['valid names']


def cases(seed, tier):
    rng = random.Random(seed * 17 + 5)
    out = []
    c9 = c09.cases(seed + 1, tier)
    out += c9[: (250 if tier == 'quick' else 10 ** 9)]
    if tier == 'quick':
        out += [c for c in c9[250:] if c.get('kind') in ('S', 'D')][:60]      # the deterministic families (scratch-name siblings, moved targets)
    out += c10.cases(seed + 1, tier)[: (150 if tier == 'quick' else 10 ** 9)]
    out += c11.cases(seed + 1, tier)[: (200 if tier == 'quick' else 10 ** 9)]
    out += [c for c in c07.cases(seed + 1, tier) if 'steps' in c][: (15 if tier == 'quick' else 10 ** 9)]
    for c in out:
        c['program'] = rng.choice(['emdfile', 'py4DSTEM', 'my prog é', ''])
        c['user'] = rng.choice(['', 'ben', 'A. User', 'ü'])
    # trees holding downstream subclasses and composition (Custom) nodes, also Custom inside Custom (this stream comes last: see emit)
    for _ in range(60 if tier == 'quick' else 3000):
        sc = K.gen_e2e(rng)
        sc['placements'] = []; sc['want_slot'] = True; sc['kind'] = 'e2e'
        out.append(sc)
    return out


def _run_e2e(args):
    c, scratch = args
    try:
        return K.run_e2e(c, scratch)
    except BaseException:
        import traceback
        return [{'harness_error': traceback.format_exc()[-800:]}]


def run_all(cases, scratch):
    nt = sum(1 for c in cases if c.get('kind') != 'e2e')
    return T.run_all(cases[:nt], scratch) + core.pmap(_run_e2e, [(c, scratch) for c in cases[nt:]])


def emit(cases, results):
    nt = sum(1 for c in cases if c.get('kind') != 'e2e')
    return T.emit(cases[:nt], results[:nt])


def all_names(case):
    s = set()
    for t in case['tops']:
        for p in T.all_paths(t):
            s.add(T.spec_at(t, p)['name'])
    return s


def oracle(case, obs):
    if case.get('kind') == 'e2e':
        if obs.get('save_exc') or 'slot' not in obs:
            return None
        e = V.wf_emd(obs['slot'], 'emdfile', '', ())
        if e:
            key = e.split(':')[-1].strip().split(' ')[0:4]
            return {'key': 'layout-' + '-'.join(key)[:40], 'what': 'a tree holding subclass / composition (Custom) nodes: ' + e}
        if not obs.get('is_emd'):
            return {'key': 'detector-disagrees', 'what': 'a tree holding subclass / composition (Custom) nodes: _is_EMD_file -> False'}
        return None
    names = all_names(case)
    for j, (st, o) in enumerate(zip(case['steps'], obs)):
        if st['op'] != 'save' or o['raised']:
            continue
        if st.get('input') and st['input'].get('kind') in ('list', 'tuple') and not st['input']['items']:
            continue          # an empty list: nothing is written, there is no file to validate
        where = f"after save #{j} mode={st['mode']} tree={st['tree']} emdpath={st.get('emdpath')}"
        e = V.wf_emd(o['slot'], case.get('program', 'emdfile'), case.get('user', ''), names)
        if e:
            key = e.split(':')[-1].strip().split(' ')[0:4]
            return {'key': 'layout-' + '-'.join(key)[:40], 'what': where + ': ' + e}
        if 'detector_exc' in o or not o.get('is_emd'):
            return {'key': 'detector-disagrees', 'what': where + f": _is_EMD_file -> {o.get('is_emd')} {o.get('detector_exc')}"}
        if o.get('version', [0, 0])[:2] != [1, 0]:
            return {'key': 'version-query', 'what': where + f": _get_EMD_version -> {o.get('version')}"}
    return None


def pick_smallest(cases_, idxs):
    return min(idxs, key=lambda i: len(cases_[i]['steps']) if 'steps' in cases_[i] else 100 + len(repr(cases_[i]['kids'])))


def nontrivial(cases_, results):
    s = set()
    for c, r in zip(cases_, results):
        if 'steps' not in c:
            continue
        for st, o in zip(c['steps'], r):
            if st['op'] == 'save' and not o['raised'] and o.get('sha_before') is not None:
                s.add(repr(c['tops'])[:200] + repr(st))
    return len(s)


def samples(cases_, results):
    return [{'steps': c['steps'][:3], 'program': c['program'], 'user': c['user']} for c in cases_[:3]]


def _attrs(nd):
    out = list(nd['attrs'])
    for x in nd['attrs'] + nd['kids']:
        out += _attrs(x)
    return out


def distribution(cases_, results):
    d = {'saves_ok': 0, 'saves_raised': 0, 'into_existing': 0, 'mode': {}, 'custom_class_trees': 0, 'custom_inside_custom': 0}
    for c, r in zip(cases_, results):
        if 'steps' not in c:
            d['custom_class_trees'] += 1
            d['custom_inside_custom'] += int("'kind': 'Custom'" in repr([a for k in c['kids'] for a in _attrs(k)]))
            continue
        for st, o in zip(c['steps'], r):
            if st['op'] == 'save':
                d['saves_raised' if o['raised'] else 'saves_ok'] += 1
                d['into_existing'] += (o.get('sha_before') is not None and not o['raised'])
                d['mode'][st['mode']] = d['mode'].get(st['mode'], 0) + 1
    return d
