"""C05 -- every file written is a well-formed EMD 1.0 file."""
import random
from harness import tree as T, fileabs as FA, validator as V
from harness.tree import run_all, emit, COQ_IMPORTS, CASETY, CHECKFN
from harness.props import c07, c09, c10, c11

PROP = 'C05'
TARGETS = ['Props/C05.vo', 'Corr/XTree.vo']
PROPS_FILE = 'Props/C05.v'
RULE = ('every successful save of: partial saves (C07 stream), append / append-over pairs and sequences with and without emdpath '
        '(C09 stream), multi-tree histories and list saves (C10 stream), all mode spellings over all kinds of old content (C11 '
        'stream), each under a random author/program setting; after each one an h5py-only validator checks header, root tags, node '
        'tags, Array data/dim datasets, metadata bundles, absence of scratch groups, and the package detector / version query must '
        'agree; non-trivial = distinct successful saves into an already existing file')
MODELLED = ['payload templates (Array rank 1-3 with default calibrations); detailed calibration layouts are checked in C02/C14']
ASSUMPTIONS = ['valid names']


def cases(seed, tier):
    rng = random.Random(seed * 17 + 5)
    out = []
    out += c09.cases(seed + 1, tier)[: (250 if tier == 'quick' else 10 ** 9)]
    out += c10.cases(seed + 1, tier)[: (150 if tier == 'quick' else 10 ** 9)]
    out += c11.cases(seed + 1, tier)[: (200 if tier == 'quick' else 10 ** 9)]
    out += c07.cases(seed + 1, tier)[: (15 if tier == 'quick' else 10 ** 9)]
    for c in out:
        c['program'] = rng.choice(['emdfile', 'py4DSTEM', 'my prog é', ''])
        c['user'] = rng.choice(['', 'ben', 'A. User', 'ü'])
    return out


def all_names(case):
    s = set()
    for t in case['tops']:
        for p in T.all_paths(t):
            s.add(T.spec_at(t, p)['name'])
    return s


def oracle(case, obs):
    names = all_names(case)
    for j, (st, o) in enumerate(zip(case['steps'], obs)):
        if st['op'] != 'save' or o['raised']:
            continue
        where = f"after save #{j} mode={st['mode']} tree={st['tree']} emdpath={st.get('emdpath')}"
        e = V.wf_emd(o['slot'], case.get('program', 'emdfile'), case.get('user', ''), names)
        if e:
            key = e.split(':')[-1].strip().split(' ')[0:4]
            return {'key': 'layout-' + '-'.join(key)[:40], 'what': where + ': ' + e}
        if 'detector_exc' in o or not o.get('is_emd'):
            return {'key': 'detector-disagrees', 'what': where + f": _is_EMD_file -> {o.get('is_emd')} {o.get('detector_exc')}"}
        if o.get('version', [0, 0])[:2] != [1, 0]:
            return {'key': 'version-query', 'what': where + f": _get_EMD_version -> {o.get('version')}"}
    return None


def pick_smallest(cases_, idxs):
    return min(idxs, key=lambda i: len(cases_[i]['steps']))


def nontrivial(cases_, results):
    s = set()
    for c, r in zip(cases_, results):
        for st, o in zip(c['steps'], r):
            if st['op'] == 'save' and not o['raised'] and o.get('sha_before') is not None:
                s.add(repr(c['tops'])[:200] + repr(st))
    return len(s)


def samples(cases_, results):
    return [{'steps': c['steps'][:3], 'program': c['program'], 'user': c['user']} for c in cases_[:3]]


def distribution(cases_, results):
    d = {'saves_ok': 0, 'saves_raised': 0, 'into_existing': 0, 'mode': {}}
    for c, r in zip(cases_, results):
        for st, o in zip(c['steps'], r):
            if st['op'] == 'save':
                d['saves_raised' if o['raised'] else 'saves_ok'] += 1
                d['into_existing'] += (o.get('sha_before') is not None and not o['raised'])
                d['mode'][st['mode']] = d['mode'].get(st['mode'], 0) + 1
    return d
