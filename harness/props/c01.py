"""C01 -- tree round-trip: every node comes back at its path with its class."""
import itertools, random
from harness import tree as T
from harness.tree import run_all, emit, COQ_IMPORTS, CASETY, CHECKFN

PROP = 'C01'
TARGETS = ['Props/C01.vo', 'Corr/XTree.vo']
PROPS_FILE = 'Props/C01.v'
RULE = ('rooted trees: all ordered tree shapes with <=3 (quick) / <=4 (thorough) non-root nodes x all class assignments over '
        '{Node, Array, PointList, PointListArray}, plus random trees (up to 40 nodes, depth <= 8, names with spaces / non-ASCII incl. non-NFC-normalised / '
        'look-alikes, >= 12 siblings somewhere); each is saved to a fresh file (and re-saved from the same live objects to a '
        'second file) and read back in full; non-trivial = distinct trees with at least 2 nodes below the root')
MODELLED = ['payloads are class templates parameterised by a content token; bulk bytes are h5py business',
            'h5py link iteration order (sorted by name) is modelled by sorting']
ASSUMPTIONS = ['valid names as the property quantifies; no child named like a dataset of its parent (known finding F18)']


def shapes(n):
    """all ordered forests with n nodes, as nested lists"""
    if n == 0:
        return [[]]
    out = []
    for k in range(1, n + 1):          # size of first tree
        for first_kids in shapes(k - 1):
            for rest in shapes(n - k):
                out.append([first_kids] + rest)
    return out


def label(shape, classes, names, ctr):
    kids = []
    for sub in shape:
        i = ctr[0]; ctr[0] += 1
        c = classes[i]
        kids.append({'cls': c, 'name': names[i], 'tok': T.fresh_tok() if c != 'Node' else 0, 'rank': 1 if c == 'Array' else 0,
                     'mds': [], 'kids': label(sub, classes, names, ctr)})
    return kids


def cases(seed, tier):
    rng = random.Random(seed * 31 + 1)
    out = []
    nmax = 3 if tier == 'quick' else 4
    cls4 = ['Node', 'Array', 'PointList', 'PointListArray']
    for n in range(0, nmax + 1):
        for sh in shapes(n):
            assigns = list(itertools.product(cls4, repeat=n))
            if tier == 'quick' and len(assigns) > 16:
                assigns = rng.sample(assigns, 16)
            for cl in assigns:
                names = ['n%d' % i for i in range(n)]
                rng.shuffle(names)
                root = {'cls': 'Root', 'name': 'r', 'tok': 0, 'rank': 0, 'mds': [], 'kids': label(sh, cl, names, [0])}
                out.append(scenario(root))
    n_rand = 150 if tier == 'quick' else 5000
    for i in range(n_rand):
        root = T.rand_tree(rng, rng.choice(['root', 'r', 'my root', 'ré', 'A', 'Scho\u0308n']), rng.choice([2, 5, 9, 14, 25, 40]))
        if i % 10 == 0:   # many siblings
            for j in range(12):
                root['kids'].append({'cls': rng.choice(cls4), 'name': 's%02d' % j, 'tok': T.fresh_tok(), 'rank': 1, 'mds': [], 'kids': []})
        out.append(scenario(root))
    # wide and long at once: many siblings under one parent, one of them with a very long (valid) name
    for width, ln in ((40, 2500), (70, 1200)) if tier == 'quick' else ((40, 2500), (70, 1200), (120, 700), (33, 4000)):
        root = {'cls': 'Root', 'name': 'r', 'tok': 0, 'rank': 0, 'mds': [], 'kids': [
            {'cls': 'Node', 'name': 'wide', 'tok': 0, 'rank': 0, 'mds': [], 'kids':
                [{'cls': cls4[j % 4], 'name': 'w%03d' % j, 'tok': T.fresh_tok() if j % 4 else 0, 'rank': 1, 'mds': [], 'kids': []} for j in range(width)] +
                [{'cls': 'Array', 'name': 'L' * ln, 'tok': T.fresh_tok(), 'rank': 1, 'mds': [], 'kids': []}]}]}
        out.append(scenario(root))
    return out


def scenario(root):
    return {'tops': [root], 'steps': [
        {'op': 'save', 'file': 0, 'top': 0, 'tp': [], 'mode': 'w', 'tree': True},
        {'op': 'read', 'file': 0, 'tree': True, 'emdpath': root['name']},
        {'op': 'read', 'file': 0, 'tree': True},
        {'op': 'save', 'file': 1, 'top': 0, 'tp': [], 'mode': 'w', 'tree': True},
        {'op': 'read', 'file': 1, 'tree': True, 'emdpath': '/' + root['name']},
    ]}


def paths_cls(t, prefix=()):
    out = {}
    for k in t['kids']:
        out[prefix + (k['name'],)] = k['cls']
        out.update(paths_cls(k, prefix + (k['name'],)))
    return out


def file_groups(slot):
    """paths of node groups in the raw file: /root/<path> for groups tagged with a data group type"""
    out = {}
    if slot[0] != 'H5':
        return None

    def rec(o, path):
        for k, c in o[2]:
            if c[0] == 'G':
                at = {a[0]: a[2] for a in c[1]}
                if at.get('emd_group_type') in ('node', 'array', 'pointlist', 'pointlistarray', 'custom', 'root'):
                    out[path + (k,)] = at.get('python_class')
                    rec(c, path + (k,))
    rec(slot[1], ())
    return out


def oracle(case, obs):
    root = case['tops'][0]
    want = paths_cls(root)
    for si in (0, 3):
        if obs[si]['raised']:
            return {'key': 'save-raised', 'what': f"save of a valid tree raised {obs[si]['exc']}"}
        fg = file_groups(obs[si]['slot'])
        want_file = {(root['name'],) + p: c for p, c in want.items()}
        want_file[(root['name'],)] = 'Root'
        if fg != want_file:
            missing = sorted(set(want_file) - set(fg)); extra = sorted(set(fg) - set(want_file))
            return {'key': 'file-layout', 'what': f'HDF5 groups differ from /<root><node path>: missing {missing[:3]} extra {extra[:3]}'}
    for si in (1, 2, 4):
        o = obs[si]
        if o['raised']:
            return {'key': 'read-raised', 'what': f"read raised {o['exc']}"}
        r = o['res']
        if r[0] == 'md':
            if want or len(root['mds']) != 1:
                return {'key': 'read-returned-metadata', 'what': 'read returned a Metadata for a tree with nodes'}
            continue
        if r[0] != 'tree':
            return {'key': 'read-not-tree', 'what': f'read returned {r[0]}'}
        got = paths_cls(r[1])
        if r[1]['name'] != root['name']:
            return {'key': 'root-name', 'what': f"root name {r[1]['name']!r} != {root['name']!r}"}
        if got != want:
            missing = sorted(set(want) - set(got)); extra = sorted(set(got) - set(want))
            wrong = [p for p in want if p in got and got[p] != want[p]]
            return {'key': 'tree-differs', 'what': f'paths missing {missing[:3]} extra {extra[:3]} wrong class {wrong[:3]}'}
    return None


def pick_smallest(cases_, idxs):
    return min(idxs, key=lambda i: T.count_nodes(cases_[i]['tops'][0]))


def nontrivial(cases_, results):
    return len({repr(c['tops']) for c in cases_ if T.count_nodes(c['tops'][0]) >= 3})


def samples(cases_, results):
    return [{'tree': c['tops'][0], 'steps': c['steps']} for c in cases_[-2:]]


def distribution(cases_, results):
    d = {'nodes_hist': {}, 'depth_hist': {}, 'classes': {}}
    for c in cases_:
        n = T.count_nodes(c['tops'][0]); dp = T.depth_of(c['tops'][0])
        b = '1' if n == 1 else '2-4' if n <= 4 else '5-10' if n <= 10 else '11+'
        d['nodes_hist'][b] = d['nodes_hist'].get(b, 0) + 1
        d['depth_hist'][dp] = d['depth_hist'].get(dp, 0) + 1
        for p, cl in paths_cls(c['tops'][0]).items():
            d['classes'][cl] = d['classes'].get(cl, 0) + 1
    return d
