"""C17 -- legacy EMD 0.1 files are imported faithfully; everything else is refused."""
import random
from harness import legacy as L
from harness.legacy import run_all, emit, COQ_IMPORTS, CASETY, CHECKFN

PROP = 'C17'
TARGETS = ['Props/C17.vo', 'Corr/XLegacy.vo']
PROPS_FILE = 'Props/C17.v'
RULE = ('generated EMD 0.1 files: 1-5 data groups (tagged emd_group_type = 1) at depth 0-5 below ordinary groups, rank 1-4, 7 dtypes, '
        'full-length int or float dim vectors with names/units, with or without unrelated groups / datasets / version attributes; a '
        'few malformed ones (missing data, missing dim, dim without attributes, wrong dim length, same-named groups); non-EMD HDF5 '
        'files (empty, plain, header without roots, wrong major / minor / header type, roots without header, group type "1" as string '
        'or 2, version 1.1 with a 0.1 group inside) and junk bytes; non-trivial = distinct files for which read returned data')
MODELLED = ['h5py visititems order (name order, pre-order)', 'data and dim vectors by token (first element) + length']
ASSUMPTIONS = ['data groups with pairwise distinct names (known finding: same-named groups)']


def cases(seed, tier):
    rng = random.Random(seed * 19 + 17)
    n = 300 if tier == 'quick' else 9000
    out = [L.gen_legacy(rng) for _ in range(n)] + [L.gen_other(rng) for _ in range(n // 2)]
    for c in out:
        c['pre'] = rng.choice([None, None, 'emd1', 'plain'])     # what sat at the same path before (and was read) in the same process
    return out


def oracle(c, r):
    where = str(c)[:200]
    if not r['sha_unchanged']:
        return {'key': 'file-modified-by-read', 'what': where}
    if c['kind'] == 'other':
        if c['what'] == 'v1_with_legacy':
            # not EMD 1.0 (minor version 1) but it contains an EMD 0.1 data group: must be imported
            if r['raised'] or r['res'][0] != 'array' or r['res'][1]['tok'] != c['n']:
                return {'key': 'legacy-group-in-foreign-file-not-imported', 'what': where}
            return None
        if not r['raised']:
            return {'key': 'non-emd-file-returned-data', 'what': where + f": read returned {r['res'][0]}"}
        return None
    gs = c['groups']
    malformed = any(g['nodata'] or any(d['missing'] or d['noattrs'] or d['len'] != g['shape'][i] for i, d in enumerate(g['dims'])) for g in gs)
    names = [g['name'] for g in gs]
    written = []
    seen_paths = set()
    for g in gs:
        key = ('/'.join(g['path']), g['name'])
        if key in seen_paths:
            continue
        seen_paths.add(key); written.append(g)
    if malformed:
        return None            # outside the statement (refusal or import of what is there are both acceptable)
    if r['raised']:
        return {'key': 'legacy-file-refused', 'what': where + f": read raised {r['exc']}"}
    if len(written) == 1:
        if r['res'][0] != 'array':
            return {'key': 'single-group-not-an-array', 'what': where + f": got {r['res'][0]}"}
        arrs = [r['res'][1]]
    else:
        if r['res'][0] != 'root':
            return {'key': 'several-groups-not-a-root', 'what': where + f": got {r['res'][0]}"}
        arrs = r['res'][1]
    byname = {}
    for a in arrs:
        byname.setdefault(a['name'], []).append(a)
    for g in written:
        if [x['name'] for x in written].count(g['name']) > 1:
            if len(arrs) < len(written):
                return {'key': 'legacy-duplicate-group-names', 'what': 'two 0.1 data groups with the same name (under different parents): one of them is missing from the returned root'}
            continue
        if g['name'] not in byname:
            return {'key': 'data-group-missing', 'what': where + f": group {g['name']!r} not in the result"}
        a = byname[g['name']][0]
        if a['shape'] != g['shape'] or a['tok'] != (g['tok'] if g['dtype'] != 'bool' else 1) or a['dtype'] != g['dtype']:
            return {'key': 'data-differs', 'what': where + f": group {g['name']!r}: {a['shape']} {a['tok']} {a['dtype']}"}
        for i, d in enumerate(g['dims']):
            ad = a['dims'][i]
            if (ad['tok'], ad['len'], ad['name'], ad['units']) != (d['tok'], d['len'], d['name'], d['units']):
                return {'key': 'dim-differs', 'what': where + f": group {g['name']!r} axis {i}: {ad} vs dim{i + 1} {d}"}
    return None


def pick_smallest(cases_, idxs):
    return min(idxs, key=lambda i: len(str(cases_[i])))


def nontrivial(cases_, results):
    return len({str(c) for c, r in zip(cases_, results) if not isinstance(r, list) and not r['raised']})


def samples(cases_, results):
    return [cases_[0], cases_[-1]]


def distribution(cases_, results):
    d = {'legacy': 0, 'other': {}, 'returned': 0, 'raised': 0, 'ngroups': {}}
    for c, r in zip(cases_, results):
        if c['kind'] == 'legacy':
            d['legacy'] += 1; n = len(c['groups']); d['ngroups'][n] = d['ngroups'].get(n, 0) + 1
        else:
            d['other'][c['what']] = d['other'].get(c['what'], 0) + 1
        if not isinstance(r, list):
            d['raised' if r['raised'] else 'returned'] += 1
    return d
