"""C03 -- Metadata round-trip: every supported value kind, at any nesting depth."""
import random
from harness import md as M
from harness.md import run_all, emit, COQ_IMPORTS, CASETY, CHECKFN

PROP = 'C03'
TARGETS = ['Props/C03.vo', 'Corr/XMd.vo']
PROPS_FILE = 'Props/C03.v'
RULE = ('documented value kinds: a pool of scalars (+-0.0, nan, +-inf, denormal, 1e300, 2^63-1, -2^63, 2^53, empty / non-ASCII / 300-char '
        'strings, None, bools, complex), arrays of 10 dtypes incl. 0-d, empty, big-endian, every tuple / list form (empty, numbers '
        'of one kind or mixed, arrays, strings, tuples of flat tuples; lists / tuples of 10-21 distinct members), dicts of these; each leaf kind at top level and under 1..6 '
        'levels of dict nesting; Metadata attached to the root, an inner node or a leaf Array, with a second Metadata beside it; '
        'the raw file item, the read-back value and a second generation are recorded; non-trivial = distinct values that are a '
        'sequence, an array or a dict')
MODELLED = ['numpy promotion of number sequences (bool<int<float<complex), 0-d datasets and .item(), tuple(array) -> numpy scalars, h5py refusing U/O dtypes and NUL in strings',
            'array contents by token']
ASSUMPTIONS = ['ints in int64; in a sequence mixing ints and floats every int is exactly representable in binary64 (known finding F19)',
               'the literal string "_None" is excluded (known finding F10)']


def cases(seed, tier):
    rng = random.Random(seed * 53 + 3)
    out = []
    # every leaf pool value at top level and nested
    leaves = [['int', z] for z in M.INTS] + [['float', float(f).hex()] for f in M.FL] + [['str', s] for s in M.STRS[:8]] + \
             [['bool', True], ['bool', False], ['none'], ['complex', (1.5).hex(), (-2.0).hex()], ['complex', float('nan').hex(), (0.0).hex()]] + \
             [['arr', dt, sh, 1] for dt in M.ARR_DTYPES for sh in ([], [0], [3], [2, 2])]
    for v in leaves:
        out.append({'v': v, 'where': 'root'})
        d = rng.choice([1, 2, 3, 6])
        out.append({'v': M.nest(v, d, rng), 'where': rng.choice(['root', 'node', 'leaf'])})
    out.append({'v': ['tuple', [['int', 2 ** 53 + 1], ['float', (0.5).hex()]]], 'where': 'root'})
    # one dict / list object referenced several times below a key (a DAG, not a cycle): stored and read back like separate equal values
    inner = ['dict', [['px', ['float', (0.5).hex()]], ['unit', ['str', 'nm']]]]
    lst = ['list', [['str', 'a'], ['str', 'b']]]
    for v in (['dict', [['x', inner], ['y', inner]]],
              ['dict', [['q', inner], ['more', ['dict', [['r', ['dict', [['again', inner]]]]]]]]],
              ['dict', [['l1', lst], ['l2', lst], ['d', ['dict', [['l3', lst]]]]]],
              ['dict', [['a', ['dict', [['in', inner]]]], ['b', ['dict', [['in', inner]]]]]]):
        for where in ('root', 'node', 'leaf'):
            out.append({'v': v, 'where': where, 'alias': True})
    # long sequences stored one dataset per member (member names '0'..'9','10',...): order, kind and length survive
    for L in (10, 11, 12, 21):
        for kind in ('list', 'tuple'):
            seqs = [[['str', 'item %02d %s' % (i, 'zyx'[i % 3])] for i in range(L)],
                    [['arr', 'int64' if i % 2 else 'float32', [i % 4 + 1], i] for i in range(L)]]
            if kind == 'tuple':
                seqs.append([['tuple', [['int', i], ['int', 100 - i]]] for i in range(L)])
            for q in seqs:
                v = [kind, q]
                out.append({'v': v, 'where': rng.choice(['root', 'node', 'leaf'])})
                out.append({'v': M.nest(v, rng.choice([1, 2]), rng), 'where': 'node'})
    out.append({'v': ['dict', [['a', ['str', '_None']]]], 'where': 'node'})
    n = 500 if tier == 'quick' else 40000
    for _ in range(n):
        v = M.g_documented(rng)
        if rng.random() < 0.3:
            v = M.nest(v, rng.choice([1, 2, 4]), rng)
        c = {'v': v, 'where': rng.choice(['root', 'root', 'node', 'leaf'])}
        if c['where'] != 'root' and rng.random() < 0.25:
            c['share_root'] = True       # one Metadata instance attached to the node AND to the root of its tree
        out.append(c)
    return out


def find_bigint_mixed(v):
    """a sequence mixing ints beyond 2^53 with floats/complex (F19)"""
    if v[0] in ('tuple', 'list'):
        floatlike = lambda x: x[0] in ('float', 'complex') or (x[0] == 'np' and x[1].lstrip('<>=').startswith(('float', 'complex')))
        bigint = lambda x: (x[0] == 'int' and abs(x[1]) > 2 ** 53) or (x[0] == 'np' and x[1].lstrip('<>=').startswith(('int', 'uint')) and x[2][0] == 'int' and abs(x[2][1]) > 2 ** 53)
        if any(floatlike(x) for x in v[1]) and any(bigint(x) for x in v[1]):
            return True
        return any(find_bigint_mixed(x) for x in v[1] if x[0] in ('tuple', 'list', 'dict'))
    if v[0] == 'dict':
        return any(find_bigint_mixed(x) for _, x in v[1])
    return False


def has_none_sentinel(v):
    if v[0] == 'str':
        return v[1] == '_None'
    if v[0] in ('tuple', 'list'):
        return any(has_none_sentinel(x) for x in v[1])
    if v[0] == 'dict':
        return any(has_none_sentinel(x) for _, x in v[1])
    return False


def oracle(case, r):
    v = case['v']
    where = f"value {str(v)[:160]} on {case.get('where')}"
    if 'build_exc' in r:
        return None
    if not r['saved']:
        return {'key': 'documented-value-rejected', 'what': where + f": save raised {r['save_exc']}"}
    if not r.get('read'):
        return {'key': 'read-raised', 'what': where + f": read raised {r.get('read_exc')}"}
    if r.get('md_names') != ['m', 'other'] or not r.get('other_ok'):
        return {'key': 'metadata-instances', 'what': where + f": Metadata instances read back: {r.get('md_names')}"}
    if r.get('back') is None:
        return {'key': 'key-lost', 'what': where + ': key missing after read'}
    bad = M.has_other(r['back'])
    o, b = M.build(v), (None if bad else M.build(r['back']))
    if bad or not M.py_equiv(o, b):
        if find_bigint_mixed(v):
            return {'key': 'int-beyond-2^53-in-float-sequence', 'what': where + ': an int beyond 2^53 in a sequence with floats comes back changed'}
        if has_none_sentinel(v):
            return {'key': 'string-_None-reads-as-None', 'what': where}
        return {'key': 'value-differs', 'what': where + f": came back as {str(r['back'])[:160]}"}
    return None


def pick_smallest(cases_, idxs):
    return min(idxs, key=lambda i: len(str(cases_[i]['v'])))


def nontrivial(cases_, results):
    return len({str(c['v']) for c in cases_ if c['v'][0] in ('tuple', 'list', 'dict', 'arr')})


def samples(cases_, results):
    return [{'value': c['v'], 'where': c['where']} for c in cases_[-3:]]


def distribution(cases_, results):
    d = {'kind': {}, 'saved': 0, 'save_raised': 0, 'where': {}}
    for c, r in zip(cases_, results):
        d['kind'][c['v'][0]] = d['kind'].get(c['v'][0], 0) + 1
        d['where'][c['where']] = d['where'].get(c['where'], 0) + 1
        if not isinstance(r, list) and 'saved' in r:
            d['saved' if r['saved'] else 'save_raised'] += 1
    return d
