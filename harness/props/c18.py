"""C18 -- a save that fails does not damage what the file already held."""
import copy, random
from harness import tree as T, fileabs as FA, core
COQ_IMPORTS = 'From Emd Require Import Base.Prelude Model.H5 Model.Emd Model.Fault Corr.XFault.'
CASETY = 'fcase'
from harness.props import c09

PROP = 'C18'
TARGETS = ['Props/C18.vo', 'Corr/XTree.vo', 'Corr/XFault.vo']
PROPS_FILE = 'Props/C18.v'
CHECKFN = 'check'
RULE = ('(file tree, runtime tree) pairs as in C09 plus a second, untargeted tree in the file; append and append-over saves (whole '
        'root, inner targets, with emdpath) with an injected failure of the k-th HDF5 mutation (create group / dataset / attribute, '
        'move, link, delete): every k for small cases, a sample incl. first/last/inside the replace sequence otherwise; plus natural '
        'failures (name clash deep in the runtime tree, bad emdpath); after the raised save: raw walk of the file and a targeted read '
        'of every pre-existing node path with the package reader; non-trivial = distinct (case, fault point) whose save raised after '
        'at least one mutation')
MODELLED = ['a failing HDF5 mutation is modelled as raising before it takes effect; double faults (a fault during rollback) and '
            'process crashes are outside the model']
ASSUMPTIONS = ['single fault per save']
AO = ('ao', 'oa', 'o+', '+o', 'appendover')


def base_cases(seed, tier):
    rng = random.Random(seed * 41 + 18)
    out = []
    n = 60 if tier == 'quick' else 1500
    for c in c09.cases(seed + 5, 'quick' if tier == 'quick' else 'thorough'):
        if len(out) >= n:
            break
        if c['kind'] == 'seq':
            continue
        if any(T.spec_at(t, q)['name'].startswith('_tmp_') for t in c['tops'] for q in T.all_paths(t) if q):
            continue          # user nodes called like the scratch name of a sibling: outside the fault model's domain (see C09 / C05)
        ft, rt = c['tops']
        if rng.random() < 0.3:
            arrs = [p for p in T.all_paths(rt) if T.spec_at(rt, p)['cls'] == 'Array']
            if arrs:   # a natural failure deep in the runtime tree: a child called like one of the Array's own datasets
                T.spec_at(rt, rng.choice(arrs))['kids'].append({'cls': 'Node', 'name': rng.choice(['data', 'dim0']), 'tok': 0, 'rank': 0, 'mds': [], 'kids': []})
        if c['kind'] == 'F' and rng.random() < 0.6 and rt['kids']:
            # a foreign tree placed under an emdpath whose target already holds a child of that name: the save fails on the name
            ep = (c['steps'][1].get('emdpath') or '').lstrip('/').split('/')[1:]
            try:
                tgt = T.spec_at(ft, ep)
                if tgt['kids']:
                    kid, new = rng.choice(rt['kids']), rng.choice(tgt['kids'])['name']
                    if new not in {k['name'] for k in rt['kids']}:
                        old = kid['name']; kid['name'] = new
                        tp1 = c['steps'][1]['tp']
                        if tp1 and tp1[0] == old:
                            c['steps'][1]['tp'] = [new] + list(tp1[1:])
            except Exception:
                pass
        # the untargeted tree holds siblings called 'a' and '_tmp_a' now and then: a failing save elsewhere must not touch either
        other = T.rand_tree(rng, 'q', rng.choice([2, 3]), names=['a', '_tmp_a', 'b'], md_p=0.5, max_depth=1)
        st = dict(c['steps'][1])
        old_paths = ['/'.join(['r'] + p) for p in T.all_paths(ft)] + ['/'.join(['q'] + p) for p in T.all_paths(other)]
        st['probe'] = old_paths
        out.append({'tops': [ft, rt, other], 'steps': [
            {'op': 'save', 'file': 0, 'top': 0, 'tp': [], 'mode': 'w', 'tree': True},
            {'op': 'save', 'file': 0, 'top': 2, 'tp': [], 'mode': 'a', 'tree': True},
            st], 'kind': c['kind']})
    # saves that fail on a name already taken in the group being written to: a new child of an Array called like one of the Array's
    # own datasets; a foreign tree placed under an emdpath whose target already holds a child of that name
    def nd(name, cls='Node', kids=()):
        return {'cls': cls, 'name': name, 'tok': T.fresh_tok() if cls != 'Node' else 0, 'rank': 1 if cls == 'Array' else 0,
                'mds': [['m1', T.fresh_tok()]] if rng.random() < 0.4 else [], 'kids': list(kids)}
    for i in range(max(4, n // 5)):
        ft = {'cls': 'Root', 'name': 'r', 'tok': 0, 'rank': 0, 'mds': [], 'kids': [
            nd('arr', 'Array', [nd('x', rng.choice(['Node', 'PointList']))]), nd('keep', rng.choice(['Node', 'Array']), [nd('sub', 'PointList')])]}
        other = T.rand_tree(rng, 'q', 2, names=['a', 'b'], md_p=0.5)
        old_paths = ['/'.join(['r'] + p_) for p_ in T.all_paths(ft)] + ['/'.join(['q'] + p_) for p_ in T.all_paths(other)]
        if i % 2 == 0:
            rt = copy.deepcopy(ft)
            arr = rt['kids'][0]
            arr['kids'] = ([nd('fresh')] if rng.random() < 0.5 else []) + arr['kids'] + [nd(rng.choice(['data', 'dim0']), rng.choice(['Node', 'Array']))] + ([nd('later')] if rng.random() < 0.5 else [])
            st = {'op': 'save', 'file': 0, 'top': 1, 'tp': rng.choice([[], ['arr']]), 'mode': rng.choice(['a', 'append', 'ao']), 'tree': rng.choice([True, None]), 'probe': old_paths}
            kind = 'A'
        else:
            rt = {'cls': 'Root', 'name': 'other', 'tok': 0, 'rank': 0, 'mds': [], 'kids': ([nd('fresh')] if rng.random() < 0.5 else []) + [nd(rng.choice(['keep', 'arr']), rng.choice(['Node', 'Array']), [nd('deep')])]}
            tp = rng.choice([[], [rt['kids'][-1]['name']]])
            st = {'op': 'save', 'file': 0, 'top': 1, 'tp': tp, 'mode': rng.choice(['a', 'ao']), 'tree': True if tp else rng.choice([True, None]), 'emdpath': 'r', 'probe': old_paths}
            kind = 'F'
        out.append({'tops': [ft, rt, other], 'steps': [
            {'op': 'save', 'file': 0, 'top': 0, 'tp': [], 'mode': 'w', 'tree': True},
            {'op': 'save', 'file': 0, 'top': 2, 'tp': [], 'mode': 'a', 'tree': True},
            st], 'kind': kind, 'oracle_only': True})
    # a failing append after an earlier, successful append of the same process added a branch to the same tree: what that earlier
    # append added is in the file now and stays (tops[2] is a tree called 'r' too here: step 1 appends it into the tree of step 0)
    for i in range(max(3, n // 10)):
        ft = {'cls': 'Root', 'name': 'r', 'tok': 0, 'rank': 0, 'mds': [], 'kids': [nd('arr', 'Array', [nd('x')]), nd('keep', 'Node', [nd('sub', 'PointList')])]}
        hist = {'cls': 'Root', 'name': 'r', 'tok': 0, 'rank': 0, 'mds': [], 'kids': [nd('earlier', rng.choice(['Node', 'Array']), [nd('e2', 'Array')]), nd('keep', 'Node', [nd('e3')])]}
        rt = {'cls': 'Root', 'name': 'r', 'tok': 0, 'rank': 0, 'mds': [], 'kids': [nd('keep', 'Node', [nd('late1', 'Array')]), nd('late2', 'Array', [nd(rng.choice(['data', 'dim0', 'fine']))]), nd('late3')]}
        old_paths = ['/'.join(['r'] + p_) for p_ in T.all_paths(ft)] + ['/'.join(['r'] + p_) for p_ in T.all_paths(hist) if p_]
        out.append({'tops': [ft, rt, hist], 'steps': [
            {'op': 'save', 'file': 0, 'top': 0, 'tp': [], 'mode': 'w', 'tree': True},
            {'op': 'save', 'file': 0, 'top': 2, 'tp': [], 'mode': 'a', 'tree': True},
            {'op': 'save', 'file': 0, 'top': 1, 'tp': [], 'mode': ['a', 'ao', 'append'][i % 3], 'tree': True, 'probe': old_paths}], 'kind': 'H', 'oracle_only': True})
    # list saves into a file that already holds the shared root of an earlier list save (and another tree): a failing second list
    # save must leave the first list's items where they were
    for i in range(max(2, n // 6)):
        mk = lambda nm, cls: {'cls': cls, 'name': nm, 'tok': T.fresh_tok() if cls != 'Node' else 0, 'rank': 1 if cls == 'Array' else 0,
                              'mds': [['m1', T.fresh_tok()]] if rng.random() < 0.5 else [], 'kids': []}
        u0, u1 = mk('first', rng.choice(['Array', 'Node', 'PointList'])), mk('second', rng.choice(['Array', 'Node', 'PointList']))
        other = T.rand_tree(rng, 'q', 2, names=['a', 'b'], md_p=0.5)
        items2 = [{'kind': 'top', 'top': 1, 'tp': []}] + ([{'kind': 'arr', 'tok': T.fresh_tok(), 'rank': 1}] if rng.random() < 0.6 else []) + \
            ([{'kind': 'top', 'top': 2, 'tp': [other['kids'][0]['name']]}] if other['kids'] and rng.random() < 0.4 else [])
        rng.shuffle(items2)
        out.append({'tops': [u0, u1, other], 'steps': [
            {'op': 'save', 'file': 0, 'input': {'kind': 'list', 'items': [{'kind': 'top', 'top': 0, 'tp': []}, {'kind': 'arr', 'tok': T.fresh_tok(), 'rank': 2}]}, 'mode': 'w', 'tree': True},
            {'op': 'save', 'file': 0, 'top': 2, 'tp': [], 'mode': 'a', 'tree': True},
            {'op': 'save', 'file': 0, 'input': {'kind': rng.choice(['list', 'tuple']), 'items': items2}, 'mode': rng.choice(['a', 'ao', 'append']), 'tree': True,
             'probe': ['root_savedlist/first', 'root_savedlist/array_0'] + ['/'.join(['q'] + p) for p in T.all_paths(other)]}], 'kind': 'L'})
    return out


def _dry(args):
    c, scratch = args
    c2 = copy.deepcopy(c)
    c2['steps'][2]['fault'] = -1
    try:
        return T.run_scenario(c2, scratch)[2].get('mut_kinds', [])
    except BaseException:
        return []


def cases(seed, tier):
    rng = random.Random(seed)
    base = base_cases(seed, tier)
    import tempfile, shutil
    d = core.scratch_dir()
    try:
        ns = core.pmap(_dry, [(c, d) for c in base])
    finally:
        shutil.rmtree(d, ignore_errors=True)
    out = []
    for c, kinds in zip(base, ns):
        n = len(kinds)
        ks = list(range(n))
        limit = 14 if tier == 'quick' else 400
        if len(ks) > limit:
            # always: first/last, every step of a replace sequence (move, link, delete) and the mutation after it
            crit = {i for i, k in enumerate(kinds) if k in ('move', '__setitem__', '__delitem__')}
            crit |= {i + 1 for i in crit if i + 1 < n}
            crit = sorted(crit)
            if len(crit) > 40:
                crit = rng.sample(crit, 40)
            ks = sorted(set([0, 1, n - 1, n - 2] + crit + rng.sample(ks, limit - 4)))
        for k in ks + [None]:
            c2 = copy.deepcopy(c)
            if k is not None:
                c2['steps'][2]['fault'] = k
            c2['n_mut'] = n
            out.append(c2)
    return out


def run_all(cases_, scratch):
    return T.run_all(cases_, scratch)


def emit(cases_, results, shard=150):
    """whole-root appends (diffmerge A, data is the root, tree True/None) go to the fault model"""
    sel = []
    for i, (c, r) in enumerate(zip(cases_, results)):
        st = c['steps'][2]
        if c['kind'] == 'A' and not c.get('oracle_only') and not st.get('tp', ['x']) and st.get('emdpath') is None and st['tree'] is not False and len(r) > 2 \
                and not r[0]['raised'] and not r[1]['raised'] and r[1]['slot'][0] == 'H5' and r[2]['slot'][0] == 'H5':
            sel.append(i)
    shards = []
    for k in range(0, len(sel), shard):
        em = T.Em()
        terms, idx = [], []
        for i in sel[k:k + shard]:
            c, r = cases_[i], results[i]
            ft = c['tops'][0]
            paths = coqlist_paths(em, [['r'] + p for p in T.all_paths(ft)])
            ao = c['steps'][2]['mode'] in AO
            terms.append(f"({em.obj(r[1]['slot'][1])}, {em.rnode(c['tops'][1])}, {core.coqbool(ao)}, {paths}, {em.obj(r[2]['slot'][1])}, {core.coqbool(r[2]['raised'])})")
            idx.append(i)
        shards.append((em.I.defs, terms, idx))
    return shards


def coqlist_paths(em, ps):
    return core.coqlist([em.path(p) for p in ps])


def oracle(case, obs):
    ft, rt, other = case['tops']
    st, o = case['steps'][2], obs[2]
    if obs[0]['raised'] or obs[1]['raised'] or not o['raised']:
        return None
    before, after = obs[1]['slot'], o['slot']
    ao = st['mode'] in AO
    where = f"mode={st['mode']} tree={st['tree']} tp=/{'/'.join(st.get('tp', ['<list>']))} emdpath={st.get('emdpath')} fault={st.get('fault')} ({o.get('fault_at')})"
    if after[0] != 'H5':
        return {'key': 'file-destroyed', 'what': where + ': file is no longer HDF5'}
    names = {T.spec_at(t, p)['name'] for t in case['tops'] for p in T.all_paths(t)}
    scratch = [x for x in FA.has_scratch(after) if x.split('/')[-1] not in names]
    if scratch:
        return {'key': 'scratch-left-behind', 'what': where + f': scratch groups left: {scratch[:3]}'}
    if FA.tree_map(after, 'q') != FA.tree_map(before, 'q'):
        return {'key': 'untargeted-tree-changed', 'what': where + ': the tree q was not targeted but changed'}
    if case.get('kind') == 'L':
        # a failing list save: the shared root of the earlier list save must still hold what it held (nodes may have been ADDED)
        F, Aft = FA.tree_map(before, 'root_savedlist'), FA.tree_map(after, 'root_savedlist')
        if Aft is None:
            return {'key': 'tree-gone', 'what': where + ': the tree root_savedlist of the earlier list save is gone'}
        for p, c in F.items():
            if p not in Aft:
                return {'key': 'existing-node-lost', 'what': where + f': node root_savedlist/{"/".join(p)} is gone'}
            if p and Aft[p][:3] != c[:3] and st['mode'] not in AO:
                return {'key': 'existing-node-changed', 'what': where + f': node root_savedlist/{"/".join(p)} changed'}
        F, Aft, R = {}, {}, {}
    else:
        F, Aft, R = FA.tree_map(before, 'r'), FA.tree_map(after, 'r'), FA.runtime_map(rt)
    if Aft is None:
        return {'key': 'tree-gone', 'what': where}
    for p, c in F.items():
        if p not in Aft:
            return {'key': 'existing-node-lost', 'what': where + f': node /{"/".join(p)} is gone'}
        if Aft[p][:2] != c[:2] or (p and Aft[p][2] != c[2]):
            if ao and p in R and Aft[p][:3] == R[p][:3]:
                return {'key': 'ao-node-replaced-before-failure', 'what': where + f': node /{"/".join(p)} already holds the new content'}
            return {'key': 'existing-node-changed', 'what': where + f': node /{"/".join(p)} changed: {c[:3]} -> {Aft[p][:3]}'}
        if not p and Aft[p][2] != c[2]:
            # root metadata: entries may have been added by the failed save, never lost or changed (append mode)
            old, new = dict(c[2]), dict(Aft[p][2])
            for k, v in old.items():
                if k not in new:
                    return {'key': 'root-metadata-entry-lost' + ('-ao' if ao else ''), 'what': where + f': root metadata entry {k} is gone'}
                if new[k] != v:
                    if ao and dict(R[()][2]).get(k) == new[k]:
                        return {'key': 'ao-node-replaced-before-failure', 'what': where + f': root metadata {k} already holds the new content'}
                    return {'key': 'root-metadata-entry-changed', 'what': where + f': root metadata entry {k}: {v} -> {new[k]}'}
    # individually readable, returning what it held before
    pb, pa = o.get('probe_before', {}), o.get('probe_after', {})
    for ep in pb:
        if pa.get(ep) != pb[ep]:
            b, a = pb[ep], pa.get(ep)
            if isinstance(a, str) and a.startswith('RAISED'):
                k = 'root' if '/' not in ep else 'node'
                return {'key': f'existing-{k}-unreadable', 'what': where + f': reading {ep} individually now raises ({a})'}
            if ao:
                continue     # content differences in ao mode are classified above
            if isinstance(a, list) and isinstance(b, list) and a[:4] == b[:4] and '/' not in ep:
                continue     # root metadata additions, classified above
            return {'key': 'existing-node-reads-differently', 'what': where + f': {ep}: {b} -> {a}'}
    return None


def pick_smallest(cases_, idxs):
    return min(idxs, key=lambda i: (T.count_nodes(cases_[i]['tops'][0]) + T.count_nodes(cases_[i]['tops'][1]), cases_[i]['steps'][2].get('fault') or 0))


def nontrivial(cases_, results):
    s = set()
    for c, r in zip(cases_, results):
        if len(r) > 2 and r[2].get('raised') and (c['steps'][2].get('fault') or 0) > 0:
            s.add(repr(c['tops'])[:300] + repr(c['steps'][2]))
    return len(s)


def samples(cases_, results):
    out = []
    for c, r in list(zip(cases_, results))[:3]:
        out.append({'file_tree': c['tops'][0], 'runtime_tree': c['tops'][1], 'save': {k: v for k, v in c['steps'][2].items() if k != 'probe'},
                    'n_mutations': c.get('n_mut'), 'fault_at': r[2].get('fault_at') if len(r) > 2 else None})
    return out


def distribution(cases_, results):
    d = {'raised': 0, 'completed': 0, 'fault_kind': {}, 'natural_failures': 0, 'mode': {}}
    for c, r in zip(cases_, results):
        if len(r) < 3:
            continue
        o = r[2]
        d['raised' if o['raised'] else 'completed'] += 1
        if o.get('fault_at'):
            k = o['fault_at'].split(' ')[0]; d['fault_kind'][k] = d['fault_kind'].get(k, 0) + 1
        if o['raised'] and c['steps'][2].get('fault') is None:
            d['natural_failures'] += 1
        m = 'ao' if c['steps'][2]['mode'] in AO else 'a'
        d['mode'][m] = d['mode'].get(m, 0) + 1
    return d
