"""C16 -- anything read can be saved again, and a second generation equals the first."""
import random
from harness import core, md as M, arrays as A, pl as P, legacy as L, tree as T, classes as K
from harness.md import COQ_IMPORTS, CASETY, CHECKFN
from harness.props import c02, c03, c04, c17

PROP = 'C16'
TARGETS = ['Props/C16.vo', 'Corr/XMd.vo']
PROPS_FILE = 'Props/C16.v'
RULE = ('every object returned by read is saved to a fresh file and read again, for 2-3 generations: (m) the documented metadata values '
        'of C03; (a) the Arrays of C02 (all dims forms, dtypes, layouts, stacks); (p) the PointLists / PointListArrays of C04; (l) the '
        'legacy 0.1 files of C17 (the imported Array or root); (t) trees read in full, by node (tree=False), by branch (tree=True) and '
        'below a node (tree=None), incl. the Metadata returned for a childless root; the content of generation n+1 is compared with '
        'generation n; non-trivial = distinct objects that went through at least two generations')
MODELLED = ['stream (m) is evaluated against the Coq metadata model; the other streams are decided by the oracle on real behaviour']
ASSUMPTIONS = ['the documented domain of C01-C04 and the legacy files of C17']


def cases(seed, tier):
    rng = random.Random(seed * 29 + 16)
    q = tier == 'quick'
    out = [dict(c, stream='m') for c in c03.cases(seed + 3, tier)[: (300 if q else 10 ** 9)]]
    out += [dict(c, stream='a') for c in c02.cases(seed + 3, tier)[: (250 if q else 10 ** 9)]]
    out += [dict(c, stream='p') for c in c04.cases(seed + 3, tier)[: (200 if q else 10 ** 9)]]
    out += [dict(c, stream='l') for c in c17.cases(seed + 3, tier)[: (150 if q else 10 ** 9)] if c['kind'] == 'legacy' or c.get('what') == 'v1_with_legacy']
    for i in range(60 if q else 3000):
        t = T.rand_tree(rng, rng.choice(['root', 'r']), rng.choice([0, 1, 2, 4, 8, 15]), md_p=0.5)
        if rng.random() < 0.15:
            t['kids'] = []; t['mds'] = [['m1', T.fresh_tok()]]
        steps = [{'op': 'save', 'file': 0, 'top': 0, 'tp': [], 'mode': 'w', 'tree': True}]
        paths = T.all_paths(t); rng.shuffle(paths)
        for p in paths[:4]:
            for tr in (True, False, None):
                steps.append({'op': 'regen', 'file': 0, 'emdpath': '/'.join([t['name']] + p), 'tree': tr, 'gens': 2})
        steps.append({'op': 'regen', 'file': 0, 'tree': True, 'gens': 3})
        out.append({'stream': 't', 'tops': [t], 'steps': steps})
    # trees holding downstream subclasses and composition (Custom) nodes, read with the classes in place, saved again, read again
    for _ in range(40 if q else 2000):
        sc = K.gen_e2e(rng)
        sc['placements'] = [pl for pl in sc['placements'] if pl['how'] == 'top'][:1]
        sc['want_regen'] = True; sc['stream'] = 'k'
        out.append(sc)
    return out


def run_one(args):
    c, scratch = args
    try:
        s = c['stream']
        if s == 'm': return M.run_value(c['v'], scratch, c.get('where', 'root'), c.get('alias', False), c.get('share_root', False))
        if s == 'a': return A.run_scenario(c, scratch)
        if s == 'p': return P.run_case(c, scratch)
        if s == 'l': return L.run_case(c, scratch)
        if s == 'k': return K.run_e2e(c, scratch)
        return T.run_scenario(c, scratch)
    except BaseException:
        import traceback
        return [{'harness_error': traceback.format_exc()[-800:]}]


def run_all(cases_, scratch):
    return core.pmap(run_one, [(c, scratch) for c in cases_])


def emit(cases_, results):
    idx = [i for i, c in enumerate(cases_) if c['stream'] == 'm']
    sub = M.emit([cases_[i] for i in idx], [results[i] for i in idx])
    return [(d, t, [idx[j] for j in im]) for d, t, im in sub]


def tree_content(a):
    """content of an abs_read result, independent of which object was handed back"""
    if a[0] == 'md':
        return ('md', a[1], a[2])
    if a[0] == 'names':
        return ('names', tuple(a[1]))
    def norm(t):
        return (t['cls'], t['name'], t['tok'], t['rank'], tuple(sorted(map(tuple, t['mds']))), tuple(sorted((norm(k) for k in t['kids']), key=repr)))
    if not a[1]['kids'] and len(a[1]['mds']) == 1 and a[1]['cls'] == 'Root':
        # a plain read of a childless root holding one Metadata hands back that Metadata (documented): same content
        return ('md', a[1]['mds'][0][0], a[1]['mds'][0][1])
    return ('tree', norm(a[1]))


def oracle(c, r):
    s = c['stream']
    desc = str({k: v for k, v in c.items() if k not in ('steps', 'tops', 'seed')})[:200]
    if s == 'k':
        from harness.props import c06
        cname_of = {x['id']: x['cname'] for x in c['classes']}
        for spec, pl in zip(c['placements'], r.get('placements', [])):
            if 'nodes' not in pl:
                continue
            # the property's domain has distinct class names: skip module graphs that bind one name to two classes (see C06)
            specs = c06.index_specs(spec['tops'])
            if any(K.reference_candidates(spec['tops'], specs, cname_of[cid]) != {cid} for cid in c['used']) or \
                    any(K.reference_candidates(spec['tops'], specs, b) - {('b', b)} for b in ('Root', 'Metadata', 'Node', 'Array', 'PointList', 'PointListArray', 'Custom')):
                continue
            if 'gen2_exc' in pl:
                return {'key': 'custom-tree-read-result-not-savable', 'what': f"a tree holding subclass / composition nodes, as returned by read, was refused by save or unreadable afterwards: {pl['gen2_exc']}"}
            if pl.get('gen2') != pl['nodes']:
                d = sorted(set(pl['nodes']) ^ set(pl.get('gen2', {}))) or [k for k in pl['nodes'] if pl['nodes'][k] != pl['gen2'].get(k)]
                return {'key': 'custom-tree-second-generation-differs', 'what': f'second generation of a tree holding subclass / composition nodes differs at {d[:4]}'}
        return None
    if s == 'm':
        if 'build_exc' in r or not r.get('saved') or not r.get('read'):
            return None                       # C03's business
        if 'gen2_exc' in r:
            return {'key': 'metadata-read-result-not-savable', 'what': desc + f": {r['gen2_exc']}"}
        if r.get('back2') != r.get('back'):
            b1, b2 = M.build(r['back']), M.build(r['back2']) if not M.has_other(r['back2']) else None
            if M.has_other(r['back2']) or not M.py_equiv(b1, b2):
                return {'key': 'metadata-second-generation-differs', 'what': desc + f": {str(r['back'])[:100]} -> {str(r['back2'])[:100]}"}
        return None
    if s == 'a':
        if r['init'] is None:
            return None
        for op, o in zip(c['ops'], r['ops']):
            if op['op'] == 'save' and 'back' in o:
                if 'gen2_exc' in o:
                    return {'key': 'array-read-result-not-savable', 'what': desc + f": {o['gen2_exc']}"}
                if 'back2' not in o:
                    continue          # the first read-back could not even be inspected: C02's subject
                if not o.get('data_equal2') or not c02.dims_equal(o['back']['dims'], o['back2']['dims']) or \
                        any(o['back'][k] != o['back2'][k] for k in ('shape', 'depth', 'units', 'names', 'labels')):
                    return {'key': 'array-second-generation-differs', 'what': desc + f": {str(o['back'])[:150]} -> {str(o['back2'])[:150]}"}
        return None
    if s == 'p':
        if 'back' not in r:
            return None
        if 'gen2_exc' in r:
            return {'key': 'pointlist-read-result-not-savable', 'what': desc + f": {r['gen2_exc']}"}
        if r.get('back2') != r['back']:
            return {'key': 'pointlist-second-generation-differs', 'what': desc}
        return None
    if s == 'l':
        if r['raised']:
            return None
        if 'gen2_exc' in r:
            return {'key': 'legacy-import-not-savable', 'what': desc + f": {r['gen2_exc']}"}
        a, b = r['res'], r.get('gen2')
        arrs = lambda x: sorted([x[1]] if x[0] == 'array' else x[1], key=lambda t: t['name']) if x[0] in ('array', 'root') else x
        if arrs(a) != arrs(b):
            return {'key': 'legacy-second-generation-differs', 'what': desc + f": {str(a)[:150]} -> {str(b)[:150]}"}
        if 'gen2_same_path' in r and arrs(r['gen2_same_path']) != arrs(a):
            return {'key': 'legacy-second-generation-differs', 'what': desc + ': written over the path it was imported from'}
        return None
    for st, o in zip(c['steps'], r):
        if st['op'] != 'regen':
            continue
        where = f"tree read emdpath={st.get('emdpath')} tree={st['tree']}"
        if o['raised']:
            if not o['gens']:
                return None                  # the first read itself failed: C08's business
            return {'key': 'tree-read-result-not-savable', 'what': where + f": generation {len(o['gens'])}: {o['exc']}"}
        g = [tree_content(x) for x in o['gens']]
        for i in range(1, len(g)):
            if g[i] != g[i - 1]:
                return {'key': 'tree-generation-differs', 'what': where + f": generation {i} differs from generation {i - 1}: {str(o['gens'][i - 1])[:120]} -> {str(o['gens'][i])[:120]}"}
    return None


def pick_smallest(cases_, idxs):
    return min(idxs, key=lambda i: len(str(cases_[i])))


def nontrivial(cases_, results):
    n = set()
    for c, r in zip(cases_, results):
        if isinstance(r, list) and r and isinstance(r[0], dict) and 'harness_error' in r[0]:
            continue
        s = c['stream']
        if (s == 'm' and isinstance(r, dict) and 'back2' in r) or (s == 'p' and 'back2' in r) or (s == 'l' and 'gen2' in r) or \
                (s == 'a' and any('back2' in o for o in r.get('ops', []))) or (s == 't' and any(len(o.get('gens', [])) > 1 for o in r if isinstance(o, dict))):
            n.add(str(c)[:300])
    return len(n)


def samples(cases_, results):
    return [{k: v for k, v in c.items() if k != 'steps'} for c in (cases_[0], cases_[-1])]


def distribution(cases_, results):
    d = {}
    for c in cases_:
        d[c['stream']] = d.get(c['stream'], 0) + 1
    return {'stream': d}
