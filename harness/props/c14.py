"""C14 -- array calibrations match the data: one dim vector per axis, of the axis length."""
import math, random
from fractions import Fraction
from harness import arrays as A
from harness.arrays import run_all, COQ_IMPORTS, CASETY, CHECKFN


def emit(cases_, results):
    return A.emit(cases_, results, with_save=False)

PROP = 'C14'
TARGETS = ['Props/C14.vo', 'Corr/XArr.vo']
PROPS_FILE = 'Props/C14.v'
RULE = ('Arrays of rank 1-4 (1-6 thorough), extents 1-7, every form of dims / dim_units / dim_names (None, shorter, equal, longer than '
        'rank; entries None, int, float, int/float/mixed pair, tuple, numpy array, full linear / non-linear / nearly linear / '
        'decreasing / constant vectors, steps such as 0.1, 1/3, 1e-17, 1e300, denormal), later set_dim / set_dim_units / set_dim_name '
        'calls incl. out-of-range axes, the get_dim / get_dim_units / get_dim_name accessors after every step, label and (label, index...) '
        'indexing, stack arrays with True / full / partial / too-long labels; dim vectors compared bit-exactly '
        'with the PrimFloat model; non-trivial = distinct cases with at least one pair/number entry or a stack')
MODELLED = ["numpy's start + step*np.arange(n) is written out elementwise in binary64 (PrimFloat)", 'bulk data is not modelled here',
            'a setter called with the axis counted from the end (n - rank) is evaluated in the model at the axis n it denotes (Python indexing)']
ASSUMPTIONS = ['integer dim entries within int64']
PARTIAL = 'float ramps: proved are the length and that the values are those of the stated binary64 formula; equality with the exact rational ramp is proved for integers only'


def cases(seed, tier):
    rng = random.Random(seed * 97 + 14)
    return [A.gen_scenario(rng, tier) for _ in range(700 if tier == 'quick' else 30000)]


def vals(d):
    return [A.unlit(x) for x in d[1]]


def same_num(x, y):
    if isinstance(x, float) and isinstance(y, float) and math.isnan(x) and math.isnan(y):
        return True
    return x == y


def check_axis(spec, got, N):
    """None or a description of the mismatch between the dims argument entry and the dim vector"""
    if spec is not None and spec[0] == 'strs':
        if got[0] != 'strs' or got[1] != spec[1]:
            return 'full-length string vector was not kept as given'
        return None
    if got[0] != 'nums':
        return f'dim vector is {got[0]}'
    g = vals(got)
    if len(g) != N:
        return f'dim vector has {len(g)} entries for an axis of extent {N}'
    if spec is None:
        if g != list(range(N)):
            return f'omitted entry gave {g[:4]} instead of 0..N-1'
        return None
    if spec[0] == 'num':
        a, b = 0, A.unlit(spec[1])
    else:
        v = [A.unlit(x) for x in spec[1]]
        if len(v) == N:
            if not all(same_num(x, y) for x, y in zip(v, g)):
                return 'full-length vector was not kept as given'
            return None
        a, b = v[0], v[1]
    if any(isinstance(x, float) and (math.isnan(x) or math.isinf(x)) for x in (a, b)):
        return None
    ex = A.exact_ramp(a, b, N)
    scale = max(abs(Fraction(a)), abs(Fraction(b)), abs(ex[-1]) if ex else 0)
    for i, (x, q) in enumerate(zip(g, ex)):
        if isinstance(a, int) and isinstance(b, int):
            if not (isinstance(x, int) and Fraction(x) == q):
                return f'integer ramp entry {i} is {x!r}, expected {q}'
        elif not A.close(x, q, scale):
            return f'ramp entry {i} is {x!r}, exact ramp gives {float(q)!r}'
    return None


def invariants(o, datashape, stack):
    shape = datashape[1:] if stack else datashape
    if o['shape'] != shape or o['rank'] != len(shape) or (o['depth'] != (datashape[0] if stack else None)):
        return f"shape/rank/depth {o['shape']}/{o['rank']}/{o['depth']} for data shape {datashape}"
    if not (o['n_dims'] == o['n_units'] == o['n_names'] == len(shape)):
        return f"{o['n_dims']} dim vectors, {o['n_units']} units, {o['n_names']} names for rank {len(shape)}"
    for n, d in enumerate(o['dims']):
        if len(d[1]) != shape[n]:
            return f'dim vector {n} has {len(d[1])} entries, axis extent {shape[n]}'
    return None


def oracle(case, obs):
    stack = case['labels'] is not None
    ds = case['datashape']
    shape = ds[1:] if stack else ds
    rank = len(shape)
    bad_strs = lambda spec, n: spec is not None and spec[0] == 'strs' and len(spec[1]) != n
    if obs['init'] is None and any(bad_strs(d, shape[n]) for n, d in enumerate((case['dims'] or [])[:rank])):
        return None          # a string vector of the wrong length is refused (documented)
    if obs['init'] is None:
        return {'key': 'construction-raised', 'what': f"Array(...) raised {obs.get('init_exc')} for dims={case['dims']} shape={ds}"}
    o = obs['init']
    e = invariants(o, ds, stack)
    if e:
        return {'key': 'one-dim-vector-per-axis', 'what': e}
    for oo in [o] + [x['arr'] for x in obs['ops'] if x.get('arr')] + [s['arr'] for x in obs['ops'] for s in x.get('slices', []) if s.get('arr')]:
        if oo.get('accessors'):
            return {'key': 'dim-accessors', 'what': oo['accessors']}
    dims = case['dims'] or []
    for n in range(rank):
        spec = dims[n] if n < len(dims) else None
        if spec is not None and spec[0] in ('arr', 'tuple'):
            spec = A.canon_dimspec(spec) if spec[0] == 'arr' else ['list', spec[1]]
        e = check_axis(spec, o['dims'][n], shape[n])
        if e:
            k = 'ramp-length' if 'entries for an axis' in e else 'ramp-values' if 'ramp' in e else 'dim-vector'
            return {'key': k, 'what': f'axis {n} dims entry {spec}: {e}'}
        given_u = case['units'][n] if case['units'] is not None and n < len(case['units']) else None
        exp_u = given_u if given_u is not None else ('pixels' if spec is None else 'unknown')
        if o['units'][n] != exp_u:
            return {'key': 'units-supplied-not-kept' if given_u is not None else 'default-units', 'what': f"axis {n}: unit {o['units'][n]!r}, expected {exp_u!r} (dim_units={case['units']}, dims entry {spec})"}
        given_n = case['names'][n] if case['names'] is not None and n < len(case['names']) else None
        exp_n = given_n if given_n is not None else f'dim{n}'
        if o['names'][n] != exp_n:
            return {'key': 'names', 'what': f"axis {n}: name {o['names'][n]!r}, expected {exp_n!r}"}
    if stack:
        lab = case['labels']
        depth = ds[0]
        exp = [f'array{i}' for i in range(depth)] if lab is True else (list(lab) + [f'array{i}' for i in range(len(lab), depth)])[:depth]
        if o['labels'] != exp:
            return {'key': 'labels', 'what': f"labels {o['labels']} expected {exp}"}
    cur_shape = shape
    for j_op, (op, oo) in enumerate(zip(case['ops'], obs['ops'])):
        if op['op'] in ('set_dim', 'set_units', 'set_name'):
            if op['n'] >= rank:
                if not oo.get('raised'):
                    return {'key': 'setter-out-of-range-accepted', 'what': f'{op}'}
                continue
            if op['op'] == 'set_dim' and bad_strs(op['dim'], shape[op['n']]):
                if not oo.get('raised'):
                    return {'key': 'string-vector-of-wrong-length-accepted', 'what': f'{op}'}
                continue
            if oo.get('raised'):
                return {'key': 'setter-raised', 'what': f"{op}: {oo.get('exc')}"}
            e = invariants(oo['arr'], ds, stack)
            if e:
                return {'key': 'one-dim-vector-per-axis', 'what': f'after {op}: {e}'}
            if op['op'] == 'set_dim':
                spec = op['dim']
                if spec[0] in ('arr', 'tuple'):
                    spec = A.canon_dimspec(spec) if spec[0] == 'arr' else ['list', spec[1]]
                e = check_axis(spec, oo['arr']['dims'][op['n']], shape[op['n']])
                if e:
                    return {'key': 'ramp-length' if 'entries for an axis' in e else 'set-dim-values', 'what': f'after {op}: {e}'}
                if op['units'] is not None and oo['arr']['units'][op['n']] != op['units']:
                    return {'key': 'units-supplied-not-kept', 'what': f'after {op}'}
                if op['name'] is not None and oo['arr']['names'][op['n']] != op['name']:
                    return {'key': 'names', 'what': f'after {op}'}
            if op['op'] == 'set_units' and oo['arr']['units'][op['n']] != op['units']:
                return {'key': 'units-supplied-not-kept', 'what': f'after {op}'}
            if op['op'] == 'set_name' and oo['arr']['names'][op['n']] != op['name']:
                return {'key': 'names', 'what': f'after {op}'}
        elif op['op'] == 'slices' and not oo.get('raised'):
            labs = [s['label'] for s in oo['slices']]
            for s in oo['slices']:
                if 'raised' in s:
                    return {'key': 'slice-raised', 'what': f"ar[{s['label']!r}] raised {s['raised']}"}
                if labs.count(s['label']) > 1:
                    if not s['same_as_i']:
                        return {'key': 'duplicate-slicelabels', 'what': 'indexing by a label that occurs twice returns the last slice carrying it'}
                    continue
                if not s['same_as_i']:
                    return {'key': 'label-addresses-wrong-slice', 'what': f"ar[{s['label']!r}] is not slice {s['i']}"}
                if s.get('tuple_index') is False:
                    return {'key': 'label-tuple-index', 'what': f"ar[{s['label']!r}, i, ...] is not ar[{s['label']!r}].data[i, ...]"}
                cur = obs['init'] if not any(x.get('arr') for x in obs['ops'][:j_op]) else [x['arr'] for x in obs['ops'][:j_op] if x.get('arr')][-1]
                a = s['arr']
                if a['dims'] != cur['dims'] or a['units'] != cur['units'] or a['names'] != cur['names'] or a['shape'] != cur['shape']:
                    return {'key': 'slice-calibrations', 'what': f"ar[{s['label']!r}] does not carry the array's calibrations"}
    return None


def pick_smallest(cases_, idxs):
    return min(idxs, key=lambda i: (len(cases_[i]['datashape']), sum(cases_[i]['datashape']), len(cases_[i]['ops'])))


def nontrivial(cases_, results):
    return len({repr((c['datashape'], c['dims'], c['units'], c['names'], c['labels'])) for c in cases_
                if c['labels'] is not None or any(d is not None and (d[0] == 'num' or len(d[1]) == 2) for d in (c['dims'] or []))})


def samples(cases_, results):
    return [{k: c[k] for k in ('datashape', 'dims', 'units', 'names', 'labels', 'ops')} for c in cases_[:3]]


def distribution(cases_, results):
    d = {'rank': {}, 'stack': 0, 'dim_forms': {}, 'init_raised': 0}
    for c, r in zip(cases_, results):
        rk = len(c['datashape']) - (1 if c['labels'] is not None else 0)
        d['rank'][rk] = d['rank'].get(rk, 0) + 1
        d['stack'] += c['labels'] is not None
        for s in (c['dims'] or []):
            k = 'None' if s is None else s[0] + (str(len(s[1])) if s[0] != 'num' and len(s[1]) == 2 else '')
            d['dim_forms'][k] = d['dim_forms'].get(k, 0) + 1
        if not isinstance(r, list) and r['init'] is None:
            d['init_raised'] += 1
    return d
