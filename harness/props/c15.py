"""C15 -- whatever save accepts, read returns: unsupported input is rejected at save time."""
import os, random
import numpy as np
from harness import core, md as M, tree as T
from harness.md import COQ_IMPORTS, CASETY, CHECKFN

PROP = 'C15'
TARGETS = ['Props/C15.vo', 'Corr/XMd.vo']
PROPS_FILE = 'Props/C15.v'
RULE = ('edge inputs one at a time: (m) metadata values of undocumented kinds -- numpy scalars incl. np.bool_, bytes, sets, mixed and '
        'nested sequences, tuples of tuples holding strings / arrays / nested tuples / None, lists of tuples, ragged number lists, U and '
        'object arrays, ints beyond int64, the string "_None", NUL in strings -- at top level, in a dict, in a tuple, in a list; '
        '(n) names: node / root / Metadata names, metadata keys and PointList field names that are empty, ".", "..", contain "/", '
        'NUL, are "metadatabundle" or "data"/"dim0" (colliding with datasets), 5000 characters long, non-ASCII; (a) Arrays with '
        'zero-length axes, 0-d data, nan/inf calibrations, an axis named _labels_; (p) PointLists with sub-array fields, 0-d data, '
        'unstructured data, PointListArrays with zero extents; empty trees and containers.  For each: outcome of save, and if it '
        'returned, outcome and content of a plain read; non-trivial = distinct inputs that save accepted')
MODELLED = ['stream (m) is evaluated against the Coq metadata model; streams (n), (a), (p), (d) and (k: trees of downstream classes exposed by a hooked module, decided with the C06 oracle) are decided by the oracle on real behaviour']
ASSUMPTIONS = []
BADNAMES = ['', '.', '..', 'a/b', '/lead', 'trail/', 'a//b', 'nul\x00in', 'metadatabundle', 'data', 'dim0', 'x' * 5000, 'é/ü', ' ', 'a.b', './x', 'x']


def md_edge_values(rng, n_random=150):
    f = lambda x: ['float', float(x).hex()]
    base = [
        ['np', 'float32', f(1.5)], ['np', 'int8', ['int', -3]], ['np', 'uint64', ['int', 2 ** 63]], ['np', 'bool', ['bool', True]], ['np', 'complex64', ['complex', (1.0).hex(), (2.0).hex()]],
        ['bytes', 'xy'], ['set'], ['str', '_None'], ['str', 'a\x00b'], ['int', 2 ** 70], ['int', -2 ** 63 - 1],
        ['tuple', [['int', 1], ['str', 'a']]], ['tuple', [['str', 'a'], ['int', 1]]], ['tuple', [['tuple', [['int', 1], ['int', 2]]], ['str', 'a']]],
        ['tuple', [['tuple', [['int', 1]]], ['tuple', [['tuple', [['int', 2]]]]]]], ['tuple', [['tuple', [['int', 1]]], ['arr', 'int64', [2], 0]]],
        ['tuple', [['tuple', [['int', 1]]], ['int', 3]]], ['tuple', [['tuple', [['int', 1]]], ['none']]], ['tuple', [['tuple', [['str', 's']]]]],
        ['tuple', [['int', 1], ['tuple', [['int', 2]]]]], ['list', [['tuple', [['int', 1]]]]], ['list', [['list', [['int', 1]]], ['list', [['int', 2]]]]],
        ['list', [['int', 1], ['list', [['int', 2]]]]], ['tuple', [['arr', 'int64', [2], 0], ['int', 1]]], ['list', [['str', 'a'], ['none']]],
        ['arr', '<U3', [2], 0], ['arr', 'object', [2], 0], ['tuple', [['arr', '<U3', [2], 0]]], ['tuple', [['int', 2 ** 53 + 1], f(0.5)]],
        ['list', [['int', 2 ** 64], ['int', 1]]], ['tuple', [['np', 'float32', f(0.5)], ['int', 2]]], ['tuple', [['np', 'bool', ['bool', True]], ['int', 2]]],
        ['tuple', [['bool', True], ['np', 'int16', ['int', 7]]]], ['list', [['none']]], ['tuple', [['none'], ['int', 1]]], ['list', [['dict', []]]],
        ['list', [['int', 2 ** 64 + 1], f(0.5)]], ['tuple', [['int', -2 ** 63], f(2.0)]], ['list', [['int', 2 ** 80 + 12345], ['np', 'float32', f(1.0)]]],
        ['tuple', [['int', -(2 ** 63) - 1025], ['complex', (1.0).hex(), (0.0).hex()]]], ['list', [['int', 2 ** 63 + 2 ** 10], f(0.25)]], ['tuple', [['int', 2 ** 63 + 5], ['int', 1]]], ['list', [['int', 2 ** 63], ['int', 2 ** 63 + 5]]],
        ['tuple', [['str', 'a\x00']]], ['list', [['bytes', 'b']]], ['tuple', [['tuple', []], ['tuple', []]]], ['tuple', [['tuple', [['np', 'float32', f(2.5)]]]]],
    ]
    # long sequences stored one dataset per member (member names '0'..'9','10',..): whatever is accepted comes back in order
    for L in (11, 13, 25):
        base.append(['list', [['str', 'member %02d' % i] for i in range(L)]])
        base.append(['tuple', [['arr', 'int64', [i % 3 + 1], i] for i in range(L)]])
        base.append(['tuple', [['tuple', [['int', i], ['int', -i]]] for i in range(L)]])
        base.append(['list', [['np', 'float32', f(i + 0.5)] for i in range(L)]])
    out = []
    for v in base:
        out.append(v)
        out.append(['dict', [['k', v]]])
        if v[0] not in ('set',):
            out.append(['dict', [['outer', ['dict', [['inner', v]]]]]])
    for _ in range(n_random):
        # random mixed sequences
        elems = [rng.choice([M.g_scalar(rng), M.g_arr(rng), ['tuple', M.g_numseq(rng)], ['list', M.g_numseq(rng)], ['np', 'float32', f(rng.choice([0.5, 2.0]))],
                             ['bytes', 'z'], ['dict', []]]) for _ in range(rng.choice([1, 2, 3]))]
        out.append([rng.choice(['tuple', 'list']), elems])
    return out


def cases(seed, tier):
    rng = random.Random(seed * 71 + 15)
    out = [{'stream': 'm', 'v': v, 'where': 'root'} for v in md_edge_values(rng, 150 if tier == 'quick' else 8000)]
    for nm in BADNAMES:
        for pos in ('node', 'root', 'mdkey', 'mdkey_nested', 'mdkey_nested2', 'mdname', 'field', 'leafnode'):
            out.append({'stream': 'n', 'name': nm, 'pos': pos})
    for shape in ([0], [0, 3], [3, 0], [2, 0, 2], [], [1], [0, 0]):
        for extra in ('plain', 'dims', 'stack', 'labels_axis'):
            out.append({'stream': 'a', 'shape': shape, 'extra': extra})
    # dim vectors of narrow / unsigned integer dtypes, evenly or unevenly spaced, ascending or descending (their differences wrap)
    for shape in ([5], [3, 4], [2, 6]):
        for dt in ('uint8', 'uint16', 'uint32', 'uint64', 'int8'):
            for how in ('desc', 'asc', 'desc_uneven', 'wrap'):
                out.append({'stream': 'a', 'shape': shape, 'extra': 'udims', 'dt': dt, 'how': how})
    for k in ('subarray', '0d', 'unstructured', 'pla_zero', 'pla_plain', 'empty_root', 'empty_md', 'root_only_md', 'nan_dims'):
        out.append({'stream': 'p', 'kind': k})
    # Array data of dtypes HDF5 may not take, as an Array / as a bare ndarray / as a list item: save raises or read returns the same
    for dt in ('<U3', '<U1', 'object', 'datetime64[s]', 'timedelta64[ms]', 'S4', 'float16', 'bool', 'complex64', '>u2', 'void8', 'longdouble'):
        for shape in ([2, 2], [3], [], [0, 2]):
            for how in ('array', 'bare', 'list'):
                out.append({'stream': 'd', 'dtype': dt, 'shape': shape, 'how': how})
    # trees holding instances of downstream classes (subclasses, composition nodes, Metadata subclasses) whose classes are all exposed
    # by a hooked module: accepted by save => read returns them (many such trees per process, the same module names over and over)
    from harness import classes as K
    for _ in range(40 if tier == 'quick' else 1500):
        sc = K.gen_e2e(rng)
        sc['placements'] = [pl for pl in sc['placements'] if pl['how'] == 'top'][:1]
        sc['stream'] = 'k'
        out.append(sc)
    return out


def tree_abs(o):
    return T.abs_rnode(o)


def same_tree(a, b):
    return (a['cls'], a['name'], a['tok'], sorted(map(tuple, a['mds']))) == (b['cls'], b['name'], b['tok'], sorted(map(tuple, b['mds']))) and \
        sorted(k['name'] for k in a['kids']) == sorted(k['name'] for k in b['kids']) and \
        all(same_tree(x, next(y for y in b['kids'] if y['name'] == x['name'])) for x in a['kids'])


def run_generic(build, scratch, compare):
    """build() -> root object; returns outcome dict"""
    import emdfile
    p = os.path.join(scratch, 'c15_%d.h5' % os.getpid())
    if os.path.exists(p): os.remove(p)
    try:
        with core.quiet():
            root = build()
    except BaseException as e:
        return {'build_exc': type(e).__name__ + ': ' + str(e)[:80]}
    try:
        with core.quiet():
            emdfile.save(p, root, mode='o')
    except BaseException as e:
        if os.path.exists(p): os.remove(p)
        return {'saved': False, 'save_exc': type(e).__name__ + ': ' + str(e)[:80]}
    out = {'saved': True}
    try:
        with core.quiet():
            back = emdfile.read(p, emdpath=None if not hasattr(root, 'name') else None)
        out['read'] = True
        try:
            out['equal'], out['detail'] = compare(root, back)
        except BaseException as e:
            out['equal'], out['detail'] = False, 'compare raised ' + type(e).__name__ + ': ' + str(e)[:80]
    except BaseException as e:
        out['read'] = False; out['read_exc'] = type(e).__name__ + ': ' + str(e)[:80]
    if os.path.exists(p): os.remove(p)
    return out


def cmp_trees(root, back):
    import emdfile
    if isinstance(back, emdfile.Metadata):
        ok = len(root._branch._dict) == 0 and len(root._metadata) == 1 and list(root._metadata.values())[0]._params.keys() == back._params.keys()
        return ok, 'metadata returned'
    b = back.root if getattr(back, 'root', None) is not None else back
    a1, b1 = tree_abs(root), tree_abs(b)
    return same_tree(a1, b1), f"{str(a1)[:150]} vs {str(b1)[:150]}"


def run_one(args):
    c, scratch = args
    import emdfile
    try:
        if c['stream'] == 'm':
            return M.run_value(c['v'], scratch, c['where'], c.get('alias', False), c.get('share_root', False))
        if c['stream'] == 'k':
            from harness import classes as K
            r = K.run_e2e(c, scratch)
            r['saved'] = r.get('save_exc') is None
            return r
        if c['stream'] == 'n':
            nm, pos = c['name'], c['pos']
            def build():
                r = emdfile.Root(name=nm if pos == 'root' else 'r')
                n = emdfile.Array(data=np.full((3,), 7, dtype=np.int64), name=nm if pos == 'node' else 'arr', units='')
                r.tree(n)
                if pos == 'leafnode':
                    n.tree(emdfile.Node(name=nm))
                if pos == 'mdkey':
                    r.metadata = emdfile.Metadata(name='m', data={nm: 1, 'tok': 5})
                if pos == 'mdkey_nested':
                    r.metadata = emdfile.Metadata(name='m', data={'sub': {nm: 1, 'a': {'z': 3}}, 'tok': 5})
                if pos == 'mdkey_nested2':
                    n.metadata = emdfile.Metadata(name='m', data={'s1': {'s2': {'s3': {nm: (1, 2)}}}, 'tok': 5})
                if pos == 'mdname':
                    r.metadata = emdfile.Metadata(name=nm, data={'tok': 5})
                if pos == 'field':
                    n.tree(emdfile.PointList(data=np.zeros(2, dtype=[(nm, float), ('x', '<i8')]), name='pl'))
                return r
            def cmp(root, back):
                ok, d = cmp_trees(root, back)
                if ok and pos == 'mdkey':
                    b = back.root if not isinstance(back, emdfile.Root) else back
                    ok = (nm in b.metadata['m']._params and b.metadata['m'][nm] == 1)
                if ok and pos == 'mdkey_nested':
                    b = back.root if not isinstance(back, emdfile.Root) else back
                    sub = b.metadata['m']['sub']
                    ok = (set(sub.keys()) == {nm, 'a'} and sub[nm] == 1 and sub['a'] == {'z': 3})
                if ok and pos == 'mdkey_nested2':
                    b = back.root if not isinstance(back, emdfile.Root) else back
                    d3 = b.tree('arr').metadata['m']['s1']['s2']['s3']
                    ok = (list(d3.keys()) == [nm] and tuple(int(x) for x in d3[nm]) == (1, 2))
                if ok and pos == 'field':
                    b = back.root if not isinstance(back, emdfile.Root) else back
                    ok = (sorted(b.tree('arr/pl').data.dtype.names) == sorted(root.tree('arr/pl').data.dtype.names))
                return ok, d
            return run_generic(build, scratch, cmp)
        if c['stream'] == 'a':
            shape, extra = tuple(c['shape']), c['extra']
            def build():
                r = emdfile.Root(name='r')
                kw = {}
                ds = shape
                if extra == 'dims' and len(shape) >= 1:
                    kw['dims'] = [[0.5, 1.5]] + [None] * (len(shape) - 1)
                if extra == 'udims':
                    n = shape[0]
                    v = {'desc': [3 * (n - 1 - i) + 1 for i in range(n)], 'asc': [2 * i + 1 for i in range(n)],
                         'desc_uneven': [3 * (n - 1 - i) + (1 if i else 2) for i in range(n)], 'wrap': [100, -56 % 256 if c['dt'] != 'int8' else -56, 44][:n] + [50] * max(0, n - 3)}[c['how']]
                    kw['dims'] = [np.array(v).astype(c['dt'])] + [None] * (len(shape) - 1)
                if extra == 'stack' and len(shape) >= 1:
                    kw['slicelabels'] = True
                if extra == 'labels_axis' and len(shape) >= 1:
                    kw['dim_names'] = ['q'] * (len(shape) - 1) + ['_labels_']
                a = emdfile.Array(data=np.zeros(ds), name='a', units='u', **kw)
                r.tree(a)
                return r
            def cmp(root, back):
                import emdfile
                a, b = root.tree('a'), (back if isinstance(back, emdfile.Array) else back.tree('a'))
                ok = (b.data.shape == a.data.shape and b.data.dtype == a.data.dtype and b.is_stack == a.is_stack and list(b.dim_names) == [str(x) for x in a.dim_names]
                      and len(b.dims) == len(a.dims) and all(len(x) == len(y) and np.array_equal(np.asarray(x, dtype=float), np.asarray(y, dtype=float), equal_nan=True) for x, y in zip(a.dims, b.dims))
                      and (not a.is_stack or list(a.slicelabels) == list(b.slicelabels)))
                return ok, f'{a.data.shape} {b.data.shape} {a.dim_names} {b.dim_names}'
            return run_generic(build, scratch, cmp)
        if c['stream'] == 'd':
            def mk():
                dt, shape = c['dtype'], tuple(c['shape'])
                n = int(np.prod(shape)) if shape else 1
                if dt.startswith('<U'):
                    a = np.array(['ab', 'c', 'xyz', 'é'], dtype=dt)[np.arange(n) % 4]
                elif dt == 'object':
                    a = np.array([{'a': 1}, 'x', 3, None], dtype=object)[np.arange(n) % 4]
                elif dt.startswith('datetime64'):
                    a = (np.arange(n) * 1000).astype(dt)
                elif dt.startswith('timedelta64'):
                    a = (np.arange(n) * 7).astype(dt)
                elif dt == 'S4':
                    a = np.array([b'ab', b'c', b'wxyz', b''], dtype=dt)[np.arange(n) % 4]
                elif dt == 'void8':
                    a = np.zeros(n, dtype='V8')
                elif dt == 'bool':
                    a = (np.arange(n) % 2 == 0)
                else:
                    a = (np.arange(n) + 1).astype(dt)
                return a.reshape(shape)
            holder = {}
            def build():
                a = mk(); holder['a'] = a
                if c['how'] == 'array':
                    r = emdfile.Root(name='r'); r.tree(emdfile.Array(data=a, name='a')); return r
                if c['how'] == 'bare':
                    return a
                return [a, emdfile.Node(name='n')]
            def cmp(root, back):
                a = holder['a']
                try:
                    if c['how'] == 'array':
                        b = back if isinstance(back, emdfile.Array) else back.tree('a')
                    elif c['how'] == 'bare':
                        b = back if isinstance(back, emdfile.Array) else back.tree('np.array')
                    else:
                        b = back.tree('array_0') if not isinstance(back, emdfile.Array) else back
                except Exception as e:
                    return False, f'array not found in what read returned: {type(e).__name__} {e}'
                d = np.asarray(b.data)
                same = d.dtype == a.dtype and d.shape == a.shape and (np.array_equal(d, a, equal_nan=True) if a.dtype.kind in 'fc' else bool(np.all(d == a)))
                return same, f'{a.dtype}{a.shape} -> {d.dtype}{d.shape}'
            return run_generic(build, scratch, cmp)
        if c['stream'] == 'p':
            k = c['kind']
            def build():
                r = emdfile.Root(name='r')
                if k == 'subarray':
                    r.tree(emdfile.PointList(data=np.zeros(3, dtype=[('x', float), ('v', float, (2,))]), name='pl'))
                elif k == '0d':
                    d = np.zeros((), dtype=[('x', float), ('y', int)]); d['x'] = 2.5; d['y'] = 3
                    r.tree(emdfile.PointList(data=d, name='pl'))
                elif k == 'unstructured':
                    r.tree(emdfile.PointList(data=np.arange(4.0), name='pl'))
                elif k == 'pla_zero':
                    r.tree(emdfile.PointListArray(dtype=[('x', float)], shape=(0, 2), name='pla'))
                elif k == 'pla_plain':
                    q = emdfile.PointListArray(dtype=float, shape=(1, 2), name='pla'); r.tree(q)
                elif k == 'empty_md':
                    r.metadata = emdfile.Metadata(name='m', data={}); r.tree(emdfile.Node(name='n'))
                elif k == 'root_only_md':
                    r.metadata = emdfile.Metadata(name='m', data={'tok': 1})
                elif k == 'nan_dims':
                    r.tree(emdfile.Array(data=np.zeros((3, 4)), name='a', dims=[[float('nan'), 1.0], [float('inf'), 2.0, 3.0, 4.0]]))
                return r
            def cmp(root, back):
                import emdfile
                if k == '0d':
                    b = back if isinstance(back, emdfile.PointList) else back.tree('pl')
                    return (len(b) == 1 and float(b.data['x'][0]) == 2.5 and int(b.data['y'][0]) == 3), str(b.data)
                if k in ('pla_zero', 'pla_plain'):
                    b = back if isinstance(back, emdfile.PointListArray) else back.tree('pla')
                    a = root.tree('pla')
                    return (tuple(b.shape) == tuple(a.shape) and b.dtype == a.dtype), f'{b.shape} {b.dtype}'
                if k == 'nan_dims':
                    b = back if isinstance(back, emdfile.Array) else back.tree('a')
                    a = root.tree('a')
                    return all(np.array_equal(np.asarray(x, float), np.asarray(y, float), equal_nan=True) for x, y in zip(a.dims, b.dims)), str(b.dims)
                if k == 'empty_md':
                    b = back.root if getattr(back, 'root', None) is not None else back
                    return ('m' in b.metadata and len(b.metadata['m']._params) == 0 and 'n' in b._branch._dict), str(b.metadata)
                return cmp_trees(root, back)
            return run_generic(build, scratch, cmp)
    except BaseException:
        import traceback
        return [{'harness_error': traceback.format_exc()[-800:]}]


def run_all(cases_, scratch):
    return core.pmap(run_one, [(c, scratch) for c in cases_])


def emit(cases_, results):
    idx = [i for i, c in enumerate(cases_) if c['stream'] == 'm']
    sub = M.emit([cases_[i] for i in idx], [results[i] for i in idx])
    return [(d, t, [idx[j] for j in im]) for d, t, im in sub]


def oracle(c, r):
    if 'build_exc' in r:
        return None
    desc = str({k: (v if len(str(v)) < 80 else str(v)[:80] + '...') for k, v in c.items()})
    if c['stream'] == 'm':
        if not r['saved']:
            return None
        if not r.get('read'):
            return {'key': 'accepted-then-unreadable-md', 'what': desc + f": save returned, read raised {r.get('read_exc')}"}
        bad = r.get('back') is None or M.has_other(r['back'])
        if bad or not M.py_equiv(M.build(c['v']), M.build(r['back'])):
            from harness.props import c03
            if c03.find_bigint_mixed(c['v']):
                return {'key': 'int-beyond-2^53-in-float-sequence', 'what': desc}
            if M.has_uint64_range_int(c['v']):
                return {'key': 'int-in-uint64-range-in-sequence', 'what': desc}
            if c03.has_none_sentinel(c['v']):
                return {'key': 'string-_None-reads-as-None', 'what': desc}
            return {'key': 'accepted-then-different-md', 'what': desc + f": came back as {str(r.get('back'))[:120]}"}
        return None
    if c['stream'] == 'k':
        if not r['saved']:
            return None
        from harness.props import c06
        e = c06.oracle(c, r)
        if e:
            return {'key': 'accepted-then-' + ('unreadable' if 'raised' in e['key'] else 'different') + '-downstream-classes', 'what': f"{e['key']}: {e['what']}"[:400]}
        return None
    if not r['saved']:
        return None
    if not r.get('read'):
        return {'key': f"accepted-then-unreadable-{c['stream']}", 'what': desc + f": save returned, read raised {r.get('read_exc')}"}
    if not r.get('equal'):
        return {'key': f"accepted-then-different-{c['stream']}", 'what': desc + f": read returned different content ({r.get('detail')})"}
    return None


def pick_smallest(cases_, idxs):
    return min(idxs, key=lambda i: len(str(cases_[i])))


def nontrivial(cases_, results):
    return len({str(c) for c, r in zip(cases_, results) if not isinstance(r, list) and r.get('saved')})


def samples(cases_, results):
    return [cases_[0], cases_[200 if len(cases_) > 200 else -1], cases_[-1]]


def distribution(cases_, results):
    d = {'stream': {}, 'save_raised': {}, 'accepted': 0}
    for c, r in zip(cases_, results):
        d['stream'][c['stream']] = d['stream'].get(c['stream'], 0) + 1
        if isinstance(r, list) or 'build_exc' in r:
            continue
        if r.get('saved'):
            d['accepted'] += 1
        else:
            k = (r.get('save_exc') or '?').split(':')[0]
            d['save_raised'][k] = d['save_raised'].get(k, 0) + 1
    return d
