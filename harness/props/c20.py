"""C20 -- version comparison is lexicographic."""
import itertools, os, random, tempfile
from harness import core
from harness.core import coqZ, coqbool

PROP = 'C20'
TARGETS = ['Props/C20.vo', 'Corr/X20.vo']
PROPS_FILE = 'Props/C20.v'
COQ_IMPORTS = 'From Coq Require Import ZArith.\nFrom Emd Require Import Base.Prelude Corr.X20.\nOpen Scope Z_scope.'
CASETY = '(Z * Z * Z) * (Z * Z * Z) * bool'
CHECKFN = 'check'
RULE = ('pairs of version triples: all 27 order types (<,=,> per component) x magnitudes drawn from '
        '{0,1,2,9,10,99,100,101,150,999,1000,65535,2^31,2^63,10^30} plus random triples; plus files written by '
        'emdfile.save (also over a foreign HDF5 / legacy / junk / EMD file the package had already looked at in the same process) whose '
        '_get_EMD_version must satisfy the helper against (1,0,0); non-trivial = distinct '
        '(current, minimum) pairs that differ in at least one component')
MODELLED = ['_get_EMD_version is modelled by hand (written_version) and tied by correspondence on written files']
ASSUMPTIONS = ['version components are Python ints (unbounded) -- modelled as Z']
POOL = [0, 1, 2, 9, 10, 99, 100, 101, 150, 999, 1000, 65535, 2**31, 2**63, 10**30]


def cases(seed, tier):
    rng = random.Random(seed)
    out = []
    n_rand = 400 if tier == 'quick' else 20000
    for rel in itertools.product((-1, 0, 1), repeat=3):
        for _ in range(12 if tier == 'quick' else 60):
            cur, mn = [], []
            for r in rel:
                a = rng.choice(POOL)
                if r == 0:
                    b = a
                elif r < 0:
                    b = a + rng.choice([1, 1, 2, 50, 99, 100, 10**6])
                else:
                    b = rng.choice([x for x in POOL if x < a] or [None])
                    if b is None:
                        a, b = a + 1, a
                cur.append(a); mn.append(b)
            out.append({'kind': 'pair', 'cur': cur, 'min': mn})
    for _ in range(n_rand):
        out.append({'kind': 'pair', 'cur': [rng.choice(POOL + [rng.randrange(0, 300)]) for _ in range(3)],
                    'min': [rng.choice(POOL + [rng.randrange(0, 300)]) for _ in range(3)]})
    for c in out:
        c['ct'] = rng.choice(['tt', 'tt', 'tl', 'lt', 'll'])
    for mode in ('w', 'o', 'a', 'ao'):
        out.append({'kind': 'file', 'mode': mode})
    # ... also when something else sat at the path before and the package had already looked at it in this process
    for old in ('h5', 'legacy', 'junk', 'emd'):
        for look in ('none', 'read', 'append', 'detector', 'version'):
            for mode in ('o', 'overwrite'):
                out.append({'kind': 'file', 'mode': mode, 'old': old, 'look': look})
    return out


def run_one(c, scratch):
    import emdfile
    if c['kind'] == 'pair':
        try:
            mk = {'t': tuple, 'l': list}
            ct = c.get('ct', 'tt')       # the two triples may arrive in different containers (a tuple from the file, a list from a caller)
            return {'res': bool(emdfile._version_is_geq(mk[ct[0]](c['cur']), mk[ct[1]](c['min'])))}
        except Exception as e:
            return {'raised': type(e).__name__}
    p = os.path.join(scratch, 'v_%s_%s_%s.h5' % (c['mode'], c.get('old', ''), c.get('look', '')))
    with core.quiet():
        r = emdfile.Root(name='r'); r.tree(emdfile.Node(name='n'))
        if c.get('old'):
            import h5py, numpy as np
            if os.path.exists(p):
                os.remove(p)
            if c['old'] == 'junk':
                open(p, 'wb').write(b'no hdf5 here')
            elif c['old'] == 'emd':
                emdfile.save(p, emdfile.Root(name='q'), mode='w')
            else:
                with h5py.File(p, 'w') as f:
                    g = f.create_group('data/old')
                    g.create_dataset('data', data=np.arange(3)); g.create_dataset('dim1', data=np.arange(3))
                    if c['old'] == 'legacy':
                        g.attrs['emd_group_type'] = 1
                        g['dim1'].attrs['name'] = 'x'; g['dim1'].attrs['units'] = 'px'
            for act in ([] if c['look'] == 'none' else [c['look']]):
                try:
                    if act == 'read': emdfile.read(p)
                    elif act == 'append': emdfile.save(p, r, mode='a')
                    elif act == 'detector': emdfile.utils._is_EMD_file(p)
                    else: emdfile._get_EMD_version(p)
                except BaseException:
                    pass
        try:
            emdfile.save(p, r, mode=c['mode'])
            v = emdfile._get_EMD_version(p)
            return {'version': [int(x) for x in v], 'geq': bool(emdfile._version_is_geq(v, (1, 0, 0)))}
        except Exception as e:
            return {'raised': type(e).__name__}
        finally:
            if os.path.exists(p):
                os.remove(p)


def run_all(cases_, scratch):
    return [run_one(c, scratch) for c in cases_]


def oracle(c, o):
    if 'raised' in o:
        return {'key': 'raised', 'what': f"raised {o['raised']}"}
    if c['kind'] == 'pair':
        if o['res'] != (tuple(c['cur']) >= tuple(c['min'])):
            return {'key': 'not-lexicographic', 'what': f"_version_is_geq({tuple(c['cur'])},{tuple(c['min'])}) -> {o['res']}"}
        return None
    if not o['geq'] or tuple(o['version']) < (1, 0, 0):
        return {'key': 'written-version', 'what': f"written file reports {o['version']}, geq(1,0,0)={o['geq']}"}
    return None


def pick_smallest(cases_, idxs):
    return min(idxs, key=lambda i: sum(cases_[i].get('cur', [0])) + sum(cases_[i].get('min', [0])))


def emit(cases_, results):
    terms, idx = [], []
    wterms = []
    for i, (c, o) in enumerate(zip(cases_, results)):
        if 'raised' in o:
            continue
        if c['kind'] == 'pair':
            t = lambda v: '(' + ', '.join(coqZ(x) for x in v) + ')'
            terms.append(f"({t(c['cur'])}, {t(c['min'])}, {coqbool(o['res'])})")
            idx.append(i)
        else:
            # written files: encoded as a pair case whose check is check_written -> folded into defs
            wterms.append((i, o['version']))
    shards = []
    for k in range(0, len(terms), 1500):
        shards.append(([], terms[k:k + 1500], idx[k:k + 1500]))
    if wterms:
        # second kind of shard, same mismatches interface through a different check fn is not supported by
        # run_shards; express as pair cases against the model's written version: cur=observed, min=model
        defs = ['Definition wv := match written_version with Some v => v | None => ((-1), (-1), (-1)) end.']
        t2, i2 = [], []
        for i, v in wterms:
            tv = '(' + ', '.join(coqZ(x) for x in v) + ')'
            # observed == model version  <=>  geq both ways; encode two cases
            t2.append(f'({tv}, wv, true)'); i2.append(i)
            t2.append(f'(wv, {tv}, true)'); i2.append(i)
        shards.append((['From Emd Require Import Proofs.P20.'] + defs, t2, i2))
    return shards


def nontrivial(cases_, results):
    return len({(tuple(c['cur']), tuple(c['min'])) for c in cases_ if c['kind'] == 'pair' and c['cur'] != c['min']})


def distribution(cases_, results):
    d = {'pairs': 0, 'files': 0, 'true': 0, 'false': 0, 'raised': 0, 'components_ge_100': 0}
    for c, o in zip(cases_, results):
        if c['kind'] == 'pair':
            d['pairs'] += 1
            if 'raised' in o:
                d['raised'] += 1
            else:
                d['true' if o['res'] else 'false'] += 1
            if max(c['cur'] + c['min']) >= 100:
                d['components_ge_100'] += 1
        else:
            d['files'] += 1
    return d
