"""C06 -- nodes are re-created as the class that wrote them, incl. downstream subclasses."""
import random
from harness import classes as K
from harness.classes import run_all, emit, COQ_IMPORTS, CASETY, CHECKFN

PROP = 'C06'
TARGETS = ['Props/C06.vo', 'Corr/XClass.vo']
PROPS_FILE = 'Props/C06.v'
RULE = ('(a) lookup: synthesised module graphs registered in sys.modules (1-4 top modules; hook value absent / True / 1 / numpy True / '
        'False / a string; namespaces of 0-4 members: emd subclasses incl. indirect ones, non-emd classes, aliases, re-exported '
        'built-ins, sub-modules nested to depth 8, shared and cyclic module references, other objects; hooked chains 3-7 deep); every '
        'name in the graph, every built-in name and an absent name is looked up with the real _get_class.  (b) end to end: 1-5 real '
        'subclasses (own reader hooks and one extra constructor argument) over Node / Array / PointList / PointListArray / Custom / '
        'Metadata incl. indirect subclasses, used in a tree of 1-9 nodes mixed with built-ins, Custom nodes with 0-3 node-valued '
        'attributes (nested Custom too) and tree children, Metadata subclasses on nodes and root; saved once, then read with the '
        'classes placed at top level, nested 1-5 deep, below an un-hooked link, 6-7 deep, split over two modules, under a hook of 1, or '
        'absent.  non-trivial = distinct scenarios in which at least one non-built-in class was resolved')
MODELLED = ['Python module objects as (hook value, namespace); inspect.getmembers order = name order',
            'class identity as a number; "Node or Metadata in the MRO" as a flag set by how the harness built the class',
            'from_h5 calling the found class\'s own hooks, and type(node): observed end to end, not modelled']
ASSUMPTIONS = ['class names distinct among built-ins and hooked modules (binds_only); attribute and child names of a Custom node distinct']
PARTIAL = 'lookup and Custom layout proved; instantiation through the found class\'s hooks by observation'


def cases(seed, tier):
    rng = random.Random(seed * 131 + 6)
    n = 150 if tier == 'quick' else 6000
    return [K.gen_lookup(rng) for _ in range(n)] + [K.gen_e2e(rng) for _ in range(n // 2 if tier == 'quick' else n // 4)]


def expected_content(nd):
    k = nd['kind']
    if k == 'Array':
        a = K.data_for(k, nd['seed'])
        return ['array', str(a.dtype), a.tolist()]
    if k == 'PointList':
        a = K.data_for(k, nd['seed'])
        return ['pl', sorted(a.dtype.names), [a[f].tolist() for f in sorted(a.dtype.names)]]
    if k == 'PointListArray':
        return ['pla', [1, 2], [[], [float(nd['seed'])]]]
    return ['node']


def index_specs(tops):
    specs = {}

    def index(m):
        specs[m['mid']] = m
        for mem in m['members']:
            if mem['k'] == 'mod' and mem['mid'] not in specs:
                index(mem)
    for t in tops:
        index(t)
    return specs


def check_node(c, nd, path, o, nb, bc, cname_of, sep='/'):
    here = path + sep + nd['name']
    rec = o['nodes'].get(here)
    if rec is None:
        return {'key': 'node-missing-after-read', 'what': f'{here} ({nd["kind"]}) is not in the tree read back' if sep == '/' else f'attribute {here} is not on the Custom node read back'}
    if nd['cls'] is None:
        if rec['cid'] != bc[nd['kind']]:
            return {'key': 'builtin-read-as-other-class', 'what': f"{here}: written as {nd['kind']}, read as {rec['type']}"}
    else:
        cn = cname_of[nd['cls']]
        if rec['cid'] != nb + nd['cls']:
            return {'key': 'read-as-other-class', 'what': f"{here}: written as {cn} (a {nd['kind']} subclass), read back as an instance of {rec['type']} (identity {rec['cid']})"}
        if rec['tag'] != nd['tag']:
            return {'key': 'reader-hook-arguments-not-used', 'what': f"{here}: the value supplied by {cn}._get_constructor_args is {nd['tag']!r}, the instance has {rec['tag']!r}"}
        if rec['populated_by'] != cn:
            return {'key': 'populate-hook-not-run', 'what': f"{here}: _populate_instance of {cn} did not run ({rec['populated_by']})"}
        hp = here.replace('.', '/')
        if not any(h[1] == hp and h[2] == cn for h in o['hooks']):
            return {'key': 'own-reader-hook-not-called', 'what': f'{here}: no call of {cn}._get_constructor_args for this group'}
    if rec['content'] != expected_content(nd):
        return {'key': 'content-differs', 'what': f"{here}: {str(rec['content'])[:80]} vs {str(expected_content(nd))[:80]}"}
    if sorted(rec['md']) != sorted(m['name'] for m in nd['md']):
        return {'key': 'metadata-set-differs', 'what': f"{here}: metadata {sorted(rec['md'])}"}
    for m in nd['md']:
        e = check_md(m, rec['md'][m['name']], here, nb, bc, cname_of)
        if e:
            return e
    if nd['kind'] == 'Custom':
        got = sorted(k[len(here) + 1:] for k in o['nodes'] if k.startswith(here + '.') and '.' not in k[len(here) + 1:] and '/' not in k[len(here) + 1:])
        if got != sorted(a['name'] for a in nd['attrs']):
            return {'key': 'custom-attributes-differ', 'what': f"{here}: node-valued attributes {got}, written {sorted(a['name'] for a in nd['attrs'])}"}
        for a in nd['attrs']:
            e = check_node(c, a, here, o, nb, bc, cname_of, sep='.')
            if e:
                return e
    if sep == '/':
        if sorted(rec['kids']) != sorted(k['name'] for k in nd['kids']):
            extra = set(rec['kids']) & {a['name'] for a in nd['attrs']}
            return {'key': 'custom-attribute-appears-as-tree-child' if extra else 'children-differ',
                    'what': f"{here}: children {rec['kids']}, written {[k['name'] for k in nd['kids']]}"}
        for k in nd['kids']:
            e = check_node(c, k, here, o, nb, bc, cname_of)
            if e:
                return e
    return None


def check_md(m, rec, here, nb, bc, cname_of):
    want = bc['Metadata'] if m['cls'] is None else nb + m['cls']
    if rec['cid'] != want:
        return {'key': 'metadata-read-as-other-class', 'what': f"{here} metadata {m['name']!r}: written as {'Metadata' if m['cls'] is None else cname_of[m['cls']]}, read as {rec['type']}"}
    if rec['v'] != m['v']:
        return {'key': 'metadata-content', 'what': f"{here} metadata {m['name']!r}: {rec['v']} vs {m['v']}"}
    return None


def oracle(c, r):
    if c['kind'] == 'lookup':
        return K.oracle_lookup(c['tops'], r)
    if r['save_exc']:
        names_clash = any(set(a['name'] for a in nd['attrs']) & set(k['name'] for k in nd['kids']) for nd in all_nodes(c))
        if names_clash:
            return None
        return {'key': 'save-raised', 'what': r['save_exc']}
    cname_of = {x['id']: x['cname'] for x in c['classes']}
    for pl, o in zip(c['placements'], r['placements']):
        e = K.oracle_lookup(pl['tops'], o['lookup'])
        if e:
            return e
        specs = index_specs(pl['tops'])
        nb, bc = o['lookup']['nb'], dict(o['lookup']['builtins'])
        status = {}
        for cid in c['used']:
            cands = K.reference_candidates(pl['tops'], specs, cname_of[cid])
            status[cid] = 'found' if cands == {cid} else 'absent' if not cands else 'ambiguous'
        for b in ('Root', 'Metadata', 'Node', 'Array', 'PointList', 'PointListArray', 'Custom'):
            # a hooked module binding a built-in's name to another class: class names are not distinct
            if K.reference_candidates(pl['tops'], specs, b) - {('b', b)}:
                status[b] = 'ambiguous'
        if 'ambiguous' in status.values():
            continue
        if 'absent' in status.values():
            if 'read_exc' not in o:
                missing = [cname_of[k] for k, v in status.items() if v == 'absent']
                subs = sorted({(p, x['type']) for p, x in o['nodes'].items()})
                return {'key': 'read-succeeded-with-a-class-missing', 'what': f"placement {pl['how']}: class(es) {missing} cannot be found, yet read returned a tree: {subs[:6]}"}
            continue
        if 'read_exc' in o:
            return {'key': 'read-raised-with-all-classes-exposed', 'what': f"placement {pl['how']}: {o['read_exc']}"}
        root = o['nodes'].get('/root')
        if root is None or sorted(root['kids']) != sorted(k['name'] for k in c['kids']):
            return {'key': 'children-differ', 'what': f"root children {root and root['kids']}"}
        if sorted(root['md']) != sorted(m['name'] for m in c['rootmd']):
            return {'key': 'metadata-set-differs', 'what': f"root metadata {sorted(root['md'])}"}
        for m in c['rootmd']:
            e = check_md(m, root['md'][m['name']], '/root', nb, bc, cname_of)
            if e:
                return e
        for k in c['kids']:
            e = check_node(c, k, '/root', o, nb, bc, cname_of)
            if e:
                e['what'] = f"placement {pl['how']}: " + e['what']
                return e
    return None


def all_nodes(c):
    out = []

    def v(nd):
        out.append(nd)
        for x in nd['attrs'] + nd['kids']:
            v(x)
    for k in c['kids']:
        v(k)
    return out


def pick_smallest(cases_, idxs):
    return min(idxs, key=lambda i: len(str(cases_[i])))


def nontrivial(cases_, results):
    n = 0
    for c, r in zip(cases_, results):
        if isinstance(r, list):
            continue
        if c['kind'] == 'lookup':
            n += any('cid' in o and o['cid'] is not None and o['cid'] >= r['nb'] for o in r['queries'].values())
        else:
            n += bool(c['used']) and any('nodes' in o for o in r.get('placements', []))
    return n


def samples(cases_, results):
    return [cases_[0], cases_[-1]]


def distribution(cases_, results):
    d = {'lookup': 0, 'e2e': 0, 'hooks': {}, 'placements': {}, 'read_raised': 0, 'read_ok': 0, 'bases': {}, 'custom_nodes': 0, 'lookups_resolved': 0, 'lookups_raised': 0}
    for c, r in zip(cases_, results):
        if isinstance(r, list):
            continue
        if c['kind'] == 'lookup':
            d['lookup'] += 1
            for t in c['tops']:
                d['hooks'][t['hook']] = d['hooks'].get(t['hook'], 0) + 1
            for o in r['queries'].values():
                d['lookups_raised' if 'raised' in o else 'lookups_resolved'] += 1
        else:
            d['e2e'] += 1
            for x in c['classes']:
                d['bases'][x['base']] = d['bases'].get(x['base'], 0) + 1
            d['custom_nodes'] += sum(nd['kind'] == 'Custom' for nd in all_nodes(c))
            for pl, o in zip(c['placements'], r.get('placements', [])):
                d['placements'][pl['how']] = d['placements'].get(pl['how'], 0) + 1
                d['read_raised' if 'read_exc' in o else 'read_ok'] += 1
    return d
