"""C08 -- partial read returns exactly the selected part and never modifies the file."""
import random
from harness import tree as T, fileabs as FA
from harness.tree import COQ_IMPORTS, CASETY, CHECKFN
from harness import core

PROP = 'C08'
TARGETS = ['Props/C08.vo', 'Corr/XTree.vo']
PROPS_FILE = 'Props/C08.v'
RULE = ('files written from random trees (1..25 nodes; root names sharing letters with child names), one or two trees per file; '
        'reads with every node path x 3 tree options x with/without leading slash, paths not in the file (missing leaf, missing '
        'middle, prefix of a name, name extended), and no path; sha256 before/after each read; non-trivial = distinct (file, path, '
        'option) with a non-root path; plus a stream of files holding nodes of a self-rooting downstream class and a Custom '
        '(composition) node with tree children: every node path x 3 options x leading slash')
MODELLED = ['payload templates with content tokens', 'byte immutability under open mode r is HDF5 business (open modes come from the generated table)']
ASSUMPTIONS = ['files written by emdfile from valid trees']
NAMES = ['rot', 'origin', 'table', 'raw', 'a', 'b', 'ro', 't', 'array', 'o', 'root2', 'x y', 'é', 'e\u0301', 'peaks_5\u212b', '\u2126']


def cases(seed, tier):
    rng = random.Random(seed * 13 + 8)
    out = []
    n = 50 if tier == 'quick' else 1500
    for i in range(n):
        rn = rng.choice(['root', 'r', 'to', 'rt', 'e\u0301tude'])
        t = T.rand_tree(rng, rn, rng.choice([1, 3, 6, 10, 25]), names=NAMES, md_p=0.4)
        tops = [t]
        steps = [{'op': 'save', 'file': 0, 'top': 0, 'tp': [], 'mode': 'w', 'tree': True}]
        two = rng.random() < 0.3
        if two:
            t2 = T.rand_tree(rng, rn + '2', rng.choice([1, 3]), names=NAMES, md_p=0.4)
            tops.append(t2)
            steps.append({'op': 'save', 'file': 0, 'top': 1, 'tp': [], 'mode': 'a', 'tree': True})
            steps.append({'op': 'read', 'file': 0, 'tree': True})
        paths = T.all_paths(t)
        rng.shuffle(paths)
        for p in paths[:14]:
            for tr in (True, False, None):
                ep = '/'.join([rn] + p)
                steps.append({'op': 'read', 'file': 0, 'tree': tr, 'emdpath': ('/' + ep) if rng.random() < 0.4 else ep})
        # paths that do not exist
        for p in paths[:4]:
            bad = [p + ['zz'], p[:-1] + [(p[-1] if p else 'x') + 'q'], (p[:-1] + [p[-1][:-1]]) if p and len(p[-1]) > 1 else p + ['q'],
                   ['nope'] + p, p + ['zz', 'yy']]
            for b in bad:
                if b not in T.all_paths(t):
                    steps.append({'op': 'read', 'file': 0, 'tree': rng.choice([True, False, None]), 'emdpath': '/'.join([rn] + b), 'expect_missing': True})
        # a path that exists below the root, spelled WITHOUT the root's name: not a path of the file
        for p in [q for q in paths[:6] if q and q[0] != rn and q[0] != rn + '2'][:3]:
            steps.append({'op': 'read', 'file': 0, 'tree': rng.choice([True, False, None]), 'emdpath': rng.choice(['', '/']) + '/'.join(p), 'expect_missing': True})
        steps.append({'op': 'read', 'file': 0, 'tree': True, 'emdpath': 'noroot', 'expect_missing': True})
        if not two:
            steps.append({'op': 'read', 'file': 0, 'tree': rng.choice([True, False, None])})
        out.append({'tops': tops, 'steps': steps})
    # nodes of a downstream class whose constructor attaches the new object to a root of its own (this stream comes last: see emit)
    for i in range(6 if tier == 'quick' else 200):
        out.append({'kind': 'selfroot', 'names': rng.sample(['scan', 'cube', 'x y', 'é', 'probe'], 3), 'depth': rng.choice([1, 2, 3]), 'kid': rng.random() < 0.6})
    return out


def _run_selfroot(args):
    """file: root/{n0 (Scan) [/kid], plain/.../n1 (Scan)}; every path x tree option x leading slash is read"""
    c, scratch = args
    import os, sys, types, numpy as np
    import emdfile as emd
    try:
        class Scan(emd.Array):
            def __init__(self, *a, **kw):
                emd.Array.__init__(self, *a, **kw)
                emd.Root(name=self.name + '_own_root').tree(self)          # attaches itself to a root of its own
        class Box(emd.Custom):
            # a composition class: one emd attribute, stored inside its group next to its tree children
            def __init__(self, name='box', n=3):
                emd.Custom.__init__(self, name=name)
                self.part = emd.Array(np.arange(n), name='part')
            @classmethod
            def _get_constructor_args(cls, group):
                return {'name': os.path.basename(group.name), 'n': 3}
            def _populate_instance(self, group):
                pass
        mod = types.ModuleType('emdverif_selfroot'); mod._emd_hook = True; mod.Scan = Scan; mod.Box = Box
        sys.modules['emdverif_selfroot'] = mod
        n0, n1, n2 = c['names']
        root = emd.Root(name='root')
        a = Scan(data=np.arange(6).reshape(2, 3), name=n0); root.tree(a, force=True)
        if c['kid']:
            a.tree(emd.Node(name='kid'))
        cur = root
        path = []
        for d in range(c['depth']):
            nd = emd.Node(name='plain%d' % d); cur.tree(nd); cur = nd; path.append(nd.name)
        b = Scan(data=np.ones(4), name=n1); cur.tree(b, force=True)
        # a Custom (composition) node below the last plain node, with tree children of its own
        bx = Box(name=n2); cur.tree(bx)
        bx.tree(emd.Array(np.arange(4.0), name='in')); bx.tree('in').tree(emd.Node(name='deep'))
        p = os.path.join(scratch, 'selfroot_%d.h5' % os.getpid())
        out = {'reads': []}
        with core.quiet():
            emd.save(p, root, mode='o')
            full = emd.read(p)
            full = full if isinstance(full, emd.Root) else full.root
        targets = [[n0], path + [n1]] + ([[n0, 'kid']] if c['kid'] else []) + [path[:1]] + [path + [n2], path + [n2, 'in'], path + [n2, 'in', 'deep']]
        for tp in targets:
            want = full.tree('/'.join(tp))
            for tr in (True, False, None):
                for lead in ('', '/'):
                    ep = lead + '/'.join(['root'] + tp)
                    rec = {'emdpath': ep, 'tree': tr, 'want_cls': type(want).__name__, 'want_name': want.name, 'want_kids': sorted(want._branch._dict.keys())}
                    try:
                        with core.quiet():
                            r = emd.read(p, emdpath=ep, tree=tr)
                        rec.update({'cls': type(r).__name__, 'name': r.name, 'kids': sorted(r._branch._dict.keys()),
                                    'root_name': r.root.name if r.root is not None else None})
                    except BaseException as e:
                        rec['raised'] = type(e).__name__ + ': ' + str(e)[:100]
                    out['reads'].append(rec)
        os.remove(p)
        return out
    except BaseException:
        import traceback
        return [{'harness_error': traceback.format_exc()[-800:]}]
    finally:
        sys.modules.pop('emdverif_selfroot', None)


def run_all(cases_, scratch):
    nt = sum(1 for c in cases_ if c.get('kind') != 'selfroot')
    return T.run_all(cases_[:nt], scratch) + core.pmap(_run_selfroot, [(c, scratch) for c in cases_[nt:]])


def emit(cases_, results):
    nt = sum(1 for c in cases_ if c.get('kind') != 'selfroot')
    return T.emit(cases_[:nt], results[:nt])


def sub_map(M, p):
    """content below path p, re-rooted at p's name"""
    return {(p[-1],) + q[len(p):]: c for q, c in M.items() if q[:len(p)] == p}


def oracle(case, obs):
    if case.get('kind') == 'selfroot':
        for rec in obs['reads']:
            where = f"read(emdpath={rec['emdpath']!r}, tree={rec['tree']}) of a node whose class attaches its instances to a root of their own"
            if 'raised' in rec:
                return {'key': 'partial-read-raised', 'what': where + f": raised {rec['raised']}"}
            if rec['tree'] is None:
                if rec['cls'] != 'Root' or rec['name'] != 'root' or rec['kids'] != rec['want_kids']:
                    return {'key': 'selection', 'what': where + f": expected the root holding {rec['want_kids']}, got {rec['cls']} {rec['name']!r} {rec['kids']}"}
            else:
                exp_kids = rec['want_kids'] if rec['tree'] else []
                if rec['cls'] != rec['want_cls'] or rec['name'] != rec['want_name'] or rec['kids'] != exp_kids or rec['root_name'] != 'root':
                    return {'key': 'returned-object', 'what': where + f": expected {rec['want_cls']} {rec['want_name']!r} with children {exp_kids} under root 'root', got {rec['cls']} {rec['name']!r} {rec['kids']} under {rec['root_name']!r}"}
        return None
    file_slot = None
    for st, o in zip(case['steps'], obs):
        if st['op'] == 'save':
            if o['raised']:
                return None
            file_slot = o['slot']
            continue
        where = f"read emdpath={st.get('emdpath')!r} tree={st['tree']}"
        if not o['sha_unchanged']:
            return {'key': 'file-modified-by-read', 'what': where + ': file bytes changed'}
        roots = FA.root_names(file_slot)
        ep = st.get('emdpath')
        if ep is None:
            if len(roots) > 1:
                if o['raised'] or o['res'][0] != 'names' or sorted(o['res'][1]) != roots:
                    return {'key': 'multi-root-names', 'what': where + f': expected the root names {roots}'}
                continue
            ep = roots[0]
        comps = ep.split('/')
        if comps[0] == '':
            comps = comps[1:]
        rn, p = comps[0], tuple(comps[1:])
        M = FA.tree_map(file_slot, rn)
        if M is None or p not in M:
            if not o['raised']:
                return {'key': 'missing-path-not-reported', 'what': where + ': path is not in the file but read returned'}
            continue
        if o['raised']:
            return {'key': 'read-raised', 'what': where + f": raised {o['exc']}"}
        r = o['res']
        if r[0] == 'md':
            # whole-tree read of a childless root with one Metadata
            if p or st['tree'] is not True or len(M) != 1 or len(M[()][2]) != 1:
                return {'key': 'read-returned-metadata', 'what': where}
            continue
        if r[0] != 'tree':
            return {'key': 'read-not-tree', 'what': where}
        got = FA.runtime_map(r[1])
        E = {(): M[()]}
        if not p:
            if st['tree'] is not False:
                E = dict(M)
        elif st['tree'] is False:
            E[(p[-1],)] = M[p]
        elif st['tree'] is True:
            E.update(sub_map(M, p))
        else:
            for q, c in M.items():
                if q[:len(p)] == p and len(q) > len(p):
                    E[q[len(p):]] = c
        if r[1]['name'] != rn:
            return {'key': 'root-name', 'what': where + f": root named {r[1]['name']!r}"}
        # Root nodes carry no payload token in the runtime map
        if got != {k: (v[0], v[1], v[2], ()) for k, v in E.items()}:
            missing = sorted(set(E) - set(got)); extra = sorted(set(got) - set(E))
            diff = sorted(q for q in E if q in got and (E[q][0], E[q][1], E[q][2]) != got[q][:3])
            return {'key': 'selection', 'what': where + f': missing {missing[:3]} unexpected {extra[:3]} wrong content {diff[:3]}'}
        # which object was handed back
        if p and st['tree'] is not None:
            if r[2] != ('node', [p[-1]]):
                return {'key': 'returned-object', 'what': where + f': returned {r[2]}'}
    return None


def pick_smallest(cases_, idxs):
    return min(idxs, key=lambda i: T.count_nodes(cases_[i]['tops'][0]) if 'tops' in cases_[i] else 50)


def nontrivial(cases_, results):
    return len({(repr(c['tops']), st.get('emdpath'), st['tree']) for c in cases_ if 'steps' in c for st in c['steps'] if st['op'] == 'read' and st.get('emdpath') and '/' in st['emdpath'].strip('/')})


def samples(cases_, results):
    return [{'tree': c['tops'][0], 'steps': c['steps'][:6]} for c in cases_[:2] if 'tops' in c]


def distribution(cases_, results):
    d = {'reads': 0, 'raised': 0, 'missing_paths': 0, 'tree': {}}
    for c, r in zip(cases_, results):
        if 'steps' not in c:
            d['self_rooting_class_reads'] = d.get('self_rooting_class_reads', 0) + (len(r.get('reads', [])) if isinstance(r, dict) else 0)
            continue
        for st, o in zip(c['steps'], r):
            if st['op'] == 'read':
                d['reads'] += 1; d['raised'] += bool(o.get('raised')); d['missing_paths'] += bool(st.get('expect_missing'))
                d['tree'][str(st['tree'])] = d['tree'].get(str(st['tree']), 0) + 1
    return d
