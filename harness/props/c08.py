"""C08 -- partial read returns exactly the selected part and never modifies the file."""
import random
from harness import tree as T, fileabs as FA
from harness.tree import run_all, emit, COQ_IMPORTS, CASETY, CHECKFN

PROP = 'C08'
TARGETS = ['Props/C08.vo', 'Corr/XTree.vo']
PROPS_FILE = 'Props/C08.v'
RULE = ('files written from random trees (1..25 nodes; root names sharing letters with child names), one or two trees per file; '
        'reads with every node path x 3 tree options x with/without leading slash, paths not in the file (missing leaf, missing '
        'middle, prefix of a name, name extended), and no path; sha256 before/after each read; non-trivial = distinct (file, path, '
        'option) with a non-root path')
MODELLED = ['payload templates with content tokens', 'byte immutability under open mode r is HDF5 business (open modes come from the generated table)']
ASSUMPTIONS = ['files written by emdfile from valid trees']
NAMES = ['rot', 'origin', 'table', 'raw', 'a', 'b', 'ro', 't', 'array', 'o', 'root2', 'x y', 'é', 'e\u0301', 'peaks_5\u212b', '\u2126']


def cases(seed, tier):
    rng = random.Random(seed * 13 + 8)
    out = []
    n = 50 if tier == 'quick' else 1500
    for i in range(n):
        rn = rng.choice(['root', 'r', 'to', 'rt', 'e\u0301tude'])
        t = T.rand_tree(rng, rn, rng.choice([1, 3, 6, 10, 25]), names=NAMES, md_p=0.4)
        tops = [t]
        steps = [{'op': 'save', 'file': 0, 'top': 0, 'tp': [], 'mode': 'w', 'tree': True}]
        two = rng.random() < 0.3
        if two:
            t2 = T.rand_tree(rng, rn + '2', rng.choice([1, 3]), names=NAMES, md_p=0.4)
            tops.append(t2)
            steps.append({'op': 'save', 'file': 0, 'top': 1, 'tp': [], 'mode': 'a', 'tree': True})
            steps.append({'op': 'read', 'file': 0, 'tree': True})
        paths = T.all_paths(t)
        rng.shuffle(paths)
        for p in paths[:14]:
            for tr in (True, False, None):
                ep = '/'.join([rn] + p)
                steps.append({'op': 'read', 'file': 0, 'tree': tr, 'emdpath': ('/' + ep) if rng.random() < 0.4 else ep})
        # paths that do not exist
        for p in paths[:4]:
            bad = [p + ['zz'], p[:-1] + [(p[-1] if p else 'x') + 'q'], (p[:-1] + [p[-1][:-1]]) if p and len(p[-1]) > 1 else p + ['q'],
                   ['nope'] + p, p + ['zz', 'yy']]
            for b in bad:
                if b not in T.all_paths(t):
                    steps.append({'op': 'read', 'file': 0, 'tree': rng.choice([True, False, None]), 'emdpath': '/'.join([rn] + b), 'expect_missing': True})
        steps.append({'op': 'read', 'file': 0, 'tree': True, 'emdpath': 'noroot', 'expect_missing': True})
        if not two:
            steps.append({'op': 'read', 'file': 0, 'tree': rng.choice([True, False, None])})
        out.append({'tops': tops, 'steps': steps})
    return out


def sub_map(M, p):
    """content below path p, re-rooted at p's name"""
    return {(p[-1],) + q[len(p):]: c for q, c in M.items() if q[:len(p)] == p}


def oracle(case, obs):
    file_slot = None
    for st, o in zip(case['steps'], obs):
        if st['op'] == 'save':
            if o['raised']:
                return None
            file_slot = o['slot']
            continue
        where = f"read emdpath={st.get('emdpath')!r} tree={st['tree']}"
        if not o['sha_unchanged']:
            return {'key': 'file-modified-by-read', 'what': where + ': file bytes changed'}
        roots = FA.root_names(file_slot)
        ep = st.get('emdpath')
        if ep is None:
            if len(roots) > 1:
                if o['raised'] or o['res'][0] != 'names' or sorted(o['res'][1]) != roots:
                    return {'key': 'multi-root-names', 'what': where + f': expected the root names {roots}'}
                continue
            ep = roots[0]
        comps = ep.split('/')
        if comps[0] == '':
            comps = comps[1:]
        rn, p = comps[0], tuple(comps[1:])
        M = FA.tree_map(file_slot, rn)
        if M is None or p not in M:
            if not o['raised']:
                return {'key': 'missing-path-not-reported', 'what': where + ': path is not in the file but read returned'}
            continue
        if o['raised']:
            return {'key': 'read-raised', 'what': where + f": raised {o['exc']}"}
        r = o['res']
        if r[0] == 'md':
            # whole-tree read of a childless root with one Metadata
            if p or st['tree'] is not True or len(M) != 1 or len(M[()][2]) != 1:
                return {'key': 'read-returned-metadata', 'what': where}
            continue
        if r[0] != 'tree':
            return {'key': 'read-not-tree', 'what': where}
        got = FA.runtime_map(r[1])
        E = {(): M[()]}
        if not p:
            if st['tree'] is not False:
                E = dict(M)
        elif st['tree'] is False:
            E[(p[-1],)] = M[p]
        elif st['tree'] is True:
            E.update(sub_map(M, p))
        else:
            for q, c in M.items():
                if q[:len(p)] == p and len(q) > len(p):
                    E[q[len(p):]] = c
        if r[1]['name'] != rn:
            return {'key': 'root-name', 'what': where + f": root named {r[1]['name']!r}"}
        # Root nodes carry no payload token in the runtime map
        if got != {k: (v[0], v[1], v[2], ()) for k, v in E.items()}:
            missing = sorted(set(E) - set(got)); extra = sorted(set(got) - set(E))
            diff = sorted(q for q in E if q in got and (E[q][0], E[q][1], E[q][2]) != got[q][:3])
            return {'key': 'selection', 'what': where + f': missing {missing[:3]} unexpected {extra[:3]} wrong content {diff[:3]}'}
        # which object was handed back
        if p and st['tree'] is not None:
            if r[2] != ('node', [p[-1]]):
                return {'key': 'returned-object', 'what': where + f': returned {r[2]}'}
    return None


def pick_smallest(cases_, idxs):
    return min(idxs, key=lambda i: T.count_nodes(cases_[i]['tops'][0]))


def nontrivial(cases_, results):
    return len({(repr(c['tops']), st.get('emdpath'), st['tree']) for c in cases_ for st in c['steps'] if st['op'] == 'read' and st.get('emdpath') and '/' in st['emdpath'].strip('/')})


def samples(cases_, results):
    return [{'tree': c['tops'][0], 'steps': c['steps'][:6]} for c in cases_[:2]]


def distribution(cases_, results):
    d = {'reads': 0, 'raised': 0, 'missing_paths': 0, 'tree': {}}
    for c, r in zip(cases_, results):
        for st, o in zip(c['steps'], r):
            if st['op'] == 'read':
                d['reads'] += 1; d['raised'] += bool(o.get('raised')); d['missing_paths'] += bool(st.get('expect_missing'))
                d['tree'][str(st['tree'])] = d['tree'].get(str(st['tree']), 0) + 1
    return d
