"""C11 -- write never clobbers, overwrite leaves no residue, append to nothing is write."""
import itertools, random
from harness import tree as T, fileabs as FA
from harness.tree import run_all, emit, COQ_IMPORTS, CASETY, CHECKFN

PROP = 'C11'
TARGETS = ['Props/C11.vo', 'Corr/XTree.vo']
PROPS_FILE = 'Props/C11.v'
W, O, A, AO = ['w', 'write'], ['o', 'overwrite'], ['a', '+', 'append'], ['oa', 'ao', 'o+', '+o', 'appendover']
BAD = ['x', '', 'W', 'A', 'wo', 'app', 'r', 'overwrite ', 'a+']
OLD = ['absent', 'junk', 'empty', 'h5', 'h5_fake_header', 'emd', 'emd_other']
RULE = ('exhaustive product: every spelling of every mode (12) + 9 invalid strings x old content {absent, junk bytes, zero-length file, non-EMD HDF5, '
        'HDF5 with EMD header but no roots, EMD file holding the same root name, EMD file holding another root} x emdpath {none, '
        'root, missing} x tree option x target {root, inner node, unrooted node, mixed list, list of rooted nodes only, empty list, array, dict}; a reference save of the same target into a '
        'fresh path is made in every scenario; non-trivial = distinct (mode, old content, emdpath, tree, target)')
MODELLED = ['the filesystem is a map from paths to slots (Absent / raw bytes token / HDF5 object)', 'byte-for-byte equality is observed by sha256']
ASSUMPTIONS = ['mode strings (non-string modes are rejected by the same membership test)']


def cases(seed, tier):
    rng = random.Random(seed * 5 + 11)
    combos = list(itertools.product(W + O + A + AO + BAD, OLD, [None, 'r', 'r/zz'], [True, False, None], ['root', 'inner', 'unrooted', 'list', 'list_rooted', 'list_empty', 'arr', 'dict']))
    if tier == 'quick':
        # keep every (mode, old, emdpath) triple, sample the rest
        keep = {}
        for c in combos:
            keep.setdefault(c[:3], []).append(c)
        combos = [rng.choice(v) for v in keep.values()] + rng.sample(combos, 300)
        # every (write/overwrite spelling, old content, input kind) without emdpath
        combos += [(m, o, None, rng.choice([True, False, None]), t) for m in W + O for o in OLD
                   for t in ['root', 'inner', 'unrooted', 'list', 'list_rooted', 'list_empty', 'arr', 'dict']]
    out = []
    for mode, old, ep, tr, tgt in combos:
        t = T.rand_tree(rng, 'r', rng.choice([2, 3, 5]), names=['a', 'b', 'c', 'd'], md_p=0.3)
        oldt = T.rand_tree(rng, 'r' if old == 'emd' else 'q', rng.choice([1, 3]), names=['a', 'b', 'e'], md_p=0.3)
        un = {'cls': 'Array', 'name': 'u', 'tok': T.fresh_tok(), 'rank': 1, 'mds': [], 'kids': []}
        tops = [t, oldt, un]
        paths = [p for p in T.all_paths(t) if p]
        top, tp = (0, []) if tgt == 'root' else (0, rng.choice(paths)) if tgt == 'inner' and paths else (2, [])
        steps = []
        if old in ('junk', 'empty', 'h5', 'h5_fake_header'):
            steps.append({'op': 'raw', 'file': 0, 'kind': old})
        elif old in ('emd', 'emd_other'):
            steps.append({'op': 'save', 'file': 0, 'top': 1, 'tp': [], 'mode': 'w', 'tree': True})
        main = {'op': 'save', 'file': 0, 'top': top, 'tp': tp, 'mode': mode, 'tree': tr, 'main': True}
        if tgt == 'list':
            main['input'] = {'kind': rng.choice(['list', 'tuple']), 'items': [{'kind': 'top', 'top': 0, 'tp': []}, {'kind': 'top', 'top': 2, 'tp': []},
                                                                               {'kind': 'arr', 'tok': T.fresh_tok(), 'rank': 1}][:rng.choice([1, 2, 3])]}
        elif tgt == 'list_empty':
            main['input'] = {'kind': rng.choice(['list', 'tuple']), 'items': []}      # nothing to save: still a save in that mode
        elif tgt == 'list_rooted':
            # a list made up only of nodes that already belong to a tree (direct children of the root): no Root, nothing unrooted
            kids = [k['name'] for k in t['kids']]
            main['input'] = {'kind': rng.choice(['list', 'tuple']), 'items': [{'kind': 'top', 'top': 0, 'tp': [k]} for k in rng.sample(kids, rng.choice([1, min(2, len(kids))]))]} if kids else \
                {'kind': 'list', 'items': [{'kind': 'top', 'top': 0, 'tp': []}]}
        elif tgt in ('arr', 'dict'):
            main['input'] = {'kind': tgt, 'tok': T.fresh_tok(), 'rank': 1}
        if ep is not None:
            main['emdpath'] = ep.replace('r', oldt['name'], 1) if old == 'emd_other' else ep
        steps.append(main)
        ref = {'op': 'save', 'file': 1, 'top': top, 'tp': tp, 'mode': 'w', 'tree': tr, 'ref': True}
        if 'input' in main:
            ref['input'] = main['input']
        steps.append(ref)
        out.append({'tops': tops, 'steps': steps, 'old': old})
    return out


def oracle(case, obs):
    i = next(k for k, s in enumerate(case['steps']) if s.get('main'))
    st, o, ref = case['steps'][i], obs[i], obs[i + 1]
    old = case['old']
    mode, ep = st['mode'], st.get('emdpath')
    where = f"mode={mode!r} old={old} emdpath={ep!r} tree={st['tree']}"
    unchanged = (o['sha_before'] == o['sha_after'])
    if mode not in W + O + A + AO:
        if not o['raised'] or not unchanged:
            return {'key': 'unknown-mode-accepted' + ('-with-emdpath' if ep is not None else ''), 'what': where + f": raised={o['raised']} file unchanged={unchanged}"}
        return None
    if ep is None:
        if mode in W and old != 'absent':
            if not o['raised'] or not unchanged:
                return {'key': 'write-mode-clobbered', 'what': where + f": raised={o['raised']} unchanged={unchanged}"}
            return None
        if mode in O or old == 'absent':
            # must equal a fresh save
            if ref['raised']:
                return None
            if o['raised']:
                return {'key': 'fresh-save-raised', 'what': where + f": raised {o['exc']}"}
            if o['slot'] != ref['slot']:
                return {'key': 'differs-from-fresh-save', 'what': where + ': content differs from the same save into a fresh path'}
            return None
    else:
        # emdpath turns write/overwrite into append (documented); on an absent path this is a plain write
        if old == 'absent':
            if ref['raised']:
                return None
            if o['raised'] or o['slot'] != ref['slot']:
                return {'key': 'append-to-nothing-differs', 'what': where}
    return None


def pick_smallest(cases_, idxs):
    return idxs[0]


def nontrivial(cases_, results):
    return len({(s['mode'], c['old'], s.get('emdpath'), s['tree'], s.get('top'), bool(s.get('tp')), (s.get('input') or {}).get('kind')) for c in cases_ for s in c['steps'] if s.get('main')})


def samples(cases_, results):
    return [{'old': c['old'], 'steps': c['steps']} for c in cases_[:3]]


def distribution(cases_, results):
    d = {'mode_class': {}, 'old': {}, 'raised': 0, 'returned': 0}
    for c, r in zip(cases_, results):
        i = next(k for k, s in enumerate(c['steps']) if s.get('main'))
        m = c['steps'][i]['mode']
        k = 'w' if m in W else 'o' if m in O else 'a' if m in A else 'ao' if m in AO else 'invalid'
        d['mode_class'][k] = d['mode_class'].get(k, 0) + 1
        d['old'][c['old']] = d['old'].get(c['old'], 0) + 1
        d['raised' if r[i]['raised'] else 'returned'] += 1
    return d
