"""Common driver: translate -> build proofs -> hygiene -> correspondence -> oracle
-> classify -> evidence.  See DESIGN.md section 1.2."""
import contextlib, fcntl, hashlib, io, json, os, re, shutil, subprocess, sys, tempfile, time, traceback

VERIF = os.path.dirname(os.path.dirname(os.path.abspath(__file__)))
COQ = os.path.join(VERIF, 'coq')
REPO = os.environ.get('VERIF_REPO', '/repo')
REPO_SRC = os.path.join(REPO, 'src')
NPROC = int(os.environ.get('VERIF_JOBS', '16'))

KERNEL_PRIMS_OK = re.compile(r'^(PrimFloat\.|Uint63\.|PrimInt63\.|Float64|FloatOps\.|PrimArray\.|Sint63\.)')


PRIM_TYPES = {'float', 'int', 'PrimInt63.int', 'Uint63.int', 'Set', 'bool', 'comparison', 'PrimFloat.float', 'float_comparison',
              'float_class', 'FloatClass.float_class', 'PrimFloat.float_comparison', 'carry', 'PrimInt63.carry', 'prod', 'Z'}


def kernel_primitive(entry):
    """`name : type` from Print Assumptions is a kernel primitive of PrimFloat / Uint63 (native floats / ints),
    not an axiom of ours: its type mentions primitive types only."""
    if KERNEL_PRIMS_OK.match(entry):
        return True
    if ' : ' not in entry:
        return False
    name, ty = entry.split(' : ', 1)
    toks = re.findall(r'[A-Za-z_][A-Za-z0-9_\.]*', ty)
    return bool(toks) and all(t in PRIM_TYPES for t in toks)


def scratch_dir():
    base = os.environ.get('VERIF_SCRATCH') or '/var/tmp'
    os.makedirs(base, exist_ok=True)
    return tempfile.mkdtemp(prefix='emdverif_', dir=base)


@contextlib.contextmanager
def coq_lock():
    os.makedirs(COQ, exist_ok=True)
    with open(os.path.join(COQ, '.lock'), 'w') as lk:
        fcntl.flock(lk, fcntl.LOCK_EX)
        try:
            yield
        finally:
            fcntl.flock(lk, fcntl.LOCK_UN)


def pmap(fn, items, chunksize=None):
    """Parallel map over forked workers (deterministic order)."""
    import multiprocessing as mp
    if len(items) < 8 or NPROC <= 1:
        return [fn(x) for x in items]
    ctx = mp.get_context('fork')
    with ctx.Pool(min(NPROC, 16)) as pool:
        return pool.map(fn, items, chunksize or max(1, len(items) // (NPROC * 4)))


@contextlib.contextmanager
def quiet():
    """Silence emdfile's prints / tqdm."""
    with contextlib.redirect_stdout(io.StringIO()), contextlib.redirect_stderr(io.StringIO()):
        yield


def translate():
    r = subprocess.run([sys.executable, os.path.join(VERIF, 'gen', 'py2coq.py'), REPO_SRC,
                        os.path.join(COQ, 'Generated')], capture_output=True, text=True)
    try:
        return json.loads(r.stdout.strip().splitlines()[-1])
    except Exception:
        return {'translator': {'ok': False, 'reason': (r.stdout + r.stderr)[-2000:]}}


def ensure_makefile():
    mk = os.path.join(COQ, 'Makefile')
    cp = os.path.join(COQ, '_CoqProject')
    if not os.path.exists(mk) or os.path.getmtime(mk) < os.path.getmtime(cp):
        subprocess.run(['coq_makefile', '-f', '_CoqProject', '-o', 'Makefile'], cwd=COQ, check=True,
                       capture_output=True)


def build(targets, clean=False, timeout=1800):
    """Full .vo build of the targets' closure.  Returns (ok, log)."""
    ensure_makefile()
    if clean:
        subprocess.run(['make', 'clean'], cwd=COQ, capture_output=True)
        ensure_makefile()
    # Generated sources that the translator refused are absent: make fails on them (intended).
    for t in targets:
        # always recompile the statement files so that Print Assumptions is re-emitted
        if t.startswith('Props/'):
            for ext in ('.vo', '.glob', '.vos', '.vok'):
                p = os.path.join(COQ, t[:-3] + ext)
                if os.path.exists(p):
                    os.remove(p)
    try:
        r = subprocess.run(['make', '-j%d' % min(NPROC, 8)] + targets, cwd=COQ, capture_output=True, text=True,
                           timeout=timeout)
        return r.returncode == 0, r.stdout + r.stderr
    except subprocess.TimeoutExpired as e:
        return False, 'TIMEOUT building ' + ' '.join(targets)


def parse_assumptions(props_file):
    """Compile-time output of `Print Assumptions` is lost in make -j interleaving; re-run coqc on
    the statement file alone (its dependencies are built) and parse theorem by theorem."""
    r = subprocess.run(['coqc', '-R', '.', 'Emd', props_file], cwd=COQ, capture_output=True, text=True, timeout=900)
    out = r.stdout + r.stderr
    src = open(os.path.join(COQ, props_file), encoding='utf-8').read()
    names = re.findall(r'^Print Assumptions (\S+?)\.\s*$', src, flags=re.M)
    theorems = re.findall(r'^(?:Theorem|Lemma)\s+(\S+)', src, flags=re.M)
    # split output into blocks: each Print Assumptions yields either "Closed under the global context"
    # or "Axioms:" followed by lines "name : type"
    blocks, cur = [], None
    for line in out.splitlines():
        if line.startswith('Closed under the global context'):
            blocks.append([])
            cur = None
        elif line.startswith('Axioms:'):
            cur = []
            blocks.append(cur)
        elif cur is not None:
            m = re.match(r'^(\S+)\s*:\s*(.*)$', line)
            if m:
                cur.append(m.group(1) + ' : ' + m.group(2).strip())
            elif line.startswith(' ') and cur:
                cur[-1] += ' ' + line.strip()
    res = {}
    for i, n in enumerate(names):
        res[n] = blocks[i] if i < len(blocks) else None
    return r.returncode == 0, theorems, res, out


HYGIENE_PAT = re.compile(
    r'\b(Admitted|admit|Axiom|Axioms|Parameter|Parameters|Conjecture|Conjectures|Admit Obligations|Unset Guard Checking|'
    r'Unset Positivity Checking|Unset Universe Checking|bypass_check|type-in-type|impredicative-set|native_compute)\b')


def strip_comments(txt):
    out, depth, i = [], 0, 0
    while i < len(txt):
        if txt.startswith('(*', i):
            depth += 1; i += 2
        elif txt.startswith('*)', i) and depth:
            depth -= 1; i += 2
        else:
            if depth == 0:
                out.append(txt[i])
            i += 1
    return ''.join(out)


def hygiene():
    bad = []
    for root, _, files in os.walk(COQ):
        for f in files:
            if f.endswith('.v') or f == '_CoqProject':
                p = os.path.join(root, f)
                txt = strip_comments(open(p, encoding='utf-8').read())
                # strings may legitimately contain words; drop string literals
                txt2 = re.sub(r'"(?:[^"]|"")*"', '""', txt)
                for m in HYGIENE_PAT.finditer(txt2):
                    bad.append(f'{os.path.relpath(p, COQ)}: {m.group(0)}')
                # Variable / Hypothesis outside a section
                depth = 0
                for line in txt2.splitlines():
                    s = line.strip()
                    if re.match(r'^Section\s', s):
                        depth += 1
                    elif re.match(r'^End\s', s) and depth:
                        depth -= 1
                    elif re.match(r'^(Variable|Variables|Hypothesis|Hypotheses|Context)\b', s) and depth == 0:
                        bad.append(f'{os.path.relpath(p, COQ)}: {s[:40]} outside a section')
    return bad


# ---------------------------------------------------------------- Coq emission helpers
def coqstr(s):
    if isinstance(s, bytes):
        b = s
    else:
        b = s.encode('utf-8')
    out, cur = [], ''
    for c in b:
        if c == 0x22:
            cur += '""'
        elif 0x20 <= c < 0x7f:
            cur += chr(c)
        else:
            if cur:
                out.append('"%s"' % cur); cur = ''
            out.append('(String (ascii_of_nat %d) "")' % c)
    if cur or not out:
        out.append('"%s"' % cur)
    return out[0] if len(out) == 1 else '(' + ' +++ '.join(out) + ')'


class Interner:
    """Emit every distinct string / repeated term once as a Definition (10x faster shards)."""

    def __init__(self, prefix='s'):
        self.tab, self.defs, self.prefix = {}, [], prefix

    def s(self, x):
        key = ('s', x)
        if key not in self.tab:
            nm = f'{self.prefix}{len(self.tab)}'
            self.tab[key] = nm
            self.defs.append(f'Definition {nm} : string := {coqstr(x)}.')
        return self.tab[key]

    def term(self, ty, txt):
        key = ('t', ty, txt)
        if key not in self.tab:
            nm = f'{self.prefix}{len(self.tab)}'
            self.tab[key] = nm
            self.defs.append(f'Definition {nm} : {ty} := {txt}.')
        return self.tab[key]


def coqZ(z):
    return f'({int(z)})%Z'


def coqbool(b):
    return 'true' if b else 'false'


def coqlist(items):
    return '[' + '; '.join(items) + ']'


def coqopt(x):
    return 'None' if x is None else f'(Some {x})'


def run_shards(imports, checkfn, casety, shards, scratch, timeout=900):
    """shards: list of (defs:list[str], terms:list[str]).  Returns list of lists of mismatching
    indices (or None for a shard that failed to compile, with its log)."""
    paths = []
    for i, (defs, terms) in enumerate(shards):
        p = os.path.join(scratch, f'cases_{i}.v')
        with open(p, 'w', encoding='utf-8') as f:
            f.write(imports + '\n')
            f.write('\n'.join(defs) + '\n')
            f.write(f'Definition cases : list ({casety}) := [\n' + ';\n'.join(terms) + '\n].\n')
            f.write(f'Eval vm_compute in (mismatches {checkfn} cases).\n')
        paths.append(p)
    procs = []
    results = [None] * len(paths)
    logs = [''] * len(paths)

    def launch(i):
        return subprocess.Popen(['coqc', '-R', COQ, 'Emd', paths[i]], cwd=scratch, stdout=subprocess.PIPE,
                                stderr=subprocess.STDOUT, text=True)
    pending = list(range(len(paths)))
    running = {}
    t0 = time.time()
    while pending or running:
        while pending and len(running) < NPROC:
            i = pending.pop(0)
            running[i] = launch(i)
        for i, p in list(running.items()):
            if p.poll() is not None:
                out = p.stdout.read()
                logs[i] = out
                del running[i]
                if p.returncode == 0:
                    m = re.search(r'=\s*\[(.*?)\]\s*(?:%\w+)?\s*:\s*list nat', out, flags=re.S)
                    if m:
                        body = m.group(1).strip()
                        results[i] = [int(x) for x in re.findall(r'\d+', body)] if body else []
        if time.time() - t0 > timeout:
            for p in running.values():
                p.kill()
            break
        time.sleep(0.02)
    return results, logs


# ---------------------------------------------------------------- findings, replay, evidence
def load_known(prop):
    p = os.path.join(VERIF, 'known_findings.jsonl')
    out = []
    if os.path.exists(p):
        for line in open(p, encoding='utf-8'):
            line = line.strip()
            if line:
                d = json.loads(line)
                if d.get('property') == prop and d.get('status') == 'known':
                    out.append(d)
    return out


def write_replay(prop, payload):
    os.makedirs(os.path.join(VERIF, 'replays'), exist_ok=True)
    txt = json.dumps(payload, indent=1, sort_keys=True, default=str)
    h = hashlib.sha256(txt.encode()).hexdigest()[:12]
    p = os.path.join(VERIF, 'replays', f'{prop}-{h}.json')
    with open(p, 'w') as f:
        f.write(txt)
    return p


def write_evidence(prop, tier, seed, coverage, assumptions, wall, violations):
    os.makedirs(os.path.join(VERIF, 'evidence'), exist_ok=True)
    ev = {'property_id': prop, 'tier': tier, 'seed': seed, 'level': 'proof', 'coverage': coverage,
          'assumptions': assumptions, 'wall_s': round(wall, 2), 'violations': violations}
    with open(os.path.join(VERIF, 'evidence', f'{prop}.json'), 'w') as f:
        json.dump(ev, f, indent=1, default=str)


def load_corpus(prop):
    d = os.path.join(VERIF, 'corpus', prop)
    out = []
    if os.path.isdir(d):
        for fn in sorted(os.listdir(d)):
            if fn.endswith('.json'):
                out.append(json.load(open(os.path.join(d, fn))))
    return out


TRUSTED_BASE_COMMON = [
    'Coq 8.16.1 kernel (coqc), vm_compute for correspondence evaluation and refutation witnesses; no native_compute',
    'no axioms declared; Print Assumptions output recorded per theorem in coverage.assumptions_per_theorem',
    'translator gen/py2coq.py (fail-closed Python-ast to Gallina for _version_is_geq and constant tables) and CPython ast',
    'correspondence harness (harness/*.py): generators, raw-h5py abstraction, oracle; CPython 3.12, numpy, h5py/HDF5 as reference behaviour',
    'no extraction (no Extract directives)',
]


def run_check(mod, tier, seed):
    """mod: property module (see harness/props/*).  Returns process exit code."""
    t0 = time.time()
    prop = mod.PROP
    lines = []          # VIOLATION / KNOWN-FINDING lines
    notes = []
    broken = []         # names of proof obligations / fragments / correspondence that no longer check
    scratch = scratch_dir()
    try:
        with coq_lock():
            tstatus = translate()
            for frag, st in tstatus.items():
                if not st.get('ok'):
                    broken.append({'kind': 'translator', 'fragment': frag, 'reason': st.get('reason')})
            ok, log = build(mod.TARGETS, clean=(tier == 'thorough' and os.environ.get('VERIF_NOCLEAN') != '1'))
            assumptions, theorems = {}, []
            if ok:
                ok2, theorems, assumptions, alog = parse_assumptions(mod.PROPS_FILE)
                if not ok2:
                    ok = False
                    log += alog
            if not ok:
                broken.append({'kind': 'proof', 'target': mod.TARGETS, 'log': log[-3000:]})
            coqchk_out = None
            if ok and tier == 'thorough' and os.environ.get('VERIF_NOCOQCHK') != '1':
                lib = 'Emd.' + mod.PROPS_FILE[:-2].replace('/', '.')
                try:
                    r = subprocess.run(['coqchk', '-silent', '-o', '-R', '.', 'Emd', lib], cwd=COQ, capture_output=True,
                                       text=True, timeout=1800)
                    coqchk_out = (r.stdout + r.stderr)[-3000:]
                    if r.returncode != 0:
                        broken.append({'kind': 'coqchk', 'log': coqchk_out})
                except subprocess.TimeoutExpired:
                    coqchk_out = 'coqchk timed out (not counted as failure)'
        hyg = hygiene()
        if hyg:
            broken.append({'kind': 'hygiene', 'hits': hyg})
        bad_axioms = {}
        for th, ax in assumptions.items():
            if ax is None:
                bad_axioms[th] = ['<no Print Assumptions output>']
            else:
                extra = [a for a in ax if not kernel_primitive(a)]
                if extra:
                    bad_axioms[th] = extra
        if bad_axioms:
            broken.append({'kind': 'axioms', 'theorems': bad_axioms})

        # ---- correspondence + oracle
        corpus = load_corpus(prop)
        cases = list(corpus) + mod.cases(seed, tier)
        results = mod.run_all(cases, scratch)            # list of observations (JSON-able)
        herr = [r for r in results if isinstance(r, list) and r and isinstance(r[0], dict) and 'harness_error' in r[0]]
        if herr:
            broken.append({'kind': 'harness-error', 'n': len(herr), 'first': herr[0][0]['harness_error']})
        verdicts = [None if (isinstance(o, list) and o and isinstance(o[0], dict) and 'harness_error' in o[0]) else mod.oracle(c, o)
                    for c, o in zip(cases, results)]   # None or dict(key, what)
        mism = []
        corr_log = None
        n_corr = 0
        if ok:
            shards = mod.emit(cases, results)            # list of (defs, terms, idxmap)
            res, logs = run_shards(mod.COQ_IMPORTS, mod.CHECKFN, mod.CASETY, [(d, t) for d, t, _ in shards], scratch)
            for (d, t, idxmap), r, lg in zip(shards, res, logs):
                n_corr += len(t)
                if r is None:
                    broken.append({'kind': 'correspondence-shard', 'log': lg[-2000:]})
                    corr_log = lg[-2000:]
                else:
                    mism += [idxmap[i] for i in r]
        if mism:
            broken.append({'kind': 'correspondence', 'n_mismatch': len(mism), 'first_cases': mism[:10]})

        # ---- classify
        known = load_known(prop)
        known_hit = {}
        new_viol = []
        for i, v in enumerate(verdicts):
            if v is None:
                continue
            k = next((kf for kf in known if kf['key'] == v['key']), None)
            if k is not None:
                known_hit.setdefault(k['key'], (k, i))
            else:
                new_viol.append(i)
        for key, (k, i) in sorted(known_hit.items()):
            lines.append(f"KNOWN-FINDING: property={prop} {k['what']}")
        exit_code = 0
        if new_viol:
            i = mod.pick_smallest(cases, new_viol) if hasattr(mod, 'pick_smallest') else new_viol[0]
            case = cases[i]
            if hasattr(mod, 'shrink'):
                try:
                    case, obs, verdict = mod.shrink(case, scratch)
                except Exception:
                    case, obs, verdict = cases[i], results[i], verdicts[i]
            else:
                obs, verdict = results[i], verdicts[i]
            path = write_replay(prop, {'property': prop, 'seed': seed, 'kind': 'failing-input', 'case': case,
                                       'observed': obs, 'oracle_verdict': verdict, 'broken': broken,
                                       'n_failing_cases': len(new_viol)})
            lines.append(f'VIOLATION property={prop} replay={path}')
            exit_code = 1
        elif broken:
            # a proof obligation / the correspondence no longer checks and no failing input was found
            extra = {}
            if mism:
                j = mism[0]
                extra = {'first_mismatching_case': cases[j], 'observed': results[j]}
            path = write_replay(prop, {'property': prop, 'seed': seed, 'kind': 'no-failing-input-found',
                                       'broken': broken, **extra})
            lines.append(f'VIOLATION property={prop} replay={path} no-failing-input-found')
            exit_code = 1

        # ---- evidence
        nontriv = mod.nontrivial(cases, results) if hasattr(mod, 'nontrivial') else len(cases)
        obligations = len(theorems)
        discharged = len([t for t in theorems]) if ok else 0
        cov = {
            'obligations': max(obligations, 1) if ok else max(len(getattr(mod, 'EXPECTED_THEOREMS', [])), 1),
            'discharged': discharged,
            'checker_cmd': f"make -C coq {' '.join(mod.TARGETS)} (coq_makefile, full .vo) + coqc -R coq Emd {mod.PROPS_FILE} (Print Assumptions)"
                           + (' + coqchk -o' if tier == 'thorough' else ''),
            'trusted_base': TRUSTED_BASE_COMMON + list(getattr(mod, 'TRUSTED_EXTRA', [])),
            'theorems': theorems,
            'assumptions_per_theorem': {k: (v if v else 'Closed under the global context') for k, v in assumptions.items()},
            'translator_status': tstatus,
            'hygiene_hits': hyg,
            'evaluations': len(cases),
            'distinct_nontrivial': nontriv,
            'rule': mod.RULE,
            'samples': mod.samples(cases, results) if hasattr(mod, 'samples') else [{'case': c, 'observed': o} for c, o in list(zip(cases, results))[:3]],
            'correspondence_cases_evaluated_in_coq': n_corr,
            'correspondence_mismatches': len(mism),
            'oracle_failures_new': len(new_viol),
            'oracle_failures_known': sum(1 for v in verdicts if v is not None) - len(new_viol),
            'corpus_cases': len(corpus),
            'distribution': mod.distribution(cases, results) if hasattr(mod, 'distribution') else {},
            'modelled_not_verified': list(getattr(mod, 'MODELLED', [])),
            'partial': getattr(mod, 'PARTIAL', ''),
            'broken': broken,
        }
        if coqchk_out is not None:
            cov['coqchk'] = coqchk_out
        write_evidence(prop, tier, seed, cov, list(getattr(mod, 'ASSUMPTIONS', [])), time.time() - t0,
                       len(new_viol) + (1 if (broken and not new_viol) else 0))
        for l in lines:
            print(l)
        print(f'[{prop}] tier={tier} seed={seed} theorems={len(theorems)} build_ok={ok} cases={len(cases)} '
              f'coq_evaluated={n_corr} mismatches={len(mism)} oracle_new={len(new_viol)} known={len(known_hit)} '
              f'wall={time.time() - t0:.1f}s exit={exit_code}')
        return exit_code
    finally:
        shutil.rmtree(scratch, ignore_errors=True)


def replay(mod, path):
    d = json.load(open(path))
    scratch = scratch_dir()
    try:
        if d.get('kind') != 'failing-input':
            print(json.dumps(d.get('broken'), indent=1)[:4000])
            print('replay: no concrete input recorded (no-failing-input-found); see "broken" above')
            return 1
        obs = mod.run_all([d['case']], scratch)[0]
        v = mod.oracle(d['case'], obs)
        print(json.dumps({'case': d['case'], 'observed_now': obs, 'oracle_verdict_now': v}, indent=1, default=str))
        return 1 if v is not None else 0
    finally:
        shutil.rmtree(scratch, ignore_errors=True)
