"""Metadata value scenarios (C03, C15, C16): value specs <-> Python objects, abstraction of the file items
(raw h5py) and of the read-back values, emission to the Coq model's terms."""
import math, os, random
import numpy as np
from harness import core
from harness.core import coqstr, coqlist, coqbool, coqZ

ARR_DTYPES = ['int8', 'int32', 'int64', 'uint16', 'float16', 'float32', 'float64', 'complex128', 'bool', '>f4']
FL = [0.5, -2.25, 1e300, 5e-324, float('nan'), float('inf'), float('-inf'), 0.0, -0.0, 0.1, 3.0]
INTS = [0, 1, -1, 7, 2 ** 31, -2 ** 63, 2 ** 63 - 1, 2 ** 53, 255]
STRS = ['', 'a', 'hello world', 'é€😀', 'None', 'tab\there', ' lead', 'x' * 300, 'a/b', '.']
KEYS = ['a', 'b', 'key with space', 'é', 'k1', 'k2', 'data', 'type', 'K', '0', 'metadata']


# ------------------------------------------------------------------ specs -> python
def mk_arr(dtype, shape, tok):
    n = int(np.prod(shape)) if shape else 1
    a = np.arange(n) + tok                      # 1-d: arithmetic on 0-d arrays would give numpy scalars
    if dtype == 'bool':
        r = (a % 2).astype(bool)
    elif dtype.startswith('<U') or dtype.startswith('U'):
        r = np.array(['s%d' % x for x in a], dtype=dtype)
    elif dtype == 'object':
        r = np.array([None] * n, dtype=object)
    elif 'complex' in dtype:
        r = (a + 1j * a).astype(dtype)
    else:
        r = a.astype(dtype)
    return r.reshape(shape)


def build(v):
    k = v[0]
    if k == 'none': return None
    if k == 'str': return v[1]
    if k == 'bool': return bool(v[1])
    if k == 'int': return int(v[1])
    if k == 'float': return float.fromhex(v[1]) if isinstance(v[1], str) else float(v[1])
    if k == 'complex': return complex(float.fromhex(v[1]), float.fromhex(v[2]))
    if k == 'np': return np.dtype(v[1]).type(build(v[2]))
    if k == 'arr': return mk_arr(v[1], tuple(v[2]), v[3])
    if k == 'tuple': return tuple(build(x) for x in v[1])
    if k == 'list': return [build(x) for x in v[1]]
    if k == 'dict': return {kk: build(x) for kk, x in v[1]}
    if k == 'bytes': return v[1].encode()
    if k == 'set': return {1, 2}
    raise ValueError(k)


def abs_val(x):
    if x is None: return ['none']
    if isinstance(x, np.generic):          # before float/complex: np.float64 / np.complex128 subclass the Python types
        return _abs_np(x)
    if isinstance(x, bool): return ['bool', x]
    if isinstance(x, int): return ['int', x]
    if isinstance(x, float): return ['float', x.hex()]
    if isinstance(x, complex): return ['complex', x.real.hex(), x.imag.hex()]
    if isinstance(x, str): return ['str', x]
    if isinstance(x, bytes): return ['bytes', x.decode('utf-8', 'replace')]
    if isinstance(x, np.ndarray):
        tok = -1
        if x.dtype.kind in 'biufc':
            t0 = 0
            if x.size:
                f = x.flat[0]
                t0 = int(f.real) if x.dtype.kind == 'c' else int(f)
            cands = [t0] if x.dtype.kind != 'b' else [0, 1]
            for t in cands:
                try:
                    if np.array_equal(mk_arr(str(x.dtype), x.shape, t), x):
                        tok = t; break
                except Exception:
                    pass
        return ['arr', str(x.dtype), [int(s) for s in x.shape], tok]
    if isinstance(x, tuple): return ['tuple', [abs_val(e) for e in x]]
    if isinstance(x, list): return ['list', [abs_val(e) for e in x]]
    if isinstance(x, dict): return ['dict', [[k, abs_val(e)] for k, e in x.items()]]
    return ['other', type(x).__name__]


def _abs_np(x):
    if isinstance(x, np.bool_): return ['np', 'bool', ['bool', bool(x)]]
    if isinstance(x, np.integer): return ['np', str(x.dtype), ['int', int(x)]]
    if isinstance(x, np.floating): return ['np', str(x.dtype), ['float', float(x).hex()]]
    if isinstance(x, np.complexfloating): return ['np', str(x.dtype), ['complex', float(x.real).hex(), float(x.imag).hex()]]
    if isinstance(x, np.bytes_): return ['bytes', bytes(x).decode('utf-8', 'replace')]
    if isinstance(x, np.str_): return ['str', str(x)]
    return ['other', type(x).__name__]


# ------------------------------------------------------------------ file abstraction
def _sc(x):
    if isinstance(x, (bool, np.bool_)): return ['bool', bool(x)]
    if isinstance(x, (int, np.integer)): return ['int', int(x)]
    if isinstance(x, (float, np.floating)): return ['float', float(x).hex()]
    if isinstance(x, (complex, np.complexfloating)): return ['complex', float(x.real).hex(), float(x.imag).hex()]
    return ['other', repr(x)[:30]]


def abs_dset(d, ctx):
    import h5py
    if ctx == 'arr':
        a = abs_val(np.array(d))
        return ['arr', a[1], a[2], a[3]] if a[0] == 'arr' else ['bytes', str(a)]
    if d.shape == () and d.dtype.kind in 'SO':
        v = d[()]
        return ['bytes', v.decode('utf-8', 'replace') if isinstance(v, bytes) else str(v)]
    if d.shape == () and d.dtype.kind in 'biufc':
        return ['sc', _sc(d[()])]
    if ctx == 'vec' and len(d.shape) == 1 and d.dtype.kind in 'biufc':
        return ['vec', [_sc(x) for x in d[...]]]
    a = abs_val(np.array(d))
    return ['arr', a[1], a[2], a[3]]


def _tag(o):
    t = o.attrs.get('type')
    if isinstance(t, bytes):
        t = t.decode()
    return t


def abs_item(o):
    import h5py
    t = _tag(o)
    if isinstance(o, h5py.Group):
        if t == 'dict':
            return ['dict', [[k, abs_item(o[k])] for k in o.keys()]]
        L = o.attrs.get('length')
        ctx = 'arr' if t in ('tuple_of_arrays', 'list_of_arrays') else 'vec'
        return ['group', t, [abs_dset(o[str(i)], ctx) for i in range(int(L))] if L is not None else []]
    ctx = 'arr' if t == 'array' else 'vec'
    return ['data', t, abs_dset(o, ctx)]


# ------------------------------------------------------------------ running
def share_equal_containers(val, memo=None):
    """the same value, with equal dicts / lists below it made ONE object referenced several times (not circular: a DAG)"""
    memo = {} if memo is None else memo
    if isinstance(val, dict):
        for k in list(val):
            x = val[k]
            if isinstance(x, (dict, list)):
                share_equal_containers(x, memo)
                key = repr(abs_val(x))
                val[k] = memo.setdefault(key, x)
    elif isinstance(val, list):
        for i, x in enumerate(val):
            if isinstance(x, (dict, list)):
                share_equal_containers(x, memo)
                val[i] = memo.setdefault(repr(abs_val(x)), x)
    return val


def run_value(v, scratch, where='root', alias=False, share_root=False):
    import emdfile, h5py
    out = {}
    try:
        val = build(v)
        if alias:
            val = share_equal_containers(val)
    except Exception as e:
        return {'build_exc': repr(e)[:80]}
    p = os.path.join(scratch, 'md_%d.h5' % os.getpid())
    if os.path.exists(p):
        os.remove(p)
    root = emdfile.Root(name='r')
    holder = root
    path = 'r'
    if where != 'root':
        n = emdfile.Node(name='n'); root.tree(n)
        if where == 'leaf':
            n2 = emdfile.Array(data=np.zeros(2), name='leaf'); n.tree(n2); holder = n2; path = 'r/n/leaf'
        else:
            holder = n; path = 'r/n'
    holder.metadata = emdfile.Metadata(name='m', data={'k': val})
    holder.metadata = emdfile.Metadata(name='other', data={'x': 1})
    if share_root and holder is not root:
        root.metadata = holder._metadata['m']        # the very same Metadata instance is held by the root as well
    try:
        with core.quiet():
            emdfile.save(p, root, mode='o')
        out['saved'] = True
    except BaseException as e:
        out['saved'] = False; out['save_exc'] = type(e).__name__ + ': ' + str(e)[:80]
        if os.path.exists(p):
            os.remove(p)
        return out
    try:
        with h5py.File(p, 'r') as f:
            g = f[path + '/metadatabundle/m']
            out['item'] = abs_item(g['k']) if 'k' in g else None
            out['keys'] = list(g.keys())
    except BaseException as e:
        out['item_exc'] = type(e).__name__ + ': ' + str(e)[:80]
    try:
        with core.quiet():
            r = emdfile.read(p, emdpath=path, tree=False)
        md = r.metadata['m']
        out['read'] = True
        out['back'] = abs_val(md._params['k']) if 'k' in md._params else None
        out['other_ok'] = (r.metadata['other']._params.get('x') == 1)
        out['md_names'] = sorted(r.metadata.keys())
        # second generation (C16)
        try:
            p2 = p + '.2'
            r2 = emdfile.Root(name='r'); r2.metadata = emdfile.Metadata(name='m', data={'k': md._params['k']})
            with core.quiet():
                emdfile.save(p2, r2, mode='o')
                rr = emdfile.read(p2, emdpath='r', tree=False)
            out['back2'] = abs_val(rr.metadata['m']._params['k'])
            os.remove(p2)
        except BaseException as e:
            out['gen2_exc'] = type(e).__name__ + ': ' + str(e)[:80]
    except BaseException as e:
        out['read'] = False; out['read_exc'] = type(e).__name__ + ': ' + str(e)[:80]
    if os.path.exists(p):
        os.remove(p)
    return out


def _run_one(args):
    c, scratch = args
    try:
        return run_value(c['v'], scratch, c.get('where', 'root'), c.get('alias', False), c.get('share_root', False))
    except BaseException:
        import traceback
        return [{'harness_error': traceback.format_exc()[-800:]}]


def run_all(cases, scratch):
    return core.pmap(_run_one, [(c, scratch) for c in cases])


# ------------------------------------------------------------------ emission
def coqf(h):
    f = float.fromhex(h) if isinstance(h, str) else float(h)
    if math.isnan(f): return 'PrimFloat.nan'
    if math.isinf(f): return 'PrimFloat.infinity' if f > 0 else 'PrimFloat.neg_infinity'
    t = ('0x0p+0' if f == 0 else abs(f).hex()) + '%float'
    return f'(PrimFloat.opp {t})' if math.copysign(1.0, f) < 0 else t


def coqsc(s):
    if s[0] == 'bool': return f'(SB {coqbool(s[1])})'
    if s[0] == 'int': return f'(SI {coqZ(s[1])})'
    if s[0] == 'float': return f'(SF {coqf(s[1])})'
    if s[0] == 'complex': return f'(SC {coqf(s[1])} {coqf(s[2])})'
    raise ValueError(s)


def coqmval(v, I):
    k = v[0]
    if k == 'none': return 'MNone'
    if k == 'str': return f'(MStr {I.s(v[1])})'
    if k in ('bool', 'int', 'float', 'complex'): return f'(MSc {coqsc(v)})'
    if k == 'np': return f'(MNp {coqsc(v[2])})'
    if k == 'arr':
        tok = v[3]
        if 0 in v[2]:
            tok = 0                      # an empty array has no content to identify
        elif v[1] == 'bool' and tok >= 0:
            tok = tok % 2
        return f"(MArr {I.s(v[1])} {coqlist([str(x) for x in v[2]])} {coqZ(tok)})"
    if k == 'tuple': return '(MTuple ' + coqlist([coqmval(x, I) for x in v[1]]) + ')'
    if k == 'list': return '(MList ' + coqlist([coqmval(x, I) for x in v[1]]) + ')'
    if k == 'dict': return '(MDict ' + coqlist([f'({I.s(kk)}, {coqmval(x, I)})' for kk, x in v[1]]) + ')'
    if k == 'bytes': return f'(MBytes {I.s(v[1])})'
    return 'MOther'


def coqdset(d, I):
    if d[0] == 'bytes': return f'(DsBytes {I.s(d[1])})'
    if d[0] == 'sc': return f'(DsSc {coqsc(d[1])})'
    if d[0] == 'vec': return '(DsVec ' + coqlist([coqsc(x) for x in d[1]]) + ')'
    return f"(DsArr {I.s(d[1])} {coqlist([str(x) for x in d[2]])} {coqZ(d[3])})"


def coqitem(it, I):
    if it[0] == 'dict':
        return '(IDict ' + coqlist([f'({I.s(k)}, {coqitem(x, I)})' for k, x in it[1]]) + ')'
    if it[0] == 'group':
        return f"(IGroup {I.s(it[1] or '?')} {coqlist([coqdset(d, I) for d in it[2]])})"
    return f"(IData {I.s(it[1] or '?')} {coqdset(it[2], I)})"


def has_other(v):
    if v[0] in ('other',):
        return True
    if v[0] == 'np' and v[2][0] == 'other':
        return True
    if v[0] in ('tuple', 'list'):
        return any(has_other(x) for x in v[1])
    if v[0] == 'dict':
        return any(has_other(x) for _, x in v[1])
    return False


def has_uint64_range_int(v):
    """a Python int in [2^63, 2^64) anywhere in the value"""
    if v[0] == 'int':
        return 2 ** 63 <= v[1] < 2 ** 64
    if v[0] in ('tuple', 'list'):
        return any(has_uint64_range_int(x) for x in v[1])
    if v[0] == 'dict':
        return any(has_uint64_range_int(x) for _, x in v[1])
    return False


def emit(cases, results, shard=400):
    shards = []
    for k in range(0, len(cases), shard):
        I = core.Interner()
        terms, idx = [], []
        for i in range(k, min(k + shard, len(cases))):
            c, r = cases[i], results[i]
            if isinstance(r, list) or 'build_exc' in r or 'item_exc' in r:
                continue
            if has_uint64_range_int(c['v']):
                continue          # outside the model: numpy's int64 / uint64 / float64 promotion of Python ints >= 2^63 (DESIGN.md 12.4)
            try:
                v = coqmval(c['v'], I)
                if not r['saved']:
                    terms.append(f'({v}, None, None)')
                else:
                    it = coqitem(r['item'], I) if r.get('item') is not None else None
                    if it is None:
                        continue
                    back = 'None' if not r.get('read') or r.get('back') is None else f"(Some {coqmval(r['back'], I)})"
                    terms.append(f'({v}, Some {it}, {back})')
                idx.append(i)
            except Exception:
                continue
        shards.append((I.defs, terms, idx))
    return shards


COQ_IMPORTS = 'From Coq Require Import ZArith PrimFloat.\nFrom Emd Require Import Base.Prelude Model.Md Corr.XMd.'
CASETY = 'mcase'
CHECKFN = 'check'


# ------------------------------------------------------------------ kind-sensitive equality (the oracle's own, in Python)
def py_equiv(o, b, top=True):
    """o: original python object, b: read-back python object.  Statement of C03: equal value of the same kind."""
    if o is None:
        return b is None
    if isinstance(o, (bool, np.bool_)):
        return (isinstance(b, (bool, np.bool_)) if top else True) and bool(b) == bool(o) and (not top or type(b) is bool)
    if isinstance(o, (int, np.integer)) and not isinstance(o, bool):
        if top:
            return type(b) is int and b == int(o)
        if not isinstance(b, (int, float, complex, np.number)) or isinstance(b, (bool, np.bool_)):
            return False
        # exact comparison (numpy's == would convert the int to float64 first)
        pb = int(b) if isinstance(b, (int, np.integer)) else complex(b) if isinstance(b, (complex, np.complexfloating)) else float(b)
        return pb == int(o)
    if isinstance(o, (float, np.floating)):
        ok = (isinstance(b, float) if top else isinstance(b, (float, complex, np.floating, np.complexfloating)))
        if not ok:
            return False
        if math.isnan(float(o)):
            return (b != b) if not isinstance(b, (complex, np.complexfloating)) else (b.real != b.real and b.imag == 0)
        return b == float(o)
    if isinstance(o, (complex, np.complexfloating)):
        if not isinstance(b, (complex, np.complexfloating)):
            return False
        o = complex(o); b = complex(b)
        same = lambda x, y: (x == y) or (x != x and y != y)
        return same(o.real, b.real) and same(o.imag, b.imag)
    if isinstance(o, str):
        return type(b) is str and b == o
    if isinstance(o, np.ndarray):
        return isinstance(b, np.ndarray) and b.dtype == o.dtype and b.shape == o.shape and bool(np.array_equal(o, b, equal_nan=(o.dtype.kind in 'fc')))
    if isinstance(o, tuple):
        return type(b) is tuple and len(b) == len(o) and all(py_equiv(x, y, False) for x, y in zip(o, b))
    if isinstance(o, list):
        return type(b) is list and len(b) == len(o) and all(py_equiv(x, y, False) for x, y in zip(o, b))
    if isinstance(o, dict):
        return type(b) is dict and set(b) == set(o) and all(py_equiv(o[k], b[k], True) for k in o)
    return False


# ------------------------------------------------------------------ generators
def g_scalar(rng):
    k = rng.choice(['int', 'float', 'bool', 'complex', 'str', 'none'])
    if k == 'int': return ['int', rng.choice(INTS)]
    if k == 'float': return ['float', float(rng.choice(FL)).hex()]
    if k == 'bool': return ['bool', rng.random() < 0.5]
    if k == 'complex': return ['complex', float(rng.choice(FL)).hex(), float(rng.choice(FL)).hex()]
    if k == 'str': return ['str', rng.choice(STRS[:8])]
    return ['none']


def g_number(rng, kinds=('int', 'float', 'bool', 'complex'), small=False):
    k = rng.choice(kinds)
    if k == 'int': return ['int', rng.choice(INTS[:4] if small else INTS[:6] + [2 ** 53])]
    if k == 'float': return ['float', float(rng.choice(FL)).hex()]
    if k == 'bool': return ['bool', rng.random() < 0.5]
    return ['complex', float(rng.choice(FL[:4])).hex(), float(rng.choice(FL[:4])).hex()]


def g_arr(rng):
    shape = rng.choice([[], [0], [1], [3], [2, 3], [0, 3], [2, 1, 2]])
    return ['arr', rng.choice(ARR_DTYPES), shape, rng.choice([0, 1, 5])]


def g_numseq(rng):
    mode = rng.choice(['int', 'float', 'mixed', 'bool', 'complexmix'])
    n = rng.choice([1, 2, 3, 5])
    if mode == 'int': return [g_number(rng, ('int',), True) for _ in range(n)]
    if mode == 'float': return [g_number(rng, ('float',)) for _ in range(n)]
    if mode == 'bool': return [g_number(rng, ('bool',)) for _ in range(n)]
    if mode == 'mixed': return [g_number(rng, ('int', 'float', 'bool'), True) for _ in range(n)]
    return [g_number(rng, ('int', 'float', 'complex'), True) for _ in range(n)]


def g_documented(rng, depth=0):
    k = rng.choice(['scalar', 'scalar', 'arr', 'tuple', 'tuple', 'list', 'dict'] if depth < 6 else ['scalar'])
    if k == 'scalar': return g_scalar(rng)
    if k == 'arr': return g_arr(rng)
    if k in ('tuple', 'list'):
        form = rng.choice(['empty', 'num', 'num', 'arr', 'str'] + (['tt'] if k == 'tuple' else []))
        if form == 'empty': xs = []
        elif form == 'num': xs = g_numseq(rng)
        elif form == 'arr': xs = [g_arr(rng) for _ in range(rng.choice([1, 2, 3]))]
        elif form == 'str': xs = [['str', rng.choice(STRS[:8])] for _ in range(rng.choice([1, 2, 3]))]
        else:
            xs = [['tuple', g_numseq(rng) if rng.random() < 0.85 else []] for _ in range(rng.choice([1, 2, 3]))]
        return [k, xs]
    n = rng.choice([0, 1, 2, 3])
    keys = rng.sample(KEYS, n)
    return ['dict', [[kk, g_documented(rng, depth + 1)] for kk in keys]]


def nest(v, depth, rng):
    for i in range(depth):
        v = ['dict', [[rng.choice(KEYS), v]] + ([[('z%d' % i), g_scalar(rng)]] if rng.random() < 0.5 else [])]
    return v
