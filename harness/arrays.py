"""Array scenarios (C14, C02, C16, C15 array part): generation, execution on real emdfile.Array objects
and files, abstraction to the model's terms (bit-exact floats), emission."""
import math, os, random
from fractions import Fraction
import numpy as np
from harness import core
from harness.core import coqstr, coqlist, coqbool, coqZ

FPOOL = [0.1, 1 / 3, 0.7, 1e-5, 1e16, 5e-324, 2.5, 1e300, 0.30000000000000004, 1.0, 0.5, 3.0, -0.1, -2.5, 1e-17, 0.0, -0.0, 123.456]
IPOOL = [0, 1, 2, 3, 5, -1, -4, 10, 100, 7]
UNITS = ['nm', 'A^-1', 'pixels', 'µm', 'unknown', '', 'a long unit name', 'm/s', 'Å']
NAMES = ['x', 'y', 'Qx', 'time', 'dim7', 'énergie', '', 'r x', '_labels_', 'k']
DTYPES = ['bool', 'int8', 'int16', 'int32', 'int64', 'uint8', 'uint16', 'uint32', 'uint64', 'float16', 'float32', 'float64',
          'complex64', 'complex128', 'S3', '>f4', '>i2', 'struct']


# ------------------------------------------------------------------ number literals
def lit(x):
    if isinstance(x, (bool, np.bool_)):
        return ['i', int(x)]
    if isinstance(x, (int, np.integer)):
        return ['i', int(x)]
    if isinstance(x, (float, np.floating)):
        return ['f', float(x).hex()]
    if isinstance(x, (bytes, np.bytes_)):
        return ['s', x.decode('utf-8', 'replace')]
    if isinstance(x, (str, np.str_)):
        return ['s', str(x)]
    return ['?', repr(x)]


def unlit(l):
    return int(l[1]) if l[0] == 'i' else float.fromhex(l[1]) if l[0] == 'f' else l[1]


def coqnum(l):
    if l[0] == 'i':
        return f'(NI {coqZ(l[1])})'
    f = float.fromhex(l[1])
    if math.isnan(f):
        return '(NF PrimFloat.nan)'
    if math.isinf(f):
        return '(NF PrimFloat.infinity)' if f > 0 else '(NF PrimFloat.neg_infinity)'
    h = abs(f).hex()
    if f == 0:
        h = '0x0p+0'
    t = f'{h}%float'
    if math.copysign(1.0, f) < 0:
        t = f'(PrimFloat.opp {t})'
    return f'(NF {t})'


def coqdimarg(d, I):
    if d is None:
        return 'DNone'
    if d[0] == 'num':
        return f'(DNumber {coqnum(d[1])})'
    if d[0] == 'strs':
        return '(DStrs ' + coqlist([I.s(x) for x in d[1]]) + ')'
    return '(DList ' + coqlist([coqnum(x) for x in d[1]]) + ')'


def coqdimv(d, I):
    if d[0] == 'strs':
        return '(VStr ' + coqlist([I.s(x) for x in d[1]]) + ')'
    return '(VNum ' + coqlist([coqnum(x) for x in d[1]]) + ')'


# ------------------------------------------------------------------ observation
def obs_dim(d, file=False):
    try:
        if not file and any(isinstance(x, (bytes, np.bytes_)) for x in list(d)):
            return ['bytes', [lit(x)[1] for x in list(d)]]
        xs = [lit(x) for x in list(d)]
    except Exception as e:
        return ['bad', repr(d)[:50]]
    if xs and all(x[0] == 's' for x in xs):
        return ['strs', [x[1] for x in xs]]
    return ['nums', xs]


def accessors_agree(ar):
    """get_dim / get_dim_units / get_dim_name (and the alias dim) answer for axis n what dims[n], dim_units[n], dim_names[n] hold;
    a plain array has depth 0."""
    try:
        for n in range(ar.rank):
            if ar.get_dim(n) is not ar.dims[n] or ar.dim(np.int64(n)) is not ar.dims[n]:
                return f'get_dim({n}) is not dims[{n}]'
            if ar.get_dim_units(n) != ar.dim_units[n]:
                return f'get_dim_units({n}) != dim_units[{n}]'
            if ar.get_dim_name(n) != ar.dim_names[n]:
                return f'get_dim_name({n}) != dim_names[{n}]'
        for bad in (ar.get_dim, ar.get_dim_units, ar.get_dim_name):
            try:
                bad(ar.rank)
                return f'{bad.__name__}({ar.rank}) accepted for rank {ar.rank}'
            except AssertionError:
                pass
        if not ar.is_stack and ar.depth != 0:
            return f'depth {ar.depth} for a plain array'
    except BaseException as e:
        return f'accessor raised {type(e).__name__}: {e}'
    return None


def obs_arr(ar):
    d = _obs_arr(ar)
    d['accessors'] = accessors_agree(ar)
    return d


def _obs_arr(ar):
    return {'shape': [int(x) for x in ar.shape], 'depth': int(ar.depth) if ar.is_stack else None,
            'dims': [obs_dim(d) for d in ar.dims], 'units': [str(u) for u in ar.dim_units], 'names': [str(s) for s in ar.dim_names],
            'units_types': [type(u).__name__ for u in ar.dim_units],
            'labels': [str(x) for x in ar.slicelabels] if ar.is_stack else [], 'rank': int(ar.rank),
            'n_dims': len(ar.dims), 'n_units': len(ar.dim_units), 'n_names': len(ar.dim_names)}


def obs_file(path, group):
    import h5py
    with h5py.File(path, 'r') as f:
        g = f[group]
        data = g['data']
        out = {'datashape': [int(x) for x in data.shape], 'dtype': str(data.dtype), 'units': None}
        u = data.attrs.get('units')
        out['units'] = u if isinstance(u, str) else (u.decode() if isinstance(u, bytes) else repr(u))
        dims, units, names, labels = [], [], [], None
        n = 0
        while f'dim{n}' in g:
            d = g[f'dim{n}']
            nm = d.attrs.get('name')
            if nm == '_labels_' and 'units' not in d.attrs:
                labels = [x.decode('utf-8') for x in d[:]]
            else:
                dims.append(obs_dim(d[:], file=True))
                units.append(str(d.attrs.get('units')))
                names.append(str(nm))
            n += 1
        out.update({'dims': dims, 'dim_units': units, 'dim_names': names, 'labels': labels, 'n_dim_datasets': n,
                    'extra': sorted(k for k in g.keys() if k != 'data' and not k.startswith('dim') and k != 'metadatabundle')})
        return out


# ------------------------------------------------------------------ building inputs
def mk_dimarg(spec):
    if spec is None:
        return None
    if spec[0] == 'num':
        return unlit(spec[1])
    if spec[0] == 'strs':
        return list(spec[1])
    vals = [unlit(x) for x in spec[1]]
    if spec[0] == 'arr':
        return np.array(vals, dtype=spec[2]) if len(spec) > 2 else np.array(vals)
    if spec[0] == 'tuple':
        return tuple(vals)
    return vals


def canon_dimspec(spec):
    """the dims entry as the model sees it (numpy conversion applied for array inputs)"""
    if spec is None:
        return None
    if spec[0] == 'num':
        return ['num', spec[1]]
    if spec[0] == 'arr':
        a = np.array([unlit(x) for x in spec[1]], dtype=spec[2]) if len(spec) > 2 else np.array([unlit(x) for x in spec[1]])
        return ['list', [lit(x) for x in a]]
    if spec[0] == 'strs':
        return ['strs', spec[1]]
    return ['list', spec[1]]


def mk_data(shape, dtype, layout, seed):
    rng = np.random.RandomState(seed)
    n = int(np.prod(shape)) if shape else 1
    if dtype == 'struct':
        a = np.zeros(shape, dtype=[('a', '<f8'), ('b', '<i4')])
        a['a'] = rng.rand(*shape); a['b'] = rng.randint(-5, 5, size=shape)
    elif dtype == 'bool':
        a = rng.rand(*shape) > 0.5
    elif dtype.startswith('S'):
        a = np.array([b'ab', b'c', b'xyz'], dtype=dtype)[rng.randint(0, 3, size=shape)]
    elif 'complex' in dtype:
        a = (rng.rand(*shape) + 1j * rng.rand(*shape)).astype(dtype)
    elif 'float' in dtype or 'f' in dtype:
        a = (rng.rand(*shape) * 100 - 50).astype(dtype)
        if a.size > 2:
            a.flat[0] = np.nan; a.flat[1] = np.inf
    else:
        info = np.iinfo(np.dtype(dtype))
        a = rng.randint(max(info.min, -1000), min(info.max, 1000), size=shape).astype(dtype)
        if a.size > 1:
            a.flat[0] = info.max; a.flat[1] = info.min
    if layout == 'F':
        a = np.asfortranarray(a)
    elif layout == 'strided' and len(shape) >= 1 and shape[0] >= 1:
        big = np.concatenate([a, a], axis=0)
        a = big[::2] if big.shape[0] == 2 * shape[0] else a
        a = a[:shape[0]]
    elif layout == 'neg' and len(shape) >= 1:
        a = a[::-1]
    elif layout == 'T' and len(shape) >= 2:
        a = np.ascontiguousarray(a.T).T
    return a


def rand_dimspec(rng, n, allow_bad=False):
    k = rng.choice(['none', 'none', 'int', 'float', 'pair_i', 'pair_f', 'pair_mixed', 'full_lin_i', 'full_lin_f', 'full_nonlin',
                    'near_lin', 'decr', 'arr_pair', 'arr_full', 'const', 'tuple', 'strs', 'full_nonlin_i', 'arr_nonlin_i', 'arr_unsigned'])
    if k == 'none':
        return None
    if k == 'arr_unsigned':      # a full-length vector of an unsigned integer dtype: decreasing / increasing, linear or not (differences wrap)
        dt = rng.choice(['uint8', 'uint16', 'uint32', 'uint64'])
        step = rng.choice([1, 2, 3, 10])
        v = [step * (n - 1 - i) + rng.choice([0, 5]) * 0 + 1 for i in range(n)] if rng.random() < 0.6 else [1 + step * i for i in range(n)]
        if rng.random() < 0.25 and n >= 3:
            v[-1] = v[-1] + 1
        v = [min(x, 250) for x in v]
        return ['arr', [lit(int(x)) for x in v], dt]
    if k in ('full_nonlin_i', 'arr_nonlin_i'):      # non-linear integer vectors: a list of Python ints / an int64 array
        v = sorted(rng.sample(range(-20, 60), n)) if n <= 80 else list(range(n))
        if n >= 3 and v[1] - v[0] == v[2] - v[1]:
            v[-1] += 7
        return ['list' if k == 'full_nonlin_i' else 'arr', [lit(x) for x in v]]
    if k == 'strs':       # string dim vectors: full length (documented), sometimes a wrong length
        m = n if rng.random() < 0.85 else rng.choice([1, 2, n + 1])
        return ['strs', [rng.choice(['a', 'b', 'é', 'x y', 'left', '']) + str(i) for i in range(m)]]
    if k == 'int':
        return ['num', lit(rng.choice(IPOOL[1:]))]
    if k == 'float':
        return ['num', lit(rng.choice(FPOOL))]
    if k == 'pair_i':
        return ['list', [lit(rng.choice(IPOOL)), lit(rng.choice(IPOOL))]]
    if k == 'pair_f':
        return ['list', [lit(rng.choice(FPOOL)), lit(rng.choice(FPOOL))]]
    if k == 'pair_mixed':
        return ['list', [lit(rng.choice(IPOOL)), lit(rng.choice(FPOOL))]]
    if k == 'tuple':
        return ['tuple', [lit(rng.choice(FPOOL)), lit(rng.choice(FPOOL))]]
    if k == 'arr_pair':
        return ['arr', [lit(rng.choice(FPOOL + IPOOL)), lit(rng.choice(FPOOL + IPOOL))]]
    a, s = rng.choice(FPOOL), rng.choice(FPOOL[:8])
    if k == 'full_lin_i':
        a, s = rng.choice(IPOOL), rng.choice(IPOOL[1:])
        return ['list', [lit(a + s * i) for i in range(n)]]
    if k == 'full_lin_f':
        return ['list', [lit(a + s * float(i)) for i in range(n)]]
    if k == 'arr_full':
        return ['arr', [lit(a + s * float(i)) for i in range(n)]]
    if k == 'near_lin':
        v = [a + s * float(i) for i in range(n)]
        if n > 2:
            j = rng.randrange(2, n)
            v[j] = float(np.nextafter(v[j], np.inf))
        return ['list', [lit(x) for x in v]]
    if k == 'decr':
        return ['list', [lit(10.0 - 1.5 * i) for i in range(n)]]
    if k == 'const':
        c = rng.choice(FPOOL + IPOOL)
        return ['list', [lit(c)] * n]
    return ['list', [lit(rng.choice(FPOOL)) for _ in range(n)]]


def rand_dimspec_full(rng, n):
    a, st = rng.choice(FPOOL), rng.choice(FPOOL[:8])
    v = [a + st * float(i) for i in range(n)]
    if n > 2 and rng.random() < 0.5:
        v[-1] += 0.25          # not linear: stored in full
    return [rng.choice(['arr', 'list']), [lit(x) for x in v]]


def gen_scenario(rng, focus):
    rank = rng.choice([1, 1, 2, 2, 3, 4] if focus != 'thorough' else [1, 2, 3, 4, 5, 6])
    shape = [rng.choice([1, 2, 3, 4, 5, 7]) for _ in range(rank)]
    stack = rng.random() < 0.3
    labels = None
    depth = None
    if stack:
        depth = rng.choice([1, 2, 3])
        datashape = [depth] + shape
        lab = rng.choice(['true', 'full', 'full', 'partial', 'long', 'dup'])
        pool = ['a', 'b', 'c', 'x y', 'é', 'array9', 'lbl']
        if lab == 'true':
            labels = True
        elif lab == 'full':
            labels = rng.sample(pool, depth)
        elif lab == 'dup':
            labels = [rng.choice(pool[:2]) for _ in range(depth)]
        elif lab == 'partial':
            labels = rng.sample(pool, rng.randrange(0, depth))
        else:
            labels = rng.sample(pool, depth + 2)
    else:
        datashape = shape
    nd = rng.choice([None, rank, rank, max(rank - 1, 0), rank + 1])
    dims = None if nd is None else [rand_dimspec(rng, shape[i] if i < rank else 3) for i in range(nd)]
    share = False
    if dims is not None and rank >= 2 and len(dims) >= 2 and rng.random() < 0.2:
        # the same full-length vector object on two axes of equal extent
        i, j = rng.sample(range(min(rank, len(dims))), 2)
        if shape[i] == shape[j] or True:
            shape[j] = shape[i]
            if stack:
                datashape = [depth] + shape
            else:
                datashape = shape
            dims[i] = rand_dimspec_full(rng, shape[i]); dims[j] = dims[i]; share = True
    nu = rng.choice([None, rank, rank - 1, rank + 1])
    units = None if nu is None or nu < 0 else [rng.choice(UNITS) for _ in range(nu)]
    nn = rng.choice([None, rank, rank - 1, rank + 1])
    names = None if nn is None or nn < 0 else [rng.choice(NAMES) for _ in range(nn)]
    if names is not None and not stack and rank >= 1 and len(names) >= rank and names[rank - 1] == '_labels_' and rng.random() < 0.7:
        names[rank - 1] = 'k'        # keep the F27 trigger rare
    ops = []
    for _ in range(rng.choice([0, 0, 1, 2, 3])):
        k = rng.choice(['set_dim', 'set_dim', 'set_units', 'set_name'])
        n = rng.randrange(0, rank + 1)
        if k == 'set_dim':
            ops.append({'op': 'set_dim', 'n': n, 'dim': rand_dimspec(rng, shape[n] if n < rank else 3) or ['num', lit(2)],
                        'units': rng.choice([None, rng.choice(UNITS)]), 'name': rng.choice([None, rng.choice(NAMES)])})
        elif k == 'set_units':
            ops.append({'op': 'set_units', 'n': n, 'units': rng.choice(UNITS)})
        else:
            ops.append({'op': 'set_name', 'n': n, 'name': rng.choice(NAMES)})
        if n < rank and rng.random() < 0.3:
            ops[-1]['neg'] = True        # the same axis counted from the end (n - rank), as Python indexing spells it
    if stack:
        if ops and rng.random() < 0.6:
            # index the labels before the setters as well: what an earlier indexing returned must not influence a later one
            ops.insert(rng.randrange(len(ops)), {'op': 'slices'})
        ops.append({'op': 'slices'})
    ops.append({'op': 'save'})
    return {'share_dims': share, 'datashape': datashape, 'dims': dims, 'units': units, 'names': names, 'labels': labels,
            'dtype': rng.choice(DTYPES), 'layout': rng.choice(['C', 'C', 'F', 'strided', 'neg', 'T']),
            'data_units': rng.choice(['', 'counts', 'e⁻', 'intensity']), 'name': rng.choice(['arr', 'my array', 'données']),
            'ops': ops, 'seed': rng.randrange(10 ** 6)}


# ------------------------------------------------------------------ execution
def data_equal(a, b):
    if a.dtype != b.dtype or a.shape != b.shape:
        return False
    if a.dtype.names:
        return all(data_equal(a[n], b[n]) for n in a.dtype.names)
    if a.dtype.kind in 'fc':
        return bool(np.array_equal(a, b, equal_nan=True))
    return bool(np.array_equal(a, b))


def run_scenario(sc, scratch):
    import emdfile
    data = mk_data(tuple(sc['datashape']), sc['dtype'], sc['layout'], sc['seed'])
    kw = {}
    if sc['dims'] is not None:
        kw['dims'] = [mk_dimarg(d) for d in sc['dims']]
        if sc.get('share_dims'):
            # axes given equal vectors get ONE object (dims=[q, q] for a square image): each axis still has its own name and units
            seen = {}
            kw['dims'] = [seen.setdefault(repr(d), a) if d is not None else a for d, a in zip(sc['dims'], kw['dims'])]
    if sc['units'] is not None:
        kw['dim_units'] = list(sc['units'])
    if sc['names'] is not None:
        kw['dim_names'] = list(sc['names'])
    if sc['labels'] is not None:
        kw['slicelabels'] = sc['labels'] if sc['labels'] is True else list(sc['labels'])
    out = {'init': None, 'ops': []}
    try:
        with core.quiet():
            ar = emdfile.Array(data=data, name=sc['name'], units=sc['data_units'], **kw)
        out['init'] = obs_arr(ar)
    except BaseException as e:
        out['init_exc'] = type(e).__name__ + ': ' + str(e)[:100]
        return out
    decoy = None
    if getattr(ar, 'is_stack', False):
        # another stack Array built later in the same process, whose labels are those of `ar` in reverse order after a new one:
        # each Array answers for its own labels
        try:
            with core.quiet():
                labs = ['decoy_first'] + [str(x) for x in reversed(list(ar.slicelabels))]
                decoy = emdfile.Array(data=np.zeros((1, 1, len(labs))), name='decoy', slicelabels=labs)
        except BaseException:
            decoy = None
    for op in sc['ops']:
        o = {'raised': False}
        try:
            with core.quiet():
                nn = (op['n'] - ar.rank) if op.get('neg') else op.get('n')
                if op['op'] == 'set_dim':
                    ar.set_dim(nn, mk_dimarg(op['dim']), units=op['units'], name=op['name'])
                    o['arr'] = obs_arr(ar)
                elif op['op'] == 'set_units':
                    ar.set_dim_units(nn, op['units']); o['arr'] = obs_arr(ar)
                elif op['op'] == 'set_name':
                    ar.set_dim_name(nn, op['name']); o['arr'] = obs_arr(ar)
                elif op['op'] == 'slices':
                    sl = []
                    for i, lab in enumerate(list(ar.slicelabels)):
                        try:
                            s = ar[lab]
                            idx = next((j for j in range(ar.depth) if data_equal(np.asarray(s.data), np.asarray(ar.data[j]))), None)
                            tup = None
                            if ar.rank >= 1 and all(x > 0 for x in ar.shape):
                                # ar[label, i0, ...] = ar[label].data[i0, ...]
                                ix = tuple(x - 1 for x in ar.shape)
                                tup = bool(data_equal(np.asarray(ar[(lab,) + ix]), np.asarray(s.data[ix]))) and \
                                    bool(data_equal(np.asarray(ar[lab, 0]), np.asarray(s.data[0])))
                            sl.append({'label': str(lab), 'i': i, 'slice_index_by_data': idx, 'same_as_i': data_equal(np.asarray(s.data), np.asarray(ar.data[i])), 'tuple_index': tup,
                                       'same_as': {str(j): data_equal(np.asarray(s.data), np.asarray(ar.data[j])) for j in range(ar.depth)},
                                       'arr': obs_arr(s), 'units': str(s.units)})
                        except BaseException as e:
                            sl.append({'label': str(lab), 'i': i, 'raised': type(e).__name__})
                    o['slices'] = sl
                elif op['op'] == 'save':
                    p = os.path.join(scratch, 'arr_%d.h5' % os.getpid())
                    if os.path.exists(p):
                        os.remove(p)
                    root = emdfile.Root(name='root'); root.tree(ar)
                    o['before'] = obs_arr(ar)
                    try:
                        emdfile.save(p, root, mode='o')
                        o['file'] = obs_file(p, 'root/' + sc['name'])
                        try:
                            back = emdfile.read(p, emdpath='root/' + sc['name'], tree=False)
                            o['back'] = obs_arr(back)
                            o['back_type'] = type(back).__name__
                            o['data_equal'] = data_equal(np.asarray(back.data), np.asarray(ar.data))
                            o['back_dtype'] = str(back.data.dtype)
                            o['units_equal'] = (back.units == ar.units); o['name_equal'] = (back.name == ar.name)
                            if ar.is_stack and back.is_stack:
                                try:
                                    # one more stack Array with other labels comes to life after the read: `back` answers for its own
                                    labs2 = ['decoy_first'] + [str(x) for x in reversed(list(back.slicelabels))]
                                    decoy2 = emdfile.Array(data=np.zeros((1, 1, len(labs2))), name='decoy2', slicelabels=labs2)
                                    o['slices_equal'] = all(data_equal(np.asarray(back[l].data), np.asarray(ar[l].data)) for l in ar.slicelabels)
                                except BaseException as e:
                                    o['slices_equal'] = False; o['slices_exc'] = type(e).__name__ + ': ' + str(e)[:80]
                            # second generation (C16)
                            try:
                                p2 = p + '.2'
                                r2 = emdfile.Root(name='root'); back._root = None; r2.tree(back)
                                emdfile.save(p2, r2, mode='o')
                                o['file2'] = obs_file(p2, 'root/' + sc['name'])
                                back2 = emdfile.read(p2, emdpath='root/' + sc['name'], tree=False)
                                o['back2'] = obs_arr(back2)
                                o['data_equal2'] = data_equal(np.asarray(back2.data), np.asarray(back.data))
                                os.remove(p2)
                            except BaseException as e:
                                o['gen2_exc'] = type(e).__name__ + ': ' + str(e)[:100]
                        except BaseException as e:
                            o['read_exc'] = type(e).__name__ + ': ' + str(e)[:100]
                    except BaseException as e:
                        o['save_exc'] = type(e).__name__ + ': ' + str(e)[:100]
                    finally:
                        root._branch._dict.clear(); ar._root = None
                        if os.path.exists(p):
                            os.remove(p)
        except BaseException as e:
            o = {'raised': True, 'exc': type(e).__name__ + ': ' + str(e)[:100]}
        out['ops'].append(o)
    return out


def _run_one(args):
    c, scratch = args
    try:
        return run_scenario(c, scratch)
    except BaseException:
        import traceback
        return [{'harness_error': traceback.format_exc()[-800:]}]


def run_all(cases, scratch):
    return core.pmap(_run_one, [(c, scratch) for c in cases])


# ------------------------------------------------------------------ emission
def coqarr(o, I):
    dims = coqlist([coqdimv(d, I) for d in o['dims']])
    return (f"(ARR {coqlist([str(x) for x in o['shape']])} {'None' if o['depth'] is None else '(Some %d)' % o['depth']} {dims} "
            f"{coqlist([I.s(x) for x in o['units']])} {coqlist([I.s(x) for x in o['names']])} {coqlist([I.s(x) for x in o['labels']])})")


def coqstored(f, I):
    labs = 'None' if f['labels'] is None else '(Some ' + coqlist([I.s(x) for x in f['labels']]) + ')'
    return (f"(ST {coqlist([str(x) for x in f['datashape']])} {coqlist([coqdimv(d, I) for d in f['dims']])} "
            f"{coqlist([I.s(x) for x in f['dim_units']])} {coqlist([I.s(x) for x in f['dim_names']])} {labs})")


def data_same_idx(o, s, j):
    """whether the slice returned for s's label can be slice j (used for duplicate labels)"""
    return s.get('same_as', {}).get(str(j), False)


def sane(o):
    return all(d[0] in ('nums', 'strs') and all(x[0] in ('i', 'f') for x in d[1]) if d[0] == 'nums' else d[0] == 'strs' for d in o['dims'])


def emit(cases, results, shard=300, with_save=True):
    shards = []
    for k in range(0, len(cases), shard):
        I = core.Interner()
        terms, idx = [], []
        for i in range(k, min(k + shard, len(cases))):
            c, r = cases[i], results[i]
            if isinstance(r, list):
                continue
            if any(d is not None and d[0] == 'arr' and len(d) > 2 for d in list(c['dims'] or []) + [op.get('dim') for op in c['ops'] if op['op'] == 'set_dim']):
                continue      # unsigned-integer dim vectors: numpy's wrapping differences are outside the model (oracle only)
            dims = coqlist([coqdimarg(canon_dimspec(d), I) for d in (c['dims'] or [])])
            units = coqlist([I.s(x) for x in (c['units'] or [])])
            names = coqlist([I.s(x) for x in (c['names'] or [])])
            lab = 'LNone' if c['labels'] is None else 'LTrue' if c['labels'] is True else '(LList ' + coqlist([I.s(x) for x in c['labels']]) + ')'
            if r['init'] is not None and not sane(r['init']):
                continue
            obs = 'None' if r['init'] is None else f"(Some {coqarr(r['init'], I)})"
            ops = []
            ok = True
            for op, o in zip(c['ops'], r['ops']):
                oa = lambda: ('None' if o.get('raised') else f"(Some {coqarr(o['arr'], I)})")
                ou = lambda x: 'None' if x is None else f'(Some {I.s(x)})'
                if op['op'] == 'set_dim':
                    if not o.get('raised') and not sane(o['arr']):
                        ok = False; break
                    ops.append(f"ASetDim {op['n']} {coqdimarg(canon_dimspec(op['dim']), I)} {ou(op['units'])} {ou(op['name'])} {oa()}")
                elif op['op'] == 'set_units':
                    ops.append(f"ASetUnits {op['n']} {I.s(op['units'])} {oa()}")
                elif op['op'] == 'set_name':
                    ops.append(f"ASetName {op['n']} {I.s(op['name'])} {oa()}")
                elif op['op'] == 'slices':
                    for s in o.get('slices', []):
                        if 'raised' in s:
                            ops.append(f"ASlice {I.s(s['label'])} None")
                        elif s['slice_index_by_data'] is not None and sane(s['arr']):
                            # the returned data identifies the slice index (ambiguous only when slices coincide)
                            labs_all = [t['label'] for t in o['slices']]
                            last = len(labs_all) - 1 - labs_all[::-1].index(s['label'])
                            same_last = o['slices'][last].get('same_as_i') if last != s['i'] else s['same_as_i']
                            si = last if (last != s['i'] and data_same_idx(o, s, last)) else (s['i'] if s['same_as_i'] else s['slice_index_by_data'])
                            ops.append(f"ASlice {I.s(s['label'])} (Some ({si}, {coqarr(s['arr'], I)}))")
                elif op['op'] == 'save' and with_save:
                    if o.get('raised'):
                        ok = False; break
                    f = 'None' if 'file' not in o else f"(Some {coqstored(o['file'], I)})"
                    b = 'None' if 'back' not in o or not sane(o['back']) else f"(Some {coqarr(o['back'], I)})"
                    ops.append(f"ASave {f} {b}")
            if not ok:
                continue
            terms.append(f"({coqlist([str(x) for x in c['datashape']])}, {dims}, {units}, {names}, {lab}, {obs}, {coqlist(ops)})")
            idx.append(i)
        shards.append((I.defs, terms, idx))
    return shards


COQ_IMPORTS = 'From Coq Require Import ZArith PrimFloat.\nFrom Emd Require Import Base.Prelude Model.Arr Corr.XArr.'
CASETY = 'acase'
CHECKFN = 'check'


# ------------------------------------------------------------------ shared oracle pieces
def exact_ramp(a, b, n):
    fa, fb = Fraction(a), Fraction(b)
    return [fa + i * (fb - fa) for i in range(n)]


def close(x, q, scale):
    if isinstance(x, int):
        return Fraction(x) == q
    if math.isnan(x) or math.isinf(x):
        return False
    tol = Fraction(2, 2 ** 50) * max(scale, abs(q), Fraction(1, 10 ** 300))
    return abs(Fraction(x) - q) <= tol
