"""Fault injection into h5py mutations (C18): the k-th HDF5 mutation performed inside the context raises."""
import contextlib


class Injected(OSError):
    pass


class InjectedAssert(AssertionError):
    # the package's own refusals are assertions: every other injected fault is one, so that no handler is exercised by one
    # exception type only
    pass


@contextlib.contextmanager
def inject(k):
    """k = index of the mutation that fails (0-based); k < 0 = count only.  Yields a dict with 'n' (mutations seen)
    and 'log' (what each was)."""
    import h5py
    from h5py._hl import group as G, attrs as AT, dataset as DS
    state = {'n': 0, 'depth': 0, 'log': [], 'fired': False}
    targets = [(G.Group, 'create_group'), (G.Group, 'create_dataset'), (G.Group, 'move'), (G.Group, '__setitem__'),
               (G.Group, '__delitem__'), (AT.AttributeManager, 'create'), (AT.AttributeManager, 'modify'),
               (AT.AttributeManager, '__delitem__'), (DS.Dataset, '__setitem__')]
    saved = []

    def wrap(cls, name):
        orig = getattr(cls, name)

        def w(self, *a, **kw):
            if state['depth'] == 0:
                idx = state['n']
                state['n'] += 1
                try:
                    where = getattr(self, 'name', None) or getattr(getattr(self, '_id', None), 'name', '?')
                except Exception:
                    where = '?'
                state['log'].append(f"{name} {where} {a[0] if a and isinstance(a[0], str) else ''}")
                if idx == k:
                    state['fired'] = True
                    raise (InjectedAssert if idx % 2 else Injected)(f'injected fault at mutation {idx}: {name}')
            state['depth'] += 1
            try:
                return orig(self, *a, **kw)
            finally:
                state['depth'] -= 1
        saved.append((cls, name, orig))
        setattr(cls, name, w)
    for cls, name in targets:
        wrap(cls, name)
    try:
        yield state
    finally:
        for cls, name, orig in saved:
            setattr(cls, name, orig)
