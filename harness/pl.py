"""PointList / PointListArray scenarios (C04, parts of C15/C16)."""
import hashlib, os, random
import numpy as np
from harness import core
from harness.core import coqstr, coqlist, coqbool, coqZ

SCALAR = ['bool', 'int8', 'int16', 'int32', 'int64', 'uint8', 'uint16', 'uint32', 'uint64', 'float16', 'float32', 'float64',
          'complex64', 'complex128', 'S1', 'S5', 'S12', '>f8', '>i2', '>u4', '>c16', '>f4']
FNAMES = ['x', 'y', 'qx', 'intensity', 'a b', 'é', 'X', 'field_1', 'data', 'name', 'z', 'K', '0', 'dim0']


def tok_of(a):
    a = np.ascontiguousarray(a)
    return int.from_bytes(hashlib.sha256(str(a.dtype.newbyteorder('=')).encode() + a.astype(a.dtype.newbyteorder('=')).tobytes()).digest()[:6], 'big')


def col(dtype, n, seed):
    rng = np.random.RandomState(seed)
    dt = np.dtype(dtype)
    if dt.kind == 'b': return rng.rand(n) > 0.5
    if dt.kind == 'S': return np.array([b'ab', b'c', b'xyzuv', b''], dtype=dt)[rng.randint(0, 4, size=n)]
    if dt.kind == 'c': return (rng.rand(n) + 1j * rng.rand(n)).astype(dt)
    if dt.kind == 'f':
        a = (rng.rand(n) * 100 - 50).astype(dt)
        if n > 1: a[0] = np.nan
        return a
    info = np.iinfo(dt)
    a = rng.randint(max(info.min, -1000), min(info.max, 1000), size=n).astype(dt)
    if n > 0: a[0] = info.max
    return a


def coqdtype(dt):
    dt = np.dtype(dt)
    e = 'BE' if dt.byteorder == '>' else 'LE'
    if dt.kind == 'b': return 'DBool'
    if dt.kind in 'iu': return f"(DInt {coqbool(dt.kind == 'i')} {dt.itemsize} {e})"
    if dt.kind == 'f': return f'(DFloat {dt.itemsize} {e})'
    if dt.kind == 'c': return f'(DComplex {dt.itemsize} {e})'
    if dt.kind == 'S': return f'(DBytes "{dt.itemsize}")'
    return None


def gen_pl(rng):
    nf = rng.choice([1, 1, 2, 3, 4, 6])
    names = rng.sample(FNAMES, nf)
    same = rng.choice(['float64', 'int32', 'float32', 'int64']) if rng.random() < 0.3 else None
    return {'kind': 'pl', 'fields': [[n, same or rng.choice(SCALAR)] for n in names], 'len': rng.choice([0, 1, 2, 5, 17]), 'seed': rng.randrange(10 ** 6),
            'name': rng.choice(['pl', 'my points', 'liste']), 'zeros': rng.random() < 0.15,
            # the records are a multi-field view of a wider structured array: fields sit at gapped, possibly out-of-order offsets
            'gapped': rng.random() < 0.3}


def gen_pla(rng):
    structured = rng.random() < 0.8
    nf = rng.choice([1, 2, 3])
    dt = [[n, rng.choice(SCALAR[:14])] for n in rng.sample(FNAMES, nf)] if structured else rng.choice(['float64', 'int32', 'uint8', 'complex64', 'float64', 'int32', '>f4', '>i2'])
    shape = rng.choice([[1, 1], [2, 3], [0, 3], [3, 0], [1, 4], [3, 2], [0, 0]])
    mode = rng.choice(['ragged', 'ragged', 'all_empty', 'some_empty', 'one'])
    cells = []
    for i in range(shape[0]):
        row = []
        for j in range(shape[1]):
            n = 0 if mode == 'all_empty' else rng.choice([0, 1, 2, 5]) if mode != 'one' else 1
            if mode == 'some_empty' and rng.random() < 0.5:
                n = 0
            row.append(n)
        cells.append(row)
    out = {'kind': 'pla', 'dtype': dt, 'shape': shape, 'cells': cells, 'seed': rng.randrange(10 ** 6), 'name': rng.choice(['pla', 'peaks']),
           'zeros': rng.random() < 0.3}
    if structured and rng.random() < 0.5:
        # earlier in the same process another PointListArray was saved whose dtype has the same field names and the same record size
        # but other field types
        swap = {'float64': 'int64', 'int64': 'float64', 'float32': 'int32', 'int32': 'float32', 'uint8': 'int8', 'int8': 'uint8', 'int16': 'uint16',
                'uint16': 'float16', 'float16': 'int16', 'uint32': 'float32', 'uint64': 'float64', 'complex64': 'float64', 'complex128': 'complex128', 'bool': 'int8'}
        pre = [[n, swap.get(t, t)] for n, t in dt]
        if pre != dt:
            out['pre_dtype'] = pre
    return out


def mk_struct(fields, n, seed):
    dt = np.dtype([(f, t) for f, t in fields])
    a = np.zeros(n, dtype=dt)
    for k, (f, t) in enumerate(fields):
        a[f] = col(t, n, seed + k)
    return a


def run_case(c, scratch):
    import emdfile, h5py
    p = os.path.join(scratch, 'pl_%d.h5' % os.getpid())
    if os.path.exists(p):
        os.remove(p)
    out = {}
    root = emdfile.Root(name='r')
    try:
        if c['kind'] == 'pl':
            data = mk_struct(c['fields'], c['len'], c['seed'])
            if c.get('zeros'):
                data = np.zeros(c['len'], dtype=data.dtype)
            if c.get('gapped'):
                names = [f for f, _ in c['fields']]
                wide = [('pad_a', 'u1')] + [x for f, t in reversed(c['fields']) for x in ((f, t), ('pad_' + f, 'i2'))]
                big = np.zeros(c['len'], dtype=wide)
                for f in names:
                    big[f] = data[f]
                data = big[names]          # a view: same fields and values, offsets with gaps and in another order
            obj = emdfile.PointList(data=data, name=c['name'])
            out['orig'] = {'len': len(obj), 'fields': [[f, str(data.dtype[f]), tok_of(data[f])] for f in data.dtype.names]}
        else:
            dt = np.dtype([(f, t) for f, t in c['dtype']]) if isinstance(c['dtype'], list) else np.dtype(c['dtype'])
            if c.get('pre_dtype'):
                try:
                    pdt = np.dtype([(f, t) for f, t in c['pre_dtype']])
                    pre = emdfile.PointListArray(dtype=pdt, shape=(1, 1), name='earlier')
                    pre[0, 0].add(np.ones(1, dtype=pdt))
                    r0 = emdfile.Root(name='r0'); r0.tree(pre)
                    with core.quiet():
                        emdfile.save(p + '.pre', r0, mode='o')
                finally:
                    if os.path.exists(p + '.pre'):
                        os.remove(p + '.pre')
            obj = emdfile.PointListArray(dtype=dt, shape=tuple(c['shape']), name=c['name'])
            cells = []
            for i in range(c['shape'][0]):
                row = []
                for j in range(c['shape'][1]):
                    n = c['cells'][i][j]
                    d = mk_struct(c['dtype'], n, c['seed'] + 7 * i + j) if isinstance(c['dtype'], list) else col(c['dtype'], n, c['seed'] + 7 * i + j)
                    if c.get('zeros') and (i + j + c['seed']) % 2 == 0:
                        d = np.zeros(n, dtype=d.dtype)       # points whose every field is zero are points too
                    if n:
                        obj[i, j].add(d)
                    row.append([n, tok_of(obj[i, j].data) if n else 0])
                cells.append(row)
            out['orig'] = {'shape': list(c['shape']), 'dtype': str(dt), 'cells': cells}
        root.tree(obj)
    except BaseException as e:
        return {'build_exc': type(e).__name__ + ': ' + str(e)[:100]}
    try:
        with core.quiet():
            emdfile.save(p, root, mode='o')
    except BaseException as e:
        out['save_exc'] = type(e).__name__ + ': ' + str(e)[:100]
        if os.path.exists(p): os.remove(p)
        return out
    try:
        with h5py.File(p, 'r') as f:
            g = f['r/' + c['name']]
            if c['kind'] == 'pl':
                out['file'] = [[k, (lambda a: a.decode() if isinstance(a, bytes) else str(a))(g[k].attrs.get('dtype')), int(g[k].shape[0]) if g[k].shape else -1,
                                tok_of(g[k][...])] for k in g.keys() if isinstance(g[k], h5py.Dataset)]
            else:
                out['file'] = {'shape': [int(x) for x in g['data'].shape], 'vlen': str(h5py.check_vlen_dtype(g['data'].dtype))}
        with core.quiet():
            back = emdfile.read(p, emdpath='r/' + c['name'], tree=False)
        out['back_type'] = type(back).__name__
        if c['kind'] == 'pl':
            d = back.data
            out['back'] = {'len': len(back), 'fields': [[f, str(d.dtype[f]), tok_of(d[f])] for f in (d.dtype.names or [])]}
        else:
            cells = []
            for i in range(back.shape[0]):
                row = []
                for j in range(back.shape[1]):
                    dd = back[i, j].data
                    row.append([len(dd), tok_of(dd) if len(dd) else 0])
                cells.append(row)
            out['back'] = {'shape': [int(x) for x in back.shape], 'dtype': str(back.dtype), 'cells': cells}
        # second generation
        try:
            r2 = emdfile.Root(name='r'); back._root = None; r2.tree(back)
            with core.quiet():
                emdfile.save(p + '.2', r2, mode='o'); b2 = emdfile.read(p + '.2', emdpath='r/' + c['name'], tree=False)
            if c['kind'] == 'pl':
                out['back2'] = {'len': len(b2), 'fields': [[f, str(b2.data.dtype[f]), tok_of(b2.data[f])] for f in (b2.data.dtype.names or [])]}
            else:
                out['back2'] = {'shape': [int(x) for x in b2.shape], 'dtype': str(b2.dtype),
                                'cells': [[[len(b2[i, j].data), tok_of(b2[i, j].data) if len(b2[i, j].data) else 0] for j in range(b2.shape[1])] for i in range(b2.shape[0])]}
            os.remove(p + '.2')
        except BaseException as e:
            out['gen2_exc'] = type(e).__name__ + ': ' + str(e)[:100]
    except BaseException as e:
        out['read_exc'] = type(e).__name__ + ': ' + str(e)[:100]
    if os.path.exists(p): os.remove(p)
    return out


def _run_one(a):
    try:
        return run_case(*a)
    except BaseException:
        import traceback
        return [{'harness_error': traceback.format_exc()[-800:]}]


def run_all(cases, scratch):
    return core.pmap(_run_one, [(c, scratch) for c in cases])


def coqpl(o, I):
    fl = []
    for f, dt, tok in o['fields']:
        cd = coqdtype(dt)
        if cd is None:
            return None
        fl.append(f'(FLD {I.s(f)} {cd} {coqZ(tok)})')
    return f"(PLV {o['len']} {coqlist(fl)})"


def coqpla(o, I):
    cells = coqlist([coqlist([f'({n}, {coqZ(t)})' for n, t in row]) for row in o['cells']])
    return f"(PLA ({o['shape'][0]}, {o['shape'][1]}) {I.s(o['dtype'])} {cells})"


def plain_nonnative(c):
    return c['kind'] == 'pla' and not isinstance(c['dtype'], list) and not np.dtype(c['dtype']).isnative


def emit(cases, results, shard=400):
    shards = []
    for k in range(0, len(cases), shard):
        I = core.Interner()
        terms, idx = [], []
        for i in range(k, min(k + shard, len(cases))):
            c, r = cases[i], results[i]
            if isinstance(r, list) or 'build_exc' in r or 'save_exc' in r or 'file' not in r:
                continue
            if c['kind'] == 'pl':
                p = coqpl(r['orig'], I)
                if p is None:
                    continue
                f = '(Some ' + coqlist([f'({I.s(k0)}, ({I.s(a)}, {max(n, 0)}, {coqZ(t)}))' for k0, a, n, t in r['file']]) + ')'
                b = 'None'
                if 'back' in r:
                    bb = coqpl(r['back'], I)
                    b = 'None' if bb is None else f'(Some {bb})'
                terms.append(f'PCPl {p} {f} {b}')
            else:
                if plain_nonnative(c):
                    continue      # h5py's reading of non-native plain numeric vlen data is outside the model (known finding)
                b = 'None' if 'back' not in r else f"(Some {coqpla(r['back'], I)})"
                terms.append(f"PCPla {coqpla(r['orig'], I)} {b}")
            idx.append(i)
        shards.append((I.defs, terms, idx))
    return shards


COQ_IMPORTS = 'From Emd Require Import Base.Prelude Model.Pl Proofs.P04 Corr.XPl.'
CASETY = 'pcase'
CHECKFN = 'check'
