"""Scenarios over in-memory trees (C12, C13): generation, execution on the real emdfile
objects, abstraction to the model's `tn` terms, and the two oracles."""
import copy, itertools, random
from harness import core
from harness.core import coqstr, coqlist, coqbool, coqZ, coqopt

OPTS = ['T', 'F', 'copy', 'overwrite', 'copyover']
PYOPT = {'T': True, 'F': False, 'copy': 'copy', 'overwrite': 'overwrite', 'copyover': 'copyover'}
COQOPT = {'T': 'MTrue', 'F': 'MFalse', 'copy': 'MCopy', 'overwrite': 'MOverwrite', 'copyover': 'MCopyover'}
# names that are string prefixes of one another come first (paths are strings: '/a' is a prefix of '/ab' but not an ancestor)
NAMES = ['a', 'ab', 'b', 'abc', 'c', 'a b', 'd', 'data', 'e', 'f', 'g', 'h', 'i', 'j', 'k', 'l', 'm n', 'é', 'dim0', 'x1', 'x2', 'x3', 'x4']


# ------------------------------------------------------------------ reference simulation
class Ref:
    """Parent-pointer reference model of the documented semantics (used by the generator to stay
    inside the domain, and by the oracle as an independent expectation)."""

    def __init__(self, objs):
        self.isroot = {o['id']: o['root'] for o in objs}
        self.parent = {o['id']: None for o in objs}
        self.kids = {o['id']: [] for o in objs}
        self.n = len(objs)

    def root_of(self, x):
        while self.parent[x] is not None:
            x = self.parent[x]
        return x if self.isroot[x] else None

    def subtree(self, x):
        out = [x]
        for k in self.kids[x]:
            out += self.subtree(k)
        return out

    def _move(self, d, p):
        if self.parent[d] is not None:
            self.kids[self.parent[d]].remove(d)
        self.parent[d] = p
        self.kids[p].append(d)

    def allowed(self, op):
        k = op[0]
        if k == 'add':
            _, p, c = op
            return self.root_of(p) is not None and self.root_of(c) is None and not self.isroot[c] and p != c
        if k == 'fadd':
            _, p, c = op
            if self.root_of(p) is None:
                return False
            if self.root_of(c) is None:
                return True
            return p not in self.subtree(c)
        if k == 'graft':
            _, recv, d, _ = op
            return self.root_of(recv) is not None and self.root_of(d) is not None and recv not in self.subtree(d)
        if k == 'cut':
            return self.root_of(op[1]) is not None
        return False

    def in_domain(self, op):
        """inside the property's quantifier: excludes grafts onto own descendant (those are undefined)."""
        k = op[0]
        if k == 'graft' and self.root_of(op[1]) is not None and self.root_of(op[2]) is not None:
            return op[1] not in self.subtree(op[2])
        if k == 'fadd' and self.root_of(op[1]) is not None and self.root_of(op[2]) is not None:
            return op[1] not in self.subtree(op[2])
        return True

    def apply(self, op):
        """returns True if the op is expected to succeed"""
        if not self.allowed(op):
            return False
        k = op[0]
        if k == 'add':
            self._move(op[2], op[1])
        elif k == 'fadd':
            _, p, c = op
            if self.isroot[c]:
                for x in list(self.kids[c]):
                    self._move(x, p)
            else:
                self._move(c, p)
        elif k == 'graft':
            _, recv, d, _ = op
            if self.isroot[d]:
                for x in list(self.kids[d]):
                    self._move(x, recv)
            else:
                self._move(d, recv)
        elif k == 'cut':
            d = op[1]
            nr = self.n
            self.n += 1
            self.isroot[nr] = True
            self.parent[nr] = None
            self.kids[nr] = []
            if self.isroot[d]:
                for x in list(self.kids[d]):
                    self._move(x, nr)
            else:
                self._move(d, nr)
        return True


# ------------------------------------------------------------------ generation
def mk_objs(n_roots, n_nodes, rng, md_names=('m1', 'm2', 'm3'), md_mode='rand'):
    objs = []
    mdid = 0
    tok = 100
    for i in range(n_roots + n_nodes):
        isroot = i < n_roots
        mds = []
        if isroot:
            if md_mode == 'rand':
                ks = [k for k in md_names if rng.random() < 0.55]
            else:
                ks = list(md_mode[i]) if i < len(md_mode) else []
            for k in ks:
                # every fifth entry holds no fields at all (content token -1): an entry all the same
                mds.append({'key': k, 'mdid': mdid, 'name': k, 'tok': tok if mdid % 5 != 3 else -1})
                mdid += 1; tok += 1
        elif rng.random() < 0.2:
            mds.append({'key': 'nm', 'mdid': mdid, 'name': 'nm', 'tok': tok}); mdid += 1; tok += 1
        objs.append({'id': i, 'root': isroot, 'name': ('r%d' % i) if isroot else NAMES[(i - n_roots) % len(NAMES)] + ('' if i - n_roots < len(NAMES) else str(i)),
                     'mds': mds, 'empty_pl': (not isroot) and (i - n_roots) % 3 == 1})
    return objs


def all_ops(ref, n_now):
    ids = list(range(n_now))
    out = []
    for p in ids:
        for c in ids:
            if p != c:
                out.append(['add', p, c])
                out.append(['fadd', p, c])
                for o in OPTS:
                    out.append(['graft', p, c, o])
    for d in ids:
        for o in ('T', 'F', 'copy'):
            out.append(['cut', d, o])
    return out


def random_scenario(rng, n_roots, n_nodes, length, p_bad=0.12):
    objs = mk_objs(n_roots, n_nodes, rng)
    ref = Ref(objs)
    ops = []
    for _ in range(length):
        for _try in range(30):
            ids = list(range(ref.n))
            k = rng.choice(['add', 'add', 'graft', 'graft', 'graft', 'fadd', 'cut'])
            if k == 'add':
                unrooted = [x for x in ids if ref.root_of(x) is None and not ref.isroot[x]]
                if unrooted and rng.random() > p_bad:
                    c = rng.choice(unrooted)
                    p = rng.choice([x for x in ids if ref.root_of(x) is not None])
                else:
                    p, c = rng.choice(ids), rng.choice(ids)
                op = ['add', p, c]
            elif k == 'fadd':
                op = ['fadd', rng.choice(ids), rng.choice(ids)]
            elif k == 'graft':
                op = ['graft', rng.choice(ids), rng.choice(ids), rng.choice(OPTS)]
            else:
                op = ['cut', rng.choice(ids), rng.choice(['T', 'F', 'copy', 'T', 'copy', 'overwrite', 'copyover'])]
            if op[0] != 'cut' and op[1] == op[2]:
                continue
            if not ref.in_domain(op):
                continue
            if not ref.allowed(op) and rng.random() > p_bad:
                continue
            break
        else:
            continue
        ref.apply(op)
        ops.append(op)
    return {'objs': objs, 'ops': ops}


def exhaustive_scenarios(depth, base_builds):
    """All op sequences of length <= depth (in domain) after each base build prefix."""
    out = []
    for objs, prefix in base_builds:
        def rec(ops, ref, d):
            out.append({'objs': objs, 'ops': list(ops)})
            if d == 0:
                return
            for op in all_ops(ref, ref.n):
                if not ref.in_domain(op):
                    continue
                r2 = copy.deepcopy(ref)
                r2.apply(op)
                rec(ops + [op], r2, d - 1)
        ref = Ref(objs)
        for op in prefix:
            ref.apply(op)
        rec(list(prefix), ref, depth)
    return out


def md_pattern_scenarios():
    """C13: all (M_r, M_d) over 3 names x all options x donor = node / root, graft and cut."""
    names = ['m1', 'm2', 'm3']
    subsets = [[n for j, n in enumerate(names) if (m >> j) & 1] for m in range(8)]
    out = []
    rng = random.Random(1)
    for Mr in subsets:
        for Md in subsets:
            objs = mk_objs(2, 3, rng, md_mode=[Mr, Md])
            # r0 (recv root) -> a ; r1 (donor root) -> b -> c
            build = [['add', 0, 2], ['add', 1, 3], ['add', 3, 4]]
            for o in OPTS:
                out.append({'objs': objs, 'ops': build + [['graft', 2, 3, o]]})        # node donor
                out.append({'objs': objs, 'ops': build + [['graft', 0, 1, o]]})        # root donor
                out.append({'objs': objs, 'ops': build + [['graft', 2, 4, o], ['graft', 0, 3, o]]})
            for o in ('T', 'F', 'copy'):
                out.append({'objs': objs, 'ops': build + [['cut', 3, o]]})
                out.append({'objs': objs, 'ops': build + [['cut', 4, o], ['graft', 5, 2, o]]})
    return out


def gen_cases(seed, tier, focus):
    rng = random.Random(seed * 7919 + (12 if focus == 'C12' else 13))
    cases = []
    # exhaustive small scope
    r0 = random.Random(5)
    objs_a = mk_objs(2, 3, r0, md_mode=[['m1'], ['m1', 'm2']])
    base = [(objs_a, []),
            (objs_a, [['add', 0, 2], ['add', 2, 3], ['add', 1, 4]]),
            (objs_a, [['add', 0, 2], ['add', 2, 3], ['add', 3, 4]])]
    depth = 2 if tier == 'quick' else 3
    ex = exhaustive_scenarios(depth, base[:1] if tier == 'quick' else base) if focus == 'C12' else []
    if tier == 'quick' and focus == 'C12':
        ex += exhaustive_scenarios(1, base[1:])
        r = random.Random(seed)
        if len(ex) > 2500:
            ex = r.sample(ex, 2500)
    if tier != 'quick' and len(ex) > 30000:
        # the exhaustive depth-3 space is several hundred thousand sequences: a seeded sample keeps memory bounded
        ex = random.Random(seed + 1).sample(ex, 30000)
    cases += ex
    cases += md_pattern_scenarios() if focus == 'C13' or tier == 'thorough' else md_pattern_scenarios()[::7]
    n_rand = (500 if tier == 'quick' else 12000)
    for i in range(n_rand):
        cases.append(random_scenario(rng, rng.choice([1, 2, 2, 3]), rng.choice([3, 5, 8, 12]), rng.choice([4, 8, 15, 25])))
    return cases


# ------------------------------------------------------------------ execution on the real objects
def snapshot(reg, mdreg):
    """reg: id -> python object; returns list of top-level trees (dict form)."""
    rev = {id(o): i for i, o in reg.items()}
    child_of = {}
    for i, o in reg.items():
        for k, v in o._branch._dict.items():
            child_of.setdefault(id(v), []).append(i)
    extra = [900]

    def ident(o):
        if id(o) not in rev:
            rev[id(o)] = extra[0]; extra[0] += 1
        return rev[id(o)]

    def mdident(m):
        if id(m) not in mdreg:
            mdreg[id(m)] = ('unk', 9000 + len(mdreg))
        return mdreg[id(m)][1]

    budget = [400]       # a shared or cyclic branch would otherwise be unfolded without end

    def build(o, depth=0):
        import emdfile
        budget[0] -= 1
        tp = o._treepath
        if tp is None:
            sp = None
        elif tp == '':
            sp = []
        else:
            sp = tp.split('/')[1:] if tp.startswith('/') else ['<noslash>'] + tp.split('/')
        return {'id': ident(o), 'isroot': isinstance(o, emdfile.Root), 'name': o.name,
                'sroot': None if o._root is None else ident(o._root), 'spath': sp,
                'mds': [[k, mdident(m), m.name, int(m._params.get('tok', -1))] for k, m in o._metadata.items()],
                'kids': [build(v, depth + 1) for v in o._branch._dict.values()] if depth < 40 and budget[0] > 0 else [],
                'keys': list(o._branch._dict.keys())}
    tops = [build(o) for i, o in sorted(reg.items()) if id(o) not in child_of]
    nparents = {i: len(child_of.get(id(o), [])) for i, o in reg.items()}
    return {'tops': tops, 'nparents': nparents}


_MDSUB = []


def MDSub():
    import emdfile
    if not _MDSUB:
        _MDSUB.append(type('CalibrationLike', (emdfile.Metadata,), {}))
    return _MDSUB[0]


def md_share_state(reg):
    """two distinct Metadata objects anywhere in the forest whose fields live in one dict: a 'copy' that is not independent"""
    seen = {}
    for o in reg.values():
        stack = [o]
        n = 0
        while stack and n < 400:
            x = stack.pop(); n += 1
            for k, m in x._metadata.items():
                prev = seen.setdefault(id(m._params), m)
                if prev is not m:
                    return f'entry {k!r} shares its fields with another Metadata object'
            stack.extend(x._branch._dict.values())
    return None


def live_checks(reg):
    """Evaluated on the live objects: for every node reachable from a root R at real path p,
    node.root is R and R.tree('/'+p) is node."""
    import emdfile
    bad = []
    budget = [400]
    for i, o in reg.items():
        if isinstance(o, emdfile.Root):
            def rec(n, path):
                for k, c in n._branch._dict.items():
                    budget[0] -= 1
                    if budget[0] < 0:
                        return
                    p = path + [k]
                    if c.root is not o:
                        bad.append(['root', p])
                    try:
                        if o.tree('/' + '/'.join(p)) is not c:
                            bad.append(['lookup-other', p])
                    except Exception as e:
                        bad.append(['lookup-raises', p])
                    try:
                        if c._treepath is None or o.tree(c._treepath) is not c:
                            bad.append(['own-path', p])
                    except Exception:
                        bad.append(['own-path-raises', p])
                    if len(p) < 40:
                        rec(c, p)
            rec(o, [])
    return bad


def run_scenario(sc):
    import emdfile
    reg, mdreg = {}, {}
    for o in sc['objs']:
        if o['root']:
            obj = emdfile.Root(name=o['name'])
        elif o.get('empty_pl'):
            # a node that is empty as a container (a PointList holding no points): a node like any other
            import numpy as np
            obj = emdfile.PointList(np.zeros(0, dtype=[('x', float)]), name=o['name'])
        else:
            obj = emdfile.Node(name=o['name'])
        for m in o['mds']:
            # every other entry is an instance of a user-defined Metadata subclass
            md = (MDSub() if m['mdid'] % 2 else emdfile.Metadata)(name=m['name'], data={'tok': m['tok']} if m['tok'] != -1 else None)
            obj._metadata[m['key']] = md
            mdreg[id(md)] = (md, m['mdid'])
        reg[o['id']] = obj
    n_md = sum(len(o['mds']) for o in sc['objs'])
    steps = []
    snap0 = snapshot(reg, mdreg)
    import zlib
    via0 = zlib.crc32(repr(sc['ops']).encode())
    for op in sc['ops']:
        pre = snap0
        k = op[0]
        ok, exc = True, None
        new_root = None
        donor_root = recv_root = None
        try:
            with core.quiet():
                # every operation is reachable under several spellings: the method itself, or the .tree(...) dispatcher
                sp = (via0 + len(steps)) % 3
                if k == 'add':
                    if sp == 0: reg[op[1]].add_to_tree(reg[op[2]])
                    elif sp == 1: reg[op[1]].tree(add=reg[op[2]])
                    else: reg[op[1]].tree(reg[op[2]])
                elif k == 'fadd':
                    d = reg[op[2]]
                    donor_root, recv_root = d._root, reg[op[1]]._root
                    if sp == 0: reg[op[1]].force_add_to_tree(d)
                    else: reg[op[1]].tree(d, force=True)
                elif k == 'graft':
                    d = reg[op[2]]
                    donor_root, recv_root = d._root, reg[op[1]]._root
                    dkeys = list(donor_root._metadata.keys()) if donor_root is not None else []
                    if sp == 0: reg[op[1]].graft(d, merge_metadata=PYOPT[op[3]])
                    elif sp == 1 or PYOPT[op[3]] is not True: reg[op[1]].tree(graft=(d, PYOPT[op[3]]))
                    else: reg[op[1]].tree(graft=d)
                elif k == 'cut':
                    d = reg[op[1]]
                    donor_root = d._root
                    dkeys = list(donor_root._metadata.keys()) if donor_root is not None else []
                    new_root = d.cut(root_metadata=PYOPT[op[2]]) if sp == 0 else d.tree(cut=PYOPT[op[2]])
                    recv_root = new_root
        except Exception as e:
            ok, exc = False, type(e).__name__
        if ok and new_root is not None:
            reg[max(reg) + 1 if max(reg) < 900 else len(reg)] = new_root
        if ok and k in ('graft', 'cut') and recv_root is not None:
            # register fresh Metadata copies in donor-key order (the model allocates ids in that order)
            for key in dkeys:
                m = recv_root._metadata.get(key)
                if m is not None and id(m) not in mdreg:
                    mdreg[id(m)] = (m, n_md); n_md += 1
            for m in recv_root._metadata.values():
                if id(m) not in mdreg:
                    mdreg[id(m)] = (m, n_md); n_md += 1
        snap0 = snapshot(reg, mdreg)
        steps.append({'ok': ok, 'exc': exc, 'post': snap0, 'live_bad': live_checks(reg), 'md_shared': md_share_state(reg)})
    return {'init': None, 'steps': steps, 'final': snap0, 'pre0': None}


def run_all(cases, scratch):
    return [run_scenario(c) for c in cases]


# ------------------------------------------------------------------ emission
def tn_term(t, I):
    mds = coqlist([f"({I.s(k)}, MD {mid} {I.s(nm)} {coqZ(tok)})" for k, mid, nm, tok in t['mds']])
    sp = 'None' if t['spath'] is None else '(Some ' + coqlist([I.s(x) for x in t['spath']]) + ')'
    return (f"(TN {t['id']} {coqbool(t['isroot'])} {I.s(t['name'])} {coqopt(t['sroot'])} {sp} {mds} "
            + coqlist([tn_term(k, I) for k in t['kids']]) + ')')


def op_term(op):
    if op[0] == 'add':
        return f'OAdd {op[1]} {op[2]}'
    if op[0] == 'fadd':
        return f'OForceAdd {op[1]} {op[2]}'
    if op[0] == 'graft':
        return f'OGraft {op[1]} {op[2]} {COQOPT[op[3]]}'
    return f'OCut {op[1]} {COQOPT[op[2]]}'


def emit(cases, results, shard=250):
    shards = []
    for k in range(0, len(cases), shard):
        I = core.Interner()
        terms, idx = [], []
        for i in range(k, min(k + shard, len(cases))):
            c, r = cases[i], results[i]
            init = []
            for o in c['objs']:
                mds = coqlist([f"({I.s(m['key'])}, MD {m['mdid']} {I.s(m['name'])} {coqZ(m['tok'])})" for m in o['mds']])
                init.append(f"({'new_root' if o['root'] else 'new_node'} {o['id']} {I.s(o['name'])} {mds})")
            nmd = sum(len(o['mds']) for o in c['objs'])
            oks = coqlist([coqbool(s['ok']) for s in r['steps']])
            final = coqlist([tn_term(t, I) for t in sorted(r['final']['tops'], key=lambda t: t['id'])]) if r['steps'] else \
                coqlist([tn_term(t, I) for t in sorted(snapshot_of_objs(c), key=lambda t: t['id'])])
            terms.append(f"({coqlist(init)}, {len(c['objs'])}, {nmd}, {coqlist([op_term(o) for o in c['ops']])}, {oks}, {final})")
            idx.append(i)
        shards.append((I.defs, terms, idx))
    return shards


def snapshot_of_objs(c):
    return [{'id': o['id'], 'isroot': o['root'], 'name': o['name'], 'sroot': o['id'] if o['root'] else None,
             'spath': [] if o['root'] else None, 'mds': [[m['key'], m['mdid'], m['name'], m['tok']] for m in o['mds']],
             'kids': []} for o in c['objs']]


COQ_IMPORTS = 'From Emd Require Import Base.Prelude Model.Forest Corr.XForest.'
CASETY = 'fcase'
CHECKFN = 'check'


# ------------------------------------------------------------------ oracles
def strip(t):
    return (t['id'], t['name'], tuple(strip(k) for k in t['kids']))


def index(snap):
    """id -> (node dict, root id or None, real path, parent id)"""
    out = {}

    def rec(t, root, path, parent):
        out.setdefault(t['id'], []).append((t, root, path, parent))
        for k in t['kids']:
            rec(k, root, path + [k['name']], t['id'])
    for t in snap['tops']:
        rec(t, t['id'] if t['isroot'] else None, [], None)
    return out


def oracle_c12(case, res):
    ref = Ref(case['objs'])
    pre = {'tops': snapshot_of_objs(case), 'nparents': {}}
    for j, (op, st) in enumerate(zip(case['ops'], res['steps'])):
        post = st['post']
        exp_ok = ref.allowed(op)
        where = f'op#{j} {op}'
        pre_ids = sorted(i for i, v in index(pre).items() for _ in v)
        pre_ref = copy.deepcopy(ref)
        ref.apply(op)
        idx = index(post)
        # forbidden operations must fail without changing anything
        if not exp_ok:
            if st['ok']:
                return {'key': 'forbidden-op-succeeded', 'what': f'{where}: a forbidden operation returned normally'}
            if [strip_full(t) for t in post['tops']] != [strip_full(t) for t in pre['tops']]:
                return {'key': 'failed-op-changed-state', 'what': f'{where}: raised but the forest changed'}
        elif not st['ok']:
            # an operation the API allows (inside the property's domain: distinct names, no graft onto an own descendant) was
            # refused: the branch did not arrive
            return {'key': 'allowed-op-refused', 'what': f"{where}: an allowed operation raised {st.get('exc')}: the branch did not arrive"}
            ref = pre_ref
            ref.parent = {i: occ[0][3] for i, occ in idx.items()}
            ref.kids = {i: [k['id'] for k in occ[0][0]['kids']] for i, occ in idx.items()}
            ref.isroot = {i: occ[0][0]['isroot'] for i, occ in idx.items()}
            ref.n = max(idx) + 1
        # no node lost or duplicated
        post_ids = sorted(i for i, v in idx.items() for _ in v)
        exp_ids = sorted(pre_ids + ([max(pre_ids) + 1] if (op[0] == 'cut' and st['ok']) else []))
        if post_ids != exp_ids:
            return {'key': 'node-lost-or-duplicated', 'what': f'{where}: ids {post_ids} expected {exp_ids}'}
        for i, n in post['nparents'].items():
            if n > 1:
                return {'key': 'two-parents', 'what': f'{where}: node {i} has {n} parents'}
        # every node reachable from a root reports that root and its own path
        for i, occ in idx.items():
            t, root, path, parent = occ[0]
            if root is not None and path:
                if t['sroot'] != root:
                    return {'key': 'stale-root', 'what': f'{where}: node {i} at {path} reports root {t["sroot"]} not {root}'}
                if t['spath'] != path:
                    return {'key': 'stale-path', 'what': f'{where}: node {i} at {path} stores path {t["spath"]}'}
            if root is None and not t['isroot']:
                if t['sroot'] is not None or t['kids']:
                    return {'key': 'unrooted-malformed', 'what': f'{where}: unrooted node {i} has root/children'}
        if st['live_bad']:
            return {'key': 'lookup-' + st['live_bad'][0][0], 'what': f'{where}: {st["live_bad"][0]}'}
        # parent relation equals the reference model
        for i, occ in idx.items():
            if ref.parent.get(i, 'missing') != occ[0][3]:
                return {'key': 'wrong-parent', 'what': f'{where}: node {i} parent {occ[0][3]} expected {ref.parent.get(i)}'}
        # a moved branch keeps its internal shape
        if st['ok'] and op[0] in ('graft', 'cut', 'fadd'):
            d = op[2] if op[0] != 'cut' else op[1]
            pidx = index(pre)
            if d in pidx and not pidx[d][0][0]['isroot']:
                if strip(pidx[d][0][0]) != strip(idx[d][0][0]):
                    return {'key': 'branch-shape-changed', 'what': f'{where}: branch below {d} changed shape'}
        pre = post
    return None


def strip_full(t):
    return (t['id'], t['name'], t['sroot'], tuple(t['spath']) if t['spath'] is not None else None,
            tuple(tuple(m) for m in t['mds']), tuple(strip_full(k) for k in t['kids']))


def oracle_c13(case, res):
    ref = Ref(case['objs'])
    pre = {'tops': snapshot_of_objs(case)}
    for j, (op, st) in enumerate(zip(case['ops'], res['steps'])):
        post = st['post']
        where = f'op#{j} {op}'
        pidx, idx = index(pre), index(post)
        allowed = ref.allowed(op)
        if st.get('md_shared'):
            return {'key': 'md-copy-not-independent', 'what': f"{where}: {st['md_shared']}"}
        if allowed != st['ok']:
            return None      # the forests diverged from the reference: C12's business, not C13's
        if allowed and st['ok'] and op[0] in ('graft', 'cut', 'fadd'):
            d = op[2] if op[0] != 'cut' else op[1]
            opt = 'F' if op[0] == 'fadd' else (op[3] if op[0] == 'graft' else op[2])
            droot = ref.root_of(d)
            if op[0] == 'cut':
                rroot = ref.n            # the fresh root
                Mr0 = []
            else:
                rroot = ref.root_of(op[1])
                Mr0 = pidx[rroot][0][0]['mds']
            if droot is not None and droot not in pidx or (op[0] != 'cut' and rroot not in pidx):
                return None
            Md0 = pidx[droot][0][0]['mds'] if droot is not None else []
            if droot is not None:
                Mr1 = idx[rroot][0][0]['mds'] if rroot in idx else None
                Md1 = idx[droot][0][0]['mds']
                if Mr1 is None:
                    return {'key': 'recv-root-missing', 'what': where}
                kr0 = {m[0]: m for m in Mr0}; kd0 = {m[0]: m for m in Md0}
                kr1 = {m[0]: m for m in Mr1}; kd1 = {m[0]: m for m in Md1}
                same_tree = (droot == rroot)
                # expected key set
                if opt == 'F':
                    expk = set(kr0)
                else:
                    expk = set(kr0) | set(kd0)
                if set(kr1) != expk:
                    return {'key': f'md-keys-{opt}', 'what': f'{where}: receiver root metadata keys {sorted(kr1)} expected {sorted(expk)} (receiver had {sorted(kr0)}, donor {sorted(kd0)})'}
                for k in kr1:
                    m = kr1[k]
                    conflict = k in kr0 and k in kd0
                    if k in kr0 and (k not in kd0 or opt in ('F', 'T', 'copy')):
                        # receiver's own entry survives untouched
                        if m[1] != kr0[k][1] or m[3] != kr0[k][3]:
                            if not (same_tree and m[3] == kr0[k][3]):
                                return {'key': f'md-receiver-entry-changed-{opt}', 'what': f'{where}: receiver entry {k} was replaced'}
                    else:
                        src = kd0[k]
                        if m[3] != src[3]:
                            return {'key': f'md-content-{opt}', 'what': f'{where}: entry {k} content {m[3]} expected donor content {src[3]}'}
                        if opt in ('copy', 'copyover'):
                            if m[1] == src[1] and not same_tree:
                                return {'key': f'md-not-copied-{opt}', 'what': f'{where}: entry {k} is the donor object, expected an independent copy'}
                        else:
                            if m[1] != src[1]:
                                return {'key': f'md-not-shared-{opt}', 'what': f'{where}: entry {k} is not the donor object'}
                # donor root keeps its own metadata
                if not same_tree:
                    if [(m[0], m[1], m[3]) for m in Md1] != [(m[0], m[1], m[3]) for m in Md0]:
                        return {'key': 'md-donor-root-changed', 'what': f'{where}: donor root metadata changed'}
        ref.apply(op)
        pre = post
    return None


def size(case):
    return len(case['ops']) * 100 + len(case['objs'])


def shrink_with(oracle):
    def shrink(case, scratch):
        best = case
        obs = run_scenario(best); v = oracle(best, obs)
        changed = True
        while changed:
            changed = False
            for i in range(len(best['ops']) - 1, -1, -1):
                cand = {'objs': best['objs'], 'ops': best['ops'][:i] + best['ops'][i + 1:]}
                try:
                    o2 = run_scenario(cand); v2 = oracle(cand, o2)
                except Exception:
                    continue
                if v2 is not None and v2['key'] == v['key']:
                    best, obs, v = cand, o2, v2
                    changed = True
                    break
        # drop the bulky per-step snapshots from the replay
        slim = {'steps': [{'ok': s['ok'], 'exc': s['exc']} for s in obs['steps']], 'final': obs['final']}
        return best, slim, v
    return shrink
