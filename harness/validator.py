"""EMD 1.0 layout validator over the raw-h5py abstraction of a file (independent of emdfile)."""
DATA = ('node', 'array', 'pointlist', 'pointlistarray', 'custom')
ALL = ('root', 'metadatabundle', 'metadata') + DATA + tuple('custom_' + x for x in DATA)


def A(o):
    return {a[0]: (a[1], a[2]) for a in o[1]}


def wf_emd(slot, program='emdfile', user='', user_names=()):
    """returns None or a string describing the first violation"""
    if slot[0] != 'H5':
        return 'not an HDF5 file'
    f = slot[1]
    h = A(f)
    if h.get('emd_group_type') != ('s', 'file'):
        return 'header: emd_group_type is not "file"'
    if h.get('version_major') != ('i', 1) or h.get('version_minor') != ('i', 0):
        return 'header: version is not 1.0'
    if 'UUID' not in h or h['UUID'][0] != 's' or not h['UUID'][1]:
        return 'header: no UUID'
    if h.get('authoring_program') != ('s', program):
        return f'header: authoring_program {h.get("authoring_program")} != {program!r}'
    if h.get('authoring_user') != ('s', user):
        return f'header: authoring_user {h.get("authoring_user")} != {user!r}'
    if not f[2]:
        return 'no top-level tree'
    for k, c in f[2]:
        if c[0] != 'G' or A(c).get('emd_group_type') != ('s', 'root'):
            return f'top-level object {k!r} is not a group tagged root'
        e = node(c, '/' + k, user_names, is_root=True)
        if e:
            return e
    return None


def bundle(b, where, user_names=()):
    if b[0] != 'G' or A(b).get('emd_group_type') != ('s', 'metadatabundle'):
        return f'{where}/metadatabundle is not a tagged bundle'
    for k, m in b[2]:
        if k.startswith('_tmp_') and k not in user_names:
            return f'{where}/metadatabundle: scratch entry {k!r} left behind'
        if m[0] != 'G' or A(m).get('emd_group_type') != ('s', 'metadata') or 'python_class' not in A(m):
            return f'{where}/metadatabundle/{k} is not a tagged metadata group'
        e = items(m, f'{where}/metadatabundle/{k}')
        if e:
            return e
    return None


def items(g, where):
    for k, it in g[2]:
        if 'type' not in A(it):
            return f'{where}/{k}: metadata item without a type'
        if it[0] == 'G' and A(it)['type'][1] == 'dict':
            e = items(it, where + '/' + k)
            if e:
                return e
    return None


def node(g, where, user_names, is_root=False):
    a = A(g)
    t = a.get('emd_group_type', (None, None))[1]
    if not is_root and t not in ALL[3:]:          # a data group type, or 'custom_' + a data group type: nothing else (e.g. not 'custom_custom_array')
        return f'{where}: invalid emd_group_type {t!r}'
    if 'python_class' not in a:
        return f'{where}: no python_class'
    links = dict(g[2])
    if t == 'array':
        d = links.get('data')
        if d is None or d[0] != 'D':
            return f'{where}: Array group without data'
        if 'units' not in A(d):
            return f'{where}: data without units'
        rank = len(d[2])
        dims = sorted(k for k, c in g[2] if c[0] == 'D' and k.startswith('dim') and k[3:].isdigit())
        stack = any(A(links[k]).get('name') == ('s', '_labels_') and 'units' not in A(links[k]) for k in dims)
        nd = rank - 1 if stack else rank
        want = ['dim%d' % i for i in range(rank)]
        if dims != sorted(want):
            return f'{where}: calibration datasets {dims}, expected one per axis {want}'
        for i in range(nd):
            dd = links['dim%d' % i]
            ad = A(dd)
            if 'name' not in ad or 'units' not in ad:
                return f'{where}/dim{i}: missing name/units'
            ext = d[2][i + (1 if stack else 0)]
            if dd[2] not in ([2], [ext]):
                return f'{where}/dim{i}: length {dd[2]} is neither 2 nor the axis extent {ext}'
    for k, c in g[2]:
        if k.startswith('_tmp_') and k not in user_names:
            return f'{where}: scratch group {k!r} left behind'
        if c[0] == 'G':
            if k == 'metadatabundle':
                e = bundle(c, where, user_names)
            else:
                ct = A(c).get('emd_group_type', (None, None))[1]
                if ct is None:
                    return f'{where}/{k}: untagged group'
                e = node(c, where + '/' + k, user_names)
            if e:
                return e
    return None
