import argparse, importlib, os, subprocess, sys
sys.path.insert(0, os.path.dirname(os.path.dirname(os.path.abspath(__file__))))
from harness import core


def setup():
    with core.coq_lock():
        st = core.translate()
        print('translator:', st)
        core.ensure_makefile()
        r = subprocess.run(['make', '-j%d' % min(core.NPROC, 8)], cwd=core.COQ, capture_output=True, text=True, timeout=3000)
        print((r.stdout + r.stderr)[-3000:])
        return r.returncode


def main():
    ap = argparse.ArgumentParser()
    ap.add_argument('prop', nargs='?')
    ap.add_argument('--tier', default=os.environ.get('VERIF_TIER', 'quick'))
    ap.add_argument('--replay')
    ap.add_argument('--setup', action='store_true')
    a = ap.parse_args()
    if a.setup:
        sys.exit(setup())
    if os.environ.get('VERIF_TIER') in ('quick', 'thorough'):
        a.tier = os.environ['VERIF_TIER']
    seed = int(os.environ.get('VERIF_SEED', '0') or 0)
    mod = importlib.import_module('harness.props.' + a.prop.lower())
    if a.replay:
        sys.exit(core.replay(mod, a.replay))
    sys.exit(core.run_check(mod, a.tier, seed))


if __name__ == '__main__':
    main()
