"""Save/read scenarios (C01, C05, C07-C11, C19): building runtime trees from specs, running the real
emdfile, abstracting files (raw h5py walk) and read results to the model's terms, emission."""
import hashlib, os, random
import numpy as np
from harness import core
from harness.core import coqstr, coqlist, coqbool, coqZ, coqopt

CLS = ['Root', 'Node', 'Array', 'PointList', 'PointListArray']
COQCLS = {'Root': 'CRoot', 'Node': 'CNode', 'Array': 'CArray', 'PointList': 'CPl', 'PointListArray': 'CPla'}


# ------------------------------------------------------------------ specs -> live objects
def make_obj(spec, share=None):
    import emdfile
    c = spec['cls']
    if c == 'Root':
        o = emdfile.Root(name=spec['name'])
    elif c == 'Node':
        o = emdfile.Node(name=spec['name'])
    elif c == 'Array':
        o = emdfile.Array(data=np.full((3,) * spec['rank'], spec['tok'], dtype=np.int64), name=spec['name'], units='')
    elif c == 'PointList':
        # token 0 = a PointList of no points (len() == 0: the only falsy node there is)
        o = emdfile.PointList(data=np.array([(spec['tok'],), (spec['tok'],)] if spec['tok'] else [], dtype=[('x', '<i8')]), name=spec['name'])
    elif c == 'PointListArray':
        o = emdfile.PointListArray(dtype=[('x', '<i8')], shape=(1, 2), name=spec['name'])
        o[0, 0].add(np.array([(spec['tok'],)], dtype=[('x', '<i8')]))
    else:
        raise ValueError(c)
    for ent in spec.get('mds', []):
        k, t = ent[0], ent[1]
        if len(ent) > 3 and ent[3] == 'shared' and share is not None and t in share:
            md = share[t]             # ONE Metadata instance held in several places (by several nodes, or under several keys)
        else:
            md = emdfile.Metadata(name=k, data={'tok': t})
            if share is not None:
                share[t] = md
        o._metadata[k] = md
        if len(ent) > 2 and ent[2] is not None:
            md.name = ent[2]          # renamed after it was attached: key != name
    return o


def build(spec, parent=None, reg=None, path=(), share=None):
    """spec: {'cls','name','tok','rank','mds':[[k,tok]],'kids':[...]} -> emdfile object, built top-down"""
    share = {} if share is None else share
    o = make_obj(spec, share)
    if parent is not None:
        parent.add_to_tree(o)
    if reg is not None:
        reg[path] = o
    for ks in spec.get('kids', []):
        build(ks, o, reg, path + (ks['name'],), share)
    return o


def build_top(spec):
    """A top-level object: a Root with its tree, or an unrooted node (childless)."""
    reg = {}
    if spec['cls'] == 'Root':
        o = build(spec, None, reg)
    else:
        o = build(dict(spec, kids=[]), None, reg)
    return o, reg


def probe(p, emdpaths):
    """read every given node path individually (tree=False) with the package's own reader"""
    import emdfile
    out = {}
    for ep in emdpaths:
        try:
            with core.quiet():
                r = emdfile.read(p, emdpath=ep, tree=False)
            a = abs_read(r)
            if a[0] == 'tree':
                node = a[1] if a[2][0] == 'root' else (a[1]['kids'][0] if a[1]['kids'] else None)
                out[ep] = None if node is None else [node['cls'], node['name'], node['tok'], node['rank'], sorted(map(tuple, node['mds']))]
            else:
                out[ep] = list(a)
        except BaseException as e:
            out[ep] = 'RAISED ' + type(e).__name__
    return out


def make_input(inp, tops):
    import emdfile
    k = inp['kind']
    if k == 'arr':
        return np.full((3,) * inp['rank'], inp['tok'], dtype=np.int64)
    if k == 'dict':
        return {'tok': inp['tok']}
    if k == 'md':
        return emdfile.Metadata(name=inp['name'], data={'tok': inp['tok']})
    if k in ('list', 'tuple'):
        items = []
        for it in inp['items']:
            if it['kind'] == 'top':
                items.append(node_at(tops[it['top']][0], it['tp']))
            else:
                items.append(make_input(it, tops))
        return items if k == 'list' else tuple(items)
    raise ValueError(k)


def snap_tops(tops):
    """what the caller can observe of its objects: shape, names, roots, payload tokens, metadata"""
    out = []
    for top, reg in tops:
        ids = {id(o): p for p, o in reg.items()}
        for p, o in sorted(reg.items()):
            a = abs_rnode(o, 79)
            out.append((p, type(o).__name__, o.name, ids.get(id(o._root), None if o._root is None else 'foreign'),
                        tuple(o._branch._dict.keys()), a['tok'], tuple((k, m.name, id(m), t) for (k, t), m in zip(a['mds'], o._metadata.values()))))
    return out


def first_diff(a, b):
    for x, y in zip(a, b):
        if x != y:
            return {'before': repr(x)[:300], 'after': repr(y)[:300]}
    return {'len': [len(a), len(b)]}


def node_at(top, tp):
    o = top
    for k in tp:
        o = o._branch._dict[k]
    return o


# ------------------------------------------------------------------ abstraction of files
def _attr(v):
    if isinstance(v, bytes):
        return ('s', v.decode('utf-8', 'replace'))
    if isinstance(v, str):
        return ('s', v)
    if isinstance(v, (bool, np.bool_)):
        return ('i', int(v))
    if isinstance(v, (int, np.integer)):
        return ('i', int(v))
    return ('s', '<' + type(v).__name__ + '>')


def _dtok(d):
    import h5py
    try:
        if d.shape == ():
            v = d[()]
        elif 0 in d.shape:
            return 0
        else:
            v = d[(0,) * len(d.shape)]
        if isinstance(v, np.ndarray):           # vlen cell
            if v.size == 0:
                return 0
            v = v.flat[0]
        if isinstance(v, np.void):
            v = v[0]
        if isinstance(v, (bool, np.bool_, int, np.integer)):
            return int(v)
        if isinstance(v, (float, np.floating)) and float(v).is_integer():
            return int(v)
        if isinstance(v, (complex, np.complexfloating)) and float(v.real).is_integer():
            return int(v.real)
        return 0
    except Exception:
        return 0


def abs_obj(o, is_file=False):
    import h5py
    attrs = []
    for k in o.attrs.keys():
        kind, val = _attr(o.attrs[k])
        if is_file and k == 'UUID' and kind == 's' and len(val) == 36:
            val = '<uuid>'
        attrs.append((k, kind, val))
    if isinstance(o, h5py.Dataset):
        return ('D', attrs, [int(x) for x in o.shape], _dtok(o))
    links = []
    for k in o.keys():
        links.append((k, abs_obj(o[k])))
    return ('G', attrs, links)


def abs_slot(path):
    import h5py
    if not os.path.exists(path):
        return ('Absent',)
    try:
        with h5py.File(path, 'r') as f:
            return ('H5', abs_obj(f, True))
    except OSError:
        h = hashlib.sha256(open(path, 'rb').read()).digest()
        return ('Raw', int.from_bytes(h[:6], 'big'))


def sha(path):
    return hashlib.sha256(open(path, 'rb').read()).hexdigest() if os.path.exists(path) else None


# ------------------------------------------------------------------ abstraction of runtime trees
def abs_rnode(o, depth=0):
    import emdfile
    c = type(o).__name__
    tok, rank = 0, 0
    try:
        if isinstance(o, emdfile.Array):
            rank = int(o.data.ndim)
            tok = int(o.data.flat[0]) if o.data.size else 0
        elif isinstance(o, emdfile.PointList):
            tok = int(o.data['x'][0]) if len(o.data) else 0
        elif isinstance(o, emdfile.PointListArray):
            d = o[0, 0].data
            tok = int(d['x'][0]) if len(d) else 0
    except Exception:
        tok = -7
    mds = []
    for k, m in o._metadata.items():
        try:
            mds.append((k, int(m._params.get('tok', -1))))
        except Exception:
            mds.append((k, -1))
    return {'cls': c, 'name': o.name, 'tok': tok, 'rank': rank, 'mds': mds,
            'kids': [abs_rnode(v, depth + 1) for v in o._branch._dict.values()] if depth < 80 else []}


def abs_read(res):
    import emdfile
    if isinstance(res, list):
        return ('names', list(res))
    if isinstance(res, emdfile.Metadata):
        try:
            return ('md', res.name, int(res._params.get('tok', -1)))
        except Exception:
            return ('md', res.name, -1)
    root = res.root if res.root is not None else res
    t = abs_rnode(root)
    if res is root:
        ret = ('root',)
    else:
        tp = res._treepath or ''
        ret = ('node', [x for x in tp.split('/') if x != ''])
    return ('tree', t, ret)


def spec_of(t):
    """runtime abstraction -> spec (for re-saving read results etc.)"""
    return {'cls': t['cls'], 'name': t['name'], 'tok': t['tok'], 'rank': t['rank'], 'mds': [list(m) for m in t['mds']],
            'kids': [spec_of(k) for k in t['kids']]}


# ------------------------------------------------------------------ running a scenario
def run_scenario(sc, scratch, keep_objects=False):
    """steps: save / read / raw.  Returns per-step observations."""
    import emdfile, h5py
    emdfile.set_author(sc.get('user', ''))
    emdfile.set_program(sc.get('program', 'emdfile'))
    tops = [build_top(s) for s in sc['tops']]
    d = os.path.join(scratch, 'sc_%d' % (os.getpid()))
    os.makedirs(d, exist_ok=True)
    fpath = lambda fid: os.path.join(d, 'f%d.h5' % fid)
    for fn in os.listdir(d):
        os.remove(os.path.join(d, fn))
    obs = []
    for st in sc['steps']:
        if st['op'] == 'raw':
            p = fpath(st['file'])
            if st['kind'] == 'junk':
                open(p, 'wb').write(b'not an hdf5 file ' + bytes(st.get('n', 3)))
            elif st['kind'] == 'empty':
                open(p, 'wb').close()          # a zero-length file is an existing file like any other
            elif st['kind'] == 'h5':
                with h5py.File(p, 'w') as f:
                    g = f.create_group('stuff'); g.attrs['a'] = 1
                    f.create_dataset('d', data=np.arange(3))
            elif st['kind'] == 'h5_fake_header':
                with h5py.File(p, 'w') as f:
                    f.attrs['emd_group_type'] = 'file'; f.attrs['version_major'] = 1; f.attrs['version_minor'] = 0
                    f.create_group('notroot')
            elif st['kind'] == 'remove':
                if os.path.exists(p):
                    os.remove(p)
            elif st['kind'] == 'author':
                emdfile.set_author(st['name'])      # the session's author changes between two saves: files already written keep theirs
            obs.append({'slot': abs_slot(p)})
        elif st['op'] == 'save':
            inp = st.get('input')
            if inp is None:
                top, reg = tops[st['top']]
                target = node_at(top, st['tp'])
            else:
                target = make_input(inp, tops)
            list_before = list(target) if isinstance(target, (list, tuple)) else None
            snap_before = snap_tops(tops)
            p = fpath(st['file'])
            before_sha = sha(p)
            raised, exc = False, None
            kw = {}
            if st.get('emdpath') is not None:
                kw['emdpath'] = st['emdpath']
            probe_before = probe(p, st['probe']) if st.get('probe') else None
            fstate = None
            # tree='noroot' is the documented (deprecated) spelling of tree=None: every fourth such save uses it
            import zlib
            pytree = st['tree']
            if pytree is None and zlib.crc32(repr(sorted((k, repr(v)) for k, v in st.items())).encode()) % 4 == 0:
                pytree = 'noroot'
            try:
                with core.quiet():
                    if st.get('fault') is not None:
                        from harness import faults
                        with faults.inject(st['fault']) as fstate:
                            emdfile.save(p, target, mode=st['mode'], tree=pytree, **kw)
                    else:
                        emdfile.save(p, target, mode=st['mode'], tree=pytree, **kw)
            except BaseException as e:
                raised, exc = True, type(e).__name__ + ': ' + str(e)[:120]
            o = {'raised': raised, 'exc': exc, 'slot': abs_slot(p), 'sha_before': before_sha, 'sha_after': sha(p)}
            if fstate is not None:
                o['n_mut'] = fstate['n']; o['fault_fired'] = fstate['fired']
                if st['fault'] < 0:
                    o['mut_kinds'] = [x.split(' ')[0] for x in fstate['log']]
                o['fault_at'] = fstate['log'][st['fault']] if 0 <= st['fault'] < len(fstate['log']) else None
            if probe_before is not None:
                o['probe_before'] = probe_before
                o['probe_after'] = probe(p, st['probe'])
            snap_after = snap_tops(tops)
            o['objects_unchanged'] = (snap_before == snap_after)
            if not o['objects_unchanged']:
                o['objects_diff'] = first_diff(snap_before, snap_after)
            if list_before is not None:
                o['list_unchanged'] = (len(target) == len(list_before) and all(a is b for a, b in zip(target, list_before)))
            if st.get('readd'):
                # an unrooted node must still be addable to a tree afterwards
                try:
                    import emdfile as _e
                    r_ = _e.Root(name='probe'); r_.add_to_tree(target); target._root = None; del r_._branch[target.name]
                    o['readd_ok'] = True
                except BaseException as e:
                    o['readd_ok'] = False
            # the package's own detector on every H5 slot after a successful save
            if not raised:
                try:
                    with core.quiet():
                        o['is_emd'] = bool(emdfile._is_EMD_file(p))
                        o['version'] = [int(x) for x in emdfile._get_EMD_version(p)]
                        u = emdfile._get_UUID(p)
                        o['uuid'] = u if isinstance(u, str) else (u.decode() if isinstance(u, bytes) else repr(u))
                except Exception as e:
                    o['detector_exc'] = type(e).__name__
            obs.append(o)
        elif st['op'] == 'regen':
            # C16: read, save what was read into a fresh file, read that, ... ; record the content of each generation
            p = fpath(st['file'])
            gens = []
            try:
                kw = {}
                if st.get('emdpath') is not None:
                    kw['emdpath'] = st['emdpath']
                with core.quiet():
                    x = emdfile.read(p, tree=st['tree'], **kw)
                gens.append(abs_read(x))
                for g in range(st.get('gens', 3)):
                    p2 = fpath(1000 + g)
                    with core.quiet():
                        emdfile.save(p2, x, mode='o')
                        x = emdfile.read(p2)
                    gens.append(abs_read(x))
                obs.append({'raised': False, 'gens': gens})
            except BaseException as e:
                obs.append({'raised': True, 'exc': type(e).__name__ + ': ' + str(e)[:120], 'gens': gens})
        elif st['op'] == 'read':
            p = fpath(st['file'])
            before_sha = sha(p)
            kw = {}
            if st.get('emdpath') is not None:
                kw['emdpath'] = st['emdpath']
            try:
                with core.quiet():
                    r = emdfile.read(p, tree=st['tree'], **kw)
                o = {'raised': False, 'res': abs_read(r)}
            except BaseException as e:
                o = {'raised': True, 'exc': type(e).__name__ + ': ' + str(e)[:120]}
            o['sha_unchanged'] = (before_sha == sha(p))
            obs.append(o)
    for fn in os.listdir(d):
        os.remove(os.path.join(d, fn))
    os.rmdir(d)
    emdfile.set_author('')
    emdfile.set_program('emdfile')
    return obs


def _run_one(args):
    c, scratch = args
    try:
        return run_scenario(c, scratch)
    except BaseException as e:       # harness failure: surface it as an observation
        import traceback
        return [{'harness_error': traceback.format_exc()[-800:]}]


def run_all(cases, scratch, fn=None):
    return core.pmap(fn or _run_one, [(c, scratch) for c in cases])


# ------------------------------------------------------------------ emission
class Em:
    def __init__(self):
        self.I = core.Interner()

    def attrs(self, attrs):
        items = []
        for k, kind, val in attrs:
            items.append(f"({self.I.s(k)}, {'AStr ' + self.I.s(val) if kind == 's' else 'AInt ' + coqZ(val)})")
        return self.I.term('list (string * attrv)', coqlist(items))

    def obj(self, o):
        if o[0] == 'D':
            return f"(D {self.attrs(o[1])} {coqlist([str(x) for x in o[2]])} {coqZ(o[3])})"
        links = coqlist([f"({self.I.s(k)}, {self.obj(c)})" for k, c in o[2]])
        t = f"(G {self.attrs(o[1])} {links})"
        if len(t) > 60:
            return self.I.term('obj', t)
        return t

    def slot(self, s):
        if s[0] == 'Absent':
            return 'Absent'
        if s[0] == 'Raw':
            return f'(Raw {coqZ(s[1])})'
        return f'(H5 {self.obj(s[1])})'

    def rnode(self, t):
        mds = coqlist([f"({self.I.s(m[0])}, {coqZ(m[1])})" for m in t['mds']])
        c = COQCLS.get(t['cls'])
        if c is None:
            c = 'CNode'
        return f"(RN {c} {self.I.s(t['name'])} {coqZ(t['tok'])} {t['rank']} {mds} {coqlist([self.rnode(k) for k in t['kids']])})"

    def input(self, inp):
        k = inp['kind']
        if k == 'arr':
            return f"(IArr {coqZ(inp['tok'])} {inp['rank']})"
        if k == 'dict':
            return f"(IDict {coqZ(inp['tok'])})"
        if k == 'md':
            return f"(IMd {self.I.s(inp['name'])} {coqZ(inp['tok'])})"
        items = []
        for it in inp['items']:
            if it['kind'] == 'top':
                items.append(f"LTop {it['top']} {self.path(it['tp'])}")
            elif it['kind'] == 'arr':
                items.append(f"LArr {coqZ(it['tok'])} {it['rank']}")
            else:
                items.append(f"LDict {coqZ(it['tok'])}")
        return f"(IList {coqlist(items)})"

    def tree_opt(self, t):
        return {True: '(Some true)', False: '(Some false)', None: 'None'}[t]

    def path(self, p):
        return coqlist([self.I.s(x) for x in p])

    def oread(self, o):
        if o['raised']:
            return 'ORaised'
        r = o['res']
        if r[0] == 'names':
            return f"(ONames {coqlist([self.I.s(x) for x in r[1]])})"
        if r[0] == 'md':
            return f"(OMd {self.I.s(r[1])} {coqZ(r[2])})"
        ret = 'RetRoot' if r[2][0] == 'root' else f"(RetNode {self.path(r[2][1])})"
        return f"(OTree {self.rnode(r[1])} {ret})"

    def case(self, sc, obs):
        steps = []
        for st, o in zip(sc['steps'], obs):
            if st['op'] == 'raw':
                steps.append(f"SRaw {st['file']} {self.slot(o['slot'])}")
            elif st['op'] == 'save':
                ep = 'None' if st.get('emdpath') is None else f"(Some {self.I.s(st['emdpath'])})"
                wa = f"(WA {self.I.s(st['mode'])} {self.tree_opt(st['tree'])} {ep})"
                if st.get('input') is None:
                    steps.append(f"SSave {st['file']} {st['top']} {self.path(st['tp'])} {wa} {coqbool(o['raised'])} {self.slot(o['slot'])}")
                else:
                    steps.append(f"SSaveIn {st['file']} {self.input(st['input'])} {wa} {coqbool(o['raised'])} {self.slot(o['slot'])}")
            elif st['op'] == 'read':
                ep = 'None' if st.get('emdpath') is None else f"(Some {self.I.s(st['emdpath'])})"
                steps.append(f"SRead {st['file']} {ep} {self.tree_opt(st['tree'])} {self.oread(o)}")
        tops = coqlist([self.rnode(t) for t in sc['tops']])
        cfg = f"(CFG {self.I.s(sc.get('program', 'emdfile'))} {self.I.s(sc.get('user', ''))})"
        return f"({cfg}, {tops}, {coqlist(steps)})"


def emit(cases, results, shard=120):
    shards = []
    for k in range(0, len(cases), shard):
        em = Em()
        terms, idx = [], []
        for i in range(k, min(k + shard, len(cases))):
            r = results[i]
            if isinstance(r, list) and r and isinstance(r[0], dict) and 'harness_error' in r[0]:
                continue          # reported by core as a broken correspondence
            if cases[i].get('oracle_only'):
                continue          # behaviour outside the model (named in the property module): decided by the oracle alone
            terms.append(em.case(cases[i], r))
            idx.append(i)
        shards.append((em.I.defs, terms, idx))
    return shards


COQ_IMPORTS = 'From Emd Require Import Base.Prelude Model.H5 Model.Emd Model.EmdList Model.Reader Corr.XTree.'
CASETY = 'tcase'
CHECKFN = 'check'

# ------------------------------------------------------------------ generators
# includes names that are valid Unicode but not NFC-normalised (a combining mark, the Angstrom and Ohm signs): names are stored as given
NAMEPOOL = ['a', 'b', 'c', 'd', 'e', 'ab', 'a b', 'é', 'data', 'dim0', 'x', 'node', 'metadata', 'A', '_tmp_a', 'n1', 'n2', 'n3', 'k', 'q',
            'e\u0301', 'd_\u212b', '\u2126m', 'dim9', 'dimensions']
TOK = [100]


def fresh_tok():
    TOK[0] += 1
    return TOK[0]


def rand_tree(rng, rootname, n_nodes, names=None, classes=('Node', 'Array', 'PointList', 'PointListArray'), md_p=0.3, max_depth=8,
              avoid_clash=True):
    """random tree with n_nodes non-root nodes; sibling names distinct"""
    names = names or NAMEPOOL
    root = {'cls': 'Root', 'name': rootname, 'tok': 0, 'rank': 0, 'mds': [], 'kids': []}
    if rng.random() < md_p:
        root['mds'] = [[k, fresh_tok()] for k in rng.sample(['m1', 'm2', 'm3'], rng.choice([1, 1, 2, 3]))]
    nodes = [(root, 0)]
    for _ in range(n_nodes):
        parent, depth = rng.choice(nodes)
        if depth >= max_depth:
            parent, depth = root, 0
        used = {k['name'] for k in parent['kids']}
        forbidden = set()
        if avoid_clash:
            if parent['cls'] == 'Array':
                forbidden = {'data'} | {'dim%d' % i for i in range(parent['rank'] + 1)}
            elif parent['cls'] == 'PointList':
                forbidden = {'x'}
            elif parent['cls'] == 'PointListArray':
                forbidden = {'data'}
        cand = [n for n in names if n not in used and n not in forbidden]
        if not cand:
            continue
        c = rng.choice(classes)
        node = {'cls': c, 'name': rng.choice(cand), 'tok': (fresh_tok() if c != 'Node' else 0) if not (c == 'PointList' and rng.random() < 0.15) else 0,
                'rank': rng.choice([1, 1, 2, 3, 0]) if c == 'Array' else 0, 'mds': [], 'kids': []}
        if rng.random() < md_p:
            node['mds'] = [[k, fresh_tok()] for k in rng.sample(['m1', 'm2', 'm3'], rng.choice([1, 1, 2]))]
        if root['mds'] and rng.random() < 0.08:
            # the very Metadata instance the root holds, attached to this node too under the same key
            m = rng.choice(root['mds'])
            if len(m) < 4 and m[0] not in {x[0] for x in node['mds']}:
                m[2:] = [m[2] if len(m) > 2 else None, 'shared']
                node['mds'].append([m[0], m[1], m[2], 'shared'])
        parent['kids'].append(node)
        nodes.append((node, depth + 1))
    return root


def all_paths(t, prefix=()):
    out = [list(prefix)]
    for k in t['kids']:
        out += all_paths(k, prefix + (k['name'],))
    return out


def spec_at(t, tp):
    for k in tp:
        t = next(x for x in t['kids'] if x['name'] == k)
    return t


def count_nodes(t):
    return 1 + sum(count_nodes(k) for k in t['kids'])


def depth_of(t):
    return 1 + max([depth_of(k) for k in t['kids']] or [0])
