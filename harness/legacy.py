"""Legacy EMD 0.1 files, non-EMD HDF5 files and junk (C17, part of C16)."""
import os, random
import numpy as np
from harness import core, tree as T
from harness.core import coqlist, coqZ

DT = ['float64', 'float32', 'int32', 'uint16', 'int64', 'complex64', 'bool']


def gen_legacy(rng):
    ngroups = rng.choice([1, 1, 2, 3, 5])
    groups = []
    names = rng.sample(['dat', 'image', 'my data', 'é', 'cube', 'x', 'g7', 'stack'], ngroups)
    if ngroups >= 2 and rng.random() < 0.15:
        names[1] = names[0]                       # same name under different parents
    for i in range(ngroups):
        depth = rng.choice([0, 1, 2, 5])
        path = [rng.choice(['data', 'user', 'sub', 'A', 'misc %d' % i]) + (str(i) if names.count(names[i]) > 1 else '') for _ in range(depth)]
        rank = rng.choice([1, 2, 3, 4, 4, 10, 11, 12])
        shape = [rng.choice([1, 2, 3, 4]) for _ in range(rank)] if rank < 10 else [rng.choice([1, 2]) for _ in range(rank)]
        dims = []
        for ax in range(rank):
            L = shape[ax]
            kind = rng.choice(['full', 'full', 'full', 'full', 'wrong'] if rng.random() < 0.1 else ['full'])
            dims.append({'len': L if kind == 'full' else L + 3, 'tok': rng.randrange(1, 50), 'float': rng.random() < 0.5,
                         'name': rng.choice(['x', 'y', 't', 'énergie', 'pos']), 'units': rng.choice(['nm', 'px', '', 's', 'µm']),
                         'missing': rng.random() < 0.03, 'noattrs': rng.random() < 0.03})
        groups.append({'path': path, 'name': names[i], 'shape': shape, 'dtype': rng.choice(DT), 'tok': rng.randrange(1, 100), 'dims': dims,
                       'nodata': rng.random() < 0.03})
    if ngroups >= 2 and rng.random() < 0.35:
        # several data groups of one and the same layout (shape and dtype), each with its own content
        for g in groups[1:]:
            g['shape'] = list(groups[0]['shape']); g['dtype'] = groups[0]['dtype']
            g['dims'] = [dict(d, tok=rng.randrange(1, 50)) for d in groups[0]['dims']]
            g['tok'] = groups[0]['tok'] + 1 + groups.index(g)
    return {'kind': 'legacy', 'groups': groups, 'extras': rng.random() < 0.5}


def gen_other(rng):
    k = rng.choice(['junk', 'empty_h5', 'plain_h5', 'hdr_only', 'wrong_major', 'wrong_minor', 'hdr_type', 'no_major', 'roots_no_header',
                    'group_type_str1', 'group_type_2', 'v1_with_legacy'])
    return {'kind': 'other', 'what': k, 'n': rng.randrange(1, 50)}


def write_file(c, p):
    import h5py
    if c['kind'] == 'other' and c['what'] == 'junk':
        open(p, 'wb').write(bytes((c['n'] * 7 + i) % 251 for i in range(64 + c['n'])))
        return
    with h5py.File(p, 'w') as f:
        if c['kind'] == 'legacy':
            if c['extras']:
                f.attrs['version_major'] = 0; f.attrs['version_minor'] = 2
                f.create_group('comments'); f.create_dataset('loose', data=np.arange(3))
            for g in c['groups']:
                parent = f
                for comp in g['path']:
                    parent = parent.require_group(comp)
                if g['name'] in parent:
                    continue
                grp = parent.create_group(g['name'])
                grp.attrs['emd_group_type'] = 1
                if not g['nodata']:
                    data = np.full(tuple(g['shape']), g['tok']).astype(g['dtype'])
                    grp.create_dataset('data', data=data)
                for i, d in enumerate(g['dims']):
                    if d['missing']:
                        continue
                    v = (np.arange(d['len']) + d['tok'])
                    v = v.astype(float) if d['float'] else v
                    ds = grp.create_dataset('dim%d' % (i + 1), data=v)
                    if not d['noattrs']:
                        ds.attrs['name'] = d['name']; ds.attrs['units'] = d['units']
        else:
            w = c['what']
            if w == 'empty_h5':
                pass
            elif w == 'plain_h5':
                f.create_group('a').create_dataset('d', data=np.arange(4)); f.attrs['something'] = 3
            elif w in ('hdr_only', 'wrong_major', 'wrong_minor', 'hdr_type', 'no_major'):
                f.attrs['emd_group_type'] = 'file' if w != 'hdr_type' else 'root'
                if w != 'no_major':
                    f.attrs['version_major'] = 1 if w != 'wrong_major' else 2
                f.attrs['version_minor'] = 0 if w != 'wrong_minor' else 1
                if w != 'hdr_only':
                    r = f.create_group('r'); r.attrs['emd_group_type'] = 'root'; r.attrs['python_class'] = 'Root'
            elif w == 'roots_no_header':
                r = f.create_group('r'); r.attrs['emd_group_type'] = 'root'; r.attrs['python_class'] = 'Root'
            elif w in ('group_type_str1', 'group_type_2'):
                g = f.create_group('g'); g.attrs['emd_group_type'] = '1' if w == 'group_type_str1' else 2
                g.create_dataset('data', data=np.arange(3.0)); d = g.create_dataset('dim1', data=np.arange(3.0)); d.attrs['name'] = 'x'; d.attrs['units'] = 'u'
            elif w == 'v1_with_legacy':
                f.attrs['emd_group_type'] = 'file'; f.attrs['version_major'] = 1; f.attrs['version_minor'] = 1
                g = f.create_group('g'); g.attrs['emd_group_type'] = 1
                g.create_dataset('data', data=np.full((3,), c['n'])); d = g.create_dataset('dim1', data=np.arange(3) + 2); d.attrs['name'] = 'x'; d.attrs['units'] = 'u'


def first(a):
    a = np.asarray(a)
    if a.size == 0:
        return 0
    v = a.flat[0]
    if isinstance(v, (complex, np.complexfloating)):
        v = v.real
    return int(v)


def abs_arr(a):
    return {'name': a.name, 'shape': [int(x) for x in a.data.shape], 'tok': first(a.data), 'dtype': str(a.data.dtype),
            'dims': [{'tok': first(d), 'len': len(d), 'name': str(n), 'units': str(u)} for d, n, u in zip(a.dims, a.dim_names, a.dim_units)]}


def run_case(c, scratch):
    import emdfile
    p = os.path.join(scratch, 'leg_%d.emd' % os.getpid())
    if os.path.exists(p): os.remove(p)
    if c.get('pre'):
        # something else sat at this very path before and the package has looked at it in this process: what read returns
        # for the file that is there NOW must not depend on that
        import h5py
        try:
            with core.quiet():
                if c['pre'] == 'emd1':
                    emdfile.save(p, emdfile.Root(name='earlier'), mode='w'); emdfile.read(p)
                else:
                    with h5py.File(p, 'w') as f:
                        f.create_group('g')
                    emdfile.read(p)
        except BaseException:
            pass
        if os.path.exists(p): os.remove(p)
    write_file(c, p)
    out = {'slot': T.abs_slot(p), 'sha': T.sha(p)}
    try:
        with core.quiet():
            r = emdfile.read(p)
        out['raised'] = False
        if isinstance(r, emdfile.Root):
            out['res'] = ['root', [abs_arr(r.tree(k)) for k in r._branch._dict.keys()], r.name]
        elif isinstance(r, emdfile.Array):
            out['res'] = ['array', abs_arr(r)]
        else:
            out['res'] = ['other', type(r).__name__]
        # C16: what the importer returns must be accepted by save, and the second generation must equal it
        try:
            p2 = p + '.2'
            with core.quiet():
                emdfile.save(p2, r, mode='o')
                r2 = emdfile.read(p2)
            if isinstance(r2, emdfile.Array):
                out['gen2'] = ['array', abs_arr(r2)]
            elif isinstance(r2, emdfile.Root):
                out['gen2'] = ['root', [abs_arr(r2.tree(k)) for k in r2._branch._dict.keys()], r2.name]
            else:
                out['gen2'] = ['other', type(r2).__name__]
            os.remove(p2)
            # ... also when the second generation is written over the very path the legacy file was imported from
            import shutil
            p3 = p + '.3'
            shutil.copyfile(p, p3)
            with core.quiet():
                r_ = emdfile.read(p3)
                emdfile.save(p3, r_, mode='o')
                r3 = emdfile.read(p3)
            if isinstance(r3, emdfile.Array):
                out['gen2_same_path'] = ['array', abs_arr(r3)]
            elif isinstance(r3, emdfile.Root):
                out['gen2_same_path'] = ['root', [abs_arr(r3.tree(k)) for k in r3._branch._dict.keys()], r3.name]
            else:
                out['gen2_same_path'] = ['other', type(r3).__name__]
            os.remove(p3)
        except BaseException as e:
            out['gen2_exc'] = type(e).__name__ + ': ' + str(e)[:100]
            for q in (p + '.2', p + '.3'):
                if os.path.exists(q):
                    os.remove(q)
    except BaseException as e:
        out['raised'] = True; out['exc'] = type(e).__name__ + ': ' + str(e)[:100]
    out['sha_unchanged'] = (out['sha'] == T.sha(p))
    if os.path.exists(p): os.remove(p)
    return out


def _run_one(a):
    try:
        return run_case(*a)
    except BaseException:
        import traceback
        return [{'harness_error': traceback.format_exc()[-800:]}]


def run_all(cases, scratch):
    return core.pmap(_run_one, [(c, scratch) for c in cases])


def coqlarr(a, I):
    dims = coqlist([f"(LD {coqZ(d['tok'])} {d['len']} {I.s(d['name'])} {I.s(d['units'])})" for d in a['dims']])
    return f"(LA {I.s(a['name'])} {coqlist([str(x) for x in a['shape']])} {coqZ(a['tok'])} {dims})"


def emit(cases, results, shard=200):
    shards = []
    for k in range(0, len(cases), shard):
        em = T.Em()
        terms, idx = [], []
        for i in range(k, min(k + shard, len(cases))):
            c, r = cases[i], results[i]
            if isinstance(r, list):
                continue
            if r['raised']:
                o = 'None'
            elif r['res'][0] == 'array':
                o = f"(Some (LArray {coqlarr(r['res'][1], em.I)}))"
            elif r['res'][0] == 'root':
                o = '(Some (LRoot ' + coqlist([coqlarr(a, em.I) for a in r['res'][1]]) + '))'
            else:
                continue
            terms.append(f"({em.slot(r['slot'])}, {o})")
            idx.append(i)
        shards.append((em.I.defs, terms, idx))
    return shards


COQ_IMPORTS = 'From Emd Require Import Base.Prelude Model.H5 Model.Emd Model.Legacy Corr.XLegacy.'
CASETY = 'lcase'
CHECKFN = 'check'
