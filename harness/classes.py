"""C06 scenarios: class lookup over synthesised module graphs (sys.modules / _emd_hook), subclass hierarchies over
Node / Array / PointList / PointListArray / Custom / Metadata written and read back through real files, and the
layout of Custom groups.  The model (Model/ClassLookup.v) is evaluated on the same module graphs."""
import inspect, os, random, sys, types
from os.path import basename
import numpy as np
from harness import core
from harness.core import coqlist, coqbool

EMD_BASES = ['Node', 'Array', 'PointList', 'PointListArray', 'Custom', 'Metadata']
HOOKS = ['absent', 'True', 'one', 'False', 'str', 'np_true']
HOOK_COQ = {'absent': 'HAbsent', 'True': 'HTrue', 'one': 'HOne', 'np_true': 'HOne', 'False': 'HFalse', 'str': 'HOtherValue'}
CLASSNAMES = ['Alpha', 'Beta', 'Gamma', 'Delta', 'MyArray', 'Probe', 'Scan', 'Zeta', 'array_like', 'Node2', 'Meta']
ATTRNAMES = ['a', 'sub', 'core', 'Z', '_p', 'io', 'b2', 'pkg']
UNFOLD = 12


def hook_value(h):
    return {'True': True, 'one': 1, 'False': False, 'str': 'yes', 'np_true': np.True_}.get(h)


# ------------------------------------------------------------------ module graph specs
class St:
    def __init__(self, nclasses=0):
        self.cid = nclasses
        self.mid = 0
        self.mods = {}

    def newc(self):
        self.cid += 1
        return self.cid - 1

    def newm(self):
        self.mid += 1
        return self.mid - 1


def gen_members(rng, depth, st, made=None, force=None):
    """a namespace: list of member specs with distinct attribute names"""
    out, used = [], set()
    n = rng.choice([0, 1, 2, 2, 3, 4]) if depth < 8 else 0
    kinds = ['class', 'class', 'class', 'mod', 'mod', 'other', 'builtin', 'alias', 'nonemd']
    for _ in range(n):
        k = rng.choice(kinds)
        if k in ('class', 'alias', 'nonemd'):
            cname = rng.choice(CLASSNAMES)
            attr = cname if k != 'alias' else rng.choice(CLASSNAMES + ['Array', 'Node'])
            base = rng.choice(EMD_BASES + ['indirect']) if k != 'nonemd' else rng.choice(['object', 'dict'])
            m = {'k': 'class', 'attr': attr, 'cname': cname, 'base': base, 'id': st.newc()}
        elif k == 'mod':
            attr = rng.choice(ATTRNAMES)
            m = gen_mod(rng, depth + 1, st, attr, made)
        elif k == 'builtin':
            b = rng.choice(EMD_BASES + ['Root'])
            m = {'k': 'builtin', 'attr': b if rng.random() < 0.8 else rng.choice(CLASSNAMES), 'which': b}
        elif k == 'ref' and st.mods:
            m = {'k': 'ref', 'attr': rng.choice(ATTRNAMES), 'mid': rng.choice(sorted(st.mods))}
        else:
            m = {'k': 'other', 'attr': rng.choice(['x', 'VERSION', 'helper', '_q']), 'val': rng.choice(['int', 'func', 'inst'])}
        if m['attr'] in used:
            continue
        used.add(m['attr']); out.append(m)
    return out


def gen_mod(rng, depth, st, attr, made=None, hook=None):
    m = {'k': 'mod', 'attr': attr, 'mid': st.newm(), 'hook': hook or rng.choice(['True', 'True', 'True', 'True', 'one', 'absent', 'False', 'str', 'np_true']), 'members': []}
    st.mods[m['mid']] = m
    m['members'] = gen_members(rng, depth, st, made)
    return m


def sibling_mods(rng, st):
    """hooked sub-modules that sit beside a nested one and are visited before it (members are walked in name order): how deep a
    module is depends on its ancestors, not on how many siblings were searched before it"""
    out = []
    for i in range(rng.choice([0, 0, 1, 2, 3])):
        m = {'k': 'mod', 'attr': 'aa_side%d' % i, 'mid': st.newm(), 'hook': 'True', 'members': []}
        st.mods[m['mid']] = m
        out.append(m)
    return out


def gen_lookup(rng):
    st = St()
    tops = []
    for i in range(rng.choice([1, 1, 2, 3])):
        tops.append(gen_mod(rng, 0, st, f'emdverif_top{i}', hook=rng.choice(['True', 'True', 'True', 'one', 'absent', 'False', 'np_true'])))
        if rng.random() < 0.4:
            tops[-1]['regname'] = f'emdverif_pkg{i}.' + rng.choice(['sub', 'io.readers', 'a.b.c.d.e.f.g']) + f'.top{i}'
    if rng.random() < 0.35:       # a deep chain, around the documented depth
        d = rng.choice([3, 4, 5, 6, 7])
        cname = rng.choice(CLASSNAMES)
        inner = [{'k': 'class', 'attr': cname, 'cname': cname, 'base': rng.choice(EMD_BASES), 'id': st.newc()}]
        for j in range(d):
            m = {'k': 'mod', 'attr': 'lvl%d' % (d - j), 'mid': st.newm(), 'hook': 'True' if rng.random() < 0.9 else rng.choice(HOOKS), 'members': inner}
            st.mods[m['mid']] = m
            inner = [m] + sibling_mods(rng, st)
        top = {'k': 'mod', 'attr': 'emdverif_deep', 'mid': st.newm(), 'hook': 'True', 'members': inner}
        st.mods[top['mid']] = top
        tops.append(top)
    reach = {}
    def index(m):
        reach[m['mid']] = m
        for mem in m['members']:
            if mem['k'] == 'mod' and mem['mid'] not in reach:
                index(mem)
    for t in tops:
        index(t)
    if rng.random() < 0.3 and reach:         # one module referenced a second time: shared, or a cycle back to an ancestor
        src = reach[rng.choice(sorted(reach))]
        attr = rng.choice(ATTRNAMES)
        if attr not in {m['attr'] for m in src['members']}:
            src['members'].append({'k': 'ref', 'attr': attr, 'mid': rng.choice(sorted(reach))})
    return {'kind': 'lookup', 'tops': tops, 'nclasses': st.cid}


# ------------------------------------------------------------------ building the real objects
def builtin_table():
    """what _get_class starts from: the classes in the namespace of emdfile.classes (observed, in name order)"""
    from emdfile import classes
    return [(n, o) for n, o in inspect.getmembers(classes) if inspect.isclass(o)]


class World:
    """real module objects for a spec; classes either synthesised (lookup scenarios) or supplied (e2e)"""

    def __init__(self, tops, made=None):
        import emdfile
        self.emd = emdfile
        self.builtins = builtin_table()
        self.cid_of = {}
        for i, (n, o) in enumerate(self.builtins):
            self.cid_of.setdefault(id(o), i)
        self.nb = len(self.builtins)
        self.classes = {}
        self.made = made or {}
        self.mods = {}
        self.keep = []
        self.tops = tops
        self.specs = {}
        for t in tops:
            self._index(t)
        for t in tops:
            self._mk_mod(t)
        for mid, spec in self.specs.items():
            for mem in spec['members']:
                if mem['k'] == 'ref':
                    setattr(self.mods[mid], mem['attr'], self.mods[mem['mid']])

    def _index(self, m):
        self.specs[m['mid']] = m
        for mem in m['members']:
            if mem['k'] == 'mod' and mem['mid'] not in self.specs:
                self._index(mem)

    def _mk_class(self, c):
        if c['id'] in self.classes:
            return self.classes[c['id']]
        if c['id'] in self.made:
            cls = self.made[c['id']]
        else:
            e = self.emd
            if c['base'] == 'indirect':
                mid = type(c['cname'] + 'Base', (getattr(e, 'Array'),), {})
                self.keep.append(mid)
                cls = type(c['cname'], (mid,), {})
            elif c['base'] in ('object', 'dict'):
                cls = type(c['cname'], (object if c['base'] == 'object' else dict,), {})
            else:
                cls = type(c['cname'], (getattr(e, c['base']),), {})
        self.classes[c['id']] = cls
        self.cid_of[id(cls)] = self.nb + c['id']
        return cls

    def _mk_mod(self, m):
        if m['mid'] in self.mods:
            return self.mods[m['mid']]
        mod = types.ModuleType(m['attr'])
        self.mods[m['mid']] = mod
        hv = hook_value(m['hook'])
        if m['hook'] != 'absent':
            mod._emd_hook = hv
        for mem in m['members']:
            if mem['k'] == 'class':
                setattr(mod, mem['attr'], self._mk_class(mem))
            elif mem['k'] == 'builtin':
                setattr(mod, mem['attr'], getattr(self.emd, mem['which']))
            elif mem['k'] == 'mod':
                setattr(mod, mem['attr'], self._mk_mod(mem))
            elif mem['k'] == 'other':
                setattr(mod, mem['attr'], 3 if mem['val'] == 'int' else (lambda: None) if mem['val'] == 'func' else self.emd.Node(name='inst'))
        return mod

    def __enter__(self):
        self.names = []
        for t in self.tops:
            nm = t.get('regname') or t['attr']
            if '.' in nm:
                # an imported sub-module sits in sys.modules under a dotted name; its parent package here has no hook and does not
                # even refer to it: a module that opts in is searched whatever its place in a package hierarchy
                parent = nm.rsplit('.', 1)[0]
                if parent not in sys.modules:
                    sys.modules[parent] = types.ModuleType(parent)
                    self.names.append(parent)
            sys.modules[nm] = self.mods[t['mid']]
            self.names.append(nm)
        return self

    def __exit__(self, *a):
        for nm in self.names:
            sys.modules.pop(nm, None)

    def lookup(self, name):
        from emdfile.classes.utils import _get_class

        class G:
            attrs = {'python_class': name}
        try:
            cls = _get_class(G)
        except Exception as e:
            return {'raised': type(e).__name__ + ': ' + str(e)[:60]}
        return {'cid': self.cid_of.get(id(cls)), 'name': getattr(cls, '__name__', '?')}

    def query_names(self):
        s = set(n for n, _ in self.builtins) | {'NoSuchClass'}
        for spec in self.specs.values():
            for mem in spec['members']:
                s.add(mem['attr'])
                if mem['k'] == 'class':
                    s.add(mem['cname'])
        return sorted(s)

    def builtin_cids(self):
        return [(n, self.cid_of[id(o)]) for n, o in self.builtins]


# ------------------------------------------------------------------ the module graph as the model sees it, and an independent reference
def is_emd(c):
    return c['base'] in EMD_BASES or c['base'] == 'indirect' or c.get('emd', False)


def coq_members(members, specs, nb, bcid, depth, I):
    if depth > UNFOLD:
        return '[]'
    out = []
    for mem in members:
        if mem['k'] == 'class':
            t = f"RClass {nb + mem['id']} {coqbool(is_emd(mem))}"
        elif mem['k'] == 'builtin':
            t = f"RClass {bcid[mem['which']]} true"
        elif mem['k'] in ('mod', 'ref'):
            sp = specs[mem['mid']]
            t = f"RMod {HOOK_COQ[sp['hook']]} {coq_members(sp['members'], specs, nb, bcid, depth + 1, I)}"
        else:
            t = 'ROther'
        out.append(f"({I.s(mem['attr'])}, {t})")
    return coqlist(out)


def reference_candidates(tops, specs, name, maxdepth=6):
    """every class identity (spec id or ('b', name)) a documented search can bind to `name`"""
    found = set()

    def walk(members, depth):
        if depth >= maxdepth:
            return
        for mem in members:
            if mem['k'] == 'class' and is_emd(mem) and mem['attr'] == name:
                found.add(mem['id'])
            elif mem['k'] == 'builtin' and mem['attr'] == name:
                found.add(('b', mem['which']))
            elif mem['k'] in ('mod', 'ref'):
                sp = specs[mem['mid']]
                if sp['hook'] in ('True', 'one', 'np_true'):      # == True
                    walk(sp['members'], depth + 1)

    for t in tops:
        if t['hook'] == 'True':                                     # is True
            walk(t['members'], 0)
    return found


def run_lookup(sc):
    w = World(sc['tops'])
    with w:
        qs = w.query_names()
        res = {q: w.lookup(q) for q in qs}
    return {'builtins': w.builtin_cids(), 'nb': w.nb, 'queries': res, 'builtin_names': [n for n, _ in w.builtins]}


def oracle_lookup(tops, r, nclasses_offset=None):
    specs = {}

    def index(m):
        specs[m['mid']] = m
        for mem in m['members']:
            if mem['k'] == 'mod' and mem['mid'] not in specs:
                index(mem)
    for t in tops:
        index(t)
    nb = r['nb']
    bc = dict(r['builtins'])
    for need in ('Node', 'Root', 'Array', 'PointList', 'PointListArray', 'Custom', 'Metadata'):
        if need not in bc:
            return {'key': 'builtin-missing-from-table', 'what': f'{need} is not among the built-in classes'}
    for q, o in r['queries'].items():
        cands = set()
        for c in reference_candidates(tops, specs, q):
            cands.add(bc[c[1]] if isinstance(c, tuple) else nb + c)
        if q in bc:
            cands.add(bc[q])
        if len(cands) > 1:
            if 'raised' in o or o['cid'] not in cands:
                return {'key': 'ambiguous-name-resolved-outside-candidates', 'what': f'{q}: {o}'}
            continue                    # several classes of one name: outside the statement
        if not cands:
            if 'raised' not in o:
                return {'key': 'substitute-class-returned', 'what': f"class name {q!r} is exposed by no hooked module within the documented depth, yet the lookup returned {o['name']}"}
        else:
            if 'raised' in o:
                return {'key': 'exposed-class-not-found', 'what': f'class {q!r} is exposed through hooked modules but the lookup raised {o["raised"]}'}
            if o['cid'] != next(iter(cands)):
                return {'key': 'wrong-class-found', 'what': f"class name {q!r} resolved to {o['name']} (identity {o['cid']}), expected identity {next(iter(cands))}"}
    return None


def emit_lookup(tops, r, I):
    specs = {}

    def index(m):
        specs[m['mid']] = m
        for mem in m['members']:
            if mem['k'] == 'mod' and mem['mid'] not in specs:
                index(mem)
    for t in tops:
        index(t)
    bc = dict(r['builtins'])
    b = coqlist([f'({I.s(n)}, {c})' for n, c in r['builtins']])
    sm = coqlist([f"({HOOK_COQ[t['hook']]}, {coq_members(t['members'], specs, r['nb'], bc, 0, I)})" for t in tops])
    qs = coqlist([f"({I.s(q)}, {'None' if 'raised' in o else '(Some %d)' % o['cid']})" for q, o in sorted(r['queries'].items()) if 'raised' in o or o['cid'] is not None])
    return f'(CLookup {b} {sm} {qs})'


# ------------------------------------------------------------------ end to end: real subclass hierarchies
LOG = []


def make_class(cname, base, emd):
    """a downstream subclass with its own reader hooks (one extra constructor argument, kept in a group attribute)"""
    if base == 'Metadata':
        return type(cname, (emd.Metadata,), {})
    if base == 'Custom':
        class C(emd.Custom):
            def __init__(self, name='custom', parts=None, tag='t'):
                emd.Custom.__init__(self, name=name)
                self.tag = tag
                for k, v in (parts or {}).items():
                    setattr(self, k, v)

            def to_h5(self, group):
                grp = emd.Custom.to_h5(self, group)
                grp.attrs['tag'] = self.tag
                return grp

            @classmethod
            def _get_constructor_args(cls, group):
                d = cls._get_emd_attr_data(cls, group)
                LOG.append(('hook', group.name, cls.__name__, list(d.keys())))
                return {'name': basename(group.name), 'parts': d, 'tag': group.attrs['tag']}

            def _populate_instance(self, group):
                self._populated_by = type(self).__name__
        C.__name__ = C.__qualname__ = cname
        return C
    B = getattr(emd, base)

    class S(B):
        def __init__(self, *a, tag='t', **kw):
            B.__init__(self, *a, **kw)
            self.tag = tag

        def to_h5(self, group):
            grp = B.to_h5(self, group)
            grp.attrs['tag'] = self.tag
            return grp

        @classmethod
        def _get_constructor_args(cls, group):
            args = B._get_constructor_args.__func__(cls, group)
            args['tag'] = group.attrs['tag']
            LOG.append(('hook', group.name, cls.__name__, []))
            return args

        def _populate_instance(self, group):
            B._populate_instance(self, group)
            self._populated_by = type(self).__name__
    S.__name__ = S.__qualname__ = cname
    return S


def gen_e2e(rng):
    """classes, a tree using them, and several read-time placements of the classes in module graphs"""
    ncls = rng.choice([1, 2, 3, 4])
    names = rng.sample(CLASSNAMES, ncls + 1)
    classes = []
    for i in range(ncls):
        base = rng.choice(EMD_BASES)
        classes.append({'id': i, 'cname': names[i], 'base': base, 'emd': True, 'parent': None})
    if rng.random() < 0.5:          # an indirect subclass: class X(Made): pass
        p = rng.choice([c for c in classes])
        classes.append({'id': ncls, 'cname': names[ncls], 'base': p['base'], 'emd': True, 'parent': p['id']})
    node_classes = [c for c in classes if c['base'] != 'Metadata']
    md_classes = [c for c in classes if c['base'] == 'Metadata']
    cnt = [0]

    def gen_md():
        out = []
        for j in range(rng.choice([0, 0, 1, 2])):
            out.append({'name': 'md%d' % j, 'cls': rng.choice(md_classes)['id'] if md_classes and rng.random() < 0.7 else None, 'v': rng.randrange(100)})
        return out

    def gen_node(depth, allow_kids=True):
        cnt[0] += 1
        c = rng.choice(node_classes) if node_classes and rng.random() < 0.6 else None
        kind = c['base'] if c else rng.choice(['Node', 'Array', 'PointList', 'PointListArray'])
        nd = {'name': 'n%d' % cnt[0], 'cls': c['id'] if c else None, 'kind': kind, 'tag': 'tag%d' % rng.randrange(50), 'seed': rng.randrange(1000),
              'md': gen_md(), 'attrs': [], 'kids': []}
        if kind == 'Custom':
            for j in range(rng.choice([0, 1, 2, 3])):
                a = gen_node(depth + 1, allow_kids=False)
                a['name'] = rng.choice(['x', 'y', 'part', 'inner', 'data_', 'n%d' % (cnt[0] + 1)]) + str(j)
                nd['attrs'].append(a)
        if allow_kids and depth < 3 and cnt[0] < 9:
            for _ in range(rng.choice([0, 0, 1, 2])):
                nd['kids'].append(gen_node(depth + 1))
        return nd

    kids = [gen_node(1) for _ in range(rng.choice([1, 2, 3]))]
    rootmd = gen_md()
    used = set()

    def collect(nd):
        if nd['cls'] is not None:
            used.add(nd['cls'])
        for m in nd['md']:
            if m['cls'] is not None:
                used.add(m['cls'])
        for x in nd['attrs'] + nd['kids']:
            collect(x)
    for k in kids:
        collect(k)
    for m in rootmd:
        if m['cls'] is not None:
            used.add(m['cls'])
    placements = []
    for how in ['top', 'nested', rng.choice(['unhooked_link', 'too_deep', 'absent', 'top_one', 'split'])] + ([rng.choice(['nested', 'absent', 'too_deep', 'unhooked_link'])] if rng.random() < 0.5 else []):
        st = St(len(classes))
        cmems = [{'k': 'class', 'attr': c['cname'], 'cname': c['cname'], 'base': c['base'], 'id': c['id'], 'emd': True} for c in classes]
        if how == 'absent':
            tops = [gen_mod(rng, 0, st, 'emdverif_top0', hook='True')]
        else:
            d = {'top': 0, 'top_one': 0, 'nested': rng.choice([1, 2, 3, 4, 5]), 'unhooked_link': rng.choice([1, 2, 3]), 'too_deep': rng.choice([6, 7]), 'split': rng.choice([0, 1, 2])}[how]
            inner = list(cmems)
            if how == 'split' and len(cmems) > 1:
                inner = cmems[:1]
            extra = [m for m in gen_members(rng, 6, st) if m['attr'] not in {c['cname'] for c in classes} and m['k'] != 'ref']
            inner = inner + extra
            bad = rng.randrange(d) if how == 'unhooked_link' else None
            for j in range(d):
                hook = 'True' if bad != j else rng.choice(['absent', 'False', 'str'])
                m = {'k': 'mod', 'attr': 'lvl%d' % (d - j), 'mid': st.newm(), 'hook': hook, 'members': inner}
                st.mods[m['mid']] = m
                inner = [m] + sibling_mods(rng, st)
            top = {'k': 'mod', 'attr': 'emdverif_top0', 'mid': st.newm(), 'hook': 'one' if how == 'top_one' else 'True', 'members': inner}
            st.mods[top['mid']] = top
            tops = [top]
            if how == 'split' and len(cmems) > 1:
                t2 = {'k': 'mod', 'attr': 'emdverif_top1', 'mid': st.newm(), 'hook': 'True', 'members': cmems[1:]}
                st.mods[t2['mid']] = t2
                tops.append(t2)
        if rng.random() < 0.4:
            # the hooked module is an imported sub-module (dotted name in sys.modules) of a package that has no hook itself
            tops[0]['regname'] = 'emdverif_pkg.' + rng.choice(['models', 'io.v2']) + '.top0'
        placements.append({'how': how, 'tops': tops})
    return {'kind': 'e2e', 'classes': classes, 'kids': kids, 'rootmd': rootmd, 'used': sorted(used), 'placements': placements}


def data_for(kind, seed):
    rng = np.random.RandomState(seed)
    if kind == 'Array':
        return rng.randint(0, 100, size=(2, 3)).astype('int32')
    if kind == 'PointList':
        a = np.zeros(rng.randint(0, 4), dtype=[('x', '<f8'), ('y', '<i4')])
        a['x'] = rng.rand(len(a)); a['y'] = rng.randint(0, 9, len(a))
        return a
    return None


def build_node(emd, made, nd):
    cls = made[nd['cls']] if nd['cls'] is not None else getattr(emd, nd['kind'])
    kw = {'tag': nd['tag']} if nd['cls'] is not None else {}
    k = nd['kind']
    if k == 'Array':
        o = cls(data=data_for(k, nd['seed']), name=nd['name'], **kw)
    elif k == 'PointList':
        o = cls(data=data_for(k, nd['seed']), name=nd['name'], **kw)
    elif k == 'PointListArray':
        o = cls(dtype=[('q', '<f8')], shape=(1, 2), name=nd['name'], **kw)
        o[0, 1].add(np.array([(float(nd['seed']),)], dtype=[('q', '<f8')]))
    elif k == 'Custom':
        parts = {a['name']: build_node(emd, made, a) for a in nd['attrs']}
        o = cls(name=nd['name'], parts=parts, **kw)
    else:
        o = cls(name=nd['name'], **kw) if nd['cls'] is not None else cls(name=nd['name'])
    for m in nd['md']:
        mc = made[m['cls']] if m['cls'] is not None else emd.Metadata
        md = mc(name=m['name'])
        md['v'] = m['v']
        o.metadata = md
        if m['v'] % 3 == 0:
            md.name = m['name'] + '_renamed'       # renamed after it was attached: stored under its key, as an instance of its class
    return o


def content(o):
    import emdfile as emd
    if isinstance(o, emd.Array):
        return ['array', str(o.data.dtype), o.data.tolist()]
    if isinstance(o, emd.PointListArray):
        return ['pla', [int(x) for x in o.shape], [[float(v) for v in o[i, j].data['q']] for i in range(o.shape[0]) for j in range(o.shape[1])]]
    if isinstance(o, emd.PointList):
        return ['pl', sorted(o.data.dtype.names), [o.data[f].tolist() for f in sorted(o.data.dtype.names)]]
    return ['node']


def observe_node(o, expect_cls, path, out, made, with_kids=True):
    import emdfile as emd
    mds = {}
    for k, v in o._metadata.items():
        mds[k] = {'type': type(v).__name__, 'v': v._params.get('v') if hasattr(v, '_params') else None, 'cls_obj': v.__class__}
    rec = {'type': type(o).__name__, 'cls_obj': type(o), 'tag': getattr(o, 'tag', None), 'populated_by': getattr(o, '_populated_by', None),
           'md': mds, 'content': content(o), 'kids': list(o._branch.keys()),
           'node_attrs': {k: v for k, v in vars(o).items() if isinstance(v, emd.Node) and not isinstance(v, emd.Root)}}
    out[path] = rec
    for k, v in rec['node_attrs'].items():
        observe_node(v, None, path + '.' + k, out, made, with_kids=False)
    if with_kids:
        for k in rec['kids']:
            observe_node(o._branch[k], None, path + '/' + k, out, made)


def file_links(path):
    import h5py
    out = {}
    with h5py.File(path, 'r') as f:
        def visit(name, g):
            if isinstance(g, h5py.Group) and g.attrs.get('emd_group_type') is not None:
                links = []
                for k in g.keys():
                    if isinstance(g[k], h5py.Group) and 'emd_group_type' in g[k].attrs:
                        links.append((k, str(g[k].attrs['emd_group_type'])))
                out['/' + name] = {'type': str(g.attrs['emd_group_type']), 'cls': str(g.attrs.get('python_class')), 'links': links}
        f.visititems(visit)
    return out


def strip(rec):
    """the picklable part of an observation"""
    return {k: v for k, v in rec.items() if k not in ('cls_obj', 'node_attrs')}


def run_e2e(sc, scratch):
    import emdfile as emd
    made = {}
    for c in sc['classes']:
        if c['parent'] is None:
            made[c['id']] = make_class(c['cname'], c['base'], emd)
    for c in sc['classes']:
        if c['parent'] is not None:
            made[c['id']] = type(c['cname'], (made[c['parent']],), {})
    root = emd.Root(name='root')
    for m in sc['rootmd']:
        mc = made[m['cls']] if m['cls'] is not None else emd.Metadata
        md = mc(name=m['name']); md['v'] = m['v']
        root.metadata = md
        if m['v'] % 3 == 0:
            md.name = m['name'] + '_renamed'
    byspec = {}

    def add(parent, nd, path):
        o = build_node(emd, made, nd)
        parent.tree(o) if isinstance(parent, emd.Root) else parent.add_to_tree(o)
        byspec[path + '/' + nd['name']] = nd
        for k in nd['kids']:
            add(o, k, path + '/' + nd['name'])
    out = {'save_exc': None, 'placements': []}
    p = os.path.join(scratch, 'cls_%d.h5' % os.getpid())
    try:
        with core.quiet():
            for k in sc['kids']:
                add(root, k, '/root')
            emd.save(p, root, mode='o')
    except BaseException as e:
        out['save_exc'] = type(e).__name__ + ': ' + str(e)[:120]
        if os.path.exists(p):
            os.remove(p)
        return out
    out['links'] = file_links(p)
    if sc.get('want_slot'):
        from harness import tree as T_
        out['slot'] = T_.abs_slot(p)
        try:
            from emdfile.utils import _is_EMD_file
            out['is_emd'] = bool(_is_EMD_file(p))
        except BaseException as e:
            out['is_emd'] = False
    for pl in sc['placements']:
        w = World(pl['tops'], made=made)
        o = {'how': pl['how']}
        with w:
            o['lookup'] = {'builtins': w.builtin_cids(), 'nb': w.nb, 'queries': {q: w.lookup(q) for q in w.query_names()}}
            del LOG[:]
            try:
                with core.quiet():
                    back = emd.read(p)
                if not isinstance(back, emd.Root):      # a root with one child: read hands back the child
                    back = back.root
                nodes = {}
                observe_node(back, None, '/root', nodes, made)
                for path, rec in nodes.items():
                    rec['cid'] = w.cid_of.get(id(rec['cls_obj']))
                    for k, m in rec['md'].items():
                        m['cid'] = w.cid_of.get(id(m.pop('cls_obj')))
                o['nodes'] = {k: strip(v) for k, v in nodes.items()}
                o['hooks'] = [list(x) for x in LOG]
                if sc.get('want_regen'):
                    # C16: what read returned is saved again and read again -- the second generation must equal the first
                    p2 = p + '.gen2'
                    try:
                        with core.quiet():
                            emd.save(p2, back, mode='o')
                            back2 = emd.read(p2)
                        if not isinstance(back2, emd.Root):
                            back2 = back2.root
                        nodes2 = {}
                        observe_node(back2, None, '/root', nodes2, made)
                        for path, rec in nodes2.items():
                            rec['cid'] = w.cid_of.get(id(rec['cls_obj']))
                            for k, m in rec['md'].items():
                                m['cid'] = w.cid_of.get(id(m.pop('cls_obj')))
                        o['gen2'] = {k: strip(v) for k, v in nodes2.items()}
                    except BaseException as e:
                        o['gen2_exc'] = type(e).__name__ + ': ' + str(e)[:120]
                    finally:
                        if os.path.exists(p2):
                            os.remove(p2)
            except BaseException as e:
                o['read_exc'] = type(e).__name__ + ': ' + str(e)[:120]
        out['placements'].append(o)
    os.remove(p)
    return out


# ------------------------------------------------------------------ driver pieces
def _run_one(args):
    c, scratch = args
    try:
        if c['kind'] == 'lookup':
            return run_lookup(c)
        return run_e2e(c, scratch)
    except BaseException:
        import traceback
        return [{'harness_error': traceback.format_exc()[-1200:]}]


def run_all(cases, scratch):
    return core.pmap(_run_one, [(c, scratch) for c in cases])


GT = {'Node': 'node', 'Array': 'array', 'PointList': 'pointlist', 'PointListArray': 'pointlistarray', 'Custom': 'custom'}


def custom_terms(sc, r, I):
    """one CCustom term per Custom node of the tree, observed under the first placement whose read succeeded"""
    good = next((pl for pl in r['placements'] if 'nodes' in pl), None)
    if good is None:
        return []
    terms = []

    def visit(nd, path):
        here = path + '/' + nd['name']
        if nd['kind'] == 'Custom' and here in r['links'] and here in good['nodes']:
            attrs = coqlist([f"({I.s(a['name'])}, {I.s(GT[a['kind']])})" for a in nd['attrs']])
            kids = coqlist([f"({I.s(k['name'])}, {I.s(GT[k['kind']])})" for k in nd['kids']])
            links = coqlist([f'({I.s(k)}, {I.s(t)})' for k, t in r['links'][here]['links']])
            hk = next((h[3] for h in good['hooks'] if h[1] == here), None)
            if hk is not None:
                terms.append(f"(CCustom {coqbool(bool(nd['md']))} {attrs} {kids} {links} {coqlist([I.s(x) for x in hk])} {coqlist([I.s(x) for x in good['nodes'][here]['kids']])})")
        for k in nd['kids']:
            visit(k, here)
    for k in sc['kids']:
        visit(k, '/root')
    return terms


def emit(cases, results, shard=60):
    shards = []
    for k in range(0, len(cases), shard):
        I = core.Interner()
        terms, idx = [], []
        for i in range(k, min(k + shard, len(cases))):
            c, r = cases[i], results[i]
            if isinstance(r, list):
                continue
            if c['kind'] == 'lookup':
                terms.append(emit_lookup(c['tops'], r, I)); idx.append(i)
            else:
                if r['save_exc']:
                    continue
                for pl, o in zip(c['placements'], r['placements']):
                    terms.append(emit_lookup(pl['tops'], o['lookup'], I)); idx.append(i)
                for t in custom_terms(c, r, I):
                    terms.append(t); idx.append(i)
        shards.append((I.defs, terms, idx))
    return shards


COQ_IMPORTS = 'From Emd Require Import Base.Prelude Model.ClassLookup Corr.XClass.'
CASETY = 'ccase'
CHECKFN = 'check'


# ------------------------------------------------------------------ C19 stream: saving a Custom node leaves it and the nodes in its attributes alone
def gen_c19_custom(rng):
    attrs = []
    for j in range(rng.choice([1, 2, 3])):
        attrs.append({'attr': rng.choice(['x', 'y', 'part']) + str(j), 'name': rng.choice(['orig', 'signal', 'x0', 'a b', 'same']) + str(j),
                      'kind': rng.choice(['Node', 'Array', 'PointList', 'Custom']), 'seed': rng.randrange(1000), 'in_tree': rng.random() < 0.4})
        if rng.random() < 0.2:
            attrs[-1]['name'] = attrs[-1]['attr']
    return {'kind': 'custom', 'attrs': attrs, 'mode': rng.choice(['w', 'o', 'a', 'ao']), 'rooted': rng.random() < 0.7,
            'fail': rng.random() < 0.2, 'md': rng.random() < 0.5}


def snap(o):
    import emdfile as emd
    d = {'name': o.name, 'type': type(o).__name__, 'root': id(o._root) if getattr(o, '_root', None) is not None else None,
         'treepath': getattr(o, '_treepath', None) if getattr(o, '_root', None) is not None else None,     # private, meaningful only when rooted 'kids': list(o._branch.keys()), 'kid_names': [v.name for v in o._branch._dict.values()],
         'content': content(o), 'md': {k: (v.name, dict(v._params)) for k, v in o._metadata.items()}}
    d['attrs'] = {k: snap(v) for k, v in vars(o).items() if isinstance(v, emd.Node) and not isinstance(v, emd.Root)}
    return d


def run_c19_custom(sc, scratch):
    import emdfile as emd
    C = make_class('Comp', 'Custom', emd)
    other = emd.Root(name='elsewhere')
    parts = {}
    for a in sc['attrs']:
        if a['kind'] == 'Custom':
            o = C(name=a['name'], parts={'inner': emd.Node(name='deep')})
        else:
            o = build_node(emd, {}, {'cls': None, 'kind': a['kind'], 'name': a['name'], 'seed': a['seed'], 'md': [], 'tag': ''})
        if a['in_tree']:
            try:
                other.tree(o)
            except Exception:
                pass
        parts[a['attr']] = o
    c = C(name='comp', parts=parts)
    if sc['md']:
        c.metadata = emd.Metadata(name='m', data={'v': 1})
    root = None
    if sc['rooted']:
        root = emd.Root(name='root'); root.tree(c)
    p1 = os.path.join(scratch, 'c19c_%d_a.h5' % os.getpid())
    p2 = os.path.join(scratch, 'c19c_%d_b.h5' % os.getpid())
    for p in (p1, p2):
        if os.path.exists(p):
            os.remove(p)
    if sc['fail']:       # make the save fail part-way: an attribute whose name clashes with a tree child
        try:
            c.add_to_tree(emd.Node(name=sc['attrs'][-1]['attr'])) if sc['rooted'] else None
        except Exception:
            pass
    before = (snap(c), snap(other))
    out = {'raised': None}
    try:
        with core.quiet():
            emd.save(p1, c, mode=sc['mode'])
    except BaseException as e:
        out['raised'] = type(e).__name__ + ': ' + str(e)[:100]
    after = (snap(c), snap(other))
    out['unchanged'] = before == after
    if not out['unchanged']:
        out['diff'] = first_diff(before, after)
    if out['raised'] is None:
        try:
            with core.quiet():
                emd.save(p2, c, mode=sc['mode'])
            out['second_unchanged'] = snap(c) == before[0]
            la, lb = file_dump(p1), file_dump(p2)
            out['same_files'] = la == lb
        except BaseException as e:
            out['second_raised'] = type(e).__name__ + ': ' + str(e)[:100]
    for p in (p1, p2):
        if os.path.exists(p):
            os.remove(p)
    return out


def first_diff(a, b, path=''):
    if type(a) != type(b):
        return f'{path}: {a!r} -> {b!r}'
    if isinstance(a, dict):
        for k in sorted(set(a) | set(b), key=str):
            if a.get(k) != b.get(k):
                return first_diff(a.get(k), b.get(k), path + '/' + str(k))
    if isinstance(a, (list, tuple)) and len(a) == len(b):
        for i, (x, y) in enumerate(zip(a, b)):
            if x != y:
                return first_diff(x, y, path + f'[{i}]')
    return f'{path}: {a!r} -> {b!r}'[:300]


def file_dump(path):
    """every group / dataset / attribute of a file except the UUID"""
    import h5py
    out = []
    with h5py.File(path, 'r') as f:
        def visit(name, o):
            at = sorted((k, repr(v)) for k, v in o.attrs.items() if k != 'UUID')
            out.append((name, 'g' if isinstance(o, h5py.Group) else repr(o[()].tolist() if o.shape != () else o[()])[:200], at))
        f.visititems(visit)
    return out


# ------------------------------------------------------------------ C19 stream: objects in unusual (but legal) internal states are not normalised by a save
def deep_state(x, depth=0):
    import emdfile as emd
    if depth > 8:
        return '...'
    if isinstance(x, np.ndarray):
        return ['nd', x.dtype.str if x.dtype.names is None else str(x.dtype), list(x.shape), list(x.strides), bool(x.flags.c_contiguous),
                repr(x.tolist())[:400]]
    if isinstance(x, (list, tuple)):
        return [type(x).__name__, [deep_state(y, depth + 1) for y in x]]
    if isinstance(x, dict):
        return ['dict', [[repr(k), deep_state(v, depth + 1)] for k, v in x.items()]]
    if isinstance(x, emd.Metadata):
        return ['Metadata', x.name, deep_state(x._params, depth + 1)]
    if isinstance(x, emd.PointListArray):
        return ['PLA', x.name, str(x.dtype), list(x.shape), [[deep_state(x[i, j].data, depth + 1), str(x[i, j].dtype)] for i in range(x.shape[0]) for j in range(x.shape[1])],
                deep_state(dict(x._metadata), depth + 1)]
    if isinstance(x, emd.PointList):
        return ['PL', x.name, deep_state(x.data, depth + 1), str(x.dtype), deep_state(dict(x._metadata), depth + 1)]
    if isinstance(x, emd.Array):
        return ['Array', x.name, deep_state(x.data, depth + 1), x.units, deep_state(x.dims, depth + 1), deep_state(x.dim_units, depth + 1), deep_state(x.dim_names, depth + 1),
                deep_state(list(x.slicelabels), depth + 1) if x.is_stack else None, deep_state(dict(x._metadata), depth + 1),
                [deep_state(v, depth + 1) for v in x._branch._dict.values()]]
    if isinstance(x, emd.Node):
        return [type(x).__name__, x.name, deep_state(dict(x._metadata), depth + 1), [deep_state(v, depth + 1) for v in x._branch._dict.values()]]
    return [type(x).__name__, repr(x)[:80]]


def gen_c19_state(rng):
    return {'kind': 'state', 'what': rng.choice(['pla_cells', 'pla_cells', 'array_dims', 'md_values', 'pl_layout', 'array_layout']),
            'mode': rng.choice(['w', 'o', 'a', 'ao']), 'seed': rng.randrange(1000), 'in_tree': rng.random() < 0.5}


def run_c19_state(sc, scratch):
    import emdfile as emd
    rng = np.random.RandomState(sc['seed'])
    w = sc['what']
    if w == 'pla_cells':
        # cells assigned PointLists whose field types differ from the array's (same field names: accepted by __setitem__)
        pla = emd.PointListArray(dtype=[('x', '<i4'), ('y', '<i4')], shape=(2, 2), name='pla')
        d = np.zeros(3, dtype=[('x', '<f8'), ('y', '<f8')]); d['x'] = rng.rand(3) * 10; d['y'] = rng.rand(3) * 10 - 5
        pla[0, 1] = emd.PointList(data=d, name='odd')
        d2 = np.zeros(2, dtype=[('x', '<i8'), ('y', '<u1')]); d2['x'] = [2 ** 40, 5]; d2['y'] = [200, 7]
        pla[1, 0] = emd.PointList(data=d2, name='odd2')
        obj = pla
    elif w == 'array_dims':
        obj = emd.Array(data=rng.rand(3, 4), name='a', dims=[[0, 5, 6], (1.5, 2.5)], dim_units=['nm', 'px'], dim_names=('r', 'c'))
    elif w == 'md_values':
        obj = emd.Node(name='n')
        obj.metadata = emd.Metadata(name='m', data={'l': [3, 1, 2], 't': (2.5, 1), 'a': np.arange(6).reshape(2, 3)[:, ::2], 'd': {'z': [1.0, 2], 'k': (True, False)},
                                                      's': 'text', 'n': None, 'np': np.float32(1.5), 'ls': ['b', 'a'], 'la': [np.arange(3), np.ones(2)]})
    elif w == 'pl_layout':
        base = np.zeros(8, dtype=[('x', '<f8'), ('y', '<i4'), ('z', '>f4')]); base['x'] = rng.rand(8); base['y'] = np.arange(8)[::-1]; base['z'] = rng.rand(8)
        obj = emd.PointList(data=base[::2], name='pl')
    else:
        a = np.asfortranarray(rng.rand(3, 4, 2)) if sc['seed'] % 2 else rng.rand(6, 4)[::2, ::-1]
        obj = emd.Array(data=a, name='a', slicelabels=['u', 'v', 'w'] if a.ndim == 3 else None)
    top = obj
    if sc['in_tree']:
        top = emd.Root(name='root'); top.tree(obj)
    p1 = os.path.join(scratch, 'c19s_%d_a.h5' % os.getpid()); p2 = os.path.join(scratch, 'c19s_%d_b.h5' % os.getpid())
    for p in (p1, p2):
        if os.path.exists(p):
            os.remove(p)
    before = deep_state(obj)
    out = {'raised': None}
    try:
        with core.quiet():
            emd.save(p1, top, mode=sc['mode'])
    except BaseException as e:
        out['raised'] = type(e).__name__ + ': ' + str(e)[:100]
    after = deep_state(obj)
    out['unchanged'] = before == after
    if not out['unchanged']:
        out['diff'] = first_diff(before, after)
    if out['raised'] is None:
        try:
            with core.quiet():
                emd.save(p2, top, mode=sc['mode'])
            out['second_unchanged'] = deep_state(obj) == before
            out['same_files'] = file_dump(p1) == file_dump(p2)
        except BaseException as e:
            out['second_raised'] = type(e).__name__ + ': ' + str(e)[:100]
    for p in (p1, p2):
        if os.path.exists(p):
            os.remove(p)
    return out
