"""Independent reading of a file abstraction (raw h5py walk) as a map from node paths to node content,
used by the oracles.  Does not use emdfile's reader."""
DATA_TYPES = ('node', 'array', 'pointlist', 'pointlistarray', 'custom')


def attrs_of(o):
    return {a[0]: a[2] for a in o[1]}


def node_content(g):
    """(class, payload token, sorted metadata [(key, tok)], extras) of a node group"""
    at = attrs_of(g)
    links = dict(g[2])
    cls = at.get('python_class')
    tok = 0
    extras = []
    if cls == 'Array':
        d = links.get('data')
        tok = d[3] if d and d[0] == 'D' else None
    elif cls == 'PointList':
        d = links.get('x')
        tok = d[3] if d and d[0] == 'D' else None
    elif cls == 'PointListArray':
        d = links.get('data')
        tok = d[3] if d and d[0] == 'D' else None
    mds = []
    b = links.get('metadatabundle')
    if b is not None and b[0] == 'G':
        for k, m in b[2]:
            t = None
            if m[0] == 'G':
                dd = dict(m[2]).get('tok')
                t = dd[3] if dd and dd[0] == 'D' else None
            mds.append((k, t))
    for k, c in g[2]:
        if c[0] == 'G':
            t = attrs_of(c).get('emd_group_type')
            if k != 'metadatabundle' and t not in DATA_TYPES:
                extras.append(k)
    return (cls, tok, tuple(sorted(mds)), tuple(sorted(extras)))


def tree_map(slot, rootname):
    """path (tuple below the root) -> node content, for the tree under /rootname; None if absent"""
    if slot[0] != 'H5':
        return None
    top = dict(slot[1][2]).get(rootname)
    if top is None or top[0] != 'G':
        return None
    out = {}

    def rec(g, path):
        out[path] = node_content(g)
        for k, c in g[2]:
            if c[0] == 'G' and attrs_of(c).get('emd_group_type') in DATA_TYPES:
                rec(c, path + (k,))
    rec(top, ())
    return out


def root_names(slot):
    if slot[0] != 'H5':
        return None
    return sorted(k for k, c in slot[1][2] if c[0] == 'G' and attrs_of(c).get('emd_group_type') == 'root')


def runtime_map(spec, prefix=()):
    """path -> content of a runtime spec (same format as tree_map)"""
    out = {prefix: (spec['cls'], spec['tok'] if spec['cls'] not in ('Node', 'Root') else 0,
                    tuple(sorted((m[0], m[1]) for m in spec['mds'])), ())}
    for k in spec['kids']:
        out.update(runtime_map(k, prefix + (k['name'],)))
    return out


def has_scratch(slot):
    """any link named _tmp_* anywhere"""
    if slot[0] != 'H5':
        return []
    out = []

    def rec(o, path):
        for k, c in o[2]:
            if k.startswith('_tmp_'):
                out.append('/'.join(path + (k,)))
            if c[0] == 'G':
                rec(c, path + (k,))
    rec(slot[1], ())
    return out
