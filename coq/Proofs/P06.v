(* C06: class lookup and Custom composition. *)
From Coq Require Import List Bool Arith Lia.
From Emd Require Import Base.Prelude Generated.Tables Model.ClassLookup Proofs.P04.

(* an unknown class name is an error, never another class *)
Lemma absent_fails b sm n : get (class_table b sm) n = None -> exists e, get_class b sm n = Err e.
Proof. intros H. unfold get_class. rewrite H. eauto. Qed.
Lemma found_is_the_table_entry b sm n c : get_class b sm n = Ok c <-> get (class_table b sm) n = Some c.
Proof. unfold get_class. destruct (get (class_table b sm) n); split; intros H; try discriminate; congruence. Qed.

(* ---------- which names a walk can bind *)
(* names (with their class) reachable in a namespace through at most `fuel` levels of hooked modules *)
Fixpoint exposed (fuel : nat) (members : list (string * member)) (n : string) (c : nat) : Prop :=
  match fuel with
  | 0 => False
  | S f =>
      (fix go (l : list (string * member)) : Prop :=
         match l with
         | [] => False
         | (k, m) :: r =>
             match m with
             | MClass c' true => (k = n /\ c' = c) \/ go r
             | MMod true ms => exposed f ms n c \/ go r
             | _ => go r
             end
         end) members
  end.

Lemma get_tset t k c k' : get (tset t k c) k' = if String.eqb k' k then Some c else get t k'.
Proof.
  unfold tset. destruct (String.eqb k' k) eqn:E.
  - apply String.eqb_eq in E. subst. apply get_set_same.
  - apply get_set_other. intros ->. rewrite String.eqb_refl in E. discriminate.
Qed.

(* a walk only adds names it exposes; everything else in the table is untouched *)
Lemma walk_other fuel : forall ms t n, (forall c, ~ exposed fuel ms n c) -> get (walk fuel ms t) n = get t n.
Proof.
  induction fuel as [|f IH]; intros ms t n H; [reflexivity|]. cbn [walk].
  assert (forall l, (forall kv, In kv l -> In kv ms) -> forall t0, get (fold_left (fun t kv =>
          match snd kv with MClass c true => tset t (fst kv) c | MClass _ false => t | MMod true ms => walk f ms t | MMod false _ => t | MOther => t end) l t0) n = get t0 n) as Hgen.
  { induction l as [|[k m] r IHr]; intros Hsub t0; [reflexivity|]. cbn [fold_left fst snd]. rewrite IHr by (intros kv Hkv; apply Hsub; right; exact Hkv).
    assert (In (k, m) ms) as Hin by (apply Hsub; left; reflexivity).
    destruct m as [c [|]|[|] ms'|]; try reflexivity.
    - rewrite get_tset. destruct (String.eqb n k) eqn:E; [|reflexivity]. apply String.eqb_eq in E. subst k. exfalso. apply (H c).
      cbn [exposed]. clear -Hin. induction ms as [|[k' m'] q IHq]; [destruct Hin|]. destruct Hin as [Heq|Hin]; [injection Heq as -> ->; left; auto|].
      destruct m' as [c' [|]|[|] ?|]; try (right; apply IHq; exact Hin); apply IHq; exact Hin.
    - apply IH. intros c Hc. apply (H c). cbn [exposed]. clear -Hin Hc. induction ms as [|[k' m'] q IHq]; [destruct Hin|]. destruct Hin as [Heq|Hin]; [injection Heq as -> ->; left; exact Hc|].
      destruct m' as [c' [|]|[|] ?|]; try (right; apply IHq; exact Hin); apply IHq; exact Hin. }
  apply Hgen. intros kv Hkv. apply (proj1 (ksort_in _ _)). exact Hkv.
Qed.

(* ---------- what a walk binds a name to: the last binding in walk order *)
Definition step_binding (f : nat -> list (string * member) -> string -> option nat) (fuel' : nat) (n : string)
           (acc : option nat) (kv : string * member) : option nat :=
  match snd kv with
  | MClass c true => if String.eqb n (fst kv) then Some c else acc
  | MMod true ms => match f fuel' ms n with Some c => Some c | None => acc end
  | _ => acc
  end.
Fixpoint last_binding (fuel : nat) (members : list (string * member)) (n : string) : option nat :=
  match fuel with
  | 0 => None
  | S f => fold_left (step_binding last_binding f n) (ksort members) None
  end.

Definition ovr (b : option nat) (base : option nat) : option nat := match b with Some c => Some c | None => base end.

Lemma walk_get fuel : forall ms t n, get (walk fuel ms t) n = ovr (last_binding fuel ms n) (get t n).
Proof.
  induction fuel as [|f IH]; intros ms t n; [reflexivity|]. cbn [walk last_binding].
  assert (forall l t0 acc, get (fold_left (fun (t : table) (kv : string * member) =>
          match snd kv with MClass c true => tset t (fst kv) c | MClass _ false => t | MMod true ms => walk f ms t | MMod false _ => t | MOther => t end) l t0) n
          = ovr (fold_left (step_binding last_binding f n) l acc) (get t0 n) \/ True) as _ by (intros; right; exact I).
  assert (forall l t0 acc, get t0 n = ovr acc (get t n) ->
            get (fold_left (fun (t : table) (kv : string * member) =>
          match snd kv with MClass c true => tset t (fst kv) c | MClass _ false => t | MMod true ms => walk f ms t | MMod false _ => t | MOther => t end) l t0) n
          = ovr (fold_left (step_binding last_binding f n) l acc) (get t n)) as Hgen.
  { induction l as [|[k m] r IHr]; intros t0 acc Hacc; [exact Hacc|]. cbn [fold_left]. apply IHr. unfold step_binding. cbn [fst snd].
    destruct m as [c [|]|[|] ms'|]; try exact Hacc.
    - rewrite get_tset. destruct (String.eqb n k); [reflexivity|exact Hacc].
    - rewrite IH. rewrite Hacc. destruct (last_binding f ms' n); reflexivity. }
  apply Hgen. reflexivity.
Qed.

Lemma class_table_get b sm n :
  get (class_table b sm) n =
  fold_left (fun acc (m : modl) => if fst m then ovr (last_binding walk_maxdepth (snd m) n) acc else acc) sm (get b n).
Proof.
  unfold class_table. revert b. induction sm as [|m r IH]; intros b; [reflexivity|]. cbn [fold_left]. destruct (fst m).
  - rewrite IH. rewrite walk_get. reflexivity.
  - apply IH.
Qed.

(* a binding is an exposure: through hooked modules only, within the depth limit *)
Lemma last_binding_exposed fuel : forall ms n c, last_binding fuel ms n = Some c -> exposed fuel ms n c.
Proof.
  induction fuel as [|f IH]; intros ms n c; [discriminate|]. cbn [last_binding].
  assert (forall l acc, (forall kv, In kv l -> In kv ms) -> fold_left (step_binding last_binding f n) l acc = Some c -> acc = Some c \/ exposed (S f) ms n c) as Hgen.
  { induction l as [|[k m] r IHr]; intros acc Hsub H; [left; exact H|]. cbn [fold_left] in H.
    destruct (IHr _ (fun kv Hkv => Hsub kv (or_intror Hkv)) H) as [Hs|He]; [|right; exact He].
    assert (In (k, m) ms) as Hin by (apply Hsub; left; reflexivity). unfold step_binding in Hs. cbn [fst snd] in Hs.
    assert (forall (P : Prop), (match m with MClass c' true => (k = n /\ c' = c) | MMod true ms' => exposed f ms' n c | _ => False end) -> exposed (S f) ms n c) as Hexp.
    { intros _ Hm. cbn [exposed]. clear -Hin Hm. induction ms as [|[k' m'] q IHq]; [destruct Hin|]. destruct Hin as [Heq|Hin].
      - injection Heq as -> ->. destruct m as [c' [|]|[|] ?|]; try contradiction; left; exact Hm.
      - destruct m' as [c' [|]|[|] ?|]; try (right; apply IHq; exact Hin); apply IHq; exact Hin. }
    destruct m as [c' [|]|[|] ms'|]; try (left; exact Hs).
    - destruct (String.eqb n k) eqn:E; [|left; exact Hs]. apply String.eqb_eq in E. injection Hs as <-. right. apply (Hexp True). auto.
    - destruct (last_binding f ms' n) as [c0|] eqn:El; [|left; exact Hs]. injection Hs as <-. right. apply (Hexp True). apply IH. exact El. }
  intros H. destruct (Hgen (ksort ms) None (fun kv Hkv => proj1 (ksort_in _ _) Hkv) H) as [Hd|He]; [discriminate|exact He].
Qed.

(* a class that is exposed is bound (to it, when class names are distinct) *)
Lemma exposed_bound fuel : forall ms n c, exposed fuel ms n c -> exists c', last_binding fuel ms n = Some c'.
Proof.
  induction fuel as [|f IH]; intros ms n c H; [destruct H|]. cbn [last_binding].
  assert (forall l acc, acc <> None -> fold_left (step_binding last_binding f n) l acc <> None) as Hkeep.
  { induction l as [|[k m] r IHr]; intros acc Ha; [exact Ha|]. cbn [fold_left]. apply IHr. unfold step_binding. cbn [fst snd].
    destruct m as [c' [|]|[|] ms'|]; try exact Ha; [destruct (String.eqb n k); [discriminate|exact Ha]|destruct (last_binding f ms' n); [discriminate|exact Ha]]. }
  assert (exists k m, In (k, m) (ksort ms) /\ match m with MClass c' true => k = n | MMod true ms' => exposed f ms' n c | _ => False end) as (k & m & Hin & Hm).
  { cbn [exposed] in H. clear -H. induction ms as [|[k' m'] q IHq]; [destruct H|].
    assert (forall k m, In (k, m) q -> In (k, m) (ksort ((k', m') :: q))) as Hq by (intros; apply ksort_in; right; assumption).
    destruct m' as [c' [|]|[|] ms'|].
    - destruct H as [(-> & _)|H]; [exists n, (MClass c' true); split; [apply ksort_in; left; reflexivity|reflexivity]|].
      destruct (IHq H) as (k & m & Hin & Hm). exists k, m. split; [apply Hq; apply (proj1 (ksort_in _ _)); exact Hin|exact Hm].
    - destruct (IHq H) as (k & m & Hin & Hm). exists k, m. split; [apply Hq; apply (proj1 (ksort_in _ _)); exact Hin|exact Hm].
    - destruct H as [H|H]; [exists k', (MMod true ms'); split; [apply ksort_in; left; reflexivity|exact H]|].
      destruct (IHq H) as (k & m & Hin & Hm). exists k, m. split; [apply Hq; apply (proj1 (ksort_in _ _)); exact Hin|exact Hm].
    - destruct (IHq H) as (k & m & Hin & Hm). exists k, m. split; [apply Hq; apply (proj1 (ksort_in _ _)); exact Hin|exact Hm].
    - destruct (IHq H) as (k & m & Hin & Hm). exists k, m. split; [apply Hq; apply (proj1 (ksort_in _ _)); exact Hin|exact Hm]. }
  assert (forall l acc, In (k, m) l -> fold_left (step_binding last_binding f n) l acc <> None) as Hfind.
  { induction l as [|[k0 m0] r IHr]; intros acc Hi; [destruct Hi|]. cbn [fold_left]. destruct Hi as [Heq|Hi]; [|apply IHr; exact Hi].
    injection Heq as -> ->. apply Hkeep. unfold step_binding. cbn [fst snd]. destruct m as [c' [|]|[|] ms'|]; try contradiction.
    - subst k. rewrite String.eqb_refl. discriminate.
    - destruct (IH _ _ _ Hm) as (c' & ->). discriminate. }
  destruct (fold_left (step_binding last_binding f n) (ksort ms) None) as [c'|] eqn:E; [eauto|]. exfalso. eapply Hfind; eauto.
Qed.

(* ---------- top level *)
Definition binds_only (b : table) (sm : list modl) (n : string) (c : nat) : Prop :=
  (forall c', get b n = Some c' -> c' = c) /\
  (forall m c', In m sm -> fst m = true -> exposed walk_maxdepth (snd m) n c' -> c' = c).

Lemma fold_ovr_result sm n c : forall acc,
  (forall m c', In m sm -> fst m = true -> last_binding walk_maxdepth (snd m) n = Some c' -> c' = c) ->
  (acc = None \/ acc = Some c) ->
  let r := fold_left (fun acc (m : modl) => if fst m then ovr (last_binding walk_maxdepth (snd m) n) acc else acc) sm acc in
  (r = None \/ r = Some c) /\
  (acc = Some c -> r = Some c) /\
  (forall m, In m sm -> fst m = true -> last_binding walk_maxdepth (snd m) n <> None -> r = Some c).
Proof.
  induction sm as [|m0 r0 IH]; intros acc Hu Hacc; cbn [fold_left].
  - split; [exact Hacc|]. split; [auto|intros m []].
  - destruct (fst m0) eqn:Eh; [destruct (last_binding walk_maxdepth (snd m0) n) as [c'|] eqn:El|].
    + assert (c' = c) as -> by (eapply Hu; [left; reflexivity|exact Eh|exact El]). cbn [ovr].
      destruct (IH (Some c) (fun m c' Hm => Hu m c' (or_intror Hm)) (or_intror eq_refl)) as (A & B & C).
      split; [exact A|]. split; [intros _; apply B; reflexivity|]. intros m [<-|Hm] Hh Hl; [apply B; reflexivity|apply (C m); assumption].
    + cbn [ovr]. destruct (IH acc (fun m c' Hm => Hu m c' (or_intror Hm)) Hacc) as (A & B & C).
      split; [exact A|]. split; [exact B|]. intros m [<-|Hm] Hh Hl; [congruence|apply (C m); assumption].
    + destruct (IH acc (fun m c' Hm => Hu m c' (or_intror Hm)) Hacc) as (A & B & C).
      split; [exact A|]. split; [exact B|]. intros m [<-|Hm] Hh Hl; [congruence|apply (C m); assumption].
Qed.

(* a class exposed -- under its own name, class names being distinct -- in the namespace of a hooked module of
   sys.modules, directly or through hooked sub-modules within the depth limit, is the class the lookup returns *)
Theorem exposed_class_is_found b sm n c m :
  binds_only b sm n c -> In m sm -> fst m = true -> exposed walk_maxdepth (snd m) n c -> get_class b sm n = Ok c.
Proof.
  intros (Hb & Hu) Hm Hh He. apply found_is_the_table_entry. rewrite class_table_get.
  assert (get b n = None \/ get b n = Some c) as Hacc by (destruct (get b n) as [c'|] eqn:E; [right; f_equal; apply Hb; reflexivity|left; reflexivity]).
  destruct (fold_ovr_result sm n c (get b n)) as (_ & _ & C); [|exact Hacc|].
  - intros m' c' Hm' Hh' Hl. eapply Hu; [exact Hm'|exact Hh'|apply last_binding_exposed; exact Hl].
  - apply (C m Hm Hh). destruct (exposed_bound _ _ _ _ He) as (c' & ->). discriminate.
Qed.

(* built-in classes are always found *)
Theorem builtin_class_is_found b sm n c : binds_only b sm n c -> get b n = Some c -> get_class b sm n = Ok c.
Proof.
  intros (Hb & Hu) Hg. apply found_is_the_table_entry. rewrite class_table_get.
  destruct (fold_ovr_result sm n c (get b n)) as (_ & B & _); [|right; exact Hg|apply B; exact Hg].
  intros m' c' Hm' Hh' Hl. eapply Hu; [exact Hm'|exact Hh'|apply last_binding_exposed; exact Hl].
Qed.

(* a class that no hooked module exposes (it sits only in un-hooked modules, or deeper than the limit) is not found:
   the read fails *)
Theorem unexposed_class_is_an_error b sm n :
  get b n = None -> (forall m c, In m sm -> fst m = true -> ~ exposed walk_maxdepth (snd m) n c) ->
  exists e, get_class b sm n = Err e.
Proof.
  intros Hb Hu. apply absent_fails. rewrite class_table_get, Hb.
  induction sm as [|m r IH]; [reflexivity|]. cbn [fold_left]. destruct (fst m) eqn:Eh.
  - destruct (last_binding walk_maxdepth (snd m) n) as [c|] eqn:El; [exfalso; eapply Hu; [left; reflexivity|exact Eh|apply last_binding_exposed; exact El]|].
    cbn [ovr]. apply IH. intros m' c Hm'. apply Hu. right. exact Hm'.
  - apply IH. intros m' c Hm'. apply Hu. right. exact Hm'.
Qed.

(* ---------- Custom *)
Lemma custom_types_are_not_data_types : forallb (fun t => negb (mem ("custom_" +++ t) EMD_data_group_types)) EMD_data_group_types = true.
Proof. vm_compute. reflexivity. Qed.
Lemma data_types_have_no_custom_prefix : forallb (fun t => negb (String.prefix "custom_" t)) EMD_data_group_types = true.
Proof. vm_compute. reflexivity. Qed.

Theorem custom_attributes_are_returned_by_name_and_are_not_children md attrs kids :
  (forall kv, In kv attrs -> mem (snd kv) EMD_data_group_types = true) ->
  (forall kv, In kv kids -> mem (snd kv) EMD_data_group_types = true) ->
  attr_data (custom_links md attrs kids) = map fst attrs /\ tree_children (custom_links md attrs kids) = map fst kids.
Proof.
  intros Ha Hk. unfold attr_data, tree_children, custom_links. rewrite !filter_app, !map_app.
  pose proof custom_types_are_not_data_types as H1. pose proof data_types_have_no_custom_prefix as H2. rewrite forallb_forall in H1, H2.
  assert (forall t, mem t EMD_data_group_types = true -> In t EMD_data_group_types) as Hin by (intros t; apply mem_In).
  assert (filter (fun kv : string * string => String.prefix "custom_" (snd kv)) (if md then [("metadatabundle", "metadatabundle")] else []) = []) as -> by (destruct md; reflexivity).
  assert (filter (fun kv : string * string => mem (snd kv) EMD_data_group_types) (if md then [("metadatabundle", "metadatabundle")] else []) = []) as -> by (destruct md; vm_compute; reflexivity).
  cbn [map app].
  split.
  - assert (filter (fun kv : string * string => String.prefix "custom_" (snd kv)) kids = []) as ->.
    { clear -Hk H2 Hin. induction kids as [|kv r IH]; [reflexivity|]. cbn. specialize (H2 (snd kv) (Hin _ (Hk kv (or_introl eq_refl)))). apply negb_true_iff in H2. rewrite H2.
      apply IH. intros x Hx. apply Hk. right. exact Hx. }
    cbn [map]. rewrite app_nil_r. clear. induction attrs as [|kv r IH]; [reflexivity|]. cbn [map filter snd fst].
    assert (String.prefix "custom_" ("custom_" +++ snd kv) = true) as -> by (destruct (snd kv); reflexivity). cbn [map fst]. rewrite IH. reflexivity.
  - assert (filter (fun kv : string * string => mem (snd kv) EMD_data_group_types) (map (fun kv => (fst kv, "custom_" +++ snd kv)) attrs) = []) as ->.
    { clear -Ha H1 Hin. induction attrs as [|kv r IH]; [reflexivity|]. cbn [map filter snd]. specialize (H1 (snd kv) (Hin _ (Ha kv (or_introl eq_refl)))). apply negb_true_iff in H1. rewrite H1.
      apply IH. intros x Hx. apply Ha. right. exact Hx. }
    cbn [app map]. clear -Hk. induction kids as [|kv r IH]; [reflexivity|]. cbn [filter map]. rewrite (Hk kv (or_introl eq_refl)). cbn [map fst]. rewrite IH; [reflexivity|]. intros x Hx. apply Hk. right. exact Hx.
Qed.

(* ---------- soundness of a successful lookup: the class returned is one bound under that very name *)
Theorem found_class_was_bound_under_that_name b sm n c :
  get_class b sm n = Ok c ->
  get b n = Some c \/ exists m, In m sm /\ fst m = true /\ exposed walk_maxdepth (snd m) n c.
Proof.
  intros H. apply found_is_the_table_entry in H. rewrite class_table_get in H.
  remember (get b n) as acc eqn:Ea. clear Ea. revert acc H. induction sm as [|m r IH]; intros acc H; cbn [fold_left] in H; [left; exact H|].
  destruct (IH _ H) as [Hacc|(m' & Hin & Hh & He)]; [|right; exists m'; split; [right; exact Hin|split; assumption]].
  destruct (fst m) eqn:Eh; [|left; exact Hacc].
  destruct (last_binding walk_maxdepth (snd m) n) as [c'|] eqn:El; cbn [ovr] in Hacc; [|left; exact Hacc].
  injection Hacc as ->. right. exists m. split; [left; reflexivity|]. split; [exact Eh|apply last_binding_exposed; exact El].
Qed.

(* ---------- the documented depth: a class in a chain of d hooked sub-modules *)
Fixpoint nest (d : nat) (k n : string) (c : nat) : list (string * member) :=
  match d with 0 => [(n, MClass c true)] | S d' => [(k, MMod true (nest d' k n c))] end.
Lemma nest_exposed d : forall f k n c, exposed f (nest d k n c) n c <-> d < f.
Proof.
  induction d as [|d IH]; intros f k n c; destruct f as [|f]; cbn [exposed nest].
  - split; [intros []|lia].
  - split; [lia|]. intros _. left. split; reflexivity.
  - split; [intros []|lia].
  - rewrite <- Nat.succ_lt_mono. rewrite <- (IH f k n c). split; [intros [H|[]]; exact H|intros H; left; exact H].
Qed.
Lemma nest_exposes_only d : forall f k n c n' c', exposed f (nest d k n c) n' c' -> n' = n /\ c' = c.
Proof.
  induction d as [|d IH]; intros f k n c n' c' H; destruct f as [|f]; cbn [exposed nest] in H; try contradiction.
  - destruct H as [(-> & ->)|[]]. split; reflexivity.
  - destruct H as [H|[]]. eapply IH. exact H.
Qed.
Theorem nested_up_to_the_documented_depth_is_found d k n c b :
  get b n = None -> d < walk_maxdepth -> get_class b [(true, nest d k n c)] n = Ok c.
Proof.
  intros Hb Hd. eapply exposed_class_is_found with (m := (true, nest d k n c)); [|left; reflexivity|reflexivity|apply nest_exposed; exact Hd].
  split; [intros c' Hc; congruence|]. intros m c' [<-|[]] _ He. apply nest_exposes_only in He. apply He.
Qed.
Theorem nested_deeper_is_an_error d k n c b :
  get b n = None -> walk_maxdepth <= d -> exists e, get_class b [(true, nest d k n c)] n = Err e.
Proof.
  intros Hb Hd. apply unexposed_class_is_an_error; [exact Hb|]. intros m c' [<-|[]] _ He.
  destruct (nest_exposes_only _ _ _ _ _ _ _ He) as (_ & ->). apply nest_exposed in He. cbn [snd] in He. lia.
Qed.

(* ---------- hook values *)
Lemma only_True_opts_in_at_top_level h : hook_top h = true <-> h = HTrue.
Proof. destruct h; cbn; split; intros H; try discriminate; reflexivity. Qed.
Lemma unhooked_top_modules_are_not_searched b sm1 sm2 h ms n :
  hook_top h = false -> get_class_raw b (sm1 ++ (h, ms) :: sm2) n = get_class_raw b (sm1 ++ sm2) n.
Proof.
  intros Hh. unfold get_class_raw, get_class, class_table. rewrite !map_app. cbn [map]. rewrite !fold_left_app. cbn [fold_left].
  unfold norm_top at 2. cbn [fst snd]. rewrite Hh. reflexivity.
Qed.
