(* C05: an EMD 1.0 validator over file objects, and the proof that every file the writer model produces for a whole
   tree -- by a fresh save, or by appending to such a file (union) -- passes it. *)
From Emd Require Import Base.Prelude Model.H5 Model.Emd Generated.Tables Proofs.PTree Proofs.P05 Proofs.PRead Proofs.PUnion.

(* ---------- the validator (the Coq twin of harness/validator.py; the "no calibration dataset beyond the rank" clause
   of the Python validator is left to the oracle) *)
Definition gtype_of (o : obj) : option string := attr_str o "emd_group_type".
Definition is_data_type (t : string) : bool := mem t EMD_data_group_types || String.prefix "custom_" t.

Definition wf_item (o : obj) : bool := has (oattrs o) "type".
Definition wf_md (o : obj) : bool :=
  match o with
  | G a l => attr_is o "emd_group_type" "metadata" && has a "python_class" && forallb (fun kv => wf_item (snd kv)) l
  | D _ _ _ => false end.
Definition wf_bundle (o : obj) : bool :=
  match o with
  | G a l => attr_is o "emd_group_type" "metadatabundle" && forallb (fun kv => wf_md (snd kv)) l
  | D _ _ _ => false end.

Definition wf_array (g : obj) : bool :=
  match get (olinks g) "data" with
  | Some (D a s _) =>
      has a "units" &&
      forallb (fun i => match get (olinks g) ("dim" +++ nat_str i) with
                        | Some (D da [n] _) => has da "name" && has da "units" && (Nat.eqb n 2 || Nat.eqb n (nth i s 0))
                        | _ => false end) (seq 0 (length s))
  | _ => false end.

Fixpoint wf_node (is_root : bool) (g : obj) : bool :=
  match g with
  | D _ _ _ => false
  | G a l =>
      (match gtype_of g with Some t => (is_root && String.eqb t "root") || (negb is_root && is_data_type t) | None => false end) &&
      has a "python_class" &&
      (if attr_is g "emd_group_type" "array" then wf_array g else true) &&
      (fix go (l : list (string * obj)) : bool :=
         match l with
         | [] => true
         | (k, c) :: r =>
             negb (String.prefix "_tmp_" k) &&
             (match c with
              | G _ _ => if String.eqb k "metadatabundle" then wf_bundle c
                         else (match gtype_of c with Some _ => true | None => false end) && wf_node false c
              | D _ _ _ => true end) && go r
         end) l
  end.

Definition wf_emd (c : cfg) (f : obj) : bool :=
  match f with
  | D _ _ _ => false
  | G a l =>
      attr_is f "emd_group_type" "file" &&
      (match get a "version_major", get a "version_minor" with Some (AInt 1), Some (AInt 0) => true | _, _ => false end) &&
      has a "UUID" &&
      (match get a "authoring_program" with Some (AStr p) => String.eqb p (program c) | _ => false end) &&
      (match get a "authoring_user" with Some (AStr u) => String.eqb u (user c) | _ => false end) &&
      negb (match l with [] => true | _ => false end) &&
      forallb (fun kv => wf_node true (snd kv)) l
  end.

(* ---------- what the writer produces passes *)
Lemma wf_node_G is_root a l :
  wf_node is_root (G a l) =
  (match gtype_of (G a l) with Some t => (is_root && String.eqb t "root") || (negb is_root && is_data_type t) | None => false end) &&
  has a "python_class" && (if attr_is (G a l) "emd_group_type" "array" then wf_array (G a l) else true) &&
  forallb (fun kv => negb (String.prefix "_tmp_" (fst kv)) &&
                     (match snd kv with
                      | G _ _ => if String.eqb (fst kv) "metadatabundle" then wf_bundle (snd kv)
                                 else (match gtype_of (snd kv) with Some _ => true | None => false end) && wf_node false (snd kv)
                      | D _ _ _ => true end)) l.
Proof.
  cbn [wf_node]. f_equal. induction l as [|[k c] r IH]; [reflexivity|]. cbn [forallb fst snd]. rewrite <- IH. reflexivity.
Qed.

Lemma wf_bundle_bundle mds : wf_bundle (bundle mds) = true.
Proof.
  unfold bundle, wf_bundle. change (attr_is _ "emd_group_type" "metadatabundle") with true. cbn [andb].
  induction mds as [|[k t] r IH]; [reflexivity|]. cbn [map forallb snd]. rewrite IH. reflexivity.
Qed.

(* names the writer is given: not scratch names *)
Definition plain (s : string) : bool := negb (String.prefix "_tmp_" s).
Fixpoint plain_tree (n : rnode) : Prop :=
  (fix go (l : list rnode) : Prop := match l with [] => True | k :: q => (plain (rname k) = true /\ rname k <> "metadatabundle" /\ rcls k <> CRoot /\ plain_tree k) /\ go q end) (rkids n).
Lemma plain_tree_inv n : plain_tree n <-> Forall (fun k => plain (rname k) = true /\ rname k <> "metadatabundle" /\ rcls k <> CRoot /\ plain_tree k) (rkids n).
Proof.
  destruct n as [c nm t r m ks]. cbn [plain_tree rkids]. split; intros H.
  - induction ks as [|k q IH]; constructor; destruct H; auto.
  - induction H; cbn; auto.
Qed.

Lemma dim_not_tmp i : String.prefix "_tmp_" ("dim" +++ nat_str i) = false. Proof. reflexivity. Qed.

Lemma get_dims_shape i l rest : In i l ->
  exists da t, get (map dim_dataset l ++ rest) ("dim" +++ nat_str i) = Some (D da [2] t) /\ has da "name" = true /\ has da "units" = true.
Proof.
  induction l as [|j q IH]; intros Hin; [destruct Hin|]. cbn [map app get dim_dataset fst snd].
  destruct (String.eqb ("dim" +++ nat_str i) ("dim" +++ nat_str j)) eqn:Ej; [eexists; eexists; split; [reflexivity|split; reflexivity]|].
  destruct Hin as [->|Hin]; [rewrite String.eqb_refl in Ej; discriminate|]. apply IH. exact Hin.
Qed.

Lemma wf_array_enc n : rcls n = CArray -> wf_array (enc n) = true.
Proof.
  intros Hc. unfold wf_array. rewrite enc_links'. unfold shallow_links. rewrite Hc. cbn [own].
  set (pre := match rmds n with [] => [] | _ => _ end).
  assert (forall k, k <> "metadatabundle" -> forall rest, get (pre ++ rest) k = get rest k) as Hpre.
  { intros k Hk rest. subst pre. destruct (rmds n); [reflexivity|]. cbn [app get]. destruct (String.eqb k "metadatabundle") eqn:E; [apply String.eqb_eq in E; contradiction|reflexivity]. }
  rewrite <- app_assoc. rewrite Hpre by discriminate. rewrite <- app_comm_cons. rewrite get_first.
  apply andb_true_iff. split; [reflexivity|].
  apply forallb_forall. intros i Hi. rewrite repeat_length in Hi. rewrite Hpre by apply dimname_not_bundle.
  cbn [get]. destruct (String.eqb ("dim" +++ nat_str i) "data") eqn:E; [cbn in E; discriminate|].
  destruct (get_dims_shape i (seq 0 (rrank n)) (enc_kids (rkids n)) Hi) as (da & t & -> & -> & ->). reflexivity.
Qed.

Lemma shallow_ok n : forallb (fun kv => negb (String.prefix "_tmp_" (fst kv)) &&
                     (match snd kv with
                      | G _ _ => if String.eqb (fst kv) "metadatabundle" then wf_bundle (snd kv)
                                 else (match gtype_of (snd kv) with Some _ => true | None => false end) && wf_node false (snd kv)
                      | D _ _ _ => true end)) (shallow_links n) = true.
Proof.
  unfold shallow_links. rewrite forallb_app. apply andb_true_iff. split.
  - destruct (rmds n); [reflexivity|]. cbn [forallb fst snd]. rewrite wf_bundle_bundle. reflexivity.
  - unfold own. destruct (rcls n); try reflexivity. cbn [forallb fst snd]. cbn [String.prefix]. cbn.
    induction (seq 0 (rrank n)) as [|j q IHq]; [reflexivity|]. cbn [map forallb dim_dataset fst snd]. rewrite dim_not_tmp. cbn [negb andb]. exact IHq.
Qed.

Lemma gtype_data_ok c : c <> CRoot -> is_data_type (gtype c) = true.
Proof. intros H. unfold is_data_type. rewrite (gtype_data c H). reflexivity. Qed.

Theorem wf_node_enc n : plain_tree n -> forall is_root : bool, (if is_root then rcls n = CRoot else rcls n <> CRoot) -> wf_node is_root (enc n) = true.
Proof.
  induction n as [c nm t r m ks IH] using rnode_ind'. intros Hp is_root Hcls. apply plain_tree_inv in Hp. cbn [rkids] in Hp.
  rewrite enc_eq. rewrite wf_node_G. cbn [rkids rcls] in *.
  assert (gtype_of (G (node_tags (RN c nm t r m ks)) (shallow_links (RN c nm t r m ks) ++ enc_kids ks)) = Some (gtype c)) as -> by reflexivity.
  repeat (apply andb_true_iff; split).
  - destruct is_root; [rewrite Hcls; reflexivity|]. cbn [andb negb orb]. apply gtype_data_ok. exact Hcls.
  - reflexivity.
  - destruct (attr_is _ "emd_group_type" "array") eqn:Ea; [|reflexivity].
    assert (c = CArray) as -> by (destruct c; try reflexivity; vm_compute in Ea; discriminate).
    rewrite <- enc_eq. apply wf_array_enc. reflexivity.
  - rewrite forallb_app. apply andb_true_iff. split; [apply shallow_ok|].
    apply forallb_forall. intros kv Hkv. unfold enc_kids in Hkv. apply in_map_iff in Hkv. destruct Hkv as (k & <- & Hk). cbn [fst snd].
    rewrite Forall_forall in IH, Hp. destruct (Hp k Hk) as (Hpl & Hnb & Hnr & Hpk). unfold plain in Hpl. rewrite Hpl. cbn [andb].
    assert (String.eqb (rname k) "metadatabundle" = false) as Eb by (destruct (String.eqb (rname k) "metadatabundle") eqn:E; [apply String.eqb_eq in E; contradiction|reflexivity]).
    rewrite (enc_eq k) at 1. rewrite Eb. rewrite (enc_eq k) at 1. change (gtype_of (G (node_tags k) _)) with (Some (gtype (rcls k))). cbn [andb].
    apply IH; [exact Hk|exact Hpk|exact Hnr].
Qed.

(* every file holding one whole tree passes the validator *)
Theorem wf_whole_file c root : rcls root = CRoot -> plain_tree root -> wf_emd c (whole_file c root) = true.
Proof.
  intros Hc Hp. pose proof (wf_node_enc root Hp true Hc) as Hn. unfold wf_emd, whole_file.
  change (attr_is (G (header c) [(rname root, enc root)]) "emd_group_type" "file") with true.
  change (get (header c) "version_major") with (Some (AInt 1)). change (get (header c) "version_minor") with (Some (AInt 0)).
  change (has (header c) "UUID") with true.
  change (get (header c) "authoring_program") with (Some (AStr (program c))). change (get (header c) "authoring_user") with (Some (AStr (user c))).
  cbv beta iota. rewrite !String.eqb_refl. cbn [forallb snd andb negb]. rewrite Hn. reflexivity.
Qed.

(* ---------- the union of two such trees is one, so the file left by an append passes too *)
Lemma rcls_merge m n : rcls (merge m n) = rcls m. Proof. destruct m; reflexivity. Qed.
Lemma plain_tree_merge m : forall n, plain_tree m -> plain_tree n -> plain_tree (merge m n).
Proof.
  induction m as [c nm t r md ks IH] using rnode_ind'. intros n Hm Hn. apply plain_tree_inv in Hm. apply plain_tree_inv in Hn. cbn [rkids] in Hm.
  apply plain_tree_inv. rewrite merge_eq. cbn [rkids]. apply Forall_app. split.
  - apply Forall_forall. intros x Hx. apply in_map_iff in Hx. destruct Hx as (km & <- & Hkm).
    rewrite Forall_forall in IH, Hm, Hn. destruct (Hm km Hkm) as (A & B & C & D). unfold upd.
    destruct (rget (rkids n) (rname km)) as [kn|] eqn:E; [|repeat split; assumption].
    rewrite rname_merge, rcls_merge. repeat split; try assumption. apply IH; [exact Hkm|exact D|].
    apply rget_in in E. destruct E as (Hin & _). apply (Hn kn Hin).
  - apply Forall_forall. intros x Hx. apply filter_In in Hx. destruct Hx as (Hx & _). rewrite Forall_forall in Hn. apply Hn. exact Hx.
Qed.
Lemma plain_tree_with_mds m mds : plain_tree m -> plain_tree (with_mds m mds).
Proof. destruct m; intros H; exact H. Qed.

Theorem wf_after_append c c0 m root md tr :
  In md appendmode -> tr <> Some false ->
  rcls m = CRoot -> rname root = rname m -> ok_tree m -> compat m root ->
  (rmds m <> [] \/ rmds root = []) -> NoDup (keys (rmds root)) ->
  plain_tree m -> plain_tree root ->
  exists f, write_node c (H5 (whole_file c0 m)) root [] (WA md tr None) = (Ok tt, H5 f) /\ wf_emd c0 f = true.
Proof.
  intros Hmd Htr Hc Hname Hok Hcompat Hmdc Hnd Hpm Hpr.
  exists (whole_file c0 (union_root m root)). split.
  - apply append_save_is_union; try assumption. intros k Hk. apply plain_tree_inv in Hpm. rewrite Forall_forall in Hpm. apply (Hpm k Hk).
  - apply wf_whole_file.
    + unfold union_root. rewrite rcls_merge. destruct m; exact Hc.
    + unfold union_root. apply plain_tree_merge; [apply plain_tree_with_mds; exact Hpm|exact Hpr].
Qed.

(* ---------- partial saves into a fresh file: each is the file of a smaller tree, so it passes as well *)
From Emd Require Import Model.Reader.
Lemma root_with_enc root ks : root_with root (enc_kids ks) = enc (with_kids root ks).
Proof. destruct root; reflexivity. Qed.
Lemma node_shallow_enc data : node_shallow data = enc (with_kids data []).
Proof. destruct data as [c s t r m ks]. rewrite enc_eq. cbn [with_kids rkids enc_kids map]. rewrite app_nil_r. reflexivity. Qed.

Lemma plain_tree_walk root : plain_tree root -> forall tp data, tp <> [] -> rwalk root tp = Some data ->
  plain (rname data) = true /\ rname data <> "metadatabundle" /\ rcls data <> CRoot /\ plain_tree data.
Proof.
  induction root as [c nm t r m ks IH] using rnode_ind'. intros Hp tp data Hne Hw. destruct tp as [|x q]; [congruence|].
  cbn [rwalk rkids] in Hw. destruct (rget ks x) as [kid|] eqn:E; [|discriminate]. apply rget_in in E. destruct E as (Hin & _).
  apply plain_tree_inv in Hp. cbn [rkids] in Hp. rewrite Forall_forall in Hp, IH. destruct (Hp kid Hin) as (A & B & C & D).
  destruct q as [|y q']; [injection Hw as <-; auto|]. apply (IH kid Hin D (y :: q') data); [discriminate|exact Hw].
Qed.

Theorem wf_partial_saves c root tp data :
  rcls root = CRoot -> plain_tree root -> tp <> [] -> rwalk root tp = Some data ->
  wf_emd c (G (header c) [(rname root, root_with root [(rname data, node_shallow data)])]) = true /\
  wf_emd c (G (header c) [(rname root, root_with root [(rname data, enc data)])]) = true /\
  wf_emd c (G (header c) [(rname root, root_with root (enc_kids (rkids data)))]) = true.
Proof.
  intros Hc Hp Hne Hw. destruct (plain_tree_walk root Hp tp data Hne Hw) as (A & B & C & D).
  assert (forall ks, Forall (fun k => plain (rname k) = true /\ rname k <> "metadatabundle" /\ rcls k <> CRoot /\ plain_tree k) ks ->
            wf_emd c (G (header c) [(rname root, root_with root (enc_kids ks))]) = true) as Hgen.
  { intros ks Hks. rewrite root_with_enc.
    assert (rname root = rname (with_kids root ks)) as -> by (destruct root; reflexivity).
    apply (wf_whole_file c (with_kids root ks)); [destruct root; exact Hc|]. apply plain_tree_inv. destruct root; exact Hks. }
  split; [|split].
  - rewrite node_shallow_enc. assert (rname data = rname (with_kids data [])) as -> by (destruct data; reflexivity).
    apply (Hgen [with_kids data []]). constructor; [|constructor]. destruct data as [c0 s0 t0 r0 m0 k0]. cbn [with_kids rname rcls] in *.
    repeat split; try assumption.
  - apply (Hgen [data]). constructor; [|constructor]. auto.
  - apply Hgen. apply plain_tree_inv. exact D.
Qed.
