(* C03: the metadata value codec round-trips every documented value kind, at any nesting depth. *)
From Coq Require Import ZArith List Bool Lia PrimFloat FloatOps SpecFloat.
From Emd Require Import Base.Prelude Model.Md Generated.Tables.

(* ---------- reflexivity of the bit-level comparisons *)
Lemma sf_eqb_refl x : sf_eqb x x = true.
Proof. destruct x; cbn; rewrite ?Bool.eqb_reflx, ?Pos.eqb_refl, ?Z.eqb_refl; reflexivity. Qed.
Lemma f_same_refl f : f_same f f = true. Proof. apply sf_eqb_refl. Qed.
Lemma sc_same_refl x : sc_same x x = true.
Proof. destruct x; cbn; rewrite ?Bool.eqb_reflx, ?Z.eqb_refl, ?f_same_refl; reflexivity. Qed.
Lemma list_eqb_refl {A} (e : A -> A -> bool) l : (forall x, e x x = true) -> list_eqb e l l = true.
Proof. intros H. induction l; cbn; [reflexivity|]. rewrite H, IHl. reflexivity. Qed.

(* ---------- documented values *)
(* an int that meets floats in one sequence must be exactly representable in binary64 (F19) *)
Definition lossless (k : nat) (x : sc) : bool :=
  match x with SI z => if Nat.leb 2 k then exact_in_double z else true | _ => true end.
Definition numseq_ok (l : list sc) : bool := forallb sc_storable l && forallb (lossless (max_kind l)) l.
Definition num_of (v : mval) : option sc := match v with MSc x => Some x | _ => None end.
Fixpoint py_numbers (xs : list mval) : option (list sc) :=
  match xs with [] => Some [] | v :: r => match num_of v, py_numbers r with Some x, Some l => Some (x :: l) | _, _ => None end end.
Definition no_nul (s : string) : bool := negb (has_char "000"%char s).
Definition flat_tuple_ok (v : mval) : bool :=
  match v with MTuple ys => match py_numbers ys with Some l => numseq_ok l | None => false end | _ => false end.
Definition arr_ok (v : mval) : bool := match v with MArr dt _ _ => h5_dtype_ok dt | _ => false end.
Definition str_ok (v : mval) : bool := match v with MStr s => no_nul s | _ => false end.
(* the documented forms of a tuple (tup = true) or list *)
Definition seq_doc (tup : bool) (xs : list mval) : bool :=
  match xs with
  | [] => true
  | x0 :: _ =>
      match x0 with
      | MSc _ => match py_numbers xs with Some l => numseq_ok l | None => false end
      | MTuple _ => tup && forallb flat_tuple_ok xs
      | MArr _ _ _ => forallb arr_ok xs
      | MStr _ => forallb str_ok xs
      | _ => false end
  end.
Fixpoint keys_nodup (l : list string) : bool := match l with [] => true | k :: r => negb (mem k r) && keys_nodup r end.
Fixpoint doc (v : mval) : bool :=
  match v with
  | MNone => true
  | MStr s => no_nul s && negb (String.eqb s "_None")
  | MSc x => sc_storable x
  | MArr dt _ _ => h5_dtype_ok dt
  | MTuple xs => seq_doc true xs
  | MList xs => seq_doc false xs
  | MDict kvs => keys_nodup (map fst kvs) &&
      (fix go (l : list (string * mval)) : bool := match l with [] => true | (k, x) :: r => valid_key k && doc x && go r end) kvs
  | _ => false
  end.

(* ---------- number sequences *)
Lemma max_kind_cons y r : max_kind (y :: r) = Nat.max (kind y) (max_kind r). Proof. reflexivity. Qed.
Lemma kind_le_max x l : In x l -> kind x <= max_kind l.
Proof. induction l as [|y r IH]; [intros []|]. rewrite max_kind_cons. intros [<-|H]; [lia|]. specialize (IH H). lia. Qed.
Lemma kind_le3 x : kind x <= 3. Proof. destruct x; cbn; lia. Qed.
Lemma max_kind_le3 l : max_kind l <= 3.
Proof. induction l as [|y r IH]; [cbn; lia|]. rewrite max_kind_cons. pose proof (kind_le3 y). lia. Qed.

Lemma sc_equiv_to_kind k x : kind x <= k -> k <= 3 -> lossless k x = true -> sc_equiv x (to_kind k x) = true.
Proof.
  intros Hk H3 Hl. unfold sc_equiv. destruct x as [b|z|f|re im]; cbn [kind] in Hk.
  - destruct k as [|[|[|[|k]]]]; try lia; cbn; rewrite ?Bool.eqb_reflx, ?Z.eqb_refl, ?f_same_refl; reflexivity.
  - destruct k as [|[|[|[|k]]]]; try lia; cbn [to_kind sc_same lossless Nat.leb] in *; rewrite ?Z.eqb_refl, ?Hl, ?f_same_refl; reflexivity.
  - destruct k as [|[|[|[|k]]]]; try lia; cbn; rewrite ?f_same_refl; reflexivity.
  - destruct k as [|[|[|[|k]]]]; try lia; cbn; rewrite ?f_same_refl; reflexivity.
Qed.

Lemma py_numbers_all xs l : py_numbers xs = Some l -> all_numbers xs = Some l /\ xs = map MSc l.
Proof.
  revert l. induction xs as [|v r IH]; intros l; cbn; [intros H; injection H as <-; auto|].
  destruct v; cbn; try discriminate. destruct (py_numbers r) as [l0|]; [|discriminate]. intros H; injection H as <-.
  destruct (IH l0 eq_refl) as (A & B). rewrite A. split; [reflexivity|]. cbn. f_equal. exact B.
Qed.

(* elements come back as numpy scalars of the promoted kind, each equivalent to the original *)
Lemma numseq_equiv l : numseq_ok l = true ->
  (fix go (l0 l' : list mval) : bool := match l0, l' with [], [] => true | x :: r, y :: r' => elem_equiv x y && go r r' | _, _ => false end)
    (map MSc l) (map MNp (promote l)) = true.
Proof.
  unfold numseq_ok, promote. intros H. apply andb_true_iff in H. destruct H as (_ & Hl).
  assert (forall l0, (forall x, In x l0 -> In x l) ->
    (fix go (l1 l' : list mval) : bool := match l1, l' with [], [] => true | x :: r, y :: r' => elem_equiv x y && go r r' | _, _ => false end)
      (map MSc l0) (map MNp (map (to_kind (max_kind l)) l0)) = true) as Hgen.
  { induction l0 as [|x r IH]; intros Hsub; [reflexivity|]. cbn [map]. rewrite IH by (intros y Hy; apply Hsub; right; exact Hy).
    rewrite andb_true_r. cbn [elem_equiv is_number]. apply sc_equiv_to_kind; [apply kind_le_max; apply Hsub; left; reflexivity|apply max_kind_le3|].
    rewrite forallb_forall in Hl. apply Hl. apply Hsub. left. reflexivity. }
  apply Hgen. auto.
Qed.
Lemma list_eqb_go xs ys : list_eqb elem_equiv xs ys =
  (fix go (l0 l' : list mval) : bool := match l0, l' with [], [] => true | x :: r, y :: r' => elem_equiv x y && go r r' | _, _ => false end) xs ys.
Proof. revert ys. induction xs as [|x r IH]; intros [|y r']; cbn; try reflexivity. rewrite IH. reflexivity. Qed.

Lemma vec_of_numbers xs l : py_numbers xs = Some l -> numseq_ok l = true -> vec_of xs = Some (DsVec (promote l)).
Proof.
  intros Hp Hok. destruct (py_numbers_all _ _ Hp) as (A & _). unfold vec_of. rewrite A.
  unfold numseq_ok in Hok. apply andb_true_iff in Hok. destruct Hok as (Hs & _). rewrite Hs. reflexivity.
Qed.

(* ---------- sequences *)
Lemma strs_rt l : forallb str_ok l = true ->
  exists ms, opt_all str_member l = Some ms /\ map rd_member_str ms = l /\ list_eqb elem_equiv l l = true /\ existsb is_tuple l = false.
Proof.
  induction l as [|v q IH]; intros Hd; [exists []; repeat split; reflexivity|].
  cbn in Hd. apply andb_true_iff in Hd. destruct Hd as (A & B). destruct (IH B) as (ms & Hm & Hr & He & Ht).
  destruct v; try discriminate. cbn in A. unfold no_nul in A. apply negb_true_iff in A. cbn [opt_all str_member]. rewrite A, Hm.
  eexists. split; [reflexivity|]. cbn. rewrite Hr, String.eqb_refl, He, Ht. auto.
Qed.
Lemma arrs_rt l : forallb arr_ok l = true ->
  exists ms, opt_all arr_member l = Some ms /\ map rd_member_arr ms = l /\ list_eqb elem_equiv l l = true /\ existsb is_tuple l = false.
Proof.
  induction l as [|v q IH]; intros Hd; [exists []; repeat split; reflexivity|].
  cbn in Hd. apply andb_true_iff in Hd. destruct Hd as (A & B). destruct (IH B) as (ms & Hm & Hr & He & Ht).
  destruct v; try discriminate. cbn in A. cbn [opt_all arr_member]. rewrite A, Hm.
  eexists. split; [reflexivity|]. cbn. rewrite Hr, String.eqb_refl, Z.eqb_refl, He, Ht, (list_eqb_refl Nat.eqb _ Nat.eqb_refl). auto.
Qed.
Lemma tts_rt l : forallb flat_tuple_ok l = true ->
  exists ms, opt_all tt_member l = Some ms /\ list_eqb elem_equiv l (map rd_member_tt ms) = true.
Proof.
  induction l as [|v q IH]; intros Hd; [exists []; split; reflexivity|].
  cbn in Hd. apply andb_true_iff in Hd. destruct Hd as (A & B). destruct (IH B) as (ms & Hm & He).
  destruct v as [| | | | |ys| | | |]; try discriminate. cbn [flat_tuple_ok] in A. destruct (py_numbers ys) as [l0|] eqn:Ep; [|discriminate].
  cbn [opt_all tt_member]. rewrite (vec_of_numbers _ _ Ep A), Hm. eexists. split; [reflexivity|].
  cbn [map rd_member_tt list_eqb]. rewrite He, andb_true_r. cbn [elem_equiv]. destruct (py_numbers_all _ _ Ep) as (_ & ->). apply numseq_equiv. exact A.
Qed.

Lemma seq_roundtrip tup xs : seq_doc tup xs = true ->
  exists it, save_seq tup xs = Ok it /\ exists v', read_item it = Ok v' /\
    mequiv (if tup then MTuple xs else MList xs) v' = true.
Proof.
  intros Hd. destruct xs as [|x0 r].
  - unfold save_seq. eexists. split; [reflexivity|]. destruct tup; cbn; eexists; split; reflexivity.
  - unfold seq_doc in Hd. destruct x0 as [|s|x| | dt sh t|ys| | | |]; try discriminate.
    + (* strings *)
      destruct (strs_rt _ Hd) as (ms & Hm & Hr & He & Ht). unfold save_seq. cbn [isinstance_number]. rewrite Ht, andb_false_r, Hm.
      eexists. split; [reflexivity|]. destruct tup; cbn [read_item append String.eqb Ascii.eqb Bool.eqb];
        (eexists; split; [reflexivity|]); cbn [mequiv]; rewrite Hr; exact He.
    + (* numbers *)
      destruct (py_numbers (MSc x :: r)) as [l|] eqn:Ep; [|discriminate]. unfold save_seq. cbn [isinstance_number].
      rewrite (vec_of_numbers _ _ Ep Hd). eexists. split; [reflexivity|].
      destruct (py_numbers_all _ _ Ep) as (_ & Hx). destruct tup; cbn [read_item String.eqb Ascii.eqb Bool.eqb];
        (eexists; split; [reflexivity|]); cbn [mequiv]; rewrite Hx, list_eqb_go; apply numseq_equiv; exact Hd.
    + (* arrays *)
      destruct (arrs_rt _ Hd) as (ms & Hm & Hr & He & Ht). unfold save_seq. cbn [isinstance_number]. rewrite Ht, andb_false_r, Hm.
      eexists. split; [reflexivity|]. destruct tup; cbn [read_item append String.eqb Ascii.eqb Bool.eqb];
        (eexists; split; [reflexivity|]); cbn [mequiv]; rewrite Hr; exact He.
    + (* tuples of flat tuples *)
      apply andb_true_iff in Hd. destruct Hd as (Ht & Hd). subst tup. destruct (tts_rt _ Hd) as (ms & Hm & He).
      unfold save_seq. cbn [isinstance_number existsb is_tuple orb andb]. rewrite Hm.
      eexists. split; [reflexivity|]. cbn [read_item String.eqb Ascii.eqb Bool.eqb]. eexists. split; [reflexivity|]. cbn [mequiv]. exact He.
Qed.

(* ---------- the whole value universe, dicts to any depth *)
Section mind.
  Variable P : mval -> Prop.
  Hypothesis HNone : P MNone.
  Hypothesis HStr : forall s, P (MStr s).
  Hypothesis HSc : forall x, P (MSc x).
  Hypothesis HNp : forall x, P (MNp x).
  Hypothesis HArr : forall dt sh t, P (MArr dt sh t).
  Hypothesis HTuple : forall xs, P (MTuple xs).
  Hypothesis HList : forall xs, P (MList xs).
  Hypothesis HDict : forall kvs, Forall (fun kv => P (snd kv)) kvs -> P (MDict kvs).
  Hypothesis HBytes : forall s, P (MBytes s).
  Hypothesis HOther : P MOther.
  Fixpoint mval_ind_dict (v : mval) : P v :=
    match v with
    | MNone => HNone | MStr s => HStr s | MSc x => HSc x | MNp x => HNp x | MArr dt sh t => HArr dt sh t
    | MTuple xs => HTuple xs | MList xs => HList xs
    | MDict kvs => HDict kvs ((fix go (l : list (string * mval)) : Forall (fun kv => P (snd kv)) l :=
                                match l with [] => Forall_nil _ | (k, x) :: r => Forall_cons (k, x) (mval_ind_dict x) (go r) end) kvs)
    | MBytes s => HBytes s | MOther => HOther
    end.
End mind.

Lemma mem_false_get {A} (l : list (string * A)) k : mem k (map fst l) = false -> get l k = None.
Proof.
  induction l as [|[k' v] r IH]; [reflexivity|]. cbn. destruct (String.eqb k k'); [discriminate|exact IH].
Qed.

Definition dict_cmp (D : list (string * mval)) :=
  fix go (l : list (string * mval)) : bool :=
    match l with [] => true | (k, v) :: r => match get D k with Some v' => mequiv v v' | None => false end && go r end.

Lemma dict_cmp_all kvs D :
  (forall k v, In (k, v) kvs -> exists v', get D k = Some v' /\ mequiv v v' = true) -> dict_cmp D kvs = true.
Proof.
  induction kvs as [|[k v] r IH]; intros H; [reflexivity|]. cbn [dict_cmp]. destruct (H k v (or_introl eq_refl)) as (v' & Hg & Hm).
  rewrite Hg, Hm. cbn [andb]. apply IH. intros k0 v0 Hi. apply H. right. exact Hi.
Qed.
Lemma paired_lookup kvs : forall vs', keys_nodup (map fst kvs) = true ->
  Forall2 (fun kv kv' => fst kv = fst kv' /\ mequiv (snd kv) (snd kv') = true) kvs vs' ->
  forall k v, In (k, v) kvs -> exists v', get vs' k = Some v' /\ mequiv v v' = true.
Proof.
  induction kvs as [|[k0 v0] r IH]; intros vs' Hnd Hf k v Hin; [destruct Hin|].
  inversion Hf as [|? [k0' v0'] ? r' (Hk & Hm) Hr]; subst. cbn [fst snd] in *. subst k0'.
  cbn [map fst keys_nodup] in Hnd. apply andb_true_iff in Hnd. destruct Hnd as (Hn0 & Hnd). apply negb_true_iff in Hn0.
  destruct Hin as [Heq|Hin].
  - injection Heq as <- <-. exists v0'. cbn [get]. rewrite String.eqb_refl. auto.
  - destruct (IH r' Hnd Hr k v Hin) as (v' & Hg & Hmm). exists v'. split; [|exact Hmm]. cbn [get].
    destruct (String.eqb k k0) eqn:E; [|exact Hg]. apply String.eqb_eq in E. subst k0. exfalso.
    assert (In k (map fst r)) as Hi by (apply in_map_iff; exists (k, v); auto). apply mem_In in Hi. congruence.
Qed.

Theorem md_roundtrip v : doc v = true ->
  exists it, save_item v = Ok it /\ exists v', read_item it = Ok v' /\ mequiv v v' = true.
Proof.
  induction v as [|s|x|x|dt sh t|xs|xs|kvs IH|s|] using mval_ind_dict; intros Hd; try discriminate.
  - eexists. split; [reflexivity|]. eexists. split; reflexivity.
  - cbn in Hd. apply andb_true_iff in Hd. destruct Hd as (A & B). unfold no_nul in A. apply negb_true_iff in A. apply negb_true_iff in B.
    cbn [save_item]. rewrite A. eexists. split; [reflexivity|]. cbn [read_item String.eqb Ascii.eqb Bool.eqb]. rewrite B.
    eexists. split; [reflexivity|]. cbn. apply String.eqb_refl.
  - cbn in Hd. destruct x as [b|z|f|re im]; cbn [save_item]; rewrite ?Hd; (eexists; split; [reflexivity|]); cbn [read_item String.eqb Ascii.eqb Bool.eqb];
      (eexists; split; [reflexivity|]); apply sc_same_refl.
  - cbn in Hd. cbn [save_item]. rewrite Hd. eexists. split; [reflexivity|]. cbn [read_item String.eqb Ascii.eqb Bool.eqb].
    eexists. split; [reflexivity|]. cbn. rewrite String.eqb_refl, Z.eqb_refl, (list_eqb_refl Nat.eqb _ Nat.eqb_refl). reflexivity.
  - apply (seq_roundtrip true). exact Hd.
  - apply (seq_roundtrip false). exact Hd.
  - cbn [doc] in Hd. apply andb_true_iff in Hd. destruct Hd as (Hnd & Hd).
    (* the three traversals (save, read, compare) walk the same key list *)
    assert (exists its vs', 
      (fix go (l : list (string * mval)) : res (list (string * item)) :=
         match l with [] => Ok [] | (k, x) :: r => if valid_key k then do it <- save_item x; do rest <- go r; Ok ((k, it) :: rest) else Err EOther end) kvs = Ok its /\
      (fix go (l : list (string * item)) : res (list (string * mval)) :=
         match l with [] => Ok [] | (k, x) :: r => do v <- read_item x; do rest <- go r; Ok ((k, v) :: rest) end) its = Ok vs' /\
      map fst vs' = map fst kvs /\
      Forall2 (fun kv kv' => fst kv = fst kv' /\ mequiv (snd kv) (snd kv') = true) kvs vs') as (its & vs' & Hs & Hr & Hk & Hf).
    { clear Hnd. induction IH as [|[k x] r Hx _ IHr]; [exists [], []; repeat split; constructor|].
      apply andb_true_iff in Hd. destruct Hd as (Hkx & Hdr). apply andb_true_iff in Hkx. destruct Hkx as (Hk & Hdx).
      destruct (IHr Hdr) as (its & vs' & Hs & Hr & Hkk & Hf). cbn [snd] in Hx. destruct (Hx Hdx) as (it & Hsi & v' & Hri & Hm).
      exists ((k, it) :: its), ((k, v') :: vs'). rewrite Hk, Hsi. cbn [bind]. rewrite Hs. cbn [bind]. split; [reflexivity|].
      rewrite Hri. cbn [bind]. rewrite Hr. cbn [bind]. split; [reflexivity|]. split; [cbn; rewrite Hkk; reflexivity|].
      constructor; [split; [reflexivity|exact Hm]|exact Hf]. }
    cbn [save_item]. rewrite Hs. eexists. split; [reflexivity|]. cbn [read_item]. rewrite Hr. eexists. split; [reflexivity|].
    cbn [mequiv]. rewrite <- (map_length fst kvs), <- Hk, map_length, Nat.eqb_refl. cbn [andb].
    change (dict_cmp vs' kvs = true). apply dict_cmp_all. apply paired_lookup; assumption.
Qed.

(* ---------- type tags: generated from the sources *)
Definition model_tags : list string :=
  ["dict"; "None"; "string"; "bool"; "number"; "array"; "tuple"; "list"; "tuple_of_tuples"; "tuple_of_arrays";
   "tuple_of_strings"; "list_of_arrays"; "list_of_strings"].
Lemma tags_paired : forallb (fun t => mem t md_tags_read) md_tags_written = true.
Proof. vm_compute. reflexivity. Qed.
Lemma model_tags_are_the_written_ones :
  forallb (fun t => mem t md_tags_written) model_tags = true /\ forallb (fun t => mem t model_tags) md_tags_written = true.
Proof. split; vm_compute; reflexivity. Qed.
