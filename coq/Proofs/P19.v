From Emd Require Import Base.Prelude Model.Forest Model.Effects.

Lemma public_save_unrooted F x ok :
  (forall t, In t F -> tid t = x -> tsroot t = None) ->
  map public (save_unrooted F x ok) = map public F.
Proof.
  intros H. unfold save_unrooted. rewrite map_map. apply map_ext_in. intros t Ht.
  destruct (Nat.eqb (tid t) x) eqn:E; [|reflexivity]. apply Nat.eqb_eq in E. specialize (H t Ht E).
  destruct t as [i b n sr sp m ks]. cbn in *. subst sr. reflexivity.
Qed.
Lemma save_unrooted_keeps_ids F x ok : map tid (save_unrooted F x ok) = map tid F.
Proof. unfold save_unrooted. rewrite map_map. apply map_ext. intros t. destruct (Nat.eqb (tid t) x); [destruct t|]; reflexivity. Qed.
Lemma save_unrooted_still_unrooted F x ok t :
  In t (save_unrooted F x ok) -> tid t = x -> tsroot t = None.
Proof.
  unfold save_unrooted. intros Hin Hid. apply in_map_iff in Hin. destruct Hin as (t0 & <- & Hin).
  destruct (Nat.eqb (tid t0) x) eqn:E; [destruct t0; reflexivity|]. apply Nat.eqb_neq in E. congruence.
Qed.
Lemma public_save_list items : forall F ok,
  (forall x t, In x items -> In t F -> tid t = x -> tsroot t = None) ->
  map public (save_list F items ok) = map public F.
Proof.
  induction items as [|x r IH]; intros F ok H; [reflexivity|]. unfold save_list in *. cbn [fold_left].
  rewrite IH.
  - apply public_save_unrooted. intros t Ht Hid. eapply H; [left; reflexivity|exact Ht|exact Hid].
  - intros y t Hy Ht Hid. unfold save_unrooted in Ht. apply in_map_iff in Ht. destruct Ht as (t0 & <- & Ht0).
    destruct (Nat.eqb (tid t0) x) eqn:E; [destruct t0; reflexivity|]. eapply H; [right; exact Hy|exact Ht0|exact Hid].
Qed.
