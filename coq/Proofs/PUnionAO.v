(* C09: append-over of a runtime tree onto the encoding of a file tree = union + replace, for all trees. *)
From Coq Require Import Permutation Sorted.
From Emd Require Import Base.Prelude Model.H5 Model.Emd Model.Reader Generated.Tables
     Proofs.PTree Proofs.P05 Proofs.P08 Proofs.PFault Proofs.PAppend Proofs.PRead Proofs.PGen Proofs.PUnion Proofs.PSort.

(* ---------- assoc-list surgery of the replace step *)
Lemma del_rename_app {A} (l : list (string * A)) a b v' :
  NoDup (keys l) -> In a (keys l) -> ~ In b (keys l) -> a <> b ->
  del (rename l a b ++ [(a, v')]) b = del l a ++ [(a, v')].
Proof.
  intros Hnd Ha Hb Hab. induction l as [|[k v] r IH]; [destruct Ha|]. cbn [keys map fst] in *. apply NoDup_cons_iff in Hnd. destruct Hnd as (Hk & Hnd).
  cbn [rename]. destruct (String.eqb k a) eqn:E.
  - apply String.eqb_eq in E. subst k. cbn [app del]. rewrite String.eqb_refl. cbn [del]. rewrite String.eqb_refl. reflexivity.
  - cbn [app del]. assert (String.eqb b k = false) as Eb.
    { destruct (String.eqb b k) eqn:E2; [apply String.eqb_eq in E2; subst k; exfalso; apply Hb; left; reflexivity|reflexivity]. }
    rewrite Eb. assert (String.eqb a k = false) as Ea by (rewrite String.eqb_sym; exact E). rewrite Ea. cbn [app]. f_equal.
    apply IH; [exact Hnd| |intros H; apply Hb; right; exact H].
    destruct Ha as [Ha|Ha]; [subst k; rewrite String.eqb_refl in E; discriminate|exact Ha].
Qed.

Lemma del_app_r {A} (l1 l2 : list (string * A)) a : ~ In a (keys l1) -> del (l1 ++ l2) a = l1 ++ del l2 a.
Proof.
  intros H. induction l1 as [|[k v] r IH]; [reflexivity|]. cbn [app del keys map fst] in *.
  destruct (String.eqb a k) eqn:E; [apply String.eqb_eq in E; subst k; exfalso; apply H; left; reflexivity|].
  rewrite IH; [reflexivity|]. intros Hi. apply H. right. exact Hi.
Qed.

Lemma del_enc_kids M nm : NoDup (map rname M) ->
  del (enc_kids M) nm = enc_kids (filter (fun x => negb (String.eqb (rname x) nm)) M).
Proof.
  intros Hnd. induction M as [|y r IH]; [reflexivity|]. inversion Hnd as [|? ? Hy Hr]; subst. cbn [enc_kids map del filter].
  destruct (String.eqb nm (rname y)) eqn:E.
  - apply String.eqb_eq in E. subst nm. rewrite String.eqb_refl. cbn [negb].
    (* nothing else has this name *)
    fold (enc_kids r). clear -Hy. induction r as [|z q IHq]; [reflexivity|]. cbn [filter enc_kids map].
    destruct (String.eqb (rname z) (rname y)) eqn:Ez; [apply String.eqb_eq in Ez; exfalso; apply Hy; left; exact Ez|].
    cbn [negb]. fold (enc_kids q). rewrite IHq at 1; [reflexivity|]. intros H. apply Hy. right. exact H.
  - rewrite String.eqb_sym, E. cbn [negb]. cbn [enc_kids map]. fold (enc_kids r). rewrite (IH Hr). reflexivity.
Qed.

(* ---------- the kept children of a replaced node: its data groups, in name order *)
Lemma kinsert_enc x l : kinsert (rname x, enc x) (enc_kids l) = enc_kids (rinsert x l).
Proof.
  induction l as [|y r IH]; [reflexivity|]. cbn [enc_kids map kinsert rinsert fst].
  destruct (String.leb (rname x) (rname y)); [reflexivity|]. cbn [map]. fold (enc_kids r). rewrite IH. reflexivity.
Qed.
Lemma ksort_enc_kids ks : ksort (enc_kids ks) = enc_kids (rsort ks).
Proof.
  induction ks as [|x r IH]; [reflexivity|]. cbn [enc_kids map ksort fold_right rsort]. fold (enc_kids r). fold (ksort (enc_kids r)). fold (rsort r).
  rewrite IH. apply kinsert_enc.
Qed.

Section SortedUnique.
  Context {A : Type}.
  Let R := @kle A.
  Lemma kle_trans : forall x y z : string * A, R x y -> R y z -> R x z.
  Proof. unfold R, kle. intros x y z. apply leb_trans. Qed.
  Lemma ls_strong l : LocallySorted R l -> StronglySorted R l.
  Proof. intros H. apply Sorted_StronglySorted; [exact kle_trans|]. apply Sorted_LocallySorted_iff. exact H. Qed.
  Lemma strong_ls l : StronglySorted R l -> LocallySorted R l.
  Proof. intros H. apply Sorted_LocallySorted_iff. apply StronglySorted_Sorted. exact H. Qed.
  Lemma strong_filter p l : StronglySorted R l -> StronglySorted R (filter p l).
  Proof.
    induction 1 as [|x r Hs IH Hall]; [constructor|]. cbn [filter]. destruct (p x); [|exact IH]. constructor; [exact IH|].
    rewrite Forall_forall in *. intros y Hy. apply filter_In in Hy. apply Hall. apply Hy.
  Qed.
  Lemma nodup_keys_same (l : list (string * A)) k v1 v2 : NoDup (keys l) -> In (k, v1) l -> In (k, v2) l -> v1 = v2.
  Proof.
    induction l as [|[k' v'] r IH]; intros Hnd H1 H2; [destruct H1|]. cbn [keys map fst] in Hnd. apply NoDup_cons_iff in Hnd. destruct Hnd as (Hk & Hnd).
    destruct H1 as [E1|H1], H2 as [E2|H2].
    - congruence.
    - injection E1 as -> ->. exfalso. apply Hk. apply in_map_iff. exists (k, v2). auto.
    - injection E2 as -> ->. exfalso. apply Hk. apply in_map_iff. exists (k, v1). auto.
    - apply IH; assumption.
  Qed.
  Lemma sorted_perm_eq : forall l1 l2 : list (string * A),
    StronglySorted R l1 -> StronglySorted R l2 -> Permutation l1 l2 -> NoDup (keys l1) -> l1 = l2.
  Proof.
    induction l1 as [|x r IH]; intros l2 S1 S2 P Hnd.
    - apply Permutation_nil in P. congruence.
    - destruct l2 as [|y r2]; [apply Permutation_sym, Permutation_nil in P; discriminate|].
      apply StronglySorted_inv in S1. destruct S1 as (S1 & A1). apply StronglySorted_inv in S2. destruct S2 as (S2 & A2).
      rewrite Forall_forall in A1, A2.
      assert (x = y) as ->.
      { assert (In y (x :: r)) as Hy by (eapply Permutation_in; [apply Permutation_sym; exact P|left; reflexivity]).
        assert (In x (y :: r2)) as Hx by (eapply Permutation_in; [exact P|left; reflexivity]).
        destruct Hy as [->|Hy]; [reflexivity|]. destruct Hx as [->|Hx]; [reflexivity|].
        pose proof (A1 y Hy) as L1. pose proof (A2 x Hx) as L2. unfold R, kle in L1, L2.
        pose proof (String.leb_antisym _ _ L1 L2) as Ek. destruct x as [kx vx], y as [ky vy]. cbn [fst] in Ek. subst ky.
        f_equal. eapply (nodup_keys_same ((kx, vx) :: r)); [exact Hnd|left; reflexivity|right; exact Hy]. }
      f_equal. apply IH; [exact S1|exact S2|eapply Permutation_cons_inv; exact P|].
      cbn [keys map] in Hnd. apply NoDup_cons_iff in Hnd. apply Hnd.
  Qed.
End SortedUnique.

Lemma kept_children km :
  NoDup (map rname (rkids km)) -> Forall (fun k => rcls k <> CRoot) (rkids km) ->
  filter (fun kv => is_data_group (snd kv)) (ksort (olinks (enc km))) = enc_kids (rsort (rkids km)).
Proof.
  intros Hnd Hcls. rewrite <- ksort_enc_kids. rewrite enc_links'.
  apply sorted_perm_eq.
  - apply strong_filter. apply ls_strong. apply ksort_sorted.
  - apply ls_strong. apply ksort_sorted.
  - eapply Permutation_trans; [apply filter_perm; apply ksort_perm|]. rewrite filter_app.
    assert (filter (fun kv : string * obj => is_data_group (snd kv)) (shallow_links km) = []) as ->.
    { assert (forall l, (forall kv, In kv l -> is_data_group (snd kv) = false) -> filter (fun kv : string * obj => is_data_group (snd kv)) l = []) as Hf.
      { induction l as [|x q IHq]; intros H; [reflexivity|]. cbn [filter]. rewrite (H x (or_introl eq_refl)). apply IHq. intros kv Hkv. apply H. right. exact Hkv. }
      apply Hf. apply shallow_not_data. }
    cbn [app].
    assert (filter (fun kv : string * obj => is_data_group (snd kv)) (enc_kids (rkids km)) = enc_kids (rkids km)) as ->.
    { clear Hnd. induction Hcls as [|x q Hx _ IHq]; [reflexivity|]. cbn [enc_kids map filter snd]. rewrite (enc_is_data_group x Hx). fold (enc_kids q). rewrite IHq. reflexivity. }
    apply Permutation_sym. apply ksort_perm.
  - (* the kept children have distinct names *)
    eapply Permutation_NoDup; [apply Permutation_map; apply Permutation_sym; apply filter_perm; apply ksort_perm|].
    rewrite filter_app. unfold keys. rewrite map_app. 
    assert (forall l, (forall kv, In kv l -> is_data_group (snd kv) = false) -> filter (fun kv : string * obj => is_data_group (snd kv)) l = []) as Hf.
    { induction l as [|x q IHq]; intros H; [reflexivity|]. cbn [filter]. rewrite (H x (or_introl eq_refl)). apply IHq. intros kv Hkv. apply H. right. exact Hkv. }
    rewrite (Hf _ (shallow_not_data km)). cbn [map app].
    assert (map fst (filter (fun kv : string * obj => is_data_group (snd kv)) (enc_kids (rkids km))) = map rname (rkids km)) as ->; [|exact Hnd].
    clear Hnd Hf. induction Hcls as [|x q Hx _ IHq]; [reflexivity|]. cbn [enc_kids map filter snd]. rewrite (enc_is_data_group x Hx). cbn [map fst]. fold (enc_kids q). rewrite IHq. reflexivity.
Qed.

(* ---------- the replace step on the parent's link list, exactly *)
Lemma overwrite_exact n a l old :
  NoDup (keys l) ->
  get l (rname n) = Some old -> get l (tmpname (rname n)) = None ->
  let keep := filter (fun kv => is_data_group (snd kv)) (ksort (olinks old)) in
  NoDup (keys keep) -> (forall k, In k (keys keep) -> ~ In k (keys (shallow_links n))) ->
  overwrite_in_parent n (G a l) = Ok (G a (del l (rname n) ++ [(rname n, G (node_tags n) (shallow_links n ++ keep))])).
Proof.
  intros HndL Hold Htmp keep Hnd Hdisj. unfold overwrite_in_parent. cbn [olinks]. rewrite Hold. set (name := rname n) in *. set (tmp := tmpname name) in *.
  fold keep. unfold move_link, has. rewrite Hold, Htmp. cbn [bind].
  set (l1 := rename l name tmp).
  assert (name <> tmp) as Hne by apply tmpname_neq.
  assert (~ In tmp (keys l)) as HtmpL by (apply get_none_notin; exact Htmp).
  assert (~ In name (keys l1)) as Hn1 by (apply keys_rename_notin; assumption).
  unfold write_single_node. unfold add_link at 1. fold name. assert (has l1 name = false) as Hh by (apply has_false_iff; exact Hn1). rewrite Hh. cbn [bind].
  unfold in_child. cbn [update_at]. rewrite get_app_r by (apply get_none_notin; exact Hn1). cbn [get]. rewrite String.eqb_refl. cbn [update_at].
  cbv beta. rewrite node_shallow_eq. rewrite (fold_add_links keep (node_tags n) (shallow_links n) Hnd Hdisj). cbn [bind].
  rewrite set_app_last by (apply get_none_notin; exact Hn1).
  unfold del_link. assert (get l1 tmp = Some old) as Ht1 by (apply get_rename_new; assumption).
  unfold has. rewrite (get_app_l _ [(name, G (node_tags n) (shallow_links n ++ keep))] _ _ Ht1).
  subst l1. rewrite del_rename_app; [reflexivity|exact HndL|eapply get_in_keys; exact Hold|exact HtmpL|exact Hne].
Qed.

(* ---------- union + replace *)
(* the children of a file node after a runtime node n has been appended over it: the file-only ones stay; each child of
   n follows, a new one as it is, one that replaces a file child with its own content and, below it, the same thing
   again with that file child's children (which the replace step re-links in name order) *)
Fixpoint aom (n : rnode) (ks : list rnode) {struct n} : list rnode :=
  match n with
  | RN _ _ _ _ _ kn =>
      filter (fun km => negb (mem (rname km) (map rname kn))) ks ++
      map (fun k => match rget ks (rname k) with
                    | Some km => RN (rcls k) (rname k) (rtok k) (rrank k) (rmds k) (aom k (rsort (rkids km)))
                    | None => k end) kn
  end.
Definition replaced (k km : rnode) : rnode := RN (rcls k) (rname k) (rtok k) (rrank k) (rmds k) (aom k (rsort (rkids km))).
Lemma aom_eq n ks : aom n ks = filter (fun km => negb (mem (rname km) (map rname (rkids n)))) ks ++
                                map (fun k => match rget ks (rname k) with Some km => replaced k km | None => k end) (rkids n).
Proof. destruct n; reflexivity. Qed.

(* ---------- what a node writes itself is distinctly named *)
Lemma dims_keys r : map fst (map dim_dataset (seq 0 r)) = map (fun i => "dim" +++ nat_str i) (seq 0 r).
Proof. rewrite map_map. reflexivity. Qed.
Lemma shallow_keys_nodup n : NoDup (keys (shallow_links n)).
Proof.
  unfold shallow_links, keys. rewrite map_app.
  assert (NoDup (map fst (own (rcls n) (rtok n) (rrank n)))) as Hown.
  { unfold own. destruct (rcls n); cbn [map fst]; try (repeat constructor; intros []).
    constructor.
    - rewrite dims_keys. intros H. apply in_map_iff in H. destruct H as (i & Hi & _). cbn in Hi. discriminate.
    - rewrite dims_keys. apply FinFun.Injective_map_NoDup; [|apply seq_NoDup].
      intros a b H. cbn in H. injection H as H. apply nat_str_inj. exact H. }
  destruct (rmds n); cbn [map app fst]; [exact Hown|]. constructor; [|exact Hown].
  intros H. assert (get (own (rcls n) (rtok n) (rrank n)) "metadatabundle" = None) as Hg by apply own_no_bundle.
  apply get_none_notin in Hg. apply Hg. exact H.
Qed.

(* ---------- when the replace + union is defined *)
Fixpoint compat_ao (n : rnode) (S : list (string * obj)) (M : list rnode) {struct n} : Prop :=
  NoDup (map rname (rkids n)) /\
  NoDup (keys S ++ map rname M) /\
  (forall k, In k (rkids n) -> ~ In (rname k) (keys S) /\ ~ In (tmpname (rname k)) (keys S ++ map rname M ++ map rname (rkids n))) /\
  (fix go (l : list rnode) : Prop :=
     match l with
     | [] => True
     | k :: q =>
         (match rget M (rname k) with
          | None => ok_tree k
          | Some km => NoDup (map rname (rkids km)) /\ Forall (fun x => rcls x <> CRoot) (rkids km) /\
                       (forall x, In x (rkids km) -> ~ In (rname x) (keys (shallow_links k))) /\
                       compat_ao k (shallow_links k) (rsort (rkids km))
          end) /\ go q
     end) (rkids n).
Definition kid_ok (M : list rnode) (k : rnode) : Prop :=
  match rget M (rname k) with
  | None => ok_tree k
  | Some km => NoDup (map rname (rkids km)) /\ Forall (fun x => rcls x <> CRoot) (rkids km) /\
               (forall x, In x (rkids km) -> ~ In (rname x) (keys (shallow_links k))) /\
               compat_ao k (shallow_links k) (rsort (rkids km))
  end.
Lemma compat_ao_inv n S M : compat_ao n S M <->
  NoDup (map rname (rkids n)) /\ NoDup (keys S ++ map rname M) /\
  (forall k, In k (rkids n) -> ~ In (rname k) (keys S) /\ ~ In (tmpname (rname k)) (keys S ++ map rname M ++ map rname (rkids n))) /\
  Forall (kid_ok M) (rkids n).
Proof.
  destruct n as [c nm t r md ks]. cbn [compat_ao rkids]. split; intros (A & B & C & D); (split; [exact A|split; [exact B|split; [exact C|]]]).
  - clear -D. induction ks as [|k0 q0 IH0]; constructor; destruct D; auto.
  - clear -D. induction D; cbn; auto.
Qed.

Definition stepA (M0 : list rnode) (M : list rnode) (k : rnode) : list rnode :=
  match rget M0 (rname k) with
  | Some km => filter (fun x => negb (String.eqb (rname x) (rname k))) M ++ [replaced k km]
  | None => M ++ [k]
  end.

Lemma rname_replaced k km : rname (replaced k km) = rname k. Proof. reflexivity. Qed.
Lemma enc_replaced k km : enc (replaced k km) = G (node_tags k) (shallow_links k ++ enc_kids (aom k (rsort (rkids km)))).
Proof. rewrite enc_eq. reflexivity. Qed.

Lemma names_filter_incl (p : rnode -> bool) M x : In x (map rname (filter p M)) -> In x (map rname M).
Proof. intros H. apply in_map_iff in H. destruct H as (y & <- & Hy). apply filter_In in Hy. apply in_map. apply Hy. Qed.
Lemma nodup_names_filter (p : rnode -> bool) M : NoDup (map rname M) -> NoDup (map rname (filter p M)).
Proof.
  induction M as [|y r IH]; intros H; [constructor|]. inversion H as [|? ? Hy Hr]; subst. cbn [filter]. destruct (p y); [|apply IH; exact Hr].
  cbn [map]. constructor; [intros Hi; apply Hy; eapply names_filter_incl; exact Hi|apply IH; exact Hr].
Qed.
Lemma rget_filter_other M nm nm' : nm' <> nm -> rget (filter (fun x => negb (String.eqb (rname x) nm)) M) nm' = rget M nm'.
Proof.
  intros Hne. induction M as [|y r IH]; [reflexivity|]. cbn [filter]. destruct (String.eqb (rname y) nm) eqn:E; cbn [negb].
  - apply String.eqb_eq in E. cbn [rget]. destruct (String.eqb nm' (rname y)) eqn:E2; [apply String.eqb_eq in E2; congruence|exact IH].
  - cbn [rget]. destruct (String.eqb nm' (rname y)); [reflexivity|exact IH].
Qed.
Lemma rget_snoc_other M y nm : nm <> rname y -> rget (M ++ [y]) nm = rget M nm.
Proof.
  intros Hne. rewrite rget_app. destruct (rget M nm); [reflexivity|]. cbn [rget].
  destruct (String.eqb nm (rname y)) eqn:E; [apply String.eqb_eq in E; contradiction|reflexivity].
Qed.
Lemma filter_names_notin M nm : ~ In nm (map rname (filter (fun x => negb (String.eqb (rname x) nm)) M)).
Proof.
  intros H. apply in_map_iff in H. destruct H as (y & Hy & Hin). apply filter_In in Hin. destruct Hin as (_ & Hn).
  apply negb_true_iff in Hn. rewrite Hy, String.eqb_refl in Hn. discriminate.
Qed.

(* ---------- processing the runtime children one by one gives the closed form *)
Definition updA (M0 : list rnode) (k : rnode) : rnode := match rget M0 (rname k) with Some km => replaced k km | None => k end.
Definition notin (l : list rnode) (x : rnode) : bool := negb (mem (rname x) (map rname l)).
Definition stateA (M0 done : list rnode) : list rnode := filter (notin done) M0 ++ map (updA M0) done.
Lemma rname_updA M0 k : rname (updA M0 k) = rname k.
Proof. unfold updA. destruct (rget M0 (rname k)); reflexivity. Qed.
Lemma mem_app s l1 l2 : mem s (l1 ++ l2) = mem s l1 || mem s l2.
Proof. induction l1 as [|x r IH]; [reflexivity|]. cbn [app mem]. destruct (String.eqb s x); [reflexivity|exact IH]. Qed.

Lemma stateA_step M0 done k : ~ In (rname k) (map rname done) -> stepA M0 (stateA M0 done) k = stateA M0 (done ++ [k]).
Proof.
  intros Hk. unfold stepA, stateA. rewrite map_app. cbn [map].
  assert (forall x, notin (done ++ [k]) x = notin done x && negb (String.eqb (rname x) (rname k))) as Hnotin.
  { intros x. unfold notin. rewrite map_app, mem_app. cbn [map mem]. destruct (mem (rname x) (map rname done)); cbn [orb negb andb]; [reflexivity|].
    destruct (String.eqb (rname x) (rname k)); reflexivity. }
  destruct (rget M0 (rname k)) as [km|] eqn:E.
  - rewrite filter_app. rewrite <- app_assoc. f_equal.
    + rewrite (filter_ext _ _ Hnotin). clear. induction M0 as [|y r IH]; [reflexivity|]. cbn [filter].
      destruct (notin done y); cbn [andb filter]; [destruct (negb (String.eqb (rname y) (rname k))); [f_equal|]; exact IH|exact IH].
    + f_equal; [|unfold updA; rewrite E; reflexivity].
      (* what has been processed is named differently *)
      clear -Hk. induction done as [|y r IH]; [reflexivity|]. cbn [map filter]. rewrite rname_updA.
      destruct (String.eqb (rname y) (rname k)) eqn:Ey; [apply String.eqb_eq in Ey; exfalso; apply Hk; left; exact Ey|]. cbn [negb]. f_equal.
      apply IH. intros H. apply Hk. right. exact H.
  - rewrite <- app_assoc. f_equal.
    + apply filter_ext_in. intros x Hx. rewrite Hnotin.
      assert (String.eqb (rname x) (rname k) = false) as ->; [|rewrite andb_true_r; reflexivity].
      destruct (String.eqb (rname x) (rname k)) eqn:Ex; [|reflexivity]. apply String.eqb_eq in Ex. apply rget_none_iff in E. exfalso. apply E. rewrite <- Ex. apply in_map. exact Hx.
    + f_equal. unfold updA. rewrite E. reflexivity.
Qed.
Lemma fold_stepA M0 : forall todo done, NoDup (map rname (done ++ todo)) ->
  fold_left (stepA M0) todo (stateA M0 done) = stateA M0 (done ++ todo).
Proof.
  induction todo as [|k q IH]; intros done Hd; [rewrite app_nil_r; reflexivity|]. cbn [fold_left].
  assert (~ In (rname k) (map rname done)) as Hk.
  { rewrite map_app in Hd. apply NoDup_app_inv in Hd. destruct Hd as (_ & _ & Hdis). intros H. apply (Hdis _ H). left. reflexivity. }
  rewrite (stateA_step M0 done k Hk). replace (done ++ k :: q) with ((done ++ [k]) ++ q) in * by (rewrite <- app_assoc; reflexivity).
  apply IH. exact Hd.
Qed.
Lemma stateA_nil M0 : stateA M0 [] = M0.
Proof. unfold stateA, notin. cbn [map mem negb]. rewrite app_nil_r. induction M0 as [|y r IH]; [reflexivity|]. cbn [filter]. rewrite IH. reflexivity. Qed.
Lemma fold_is_aom n M : NoDup (map rname (rkids n)) -> fold_left (stepA M) (rkids n) M = aom n M.
Proof.
  intros Hnd. rewrite <- (stateA_nil M) at 2. rewrite (fold_stepA M (rkids n) [] Hnd). cbn [app]. rewrite aom_eq. reflexivity.
Qed.

Theorem ao_union n : forall a S M, compat_ao n S M ->
  append_branch true n (G a (S ++ enc_kids M)) = Ok (G a (S ++ enc_kids (aom n M))).
Proof.
  induction n as [c nm t r md kn IH] using rnode_ind'. intros a S M0 Hc.
  apply compat_ao_inv in Hc. cbn [rkids] in Hc. destruct Hc as (Hndn & HndSM & Hnames & Hkids).
  rewrite <- (fold_is_aom (RN c nm t r md kn) M0 Hndn). cbn [rkids].
  cbn [append_branch rkids].
  match goal with |- fold_left ?F kn _ = _ => set (step := F) end.
  assert (forall todo M,
            NoDup (map rname todo) -> NoDup (keys S ++ map rname M) ->
            (forall k, In k todo -> In k kn) ->
            (forall k, In k todo -> rget M (rname k) = rget M0 (rname k)) ->
            (forall x, In x (map rname M) -> In x (map rname M0) \/ In x (map rname kn)) ->
            fold_left step todo (Ok (G a (S ++ enc_kids M))) = Ok (G a (S ++ enc_kids (fold_left (stepA M0) todo M)))) as Hinv.
  { induction todo as [|k q IHq]; intros M Hndt HndM Hsub Hagree Hfrom; [reflexivity|].
    inversion Hndt as [|? ? Hkq Hq]; subst. cbn [fold_left]. unfold step at 2. cbn [bind olinks].
    pose proof (Hsub k (or_introl eq_refl)) as Hkn. destruct (Hnames k Hkn) as (HkS & Htmp).
    rewrite Forall_forall in Hkids. pose proof (Hkids k Hkn) as Hok. unfold kid_ok in Hok.
    assert (get S (rname k) = None) as HgS by (apply get_none_notin; exact HkS).
    assert (NoDup (keys (S ++ enc_kids M))) as HndL by (rewrite keys_app, keys_enc_kids; exact HndM).
    assert (NoDup (map rname M)) as HndMn by (apply NoDup_app_inv in HndM; apply HndM).
    assert (forall x, In x (keys S) -> ~ In x (map rname M)) as HdisSM by (intros x Hx Hx'; apply NoDup_app_inv in HndM; destruct HndM as (_ & _ & Hd); exact (Hd x Hx Hx')).
    assert (~ In (tmpname (rname k)) (keys (S ++ enc_kids M))) as HtmpL.
    { rewrite keys_app, keys_enc_kids. intros H. apply in_app_or in H. apply Htmp. apply in_or_app. destruct H as [H|H]; [left; exact H|right].
      apply in_or_app. destruct (Hfrom _ H); [left|right]; assumption. }
    assert (forall k0, In k0 q -> rname k0 <> rname k) as Hqne by (intros k0 Hk0 Heq; apply Hkq; rewrite <- Heq; apply in_map; exact Hk0).
    unfold stepA at 2. rewrite <- (Hagree k (or_introl eq_refl)) in Hok |- *.
    destruct (rget M (rname k)) as [km|] eqn:EkM.
    - (* replaced *)
      destruct Hok as (Hndkm & Hclskm & Hclash & Hrec).
      assert (mem (rname k) (map fst (filter (fun kv => is_group (snd kv) && has_gtype (snd kv)) (S ++ enc_kids M))) = true) as ->.
      { apply mem_In. apply in_map_iff. exists (rname k, enc km). split; [reflexivity|]. apply filter_In. split; [|apply enc_has_gtype].
        apply in_or_app. right. apply get_In. apply get_enc_kids_some. exact EkM. }
      assert (get (S ++ enc_kids M) (rname k) = Some (enc km)) as Hold by (rewrite get_app_r by exact HgS; apply get_enc_kids_some; exact EkM).
      pose proof (kept_children km Hndkm Hclskm) as Hkeep.
      assert (NoDup (map rname (rsort (rkids km)))) as Hndrs by (eapply Permutation_NoDup; [apply Permutation_map; apply Permutation_sym; apply rsort_perm|exact Hndkm]).
      rewrite (overwrite_exact k a (S ++ enc_kids M) (enc km) HndL Hold (proj2 (get_none_notin _ _) HtmpL)).
      + rewrite Hkeep. cbn [bind].
        rewrite del_app_r by exact HkS. rewrite (del_enc_kids M (rname k) HndMn).
        set (Mf := filter (fun x => negb (String.eqb (rname x) (rname k))) M).
        unfold in_child. cbn [update_at]. rewrite <- app_assoc.
        assert (get (enc_kids Mf) (rname k) = None) as HgMf by (apply get_none_notin; rewrite keys_enc_kids; apply filter_names_notin).
        assert (get (S ++ enc_kids Mf ++ [(rname k, G (node_tags k) (shallow_links k ++ enc_kids (rsort (rkids km))))]) (rname k)
                = Some (G (node_tags k) (shallow_links k ++ enc_kids (rsort (rkids km))))) as Hg.
        { rewrite get_app_r by exact HgS. rewrite get_app_r by exact HgMf. apply get_first. }
        rewrite Hg. cbn [update_at].
        rewrite Forall_forall in IH. rewrite (IH k Hkn _ _ _ Hrec). cbn [bind].
        assert (set (S ++ enc_kids Mf ++ [(rname k, G (node_tags k) (shallow_links k ++ enc_kids (rsort (rkids km))))]) (rname k)
                    (G (node_tags k) (shallow_links k ++ enc_kids (aom k (rsort (rkids km)))))
                = S ++ enc_kids (Mf ++ [replaced k km])) as Hset.
        { rewrite app_assoc. rewrite set_app_last.
          - unfold enc_kids at 3. rewrite map_app. cbn [map]. rewrite <- app_assoc. rewrite enc_replaced. reflexivity.
          - rewrite get_app_r by exact HgS. exact HgMf. }
        rewrite Hset. apply IHq.
        * exact Hq.
        * rewrite map_app. cbn [map]. rewrite app_assoc. apply NoDup_app_intro.
          -- apply NoDup_app_intro; [apply NoDup_app_inv in HndM; apply HndM|apply nodup_names_filter; exact HndMn|].
             intros x Hx Hx'. apply (HdisSM x Hx). eapply names_filter_incl. exact Hx'.
          -- repeat constructor. intros [].
          -- intros x Hx [<-|[]]. apply in_app_or in Hx. destruct Hx as [Hx|Hx]; [exact (HkS Hx)|]. revert Hx. apply filter_names_notin.
        * intros k0 Hk0. apply Hsub. right. exact Hk0.
        * intros k0 Hk0. rewrite <- (Hagree k0 (or_intror Hk0)). rewrite rget_snoc_other by (apply Hqne; exact Hk0).
          apply rget_filter_other. apply Hqne. exact Hk0.
        * intros x Hx. rewrite map_app in Hx. apply in_app_or in Hx. destruct Hx as [Hx|[<-|[]]]; [apply Hfrom; eapply names_filter_incl; exact Hx|].
          right. change (In (rname k) (map rname kn)). apply in_map. exact Hkn.
      + rewrite Hkeep, keys_enc_kids. exact Hndrs.
      + rewrite Hkeep, keys_enc_kids. intros x Hx. apply in_map_iff in Hx. destruct Hx as (y & <- & Hy). apply Hclash. apply (proj1 (rsort_in _ _)). exact Hy.
    - (* new *)
      assert (~ In (rname k) (keys (S ++ enc_kids M))) as Hnotin.
      { rewrite keys_app, keys_enc_kids. intros H. apply in_app_or in H. destruct H as [H|H]; [exact (HkS H)|]. apply rget_none_iff in EkM. contradiction. }
      assert (mem (rname k) (map fst (filter (fun kv => is_group (snd kv) && has_gtype (snd kv)) (S ++ enc_kids M))) = false) as ->.
      { apply mem_false_iff. intros H. apply Hnotin. apply in_map_iff in H. destruct H as (kv & <- & Hkv). apply filter_In in Hkv. apply in_map. apply Hkv. }
      rewrite (new_child_written_whole k _ _ Hok Hnotin).
      assert (enc_kids M ++ [(rname k, enc k)] = enc_kids (M ++ [k])) as Hek by (unfold enc_kids; rewrite map_app; reflexivity).
      rewrite <- app_assoc, Hek. apply IHq.
      * exact Hq.
      * rewrite map_app. cbn [map]. rewrite app_assoc. apply NoDup_app_intro; [exact HndM|repeat constructor; intros []|].
        intros x Hx [<-|[]]. apply Hnotin. rewrite keys_app, keys_enc_kids. exact Hx.
      * intros k0 Hk0. apply Hsub. right. exact Hk0.
      * intros k0 Hk0. rewrite <- (Hagree k0 (or_intror Hk0)). apply rget_snoc_other. apply Hqne. exact Hk0.
      * intros x Hx. rewrite map_app in Hx. apply in_app_or in Hx. destruct Hx as [Hx|[<-|[]]]; [apply Hfrom; exact Hx|]. right. apply in_map. exact Hkn. }
  apply Hinv; auto.
Qed.

(* ---------- on the encoding of a file tree *)
Theorem appendover_on_enc m n : compat_ao n (shallow_links m) (rkids m) ->
  append_branch true n (enc m) = Ok (enc (with_kids m (aom n (rkids m)))).
Proof.
  intros Hc. rewrite enc_eq. rewrite (ao_union n _ _ _ Hc). f_equal. destruct m; reflexivity.
Qed.

(* save(path, root, mode = any append-over mode) onto the file holding tree m (root without metadata of its own) *)
Theorem appendover_save c c0 m root md tr :
  In md appendovermode -> tr <> Some false ->
  rcls m = CRoot -> rname root = rname m -> rmds root = [] -> compat_ao root (shallow_links m) (rkids m) ->
  write_node c (H5 (whole_file c0 m)) root [] (WA md tr None) = (Ok tt, H5 (whole_file c0 (with_kids m (aom root (rkids m))))).
Proof.
  intros Hmd Htr Hc Hname Hmds Hcompat.
  unfold write_node. cbn [mode emdpath tree slot_exists].
  assert (run_prelude prelude_order md None true = Ok md) as ->.
  { destruct Hmd as [<-|[<-|[<-|[<-|[<-|[]]]]]]; vm_compute; reflexivity. }
  assert (mem md overwritemode = false) as -> by (destruct Hmd as [<-|[<-|[<-|[<-|[<-|[]]]]]]; reflexivity).
  assert (mem md writemode = false) as -> by (destruct Hmd as [<-|[<-|[<-|[<-|[<-|[]]]]]]; reflexivity).
  assert (mem md appendovermode = true) as Hao by (destruct Hmd as [<-|[<-|[<-|[<-|[<-|[]]]]]]; reflexivity).
  cbn [slot_exists negb andb orb]. rewrite andb_false_r. cbn [orb].
  assert (is_emd_file (whole_file c0 m) = true) as -> by (apply fresh_file_detected; exact Hc).
  unfold append_existing. cbn [rwalk emdpath tree]. rewrite Hao.
  rewrite (rootgroups_whole c0 m Hc). rewrite Hname. cbn [mem]. rewrite String.eqb_refl.
  unfold in_child, whole_file. cbn [update_at]. rewrite get_first. cbn [update_at].
  rewrite Hmds. cbn [append_root_metadata bind set]. rewrite String.eqb_refl.
  assert (rname (with_kids m (aom root (rkids m))) = rname m) as Hn by (destruct m; reflexivity).
  destruct tr as [[|]|]; try congruence; rewrite get_first; cbn [update_at]; rewrite (appendover_on_enc m root Hcompat); cbn [bind set];
    rewrite String.eqb_refl; rewrite Hn; reflexivity.
Qed.

(* ---------- a boolean version of the hypothesis *)
Fixpoint compat_aob (n : rnode) (S : list (string * obj)) (M : list rnode) {struct n} : bool :=
  nodupb (map rname (rkids n)) && nodupb (keys S ++ map rname M) &&
  forallb (fun k => negb (mem (rname k) (keys S)) && negb (mem (tmpname (rname k)) (keys S ++ map rname M ++ map rname (rkids n)))) (rkids n) &&
  (fix go (l : list rnode) : bool :=
     match l with
     | [] => true
     | k :: q =>
         (match rget M (rname k) with
          | None => ok_treeb k
          | Some km => nodupb (map rname (rkids km)) && forallb (fun x => match rcls x with CRoot => false | _ => true end) (rkids km) &&
                       forallb (fun x => negb (mem (rname x) (keys (shallow_links k)))) (rkids km) &&
                       compat_aob k (shallow_links k) (rsort (rkids km))
          end) && go q
     end) (rkids n).
Lemma compat_aob_sound n : forall S M, compat_aob n S M = true -> compat_ao n S M.
Proof.
  induction n as [c nm t r md kn IH] using rnode_ind'. intros S M H. cbn [compat_aob rkids] in H.
  apply andb_true_iff in H. destruct H as (H123 & H4). apply andb_true_iff in H123. destruct H123 as (H12 & H3). apply andb_true_iff in H12. destruct H12 as (H1 & H2).
  apply compat_ao_inv. cbn [rkids]. split; [apply nodupb_sound; exact H1|]. split; [apply nodupb_sound; exact H2|]. split.
  - intros k Hk. rewrite forallb_forall in H3. specialize (H3 k Hk). apply andb_true_iff in H3. destruct H3 as (A & B).
    apply negb_true_iff in A, B. split; apply mem_false_iff; assumption.
  - clear -IH H4. induction kn as [|k q IHq]; constructor; apply andb_true_iff in H4; destruct H4 as (A & B); inversion IH as [|? ? IHk IHq']; subst.
    + unfold kid_ok. destruct (rget M (rname k)) as [km|]; [|apply ok_treeb_sound; exact A].
      apply andb_true_iff in A. destruct A as (A123 & A4). apply andb_true_iff in A123. destruct A123 as (A12 & A3). apply andb_true_iff in A12. destruct A12 as (A1 & A2).
      split; [apply nodupb_sound; exact A1|]. split.
      * apply Forall_forall. intros x Hx. rewrite forallb_forall in A2. specialize (A2 x Hx). destruct (rcls x); try discriminate; intros E; discriminate.
      * split; [|apply IHk; exact A4]. intros x Hx. rewrite forallb_forall in A3. specialize (A3 x Hx). apply negb_true_iff in A3. apply mem_false_iff. exact A3.
    + apply IHq; assumption.
Qed.
