(* C08: the read path opens files read-only (generated table); a partial read returns what the full read
   holds at that position. *)
From Emd Require Import Base.Prelude Model.H5 Model.Emd Model.Reader Generated.Tables.

Definition read_path_functions : list string :=
  ["read"; "_get_EMD_rootgroups"; "_is_EMD_file"; "_get_EMD_version"; "_get_UUID"; "__init__"; "print_h5_tree"].
Definition read_path_open_modes : list string :=
  map (fun x => snd x) (filter (fun x => mem (snd (fst x)) read_path_functions) open_modes).

Lemma read_path_readonly : Forall (fun m => m = "r") read_path_open_modes /\ read_path_open_modes <> [].
Proof. split; [vm_compute; repeat constructor|vm_compute; discriminate]. Qed.

Lemma rsort_in x l : In x (rsort l) <-> In x l.
Proof.
  assert (forall y l0, In x (rinsert y l0) <-> x = y \/ In x l0) as Hi.
  { intros y l0. induction l0 as [|z r IH]; cbn; [intuition|]. destruct (String.leb (rname y) (rname z)); cbn; [intuition|]. rewrite IH. intuition. }
  induction l as [|y r IH]; cbn; [tauto|]. rewrite Hi, IH. intuition.
Qed.

(* the full read holds, for every tagged data-node child link, exactly what the partial reads of that child
   (tree=False for the node, populate for its branch) return *)
Lemma populate_member a l ks k c n sub :
  populate (G a l) = Ok ks -> In (k, c) l -> is_data_group c = true ->
  read_single_node k c = Ok n -> populate c = Ok sub -> In (with_kids n sub) ks.
Proof.
  cbn [populate]. match goal with |- (do ks0 <- ?F l; _) = _ -> _ => set (go := F) end.
  destruct (go l) as [ks0|] eqn:E; cbn [bind]; [|discriminate]. intros H; injection H as <-. intros Hin Hd Hr Hp.
  apply rsort_in. clear -E Hin Hd Hr Hp. revert ks0 E. induction l as [|[k' c'] r IH]; intros ks0 E; [destruct Hin|].
  cbn in E. destruct Hin as [Heq|Hin].
  - injection Heq as -> ->. rewrite Hd, Hr in E. cbn [bind] in E. rewrite Hp in E. cbn [bind] in E.
    destruct (go r); cbn [bind] in E; [|discriminate]. injection E as <-. left. reflexivity.
  - destruct (is_data_group c').
    + destruct (read_single_node k' c'); cbn [bind] in E; [|discriminate]. destruct (populate c'); cbn [bind] in E; [|discriminate].
      destruct (go r) as [rest|] eqn:Er; cbn [bind] in E; [|discriminate]. injection E as <-. right. apply IH; [exact Hin|reflexivity].
    + apply IH; assumption.
Qed.
