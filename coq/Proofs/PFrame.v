(* Frame property (C10): a save into an existing file touches only the targeted top-level tree;
   every other tree and the header (UUID included) are left exactly as they were. *)
From Emd Require Import Base.Prelude Model.H5 Model.Emd Generated.Tables Proofs.PTree.

Definition only (X : string) (f f' : obj) : Prop :=
  oattrs f' = oattrs f /\ forall k, k <> X -> get (olinks f') k = get (olinks f) k.

Lemma only_refl X f : only X f f. Proof. split; auto. Qed.
Lemma only_trans X f g h : only X f g -> only X g h -> only X f h.
Proof. intros [A B] [C D]. split; [congruence|]. intros k Hk. rewrite D, B; auto. Qed.

Lemma only_update_at X p w f f' : update_at f (X :: p) w = Ok f' -> only X f f'.
Proof.
  cbn [update_at]. destruct f as [a l|]; [|discriminate]. destruct (get l X) as [c|]; [|discriminate].
  destruct (update_at c p w) as [c'|]; cbn [bind]; [|discriminate]. intros H; injection H as <-.
  split; [reflexivity|]. intros k Hk. cbn [olinks]. apply get_set_other. exact Hk.
Qed.
Lemma only_in_child X w f f' : in_child X w f = Ok f' -> only X f f'.
Proof. apply only_update_at. Qed.
Lemma only_add_link X c f f' : add_link X c f = Ok f' -> only X f f'.
Proof.
  unfold add_link. destruct f as [a l|]; [|discriminate]. destruct (has l X); [discriminate|]. intros H; injection H as <-.
  split; [reflexivity|]. intros k Hk. cbn [olinks]. assert (get [(X, c)] k = None) as E by (cbn; destruct (String.eqb k X) eqn:E; [apply String.eqb_eq in E; congruence|reflexivity]).
  destruct (get l k) eqn:Eg; [apply get_app_l; exact Eg|rewrite get_app_r by exact Eg; exact E].
Qed.

Lemma only_write_from_root root tp tr f f' : write_from_root root tp tr f = Ok f' -> only (rname root) f f'.
Proof.
  unfold write_from_root, write_single_node, set_root_tag. intros H.
  destruct (add_link (rname root) (node_shallow root) f) as [f1|] eqn:E1; cbn [bind] in H; [|discriminate].
  destruct (in_child (rname root) (fun g => Ok (set_attr "emd_group_type" (AStr "root") g)) f1) as [f2|] eqn:E2; cbn [bind] in H; [|discriminate].
  apply only_add_link in E1. apply only_in_child in E2. pose proof (only_trans _ _ _ _ E1 E2) as E12.
  destruct tp as [|x q].
  - destruct tr as [[|]|]; [apply only_in_child in H|injection H as <-|apply only_in_child in H]; eauto using only_trans.
  - destruct (rwalk root (x :: q)); [|discriminate]. destruct tr as [[|]|]; apply only_in_child in H; eauto using only_trans.
Qed.

Lemma only_overwrite_at f h n ntp f' : overwrite_at f h n ntp = Ok f' -> exists X q, h = X :: q /\ only X f f'.
Proof.
  unfold overwrite_at. destruct h as [|r below]; [discriminate|]. destruct (_ && _); [|discriminate].
  destruct ntp; [discriminate|]. intros H. exists r, below. split; [reflexivity|]. eapply only_update_at. exact H.
Qed.

Lemma only_ow_and_branch f X q n ntp ao tr f' : ow_and_branch f (X :: q) n ntp ao tr = Ok f' -> only X f f'.
Proof.
  unfold ow_and_branch. intros H.
  destruct (match tr with Some _ => if ao then overwrite_at f (X :: q) n ntp else Ok f | None => Ok f end) as [f1|] eqn:E1; cbn [bind] in H; [|discriminate].
  assert (only X f f1) as O1.
  { destruct tr as [b|]; [destruct ao|]; try (injection E1 as <-; apply only_refl).
    destruct (only_overwrite_at _ _ _ _ _ E1) as (X' & q' & Eh & O). injection Eh as <- <-. exact O. }
  destruct tr as [[|]|]; [apply only_update_at in H|injection H as <-|apply only_update_at in H]; eauto using only_trans.
Qed.

Lemma emd_target_head f rn tpth h : emd_target f rn tpth = Ok h -> exists q, h = rn :: q.
Proof.
  unfold emd_target. destruct (get (olinks f) rn); [|discriminate]. destruct (validate_treepath o tpth); try discriminate.
  intros H; injection H as <-. eauto.
Qed.

Definition target_root (root : rnode) (a : wargs) (f : obj) : string :=
  match mem (rname root) (rootgroups f), emdpath a with
  | false, Some ep => fst (parse_emdpath ep)
  | _, _ => rname root end.

Ltac step H :=
  match type of H with
  | (do _ <- ?x ; _) = Ok _ => let E := fresh "E" in destruct x eqn:E; cbn [bind] in H; [|discriminate]
  | (if ?x then _ else _) = Ok _ => let E := fresh "E" in destruct x eqn:E; try discriminate
  | (let '(_, _) := ?x in _) = Ok _ => let E := fresh "E" in destruct x eqn:E
  | match ?x with _ => _ end = Ok _ => let E := fresh "E" in destruct x eqn:E; try discriminate
  end.

Ltac finish :=
  match goal with
  | H : Ok _ = Ok _ |- _ => injection H as <-; eauto using only_refl, only_trans
  | H : update_at _ (_ :: _) _ = Ok _ |- _ => apply only_update_at in H; eauto using only_refl, only_trans
  | H : ow_and_branch _ (_ :: _) _ _ _ _ = Ok _ |- _ => apply only_ow_and_branch in H; eauto using only_refl, only_trans
  | H : in_child _ _ _ = Ok _ |- _ => apply only_in_child in H; eauto using only_refl, only_trans
  | H : write_from_root _ _ _ _ = Ok _ |- _ => apply only_write_from_root in H; eauto using only_refl, only_trans
  end.

Theorem append_existing_frame root tp a m f f' :
  append_existing root tp a m f = Ok f' -> only (target_root root a f) f f'.
Proof.
  unfold append_existing, target_root. intros H.
  destruct (rwalk root tp) as [data|] eqn:Ew; [|discriminate].
  destruct (mem (rname root) (rootgroups f)) eqn:Ein; destruct (emdpath a) as [ep|] eqn:Eep.
  - (* diffmerge B *)
    step H. destruct (parse_emdpath ep) as [rn treepath] eqn:Ep.
    step H. destruct (emd_target_head _ _ _ _ E0) as (q & ->).
    step H. apply only_in_child in E1. cbn [tl] in H.
    destruct tp as [|x tq].
    + step H. apply only_ow_and_branch in H. eauto using only_trans.
    + step H. step H.
      * step H; [apply only_ow_and_branch in H; eauto using only_trans|].
        step H; [apply only_ow_and_branch in H; eauto using only_trans|].
        step H. step H. apply only_ow_and_branch in H. eauto using only_trans.
      * step H. destruct (tree a) as [[|]|]; apply only_update_at in H; eauto using only_trans.
  - (* diffmerge A *)
    step H. apply only_in_child in E.
    destruct tp as [|x tq].
    + destruct (tree a) as [[|]|]; try (apply only_in_child in H; eauto using only_trans). injection H as <-. exact E.
    + step H. step H.
      * destruct (tree a) as [[|]|].
        -- apply only_ow_and_branch in H. eauto using only_trans.
        -- destruct (mem m appendovermode); [|injection H as <-; exact E].
           destruct (only_overwrite_at _ _ _ _ _ H) as (X & q & Eh & O). injection Eh as <- <-. eauto using only_trans.
        -- apply only_update_at in H. eauto using only_trans.
      * destruct (tree a) as [[|]|]; apply only_update_at in H; eauto using only_trans.
  - (* foreign placement under the tree named by emdpath *)
    step H. destruct (parse_emdpath ep) as [rn treepath] eqn:Ep. cbn [fst].
    step H. destruct (emd_target_head _ _ _ _ E0) as (q & ->).
    destruct tp as [|x tq]; destruct (tree a) as [[|]|]; try discriminate; apply only_update_at in H; exact H.
  - (* a new tree *)
    apply only_write_from_root in H. exact H.
Qed.

(* lifted to write(): for append / append-over into an existing file (m = the mode after the prelude) *)
Theorem write_node_frame c f root tp a m f' :
  run_prelude prelude_order (mode a) (emdpath a) true = Ok m ->
  mem m overwritemode = false -> mem m writemode = false ->
  write_node c (H5 f) root tp a = (Ok tt, H5 f') ->
  only (target_root root a f) f f'.
Proof.
  intros Hp Ho Hw. unfold write_node. cbn [slot_exists]. rewrite Hp, Ho. cbn [slot_exists]. rewrite Hw.
  rewrite andb_false_r. cbn [orb]. destruct (is_emd_file f); [|discriminate].
  destruct (append_existing root tp a m f) as [f1|] eqn:E; [|discriminate]. intros H; injection H as <-.
  eapply append_existing_frame. exact E.
Qed.

(* consequences in the property's words *)
Corollary other_trees_and_header_untouched c f root tp a m f' r' :
  run_prelude prelude_order (mode a) (emdpath a) true = Ok m ->
  mem m overwritemode = false -> mem m writemode = false ->
  write_node c (H5 f) root tp a = (Ok tt, H5 f') ->
  r' <> target_root root a f ->
  lookup f' [r'] = lookup f [r'] /\ oattrs f' = oattrs f.
Proof.
  intros Hp Ho Hw H Hr. destruct (write_node_frame _ _ _ _ _ _ _ Hp Ho Hw H) as (A & B). split; [|exact A].
  specialize (B r' Hr). destruct f as [a0 l|], f' as [a1 l1|]; cbn [lookup olinks get] in *.
  - rewrite B. reflexivity.
  - rewrite <- B. reflexivity.
  - rewrite B. reflexivity.
  - reflexivity.
Qed.

From Emd Require Import Model.Reader.
(* a read without a path on a file holding several trees reports exactly the root names *)
Lemma read_multi_root f tr r1 r2 rest : rootgroups f = r1 :: r2 :: rest -> read_emd f None tr = Ok (RNames (rootgroups f)).
Proof. intros H. unfold read_emd. rewrite H. reflexivity. Qed.

(* a new root name in append mode adds exactly one top-level link *)
Lemma new_tree_adds_one_link root tp tr f f' : write_from_root root tp tr f = Ok f' ->
  exists c, get (olinks f') (rname root) = Some c /\ get (olinks f) (rname root) = None.
Proof.
  unfold write_from_root, write_single_node, set_root_tag. intros H.
  destruct (add_link (rname root) (node_shallow root) f) as [f1|] eqn:E1; cbn [bind] in H; [|discriminate].
  assert (get (olinks f) (rname root) = None /\ exists c1, get (olinks f1) (rname root) = Some c1) as (Hn & c1 & Hc1).
  { unfold add_link in E1. destruct f as [a l|]; [|discriminate]. destruct (has l (rname root)) eqn:Eh; [discriminate|]. injection E1 as <-.
    cbn [olinks]. unfold has in Eh. destruct (get l (rname root)) eqn:Eg; [discriminate|]. split; [reflexivity|].
    exists (node_shallow root). rewrite get_app_r by exact Eg. cbn. rewrite String.eqb_refl. reflexivity. }
  assert (forall g w g', in_child (rname root) w g = Ok g' -> exists c', get (olinks g') (rname root) = Some c') as Hkeep.
  { intros g w g'. unfold in_child. cbn [update_at]. destruct g as [a l|]; [|discriminate]. destruct (get l (rname root)); [|discriminate].
    cbn [update_at]. destruct (w o); cbn [bind]; [|discriminate]. intros E; injection E as <-. cbn [olinks]. rewrite get_set_same. eauto. }
  destruct (in_child (rname root) (fun g => Ok (set_attr "emd_group_type" (AStr "root") g)) f1) as [f2|] eqn:E2; cbn [bind] in H; [|discriminate].
  destruct (Hkeep _ _ _ E2) as (c2 & Hc2).
  assert (exists c, get (olinks f') (rname root) = Some c) as (c & Hc).
  { destruct tp as [|x q].
    - destruct tr as [[|]|]; [eapply Hkeep; exact H|injection H as <-; eauto|eapply Hkeep; exact H].
    - destruct (rwalk root (x :: q)); [|discriminate]. destruct tr as [[|]|]; eapply Hkeep; exact H. }
  eauto.
Qed.
