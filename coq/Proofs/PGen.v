(* Second generation of trees: what read returned can be saved again and reads back as the very same tree
   (canon is idempotent and keeps trees writable / readable).  Used by C16. *)
From Coq Require Import Permutation Sorted.
From Emd Require Import Base.Prelude Model.H5 Model.Emd Model.Reader Generated.Tables Proofs.PTree Proofs.P05 Proofs.P08 Proofs.PRead.

(* ---------- sorting a sorted list changes nothing *)
Definition kle {A} (x y : string * A) : Prop := String.leb (fst x) (fst y) = true.
Definition rle (x y : rnode) : Prop := String.leb (rname x) (rname y) = true.

Lemma leb_false_flip a b : String.leb a b = false -> String.leb b a = true.
Proof. intros H. destruct (String.leb_total a b) as [H1|H1]; [congruence|exact H1]. Qed.

Lemma kinsert_sorted {A} (x : string * A) l : LocallySorted kle l -> LocallySorted kle (kinsert x l).
Proof.
  induction 1 as [|y|y z r Hs IH Hyz]; cbn [kinsert].
  - constructor.
  - destruct (String.leb (fst x) (fst y)) eqn:E; [constructor; [constructor|exact E]|constructor; [constructor|apply leb_false_flip; exact E]].
  - destruct (String.leb (fst x) (fst y)) eqn:E.
    + constructor; [constructor; assumption|exact E].
    + cbn [kinsert] in IH. destruct (String.leb (fst x) (fst z)) eqn:E2.
      * constructor; [exact IH|apply leb_false_flip; exact E].
      * constructor; [exact IH|exact Hyz].
Qed.
Lemma ksort_sorted {A} (l : list (string * A)) : LocallySorted kle (ksort l).
Proof. induction l as [|x r IH]; cbn; [constructor|apply kinsert_sorted; exact IH]. Qed.
Lemma ksort_of_sorted {A} (l : list (string * A)) : LocallySorted kle l -> ksort l = l.
Proof.
  induction 1 as [|y|y z r Hs IH Hyz]; [reflexivity|reflexivity|]. cbn [ksort fold_right] in *. rewrite IH. cbn [kinsert]. unfold kle in Hyz. rewrite Hyz. reflexivity.
Qed.
Lemma ksort_idem {A} (l : list (string * A)) : ksort (ksort l) = ksort l.
Proof. apply ksort_of_sorted, ksort_sorted. Qed.

Lemma rinsert_sorted x l : LocallySorted rle l -> LocallySorted rle (rinsert x l).
Proof.
  induction 1 as [|y|y z r Hs IH Hyz]; cbn [rinsert].
  - constructor.
  - destruct (String.leb (rname x) (rname y)) eqn:E; [constructor; [constructor|exact E]|constructor; [constructor|apply leb_false_flip; exact E]].
  - destruct (String.leb (rname x) (rname y)) eqn:E.
    + constructor; [constructor; assumption|exact E].
    + cbn [rinsert] in IH. destruct (String.leb (rname x) (rname z)) eqn:E2.
      * constructor; [exact IH|apply leb_false_flip; exact E].
      * constructor; [exact IH|exact Hyz].
Qed.
Lemma rsort_sorted l : LocallySorted rle (rsort l).
Proof. induction l as [|x r IH]; cbn; [constructor|apply rinsert_sorted; exact IH]. Qed.
Lemma rsort_of_sorted l : LocallySorted rle l -> rsort l = l.
Proof.
  induction 1 as [|y|y z r Hs IH Hyz]; [reflexivity|reflexivity|]. cbn [rsort fold_right] in *. rewrite IH. cbn [rinsert]. unfold rle in Hyz. rewrite Hyz. reflexivity.
Qed.
Lemma map_canon_sorted l : LocallySorted rle l -> LocallySorted rle (map canon l).
Proof.
  induction 1 as [|y|y z r Hs IH Hyz]; cbn [map]; constructor; try assumption. unfold rle. rewrite !rname_canon. exact Hyz.
Qed.

(* ---------- canon is idempotent *)
Lemma ptok_idem c t : ptok c (ptok c t) = ptok c t. Proof. destruct c; reflexivity. Qed.
Lemma prank_idem c r : prank c (prank c r) = prank c r. Proof. destruct c; reflexivity. Qed.

Theorem canon_idem n : canon (canon n) = canon n.
Proof.
  induction n as [c nm t r m ks IH] using rnode_ind'. cbn [canon]. rewrite ptok_idem, prank_idem, ksort_idem. f_equal.
  rewrite rsort_canon. rewrite rsort_of_sorted by apply rsort_sorted.
  rewrite rsort_canon. rewrite map_map. apply map_ext_in. intros a Ha. repeat apply (proj1 (rsort_in _ _)) in Ha. rewrite Forall_forall in IH. apply IH. exact Ha.
Qed.

(* ---------- what read returned is writable and readable again *)
Lemma rsort_perm l : Permutation (rsort l) l.
Proof.
  assert (forall x l0, Permutation (rinsert x l0) (x :: l0)) as Hi.
  { intros x l0. induction l0 as [|y r IH]; cbn; [apply Permutation_refl|]. destruct (String.leb (rname x) (rname y)); [apply Permutation_refl|].
    eapply Permutation_trans; [apply perm_skip; exact IH|apply perm_swap]. }
  induction l as [|x r IH]; cbn; [constructor|]. eapply Permutation_trans; [apply Hi|apply perm_skip; exact IH].
Qed.

Lemma ksort_nil_iff {A} (l : list (string * A)) : ksort l = [] <-> l = [].
Proof.
  split; [|intros ->; reflexivity]. intros H. destruct l as [|x r]; [reflexivity|]. exfalso.
  pose proof (ksort_perm (x :: r)) as P. rewrite H in P. apply Permutation_nil in P. discriminate.
Qed.
Lemma shallow_keys_canon n : keys (shallow_links (canon n)) = keys (shallow_links n).
Proof.
  destruct n as [c nm t r m ks]. unfold shallow_links. cbn [canon rmds rcls rtok rrank]. rewrite !keys_app. f_equal.
  - destruct m as [|m0 mr]; [reflexivity|]. destruct (ksort (m0 :: mr)) eqn:E; [apply (proj1 (ksort_nil_iff _)) in E; discriminate|reflexivity].
  - destruct c; reflexivity.
Qed.

Lemma names_canon_kids ks : Permutation (map rname (rsort (map canon ks))) (map rname ks).
Proof.
  eapply Permutation_trans; [apply Permutation_map; apply rsort_perm|]. rewrite map_map. erewrite map_ext; [apply Permutation_refl|]. intros a. apply rname_canon.
Qed.

Theorem ok_tree_canon n : ok_tree n -> ok_tree (canon n).
Proof.
  induction n as [c nm t r m ks IH] using rnode_ind'. intros Hok. apply ok_tree_inv in Hok. destruct Hok as (Hnd & Hcl & Hks). cbn [rkids] in *.
  apply ok_tree_inv. assert (rkids (canon (RN c nm t r m ks)) = rsort (map canon ks)) as -> by reflexivity. repeat split.
  - eapply Permutation_NoDup; [apply Permutation_sym; apply names_canon_kids|exact Hnd].
  - intros k Hk. rewrite shallow_keys_canon. apply (proj1 (rsort_in _ _)) in Hk. apply in_map_iff in Hk. destruct Hk as (k0 & <- & Hk0). rewrite rname_canon. apply Hcl. exact Hk0.
  - apply Forall_forall. intros k Hk. apply (proj1 (rsort_in _ _)) in Hk. apply in_map_iff in Hk. destruct Hk as (k0 & <- & Hk0).
    rewrite Forall_forall in IH, Hks. apply IH; [exact Hk0|apply Hks; exact Hk0].
Qed.

Theorem rd_tree_canon n : rd_tree n -> rd_tree (canon n).
Proof.
  induction n as [c nm t r m ks IH] using rnode_ind'. intros Hrd. apply rd_tree_inv in Hrd. cbn [rkids] in Hrd.
  apply rd_tree_inv. assert (rkids (canon (RN c nm t r m ks)) = rsort (map canon ks)) as -> by reflexivity.
  apply Forall_forall. intros k Hk. apply (proj1 (rsort_in _ _)) in Hk. apply in_map_iff in Hk. destruct Hk as (k0 & <- & Hk0).
  rewrite Forall_forall in IH, Hrd. destruct (Hrd k0 Hk0) as (A & B & C). rewrite rcls_canon, rname_canon. repeat split; [exact A|exact B|apply IH; assumption].
Qed.

(* ---------- generations: save, read, save what was read, read again *)
Theorem tree_second_generation c c' root :
  rcls root = CRoot -> ok_tree root -> rd_tree root -> rname root <> "" -> no_slash (rname root) = true ->
  exists f1 f2,
    fresh_file c root [] (Some true) = Ok f1 /\ read (H5 f1) None None = Ok (RTree (canon root) RetRoot) /\
    fresh_file c' (canon root) [] (Some true) = Ok f2 /\ read (H5 f2) None None = Ok (RTree (canon root) RetRoot) /\
    read (H5 f2) None (Some true) = Ok (RTree (canon root) (ret_of (canon root))).
Proof.
  intros Hc Hok Hrd Hne Hns.
  destruct (save_then_read c root Hc Hok Hrd Hne Hns) as (f1 & S1 & _ & R1).
  assert (rcls (canon root) = CRoot) as Hc2 by (rewrite rcls_canon; exact Hc).
  assert (rname (canon root) <> "") as Hne2 by (rewrite rname_canon; exact Hne).
  assert (no_slash (rname (canon root)) = true) as Hns2 by (rewrite rname_canon; exact Hns).
  destruct (save_then_read c' (canon root) Hc2 (ok_tree_canon _ Hok) (rd_tree_canon _ Hrd) Hne2 Hns2) as (f2 & S2 & R2a & R2).
  rewrite canon_idem in R2, R2a. exists f1, f2. repeat split; assumption.
Qed.
