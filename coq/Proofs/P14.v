(* C14: array calibrations match the data. *)
From Coq Require Import ZArith List Bool Lia PrimFloat.
From Emd Require Import Base.Prelude Model.Arr.

Lemma ramp_length a s n : length (ramp a s n) = n.
Proof. unfold ramp. rewrite map_length, seq_length. reflexivity. Qed.

(* every successful expansion has exactly the axis length -- for all ints and ALL binary64 values *)
Lemma unpack_len d n v : unpack_dim d n = Ok v -> dimv_len v = n.
Proof.
  unfold unpack_dim. destruct d as [|x|xs|ss]; cbn [length].
  - destruct (Nat.eqb 2 n) eqn:E; intros H; injection H as <-; cbn; [apply Nat.eqb_eq in E; exact E|apply ramp_length].
  - destruct (Nat.eqb 2 n) eqn:E; intros H; injection H as <-; cbn; [apply Nat.eqb_eq in E; exact E|apply ramp_length].
  - destruct (Nat.eqb (length xs) n) eqn:E; [intros H; injection H as <-; apply Nat.eqb_eq in E; exact E|].
    destruct xs as [|a [|b [|c r]]]; try discriminate. intros H; injection H as <-. cbn. apply ramp_length.
  - destruct (Nat.eqb (length ss) n) eqn:E; [|discriminate]. intros H; injection H as <-. apply Nat.eqb_eq in E. exact E.
Qed.

Definition iota (n : nat) : list num := map (fun i => NI (Z.of_nat i)) (seq 0 n).

(* an omitted entry becomes 0 .. N-1 *)
Lemma unpack_none n : unpack_dim DNone n = Ok (VNum (iota n)).
Proof.
  unfold unpack_dim. cbn [length]. destruct (Nat.eqb 2 n) eqn:E.
  - apply Nat.eqb_eq in E. subst n. reflexivity.
  - unfold ramp, iota. f_equal. f_equal. apply map_ext. intros i. unfold ramp_at, num_sub. f_equal. lia.
Qed.

(* a pair of integers expands to the exact arithmetic ramp with those first two values *)
Lemma unpack_int_pair a b n : unpack_dim (DList [NI a; NI b]) n = Ok (VNum (map (fun i => NI (a + (b - a) * Z.of_nat i)) (seq 0 n))).
Proof.
  unfold unpack_dim. cbn [length]. destruct (Nat.eqb 2 n) eqn:E.
  - apply Nat.eqb_eq in E. subst n. cbn [seq map]. repeat f_equal; lia.
  - reflexivity.
Qed.
Lemma unpack_int_number x n : unpack_dim (DNumber (NI x)) n = Ok (VNum (map (fun i => NI (x * Z.of_nat i)) (seq 0 n))).
Proof.
  unfold unpack_dim. cbn [length]. destruct (Nat.eqb 2 n) eqn:E.
  - apply Nat.eqb_eq in E. subst n. cbn [seq map]. repeat f_equal; lia.
  - unfold ramp. f_equal. f_equal. apply map_ext. intros i. unfold ramp_at, num_sub. f_equal. lia.
Qed.
(* for floats: entry i is the binary64 value  start + (b - a) * i , each operation rounded once *)
Lemma unpack_float_pair a b n : n <> 2 ->
  unpack_dim (DList [a; b]) n = Ok (VNum (map (ramp_at a (num_sub b a)) (seq 0 n))).
Proof. intros H. unfold unpack_dim. cbn [length]. destruct (Nat.eqb 2 n) eqn:E; [apply Nat.eqb_eq in E; congruence|reflexivity]. Qed.
(* a full-length vector is kept exactly as given *)
Lemma unpack_full xs n : length xs = n -> unpack_dim (DList xs) n = Ok (VNum xs).
Proof. intros H. unfold unpack_dim. rewrite H, Nat.eqb_refl. reflexivity. Qed.

(* ---------- the invariant *)
Definition arr_inv (a : arr) : Prop :=
  length (a_dims a) = a_rank a /\ length (a_units a) = a_rank a /\ length (a_names a) = a_rank a /\
  Forall2 (fun d n => dimv_len d = n) (a_dims a) (a_shape a).

Lemma unpack_all_spec ds shape vs : unpack_all ds shape = Ok vs -> Forall2 (fun d n => dimv_len d = n) vs shape.
Proof.
  revert shape vs. induction ds as [|d r IH]; intros shape vs; destruct shape as [|n s]; cbn; try discriminate.
  - intros H; injection H as <-. constructor.
  - destruct (unpack_dim d n) as [v|] eqn:E; cbn [bind]; [|discriminate]. destruct (unpack_all r s) as [vs0|] eqn:E2; cbn [bind]; [|discriminate].
    intros H; injection H as <-. constructor; [eapply unpack_len; exact E|apply IH; exact E2].
Qed.
Lemma Forall2_length {A B} (P : A -> B -> Prop) l l' : Forall2 P l l' -> length l = length l'.
Proof. induction 1; cbn; congruence. Qed.

Theorem init_inv datashape dims units names labels a : arr_init datashape dims units names labels = Ok a -> arr_inv a.
Proof.
  unfold arr_init. destruct (match labels with LNone => Ok (datashape, None) | _ => _ end) as [[shape depth]|]; cbn [bind]; [|discriminate].
  destruct (unpack_all _ shape) as [vs|] eqn:E; cbn [bind]; [|discriminate]. intros H; injection H as <-.
  pose proof (unpack_all_spec _ _ _ E) as F. unfold arr_inv, a_rank. cbn. rewrite !pad_to_length. rewrite (Forall2_length _ _ _ F). auto.
Qed.

Lemma Forall2_set_nth_gen {A} (P : A -> nat -> Prop) : forall l shape n x,
  Forall2 P l shape -> P x (nth n shape 0) -> Forall2 P (set_nth l n x) shape.
Proof.
  induction l as [|y r IH]; intros shape n x F Hx; [inversion F; constructor|].
  inversion F as [|? m ? s Hy Fr]; subst. destruct n; cbn in *; constructor; auto.
Qed.

(* every later change of a dim vector, unit or name keeps the invariant *)
Theorem set_dim_inv a n d u nm a' : arr_inv a -> set_dim a n d u nm = Ok a' -> arr_inv a'.
Proof.
  intros (A & B & C & D). unfold set_dim. destruct (Nat.ltb n (a_rank a)); [|discriminate].
  destruct (unpack_dim d (nth n (a_shape a) 0)) as [v|] eqn:E; cbn [bind]; [|discriminate]. intros H; injection H as <-.
  unfold arr_inv, a_rank in *. cbn. rewrite set_nth_length. repeat split; auto.
  - destruct u; [rewrite set_nth_length|]; exact B.
  - destruct nm; [rewrite set_nth_length|]; exact C.
  - apply Forall2_set_nth_gen; [exact D|eapply unpack_len; exact E].
Qed.
Theorem set_dim_units_inv a n u a' : arr_inv a -> set_dim_units a n u = Ok a' -> arr_inv a'.
Proof.
  intros (A & B & C & D). unfold set_dim_units. destruct (Nat.ltb n (a_rank a)); [|discriminate]. intros H; injection H as <-.
  unfold arr_inv, a_rank in *. cbn. rewrite set_nth_length. auto.
Qed.
Theorem set_dim_name_inv a n s a' : arr_inv a -> set_dim_name a n s = Ok a' -> arr_inv a'.
Proof.
  intros (A & B & C & D). unfold set_dim_name. destruct (Nat.ltb n (a_rank a)); [|discriminate]. intros H; injection H as <-.
  unfold arr_inv, a_rank in *. cbn. rewrite set_nth_length. auto.
Qed.

(* ---------- units and names supplied by the caller are kept exactly as given; defaults otherwise *)
Lemma pad_to_given {A} (l : list A) : forall n (dflt : nat -> A) i k d, k < length l -> k < n -> nth k (pad_to l n dflt i) d = nth k l d.
Proof.
  induction l as [|x r IH]; intros n dflt i k d Hk Hn; [cbn in Hk; lia|]. destruct n; [lia|]. cbn [pad_to]. destruct k; [reflexivity|].
  cbn [nth]. apply IH; cbn in Hk; lia.
Qed.
Lemma pad_to_default {A} (l : list A) : forall n (dflt : nat -> A) i k d, length l <= k -> k < n -> nth k (pad_to l n dflt i) d = dflt (i + k).
Proof.
  induction l as [|x r IH]; intros n dflt i k d Hk Hn.
  - clear Hk. revert i k Hn. induction n as [|n IHn]; intros i k Hn; [lia|]. cbn [pad_to]. destruct k; [cbn; f_equal; lia|]. cbn [nth]. rewrite IHn by lia. f_equal. lia.
  - destruct n; [lia|]. cbn [pad_to]. destruct k; [cbn in Hk; lia|]. cbn [nth]. rewrite IH by (cbn in Hk; lia). f_equal. lia.
Qed.

Theorem init_units_kept datashape dims units names labels a k : arr_init datashape dims units names labels = Ok a ->
  k < length units -> k < a_rank a -> nth k (a_units a) "" = nth k units "".
Proof.
  unfold arr_init. destruct (match labels with LNone => Ok (datashape, None) | _ => _ end) as [[shape depth]|]; cbn [bind]; [|discriminate].
  destruct (unpack_all _ shape) as [vs|] eqn:E; cbn [bind]; [|discriminate]. intros H; injection H as <-. unfold a_rank. cbn. intros H1 H2. apply pad_to_given; assumption.
Qed.
Theorem init_names_kept datashape dims units names labels a k : arr_init datashape dims units names labels = Ok a ->
  k < length names -> k < a_rank a -> nth k (a_names a) "" = nth k names "".
Proof.
  unfold arr_init. destruct (match labels with LNone => Ok (datashape, None) | _ => _ end) as [[shape depth]|]; cbn [bind]; [|discriminate].
  destruct (unpack_all _ shape) as [vs|] eqn:E; cbn [bind]; [|discriminate]. intros H; injection H as <-. unfold a_rank. cbn. intros H1 H2. apply pad_to_given; assumption.
Qed.
Theorem init_default_units datashape dims units names labels a k : arr_init datashape dims units names labels = Ok a ->
  length units <= k -> k < a_rank a ->
  nth k (a_units a) "" = if is_none (nth k (pad_to dims (a_rank a) (fun _ => DNone) 0) DNone) then "pixels" else "unknown".
Proof.
  unfold arr_init. destruct (match labels with LNone => Ok (datashape, None) | _ => _ end) as [[shape depth]|]; cbn [bind]; [|discriminate].
  destruct (unpack_all _ shape) as [vs|] eqn:E; cbn [bind]; [|discriminate]. intros H; injection H as <-. unfold a_rank. cbn. intros H1 H2.
  rewrite pad_to_default by assumption. reflexivity.
Qed.

(* ---------- stacks *)
Theorem stack_shape d s dims units names ls a : ls <> LNone -> arr_init (d :: s) dims units names ls = Ok a ->
  a_depth a = Some d /\ a_shape a = s /\ a_rank a = length s.
Proof.
  intros Hl. unfold arr_init. destruct ls; [congruence| |]; cbn [bind];
    (destruct (unpack_all _ s) as [vs|] eqn:E; cbn [bind]; [|discriminate]; intros H; injection H as <-; unfold a_rank; cbn; auto).
Qed.
Lemma label_index_bound ls l i j : label_index ls l i = Some j -> i <= j.
Proof.
  revert i j. induction ls as [|x r IH]; intros i j; cbn; [discriminate|]. destruct (label_index r l (S i)) eqn:E.
  - intros H; injection H as <-. apply IH in E. lia.
  - destruct (String.eqb x l); [intros H; injection H as <-; lia|discriminate].
Qed.
Lemma label_index_nodup ls : NoDup ls -> forall k i, k < length ls -> label_index ls (nth k ls "") i = Some (i + k).
Proof.
  induction ls as [|x r IH]; intros Hnd k i Hk; [cbn in Hk; lia|]. inversion Hnd as [|? ? Hx Hr]; subst. cbn [label_index]. destruct k.
  - cbn [nth]. assert (label_index r x (S i) = None) as ->.
    { clear -Hx. revert i. induction r as [|y q IHq]; intros i; [reflexivity|]. cbn. rewrite IHq by (intros H; apply Hx; right; exact H).
      destruct (String.eqb y x) eqn:E; [apply String.eqb_eq in E; subst; exfalso; apply Hx; left; reflexivity|reflexivity]. }
    rewrite String.eqb_refl. f_equal. lia.
  - cbn [nth]. rewrite IH by (auto; cbn in Hk; lia). f_equal. lia.
Qed.
(* indexing by the i-th label returns slice i with the same calibrations (labels pairwise distinct) *)
Theorem slice_by_label a k : NoDup (a_labels a) -> a_depth a <> None -> k < length (a_labels a) ->
  get_slice a (nth k (a_labels a) "") = Ok (k, ARR (a_shape a) None (a_dims a) (a_units a) (a_names a) []).
Proof.
  intros Hnd Hd Hk. unfold get_slice. destruct (a_depth a); [|congruence]. rewrite (label_index_nodup _ Hnd k 0 Hk). reflexivity.
Qed.
