(* C02 / C16: the calibration part of the Array codec round-trips. *)
From Coq Require Import ZArith List Bool Lia PrimFloat.
From Emd Require Import Base.Prelude Model.Arr Proofs.P14.

(* numerically equal element by element (numpy ==), or the very same vector *)
Definition dimv_equiv (d d' : dimv) : Prop :=
  d' = d \/ exists xs ys, d = VNum xs /\ d' = VNum ys /\ list_eqb num_eqb xs ys = true.

(* a vector that passes the linearity test comes back, re-expanded from its first two entries, elementwise equal:
   true by construction because writer and reader use the same expansion and the test is exact equality *)
Lemma linear_roundtrip xs n : dim_is_linear (VNum xs) n = true ->
  exists e, read_dim (stored_dim (VNum xs) n) n = Ok (VNum e) /\ list_eqb num_eqb xs e = true.
Proof.
  intros H. unfold stored_dim. rewrite H. unfold read_dim. unfold dim_is_linear in H.
  destruct (unpack_dim (DList (firstn 2 xs)) n) as [[e|ss]|]; try discriminate. exists e. auto.
Qed.
Lemma nonlinear_roundtrip d n : dim_is_linear d n = false -> dimv_len d = n -> read_dim (stored_dim d n) n = Ok d.
Proof.
  intros H Hl. unfold stored_dim. destruct d as [xs|ss]; [rewrite H|]; unfold read_dim.
  - apply unpack_full. exact Hl.
  - unfold unpack_dim. cbn in Hl. rewrite Hl, Nat.eqb_refl. reflexivity.
Qed.
Lemma dim_roundtrip d n : dimv_len d = n -> exists d', read_dim (stored_dim d n) n = Ok d' /\ dimv_equiv d d'.
Proof.
  intros Hl. destruct (dim_is_linear d n) eqn:E.
  - destruct d as [xs|ss]; [|discriminate]. destruct (linear_roundtrip _ _ E) as (e & Hr & He). exists (VNum e). split; [exact Hr|]. right. eauto.
  - exists d. split; [apply nonlinear_roundtrip; assumption|left; reflexivity].
Qed.

(* what is stored per axis has 2 entries or the axis extent (the EMD 1.0 layout clause of C05) *)
Lemma stored_len d n : dimv_len d = n -> dimv_len (stored_dim d n) = n \/ dimv_len (stored_dim d n) = 2.
Proof.
  intros H. unfold stored_dim. destruct d as [xs|ss]; [|left; exact H]. destruct (dim_is_linear (VNum xs) n); [|left; exact H].
  cbn [dimv_len] in *. rewrite firstn_length. destruct (Nat.le_gt_cases 2 (length xs)); [right; lia|left; lia].
Qed.

Lemma pad_to_same {A} (l : list A) : forall n f i, length l = n -> pad_to l n f i = l.
Proof. induction l as [|x r IH]; intros n f i H; destruct n; cbn in *; try lia; [reflexivity|]. rewrite IH by lia. reflexivity. Qed.

Lemma read_all_roundtrip ds shape : Forall2 (fun d n => dimv_len d = n) ds shape ->
  exists ds', read_all (map (fun dn => stored_dim (fst dn) (snd dn)) (combine ds shape)) shape = Ok ds' /\ Forall2 dimv_equiv ds ds'.
Proof.
  induction 1 as [|d n ds shape Hd _ IH]; [exists []; split; [reflexivity|constructor]|].
  destruct IH as (ds' & Hr & He). destruct (dim_roundtrip d n Hd) as (d' & Hrd & Hed). exists (d' :: ds').
  cbn [combine map fst snd read_all]. rewrite Hrd. cbn [bind]. rewrite Hr. cbn [bind]. split; [reflexivity|constructor; assumption].
Qed.

(* the whole calibration: shape, depth, units, names, labels identical; dim vectors elementwise equal *)
Theorem calibration_roundtrip a : arr_inv a ->
  (forall d, a_depth a = Some d -> length (a_labels a) = d) -> (a_depth a = None -> a_labels a = []) ->
  exists a', arr_load (arr_store a) = Ok a' /\
    a_shape a' = a_shape a /\ a_depth a' = a_depth a /\ a_units a' = a_units a /\ a_names a' = a_names a /\
    a_labels a' = a_labels a /\ Forall2 dimv_equiv (a_dims a) (a_dims a').
Proof.
  intros (A & B & C & D) Hl Hn. destruct (read_all_roundtrip _ _ D) as (ds' & Hr & He).
  unfold arr_load, arr_store. cbn [s_labels s_datashape s_dims s_units s_names]. destruct (a_depth a) as [d|] eqn:Ed; cbn [bind].
  - rewrite Hr. cbn [bind]. eexists. split; [reflexivity|]. cbn. rewrite (pad_to_same _ _ _ _ (Hl d eq_refl)). repeat split; auto.
  - rewrite Hr. cbn [bind]. eexists. split; [reflexivity|]. cbn. rewrite (Hn eq_refl). repeat split; auto.
Qed.

(* labels of a constructed stack have the stack depth; non-stacks have none *)
Lemma init_labels datashape dims units names labels a : arr_init datashape dims units names labels = Ok a ->
  (forall d, a_depth a = Some d -> length (a_labels a) = d) /\ (a_depth a = None -> a_labels a = []).
Proof.
  unfold arr_init. destruct labels as [| |ls]; cbn [bind].
  - destruct (unpack_all _ datashape); cbn [bind]; [|discriminate]. intros H; injection H as <-. cbn. split; [discriminate|reflexivity].
  - destruct datashape as [|d s]; cbn [bind]; [discriminate|]. destruct (unpack_all _ s); cbn [bind]; [|discriminate]. intros H; injection H as <-. cbn.
    split; [intros d0 E; injection E as <-; rewrite map_length, seq_length; reflexivity|discriminate].
  - destruct datashape as [|d s]; cbn [bind]; [discriminate|]. destruct (unpack_all _ s); cbn [bind]; [|discriminate]. intros H; injection H as <-. cbn.
    split; [intros d0 E; injection E as <-; apply pad_to_length|discriminate].
Qed.
