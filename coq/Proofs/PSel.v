(* C16 for partial reads: what read(path, emdpath, tree) returns for a node of a saved tree -- under each of the three tree
   options -- is the canonical form of the tree a partial save (C07) writes, hence a fixed point of a generation. *)
From Coq Require Import Permutation Sorted.
From Emd Require Import Base.Prelude Model.H5 Model.Emd Model.Reader Generated.Tables Proofs.PTree Proofs.P05 Proofs.P08 Proofs.PRead
     Proofs.PGen Proofs.PTarget.

Lemma canon_with_kids root ks : canon (with_kids root ks) = with_kids (canon_shallow root) (rsort (map canon ks)).
Proof. destruct root; reflexivity. Qed.

Lemma canon_leaf k : canon (with_kids k []) = canon_shallow k.
Proof. destruct k; reflexivity. Qed.

(* the three selections as trees: node alone / node with its branch / the branch below the node *)
Definition sel_tree (root k : rnode) (tr : option bool) : rnode :=
  match tr with
  | Some false => with_kids root [with_kids k []]
  | Some true => with_kids root [k]
  | None => with_kids root (rkids k)
  end.

Lemma sel_tree_ok root p k tr : rcls root = CRoot -> ok_tree root -> rd_tree root -> p <> [] -> rwalk root p = Some k ->
  rcls (sel_tree root k tr) = CRoot /\ rname (sel_tree root k tr) = rname root /\ ok_tree (sel_tree root k tr) /\ rd_tree (sel_tree root k tr).
Proof.
  intros Hc Hok Hrd Hp Hw.
  pose proof (ok_tree_walk root Hok p k Hw) as Hokk. pose proof (rd_tree_walk root Hrd p k Hw) as Hrdk.
  assert (rcls k <> CRoot /\ rname k <> "metadatabundle") as (Hck & Hnk).
  { clear -Hrd Hp Hw. revert root Hrd Hw. induction p as [|x q IH]; intros root Hrd Hw; [congruence|].
    cbn [rwalk] in Hw. destruct (rget (rkids root) x) as [c0|] eqn:Eg; [|discriminate]. destruct (rget_in _ _ _ Eg) as (Hin & _).
    apply rd_tree_inv in Hrd. rewrite Forall_forall in Hrd. destruct (Hrd c0 Hin) as (A & B & C).
    destruct q as [|y q']; [injection Hw as <-; split; assumption|]. apply (IH ltac:(discriminate) c0 C Hw). }
  assert (forall ks, rcls (with_kids root ks) = CRoot /\ rname (with_kids root ks) = rname root) as Hbase by (intros ks; destruct root; split; [exact Hc|reflexivity]).
  assert (keys (shallow_links root) = match rmds root with [] => [] | _ => ["metadatabundle"] end) as Hsh.
  { unfold shallow_links. rewrite Hc. cbn [own]. rewrite app_nil_r. destruct (rmds root); reflexivity. }
  assert (forall ks, shallow_links (with_kids root ks) = shallow_links root /\ rkids (with_kids root ks) = ks) as Hwk by (intros ks; destruct root; split; reflexivity).
  assert (forall ks, NoDup (map rname ks) -> Forall (fun c0 => rname c0 <> "metadatabundle" /\ rcls c0 <> CRoot /\ ok_tree c0 /\ rd_tree c0) ks ->
            ok_tree (with_kids root ks) /\ rd_tree (with_kids root ks)) as Hgen.
  { intros ks Hnd Hall. rewrite Forall_forall in Hall. split.
    - apply ok_tree_inv. destruct (Hwk ks) as (-> & ->). repeat split; [exact Hnd| |apply Forall_forall; intros c0 Hc0; apply (Hall c0 Hc0)].
      intros c0 Hc0. rewrite Hsh. destruct (rmds root); [intros []|]. intros [E|[]]. destruct (Hall c0 Hc0) as (A & _). congruence.
    - apply rd_tree_inv. destruct (Hwk ks) as (_ & ->). apply Forall_forall. intros c0 Hc0. destruct (Hall c0 Hc0) as (A & B & _ & D). repeat split; assumption. }
  destruct tr as [[|]|]; cbn [sel_tree].
  - destruct (Hbase [k]) as (A & B). destruct (Hgen [k]) as (C & D); [repeat constructor; intros []|repeat constructor; assumption|]. repeat split; assumption.
  - destruct (Hbase [with_kids k []]) as (A & B). destruct (Hgen [with_kids k []]) as (C & D).
    + repeat constructor. intros [].
    + constructor; [|constructor]. assert (rname (with_kids k []) = rname k /\ rcls (with_kids k []) = rcls k) as (-> & ->) by (destruct k; split; reflexivity).
      repeat (split; [assumption|]). split; [apply ok_tree_inv; destruct k; cbn [with_kids rkids map]; split; [constructor|split; [intros ? []|constructor]]|apply rd_tree_inv; destruct k; constructor].
    + repeat split; assumption.
  - destruct (Hbase (rkids k)) as (A & B). apply ok_tree_inv in Hokk. destruct Hokk as (Hnd & _ & Hks). apply rd_tree_inv in Hrdk.
    destruct (Hgen (rkids k)) as (C & D); [exact Hnd| |repeat split; assumption].
    apply Forall_forall. intros c0 Hc0. rewrite Forall_forall in Hks, Hrdk. destruct (Hrdk c0 Hc0) as (X & Y & Z). repeat split; try assumption. apply Hks. exact Hc0.
Qed.

(* read(path, emdpath, tree = tr) of a node of a saved tree returns canon (sel_tree root k tr) ... *)
Theorem partial_read_is_canon_of_the_selection c root p k tr :
  rcls root = CRoot -> ok_tree root -> rd_tree root -> p <> [] -> rwalk root p = Some k ->
  Forall (fun s => s <> "" /\ no_slash s = true) (rname root :: p) ->
  exists ret, read (H5 (whole_file c root)) (Some (join_slash (rname root :: p))) tr = Ok (RTree (canon (sel_tree root k tr)) ret).
Proof.
  intros Hc Hok Hrd Hp Hw Hnames.
  destruct (read_inner_node c root p k Hc Hok Hrd Hp Hw Hnames) as (A & B & C).
  destruct tr as [[|]|]; cbn [sel_tree]; rewrite canon_with_kids; cbn [map rsort fold_right rinsert]; eexists.
  - exact B.
  - rewrite canon_leaf. exact A.
  - exact C.
Qed.

(* ... and saving that result and reading it again returns it unchanged: a second generation equals the first *)
Theorem partial_read_second_generation c c' root p k tr :
  rcls root = CRoot -> ok_tree root -> rd_tree root -> p <> [] -> rwalk root p = Some k ->
  Forall (fun s => s <> "" /\ no_slash s = true) (rname root :: p) ->
  let t1 := canon (sel_tree root k tr) in
  exists ret f2,
    read (H5 (whole_file c root)) (Some (join_slash (rname root :: p))) tr = Ok (RTree t1 ret) /\
    fresh_file c' t1 [] (Some true) = Ok f2 /\
    read (H5 f2) None (Some true) = Ok (RTree t1 (ret_of t1)) /\ read (H5 f2) None None = Ok (RTree t1 RetRoot).
Proof.
  intros Hc Hok Hrd Hp Hw Hnames t1.
  destruct (partial_read_is_canon_of_the_selection c root p k tr Hc Hok Hrd Hp Hw Hnames) as (ret & Hr).
  destruct (sel_tree_ok root p k tr Hc Hok Hrd Hp Hw) as (Hc1 & Hn1 & Hok1 & Hrd1).
  inversion Hnames as [|? ? (Hrne & Hrns) _]; subst.
  destruct (tree_second_generation c c' (sel_tree root k tr) Hc1 Hok1 Hrd1) as (f1 & f2 & _ & _ & S2 & R2 & R3); [rewrite Hn1; exact Hrne|rewrite Hn1; exact Hrns|].
  exists ret, f2. repeat split; assumption.
Qed.
