(* C09: appending a runtime tree to the encoding of a file tree gives the encoding of their name-based union. *)
From Emd Require Import Base.Prelude Model.H5 Model.Emd Generated.Tables Proofs.PTree Proofs.P05 Proofs.PFault Proofs.PAppend Proofs.PRead.

(* the union: the file's nodes keep their own content; a runtime child with the name of a file child is merged into
   it, recursively; runtime children the file lacks are added, each with its whole branch, after the file's *)
Fixpoint merge (m n : rnode) {struct m} : rnode :=
  match m with
  | RN c s t r md ks =>
      RN c s t r md
         (map (fun km => match rget (rkids n) (rname km) with Some kn => merge km kn | None => km end) ks
          ++ filter (fun kn => negb (mem (rname kn) (map rname ks))) (rkids n))
  end.
Definition upd (n : rnode) (km : rnode) : rnode := match rget (rkids n) (rname km) with Some kn => merge km kn | None => km end.
Definition is_new (ks : list rnode) (kn : rnode) : bool := negb (mem (rname kn) (map rname ks)).
Lemma merge_eq m n :
  merge m n = RN (rcls m) (rname m) (rtok m) (rrank m) (rmds m) (map (upd n) (rkids m) ++ filter (is_new (rkids m)) (rkids n)).
Proof. destruct m; reflexivity. Qed.
Lemma rname_merge m n : rname (merge m n) = rname m. Proof. destruct m; reflexivity. Qed.
Lemma shallow_merge m n : shallow_links (merge m n) = shallow_links m. Proof. destruct m; reflexivity. Qed.
Lemma tags_merge m n : node_tags (merge m n) = node_tags m. Proof. destruct m; reflexivity. Qed.

(* when the union is defined on the file: runtime children distinctly named, not called like a dataset / the bundle
   of the file node they go under, new ones writable; recursively for the common ones *)
Fixpoint compat (m n : rnode) {struct m} : Prop :=
  NoDup (map rname (rkids n)) /\
  (forall k, In k (rkids n) -> ~ In (rname k) (keys (shallow_links m))) /\
  (forall k, In k (rkids n) -> rget (rkids m) (rname k) = None -> ok_tree k) /\
  (fix go (l : list rnode) : Prop :=
     match l with [] => True | km :: q => (forall kn, rget (rkids n) (rname km) = Some kn -> compat km kn) /\ go q end) (rkids m).
Lemma compat_inv m n : compat m n <->
  NoDup (map rname (rkids n)) /\
  (forall k, In k (rkids n) -> ~ In (rname k) (keys (shallow_links m))) /\
  (forall k, In k (rkids n) -> rget (rkids m) (rname k) = None -> ok_tree k) /\
  Forall (fun km => forall kn, rget (rkids n) (rname km) = Some kn -> compat km kn) (rkids m).
Proof.
  destruct m as [c nm t r md ks]. cbn [compat rkids]. split; intros (A & B & C & D); repeat split; auto.
  - clear -D. induction ks as [|k q IH]; constructor; destruct D; auto.
  - clear -D. induction D; cbn; auto.
Qed.

(* ---------- the current children of the file node while the runtime children are processed one by one *)
Definition stepM (M : list rnode) (k : rnode) : list rnode :=
  if mem (rname k) (map rname M)
  then map (fun km => if String.eqb (rname km) (rname k) then merge km k else km) M
  else M ++ [k].

Lemma names_map_merge M k : map rname (map (fun km => if String.eqb (rname km) (rname k) then merge km k else km) M) = map rname M.
Proof. rewrite map_map. apply map_ext. intros a. destruct (String.eqb (rname a) (rname k)); [apply rname_merge|reflexivity]. Qed.

Lemma rget_none_iff l nm : rget l nm = None <-> ~ In nm (map rname l).
Proof.
  induction l as [|y r IH]; cbn [rget map]; [split; [intros _ []|reflexivity]|].
  destruct (String.eqb nm (rname y)) eqn:E.
  - apply String.eqb_eq in E. split; [discriminate|]. intros H. exfalso. apply H. left. symmetry. exact E.
  - rewrite IH. split; [intros H [H1|H1]; [subst; rewrite String.eqb_refl in E; discriminate|auto]|intros H H1; apply H; right; exact H1].
Qed.
Lemma mem_false_iff s l : mem s l = false <-> ~ In s l.
Proof. destruct (mem s l) eqn:E; [apply mem_In in E; split; [discriminate|tauto]|split; [intros _ H; apply mem_In in H; congruence|reflexivity]]. Qed.

(* links of a group holding the encodings of M after its own content *)
Lemma get_enc_kids_some M nm km : rget M nm = Some km -> get (enc_kids M) nm = Some (enc km).
Proof. intros H. rewrite get_enc_kids, H. reflexivity. Qed.

Lemma set_app_r {A} (l1 l2 : list (string * A)) k v : get l1 k = None -> has l2 k = true -> set (l1 ++ l2) k v = l1 ++ set l2 k v.
Proof.
  induction l1 as [|[k' v'] r IH]; intros H1 H2; [reflexivity|]. cbn [app set get] in *.
  destruct (String.eqb k k') eqn:E; [discriminate|]. rewrite IH by assumption. reflexivity.
Qed.
Lemma set_enc_kids_merge M k : NoDup (map rname M) -> forall km, rget M (rname k) = Some km ->
  set (enc_kids M) (rname k) (enc (merge km k)) = enc_kids (map (fun x => if String.eqb (rname x) (rname k) then merge x k else x) M).
Proof.
  induction M as [|y r IH]; intros Hnd km Hg; [discriminate|]. inversion Hnd as [|? ? Hy Hr]; subst. cbn [rget] in Hg.
  cbn [enc_kids map set]. destruct (String.eqb (rname k) (rname y)) eqn:E.
  - injection Hg as <-. apply String.eqb_eq in E. rewrite E. rewrite String.eqb_refl. rewrite rname_merge. f_equal.
    (* the rest is untouched: no other element has this name *)
    clear -Hy. fold (enc_kids r). induction r as [|z q IHq]; [reflexivity|]. cbn [map enc_kids].
    destruct (String.eqb (rname z) (rname y)) eqn:Ez; [apply String.eqb_eq in Ez; exfalso; apply Hy; left; exact Ez|].
    fold (enc_kids q). rewrite <- IHq; [reflexivity|]. intros H. apply Hy. right. exact H.
  - assert (String.eqb (rname y) (rname k) = false) as -> by (destruct (String.eqb (rname y) (rname k)) eqn:E2; [apply String.eqb_eq in E2; rewrite E2, String.eqb_refl in E; discriminate|reflexivity]).
    fold (enc_kids r). rewrite (IH Hr km Hg). reflexivity.
Qed.

Lemma enc_has_gtype n : is_group (enc n) && has_gtype (enc n) = true.
Proof. rewrite enc_eq. reflexivity. Qed.

(* ---------- processing the runtime children one by one gives the map / filter form of the union *)
Definition upd' (done : list rnode) (km : rnode) : rnode := match rget done (rname km) with Some k => merge km k | None => km end.
Definition state (ks done : list rnode) : list rnode := map (upd' done) ks ++ filter (is_new ks) done.

Lemma rget_app l1 l2 nm : rget (l1 ++ l2) nm = match rget l1 nm with Some x => Some x | None => rget l2 nm end.
Proof. induction l1 as [|y r IH]; [reflexivity|]. cbn [app rget]. destruct (String.eqb nm (rname y)); [reflexivity|exact IH]. Qed.
Lemma rname_upd' done km : rname (upd' done km) = rname km.
Proof. unfold upd'. destruct (rget done (rname km)); [apply rname_merge|reflexivity]. Qed.
Lemma eqb_sym_false a b : String.eqb a b = false -> String.eqb b a = false.
Proof. intros H. destruct (String.eqb b a) eqn:E; [apply String.eqb_eq in E; subst; rewrite String.eqb_refl in H; discriminate|reflexivity]. Qed.
Lemma upd'_snoc_other done k km : rname km <> rname k -> upd' (done ++ [k]) km = upd' done km.
Proof.
  intros Hne. unfold upd'. rewrite rget_app. destruct (rget done (rname km)); [reflexivity|]. cbn [rget].
  destruct (String.eqb (rname km) (rname k)) eqn:E; [apply String.eqb_eq in E; contradiction|reflexivity].
Qed.
Lemma upd'_snoc_same done k km : rname km = rname k -> rget done (rname k) = None -> upd' (done ++ [k]) km = merge km k /\ upd' done km = km.
Proof.
  intros He Hn. unfold upd'. rewrite rget_app, He, Hn. cbn [rget]. rewrite String.eqb_refl. split; reflexivity.
Qed.

Lemma state_step ks done k : rget done (rname k) = None -> stepM (state ks done) k = state ks (done ++ [k]).
Proof.
  intros Hn. unfold stepM, state. rewrite map_app. rewrite map_map.
  assert (map (fun x => rname (upd' done x)) ks = map rname ks) as -> by (apply map_ext; intros a; apply rname_upd').
  assert (forall x, In x (filter (is_new ks) done) -> rname x <> rname k) as Hfd.
  { intros x Hx Heq. apply filter_In in Hx. destruct Hx as (Hx & _). apply rget_none_iff in Hn. apply Hn. rewrite <- Heq. apply in_map. exact Hx. }
  rewrite filter_app. cbn [filter]. change (is_new ks k) with (negb (mem (rname k) (map rname ks))).
  destruct (mem (rname k) (map rname ks)) eqn:Ek.
  - (* k has the name of a file child *)
    assert (mem (rname k) (map rname ks ++ map rname (filter (is_new ks) done)) = true) as -> by (apply mem_In; apply in_or_app; left; apply mem_In; exact Ek).
    cbn [negb]. rewrite app_nil_r. rewrite map_app. f_equal.
    + rewrite map_map. apply map_ext. intros km. rewrite rname_upd'. destruct (String.eqb (rname km) (rname k)) eqn:E.
      * apply String.eqb_eq in E. destruct (upd'_snoc_same done k km E Hn) as (-> & ->). reflexivity.
      * rewrite upd'_snoc_other; [reflexivity|]. intros He. rewrite He, String.eqb_refl in E. discriminate.
    + erewrite map_ext_in; [apply map_id|]. intros x Hx. cbn. destruct (String.eqb (rname x) (rname k)) eqn:E; [|reflexivity].
      apply String.eqb_eq in E. exfalso. apply (Hfd x Hx). exact E.
  - (* k is new *)
    assert (mem (rname k) (map rname ks ++ map rname (filter (is_new ks) done)) = false) as ->.
    { apply mem_false_iff. intros H. apply in_app_or in H. destruct H as [H|H]; [apply mem_In in H; congruence|].
      apply in_map_iff in H. destruct H as (x & Hx & Hin). apply (Hfd x Hin). exact Hx. }
    cbn [negb]. rewrite app_assoc. f_equal. f_equal. apply map_ext_in. intros km Hkm. symmetry. apply upd'_snoc_other.
    intros He. apply mem_false_iff in Ek. apply Ek. rewrite <- He. apply in_map. exact Hkm.
Qed.

Lemma fold_stepM ks : forall todo done, NoDup (map rname (done ++ todo)) ->
  fold_left stepM todo (state ks done) = state ks (done ++ todo).
Proof.
  induction todo as [|k q IH]; intros done Hd; [rewrite app_nil_r; reflexivity|]. cbn [fold_left].
  assert (rget done (rname k) = None) as Hn.
  { apply rget_none_iff. rewrite map_app in Hd. apply NoDup_app_inv in Hd. destruct Hd as (_ & _ & Hdis). intros H. apply (Hdis _ H). left. reflexivity. }
  rewrite (state_step ks done k Hn). replace (done ++ k :: q) with ((done ++ [k]) ++ q) in * by (rewrite <- app_assoc; reflexivity).
  apply IH. exact Hd.
Qed.
Lemma state_nil ks : state ks [] = ks.
Proof. unfold state, upd'. cbn [rget filter]. rewrite app_nil_r. apply map_id. Qed.

(* ---------- the theorem *)
Theorem append_is_union m : forall n, ok_tree m -> compat m n -> append_branch false n (enc m) = Ok (enc (merge m n)).
Proof.
  induction m as [c nm t r md ks IH] using rnode_ind'. intros n Hok Hc.
  apply compat_inv in Hc. destruct Hc as (Hnd & Hclash & Hnew & Hcommon). cbn [rkids] in *.
  apply ok_tree_inv in Hok. destruct Hok as (HndM & HclashM & HokM). cbn [rkids] in *.
  set (m0 := RN c nm t r md ks) in *.
  destruct n as [c' nm' t' r' md' kn]. cbn [rkids] in *. cbn [append_branch rkids].
  match goal with |- fold_left ?F kn _ = _ => set (step := F) end.
  (* invariant over the runtime children still to do *)
  assert (forall todo M,
            NoDup (map rname todo) -> NoDup (map rname M) ->
            (forall k, In k todo -> ~ In (rname k) (keys (shallow_links m0))) ->
            (forall k, In k todo -> rget M (rname k) = rget ks (rname k)) ->
            (forall k, In k todo -> rget ks (rname k) = None -> ok_tree k) ->
            (forall k km, In k todo -> rget ks (rname k) = Some km -> ok_tree km /\ compat km k /\ In km ks) ->
            (forall x, In x M -> ~ In (rname x) (keys (shallow_links m0))) ->
            fold_left step todo (Ok (G (node_tags m0) (shallow_links m0 ++ enc_kids M)))
            = Ok (G (node_tags m0) (shallow_links m0 ++ enc_kids (fold_left stepM todo M)))) as Hinv.
  { induction todo as [|k q IHq]; intros M Hndt HndMM Hcl Hagree Hnw Hcm HclM; [reflexivity|].
    inversion Hndt as [|? ? Hkq Hq]; subst. cbn [fold_left]. unfold step at 2. cbn [bind olinks].
    assert (get (shallow_links m0) (rname k) = None) as Hsh by (apply get_none_notin; apply Hcl; left; reflexivity).
    destruct (rget ks (rname k)) as [km|] eqn:Ek.
    - (* a child the file has: merged in place *)
      destruct (Hcm k km (or_introl eq_refl) Ek) as (Hokm & Hckm & Hinkm).
      assert (rget M (rname k) = Some km) as EkM by (rewrite Hagree by (left; reflexivity); exact Ek).
      assert (mem (rname k) (map fst (filter (fun kv => is_group (snd kv) && has_gtype (snd kv)) (shallow_links m0 ++ enc_kids M))) = true) as ->.
      { apply mem_In. apply in_map_iff. exists (rname k, enc km). split; [reflexivity|]. apply filter_In. split; [|apply enc_has_gtype].
        apply in_or_app. right. apply get_In. apply get_enc_kids_some. exact EkM. }
      unfold in_child. cbn [update_at]. rewrite get_app_r by exact Hsh. rewrite (get_enc_kids_some M _ km EkM). cbn [update_at].
      rewrite Forall_forall in IH. rewrite (IH km Hinkm k Hokm Hckm). cbn [bind].
      rewrite set_app_r; [|exact Hsh|unfold has; rewrite (get_enc_kids_some M _ km EkM); reflexivity].
      rewrite (set_enc_kids_merge M k HndMM km EkM).
      assert (stepM M k = map (fun x => if String.eqb (rname x) (rname k) then merge x k else x) M) as HsM.
      { unfold stepM. assert (mem (rname k) (map rname M) = true) as -> by (apply mem_In; apply rget_in in EkM; destruct EkM as (Hi & <-); apply in_map; exact Hi). reflexivity. }
      rewrite <- HsM. apply IHq.
      + exact Hq.
      + rewrite HsM, names_map_merge. exact HndMM.
      + intros k0 Hk0. apply Hcl. right. exact Hk0.
      + intros k0 Hk0. rewrite <- (Hagree k0 (or_intror Hk0)). rewrite HsM.
        assert (rname k0 <> rname k) as Hne by (intros Heq; apply Hkq; rewrite <- Heq; apply in_map; exact Hk0).
        clear -Hne. induction M as [|y w IHw]; [reflexivity|]. cbn [map rget].
        destruct (String.eqb (rname y) (rname k)) eqn:Ey.
        * rewrite rname_merge. destruct (String.eqb (rname k0) (rname y)) eqn:E0; [|exact IHw].
          apply String.eqb_eq in Ey, E0. congruence.
        * destruct (String.eqb (rname k0) (rname y)); [reflexivity|exact IHw].
      + intros k0 Hk0. apply Hnw. right. exact Hk0.
      + intros k0 km0 Hk0. apply Hcm. right. exact Hk0.
      + intros x Hx. rewrite HsM in Hx. apply in_map_iff in Hx. destruct Hx as (y & <- & Hy).
        destruct (String.eqb (rname y) (rname k)); [rewrite rname_merge|]; apply HclM; exact Hy.
    - (* a child the file lacks: written with its whole branch, after the others *)
      assert (rget M (rname k) = None) as EkM by (rewrite Hagree by (left; reflexivity); exact Ek).
      assert (~ In (rname k) (keys (shallow_links m0 ++ enc_kids M))) as Hnotin.
      { rewrite keys_app, keys_enc_kids. intros H. apply in_app_or in H. destruct H as [H|H]; [apply (Hcl k (or_introl eq_refl)); exact H|].
        apply rget_none_iff in EkM. contradiction. }
      assert (mem (rname k) (map fst (filter (fun kv => is_group (snd kv) && has_gtype (snd kv)) (shallow_links m0 ++ enc_kids M))) = false) as ->.
      { apply mem_false_iff. intros H. apply Hnotin. apply in_map_iff in H. destruct H as (kv & <- & Hkv). apply filter_In in Hkv. apply in_map. apply Hkv. }
      rewrite (new_child_written_whole k _ _ (Hnw k (or_introl eq_refl) Ek) Hnotin).
      assert (enc_kids M ++ [(rname k, enc k)] = enc_kids (M ++ [k])) as Hek by (unfold enc_kids; rewrite map_app; reflexivity).
      rewrite <- app_assoc, Hek.
      assert (stepM M k = M ++ [k]) as HsM.
      { unfold stepM. assert (mem (rname k) (map rname M) = false) as -> by (apply mem_false_iff; apply rget_none_iff; exact EkM). reflexivity. }
      rewrite <- HsM. apply IHq.
      + exact Hq.
      + rewrite HsM, map_app. apply NoDup_app_intro; [exact HndMM|repeat constructor; intros []|].
        intros x Hx [<-|[]]. apply rget_none_iff in EkM. contradiction.
      + intros k0 Hk0. apply Hcl. right. exact Hk0.
      + intros k0 Hk0. rewrite <- (Hagree k0 (or_intror Hk0)). rewrite HsM.
        assert (rname k0 <> rname k) as Hne by (intros Heq; apply Hkq; rewrite <- Heq; apply in_map; exact Hk0).
        clear -Hne. induction M as [|y w IHw]; cbn [app rget].
        * destruct (String.eqb (rname k0) (rname k)) eqn:E0; [apply String.eqb_eq in E0; contradiction|reflexivity].
        * destruct (String.eqb (rname k0) (rname y)); [reflexivity|exact IHw].
      + intros k0 Hk0. apply Hnw. right. exact Hk0.
      + intros k0 km0 Hk0. apply Hcm. right. exact Hk0.
      + intros x Hx. rewrite HsM in Hx. apply in_app_or in Hx. destruct Hx as [Hx|[<-|[]]]; [apply HclM; exact Hx|apply Hcl; left; reflexivity]. }
  rewrite (enc_eq m0). cbn [rkids]. subst m0. cbn [rkids]. rewrite Hinv.
  - (* the fold over the children is the map / filter form of the union *)
    rewrite (enc_eq (merge _ _)). rewrite tags_merge, shallow_merge. rewrite merge_eq. cbn [rkids]. f_equal. f_equal. f_equal.
    rewrite <- (state_nil ks) at 1. rewrite (fold_stepM ks kn [] Hnd). reflexivity.
  - exact Hnd.
  - exact HndM.
  - exact Hclash.
  - reflexivity.
  - exact Hnew.
  - intros k km Hk Hg. pose proof (rget_in _ _ _ Hg) as (Hin & Hnm). rewrite Forall_forall in HokM, Hcommon. split; [apply HokM; exact Hin|]. split; [|exact Hin].
    apply (Hcommon km Hin k). rewrite Hnm.
    (* k is the runtime child of that name *)
    clear -Hk Hnd. induction kn as [|y w IHw]; [destruct Hk|]. inversion Hnd as [|? ? Hy Hw]; subst. cbn [rget]. destruct Hk as [->|Hk]; [rewrite String.eqb_refl; reflexivity|].
    destruct (String.eqb (rname k) (rname y)) eqn:E; [apply String.eqb_eq in E; exfalso; apply Hy; rewrite <- E; apply in_map; exact Hk|apply IHw; assumption].
  - exact HclashM.
Qed.

(* ---------- root metadata: entries the file has are kept, new ones are added *)
Definition with_mds (m : rnode) (mds : list (string * Z)) : rnode :=
  match m with RN c s t r _ ks => RN c s t r mds ks end.
Definition md_union (mf mr : list (string * Z)) : list (string * Z) :=
  mf ++ filter (fun kt => negb (mem (fst kt) (keys mf))) mr.

Lemma bundle_existing (mds : list (string * Z)) :
  map fst (filter (fun kv => attr_is (snd kv) "emd_group_type" "metadata") (map (fun kt => (fst kt, md_group (snd kt))) mds)) = keys mds.
Proof. induction mds as [|[k t] r IH]; [reflexivity|]. cbn [map filter snd fst]. change (attr_is (md_group t) "emd_group_type" "metadata") with true. cbn [map fst]. unfold keys in *. cbn [map fst]. rewrite IH. reflexivity. Qed.

Lemma add_link_fresh k c a l : has l k = false -> add_link k c (G a l) = Ok (G a (l ++ [(k, c)])).
Proof. intros H. unfold add_link. rewrite H. reflexivity. Qed.

Lemma append_md_fold (mf : list (string * Z)) : forall (mr acc : list (string * Z)),
  NoDup (keys mr) -> (forall k, In k (keys acc) -> ~ In k (keys mr) \/ In k (keys mf)) -> (forall k, In k (keys mf) -> In k (keys acc)) ->
  fold_left (fun a kt => do b0 <- a;
               if mem (fst kt) (keys mf) then Ok b0 else add_link (fst kt) (md_group (snd kt)) b0) mr
            (Ok (G [("emd_group_type", AStr "metadatabundle")] (map (fun kt => (fst kt, md_group (snd kt))) acc)))
  = Ok (G [("emd_group_type", AStr "metadatabundle")]
          (map (fun kt => (fst kt, md_group (snd kt))) (acc ++ filter (fun kt => negb (mem (fst kt) (keys mf))) mr))).
Proof.
  induction mr as [|[k t] r IH]; intros acc Hnd Hacc Hsub; [cbn; rewrite app_nil_r; reflexivity|].
  inversion Hnd as [|? ? Hk Hr]; subst. cbn [fold_left bind fst snd filter].
  destruct (mem k (keys mf)) eqn:Ek; cbn [negb].
  - apply IH; [exact Hr| |exact Hsub]. intros k0 Hk0. destruct (Hacc k0 Hk0) as [H|H]; [left; intros Hin; apply H; right; exact Hin|right; exact H].
  - assert (has (map (fun kt : string * Z => (fst kt, md_group (snd kt))) acc) k = false) as Hhas.
    { apply has_false_iff. unfold keys. rewrite map_map. cbn [fst]. intros Hin. change (In k (keys acc)) in Hin.
      destruct (Hacc k Hin) as [H|H]; [apply H; left; reflexivity|apply mem_In in H; congruence]. }
    rewrite (add_link_fresh _ _ _ _ Hhas).
    assert (map (fun kt : string * Z => (fst kt, md_group (snd kt))) acc ++ [(k, md_group t)] = map (fun kt => (fst kt, md_group (snd kt))) (acc ++ [(k, t)])) as -> by (rewrite map_app; reflexivity).
    rewrite (IH (acc ++ [(k, t)]) Hr).
    + rewrite <- app_assoc. reflexivity.
    + intros k0 Hk0. rewrite keys_app in Hk0. apply in_app_or in Hk0. destruct Hk0 as [Hk0|[<-|[]]].
      * destruct (Hacc k0 Hk0) as [H|H]; [left; intros Hin; apply H; right; exact Hin|right; exact H].
      * left. exact Hk.
    + intros k0 Hk0. rewrite keys_app. apply in_or_app. left. apply Hsub. exact Hk0.
Qed.

Lemma append_root_md_enc m mr : rmds m <> [] -> NoDup (keys mr) ->
  (forall k, In k (rkids m) -> rname k <> "metadatabundle") ->
  append_root_metadata false mr (enc m) = Ok (enc (with_mds m (md_union (rmds m) mr))).
Proof.
  intros Hm Hnd Hk. unfold append_root_metadata. destruct mr as [|m0 mq] eqn:Emr.
  - unfold md_union. cbn [filter]. rewrite app_nil_r. destruct m; reflexivity.
  - rewrite <- Emr in *. clear Emr m0 mq. rewrite enc_eq. cbn [olinks]. unfold shallow_links.
    destruct (rmds m) as [|x xs] eqn:Ex; [congruence|]. rewrite <- Ex in *. cbn [app]. unfold has. rewrite get_first. cbn [bind].
    unfold in_child. cbn [update_at]. rewrite get_first. cbn [update_at]. unfold bundle. cbn [olinks].
    rewrite bundle_existing.
    rewrite (append_md_fold (rmds m) mr (rmds m) Hnd); [|intros k0 H0; right; exact H0|intros k0 H0; exact H0].
    cbn [bind set]. rewrite String.eqb_refl.
    destruct m as [c s t r md ks]. cbn [with_mds rmds rcls rtok rrank rkids] in *. rewrite enc_eq. unfold node_tags, shallow_links. cbn [rcls rmds rtok rrank rkids].
    unfold md_union. destruct (md ++ filter (fun kt => negb (mem (fst kt) (keys md))) mr) eqn:E; [destruct md; [congruence|discriminate]|]. reflexivity.
Qed.

Lemma compat_with_mds m mds n : (rmds m = [] <-> mds = []) -> compat m n -> compat (with_mds m mds) n.
Proof.
  intros Hiff Hc. apply compat_inv in Hc. apply compat_inv. destruct m as [c s t r md ks]. cbn [with_mds rkids] in *.
  assert (keys (shallow_links (RN c s t r mds ks)) = keys (shallow_links (RN c s t r md ks))) as Hsk.
  { unfold shallow_links. cbn [rmds rcls rtok rrank]. rewrite !keys_app. f_equal. cbn [rmds] in Hiff.
    destruct md, mds; try reflexivity; exfalso; [pose proof (proj1 Hiff eq_refl) as X|pose proof (proj2 Hiff eq_refl) as X]; discriminate X. }
  destruct Hc as (A & B & C & D). repeat split; try assumption. intros k Hk. rewrite Hsk. apply B. exact Hk.
Qed.
Lemma ok_tree_with_mds m mds : (rmds m = [] <-> mds = []) -> ok_tree m -> ok_tree (with_mds m mds).
Proof.
  intros Hiff Hok. apply ok_tree_inv in Hok. apply ok_tree_inv. destruct m as [c s t r md ks]. cbn [with_mds rkids] in *.
  assert (keys (shallow_links (RN c s t r mds ks)) = keys (shallow_links (RN c s t r md ks))) as Hsk.
  { unfold shallow_links. cbn [rmds rcls rtok rrank]. rewrite !keys_app. f_equal. cbn [rmds] in Hiff.
    destruct md, mds; try reflexivity; exfalso; [pose proof (proj1 Hiff eq_refl) as X|pose proof (proj2 Hiff eq_refl) as X]; discriminate X. }
  destruct Hok as (A & B & C). repeat split; try assumption. intros k Hk. rewrite Hsk. apply B. exact Hk.
Qed.

(* ---------- save(path, root, mode='a') onto a file holding the tree m: the file then holds the union *)
Definition union_root (m root : rnode) : rnode := merge (with_mds m (md_union (rmds m) (rmds root))) root.

Theorem append_save_is_union c c0 m root md tr :
  In md appendmode -> tr <> Some false ->
  rcls m = CRoot -> rname root = rname m -> ok_tree m -> compat m root ->
  (rmds m <> [] \/ rmds root = []) -> NoDup (keys (rmds root)) ->
  (forall k, In k (rkids m) -> rname k <> "metadatabundle") ->
  write_node c (H5 (whole_file c0 m)) root [] (WA md tr None) = (Ok tt, H5 (whole_file c0 (union_root m root))).
Proof.
  intros Hmd Htr Hc Hname Hok Hcompat Hmdc Hndr Hres.
  assert (rmds m = [] <-> md_union (rmds m) (rmds root) = []) as Hiff.
  { unfold md_union. split; [intros E; rewrite E; destruct Hmdc as [H|H]; [congruence|rewrite H; reflexivity]|intros E; destruct (rmds m); [reflexivity|discriminate]]. }
  unfold write_node. cbn [mode emdpath tree slot_exists].
  assert (run_prelude prelude_order md None true = Ok md) as ->.
  { destruct Hmd as [<-|[<-|[<-|[]]]]; vm_compute; reflexivity. }
  assert (mem md overwritemode = false) as -> by (destruct Hmd as [<-|[<-|[<-|[]]]]; reflexivity).
  assert (mem md writemode = false) as -> by (destruct Hmd as [<-|[<-|[<-|[]]]]; reflexivity).
  assert (mem md appendovermode = false) as Hao by (destruct Hmd as [<-|[<-|[<-|[]]]]; reflexivity).
  cbn [slot_exists negb andb orb]. rewrite andb_false_r. cbn [orb].
  assert (is_emd_file (whole_file c0 m) = true) as -> by (apply fresh_file_detected; exact Hc).
  unfold append_existing. cbn [rwalk emdpath tree]. rewrite Hao.
  rewrite (rootgroups_whole c0 m Hc). rewrite Hname. cbn [mem]. rewrite String.eqb_refl.
  unfold in_child, whole_file. cbn [update_at]. rewrite get_first. cbn [update_at].
  assert (append_root_metadata false (rmds root) (enc m) = Ok (enc (with_mds m (md_union (rmds m) (rmds root))))) as ->.
  { destruct Hmdc as [H|H]; [apply append_root_md_enc; assumption|].
    rewrite H. unfold md_union. cbn [filter]. rewrite app_nil_r. destruct m; reflexivity. }
  cbn [bind set]. rewrite String.eqb_refl.
  assert ((match tr with Some false => Ok (G (header c0) [(rname m, enc (with_mds m (md_union (rmds m) (rmds root))))]) | _ =>
            match get [(rname m, enc (with_mds m (md_union (rmds m) (rmds root))))] (rname m) with
            | Some c1 => do c' <- update_at c1 [] (append_branch false root); Ok (G (header c0) (set [(rname m, enc (with_mds m (md_union (rmds m) (rmds root))))] (rname m) c'))
            | None => Err ENotFound end end)
          = Ok (G (header c0) [(rname m, enc (union_root m root))])) as Hmain.
  { destruct tr as [[|]|]; try congruence; rewrite get_first; cbn [update_at];
      rewrite (append_is_union _ root (ok_tree_with_mds m _ Hiff Hok) (compat_with_mds m _ root Hiff Hcompat)); cbn [bind set]; rewrite String.eqb_refl; reflexivity. }
  destruct tr as [[|]|]; try congruence; cbn [update_at] in Hmain |- *; rewrite Hmain;
    (assert (rname (union_root m root) = rname m) as Hn by (unfold union_root; rewrite rname_merge; destruct m; reflexivity)); rewrite <- Hn at 1; reflexivity.
Qed.

(* ---------- boolean versions of the hypotheses (for examples and for the correspondence harness) *)
Fixpoint nodupb (l : list string) : bool := match l with [] => true | x :: r => negb (mem x r) && nodupb r end.
Lemma nodupb_sound l : nodupb l = true -> NoDup l.
Proof.
  induction l as [|x r IH]; intros H; [constructor|]. cbn in H. apply andb_true_iff in H. destruct H as (H1 & H2).
  constructor; [|apply IH; exact H2]. apply negb_true_iff in H1. apply mem_false_iff. exact H1.
Qed.
Fixpoint ok_treeb (n : rnode) : bool :=
  nodupb (map rname (rkids n)) &&
  forallb (fun k => negb (mem (rname k) (keys (shallow_links n)))) (rkids n) &&
  (fix go (l : list rnode) : bool := match l with [] => true | k :: q => ok_treeb k && go q end) (rkids n).
Lemma ok_treeb_sound n : ok_treeb n = true -> ok_tree n.
Proof.
  induction n as [c nm t r md ks IH] using rnode_ind'. intros H. cbn [ok_treeb rkids] in H.
  apply andb_true_iff in H. destruct H as (H12 & H3). apply andb_true_iff in H12. destruct H12 as (H1 & H2).
  apply ok_tree_inv. cbn [rkids]. repeat split.
  - apply nodupb_sound. exact H1.
  - intros k Hk. rewrite forallb_forall in H2. specialize (H2 k Hk). apply negb_true_iff in H2. apply mem_false_iff. exact H2.
  - clear -IH H3. induction ks as [|k q IHq]; constructor; apply andb_true_iff in H3; destruct H3 as (A & B); inversion IH; subst; auto.
Qed.
Fixpoint compatb (m n : rnode) {struct m} : bool :=
  nodupb (map rname (rkids n)) &&
  forallb (fun k => negb (mem (rname k) (keys (shallow_links m)))) (rkids n) &&
  forallb (fun k => match rget (rkids m) (rname k) with None => ok_treeb k | Some _ => true end) (rkids n) &&
  (fix go (l : list rnode) : bool :=
     match l with [] => true
     | km :: q => (match rget (rkids n) (rname km) with Some kn => compatb km kn | None => true end) && go q end) (rkids m).
Lemma compatb_sound m : forall n, compatb m n = true -> compat m n.
Proof.
  induction m as [c nm t r md ks IH] using rnode_ind'. intros n H. cbn [compatb rkids] in H.
  apply andb_true_iff in H. destruct H as (H123 & H4). apply andb_true_iff in H123. destruct H123 as (H12 & H3). apply andb_true_iff in H12. destruct H12 as (H1 & H2).
  apply compat_inv. cbn [rkids]. repeat split.
  - apply nodupb_sound. exact H1.
  - intros k Hk. rewrite forallb_forall in H2. specialize (H2 k Hk). apply negb_true_iff in H2. apply mem_false_iff. exact H2.
  - intros k Hk Hg. rewrite forallb_forall in H3. specialize (H3 k Hk). rewrite Hg in H3. apply ok_treeb_sound. exact H3.
  - clear -IH H4. induction ks as [|k q IHq]; constructor; apply andb_true_iff in H4; destruct H4 as (A & B); inversion IH; subst.
    + intros kn Hkn. rewrite Hkn in A. auto.
    + apply IHq; assumption.
Qed.
