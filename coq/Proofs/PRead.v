(* Reader side of the tree round trip: reading the encoding of a tree gives the tree back, each node with its class,
   payload and metadata, children in name order (the order in which h5py lists links).  Used by C01, C08. *)
From Coq Require Import Permutation.
From Emd Require Import Base.Prelude Model.H5 Model.Emd Model.Reader Generated.Tables Proofs.PTree Proofs.P05 Proofs.P08.

(* ---------- sorting *)
Lemma kinsert_perm {A} (x : string * A) l : Permutation (kinsert x l) (x :: l).
Proof.
  induction l as [|y r IH]; cbn; [apply Permutation_refl|]. destruct (String.leb (fst x) (fst y)); [apply Permutation_refl|].
  eapply Permutation_trans; [apply perm_skip; exact IH|apply perm_swap].
Qed.
Lemma ksort_perm {A} (l : list (string * A)) : Permutation (ksort l) l.
Proof. induction l as [|x r IH]; cbn; [constructor|]. eapply Permutation_trans; [apply kinsert_perm|apply perm_skip; exact IH]. Qed.

Lemma filter_perm {A} (p : A -> bool) l l' : Permutation l l' -> Permutation (filter p l) (filter p l').
Proof.
  induction 1 as [|x l l' _ IH|x y l|l l' l'' _ IH1 _ IH2]; cbn.
  - constructor.
  - destruct (p x); [apply perm_skip|]; exact IH.
  - destruct (p x), (p y); try apply Permutation_refl. apply perm_swap.
  - eapply Permutation_trans; eassumption.
Qed.

(* sorting commutes with a map that leaves keys alone *)
Lemma kinsert_map {A B} (f : A -> B) (x : string * A) l :
  map (fun kv => (fst kv, f (snd kv))) (kinsert x l) = kinsert (fst x, f (snd x)) (map (fun kv => (fst kv, f (snd kv))) l).
Proof. induction l as [|y r IH]; cbn; [reflexivity|]. destruct (String.leb (fst x) (fst y)); cbn; [reflexivity|]. rewrite IH. reflexivity. Qed.
Lemma ksort_map {A B} (f : A -> B) (l : list (string * A)) :
  ksort (map (fun kv => (fst kv, f (snd kv))) l) = map (fun kv => (fst kv, f (snd kv))) (ksort l).
Proof. induction l as [|x r IH]; cbn; [reflexivity|]. rewrite kinsert_map. unfold ksort in IH. rewrite IH. reflexivity. Qed.

(* ---------- what the reader returns for a node: its class and name, the payload its class reads, metadata and
   children in name order *)
Definition ptok (c : cls) (t : Z) : Z := match c with CArray | CPl | CPla => t | _ => 0%Z end.
Definition prank (c : cls) (r : nat) : nat := match c with CArray => r | _ => 0 end.
Fixpoint canon (n : rnode) : rnode :=
  match n with RN c s t r m ks => RN c s (ptok c t) (prank c r) (ksort m) (rsort (map canon ks)) end.
Definition canon_shallow (n : rnode) : rnode :=
  RN (rcls n) (rname n) (ptok (rcls n) (rtok n)) (prank (rcls n) (rrank n)) (ksort (rmds n)) [].
Lemma canon_eq n : canon n = with_kids (canon_shallow n) (rsort (map canon (rkids n))).
Proof. destruct n; reflexivity. Qed.

(* readable trees: nodes below the top are data nodes (not roots) and none is called like the metadata bundle
   (Node.to_h5 refuses that name) *)
Fixpoint rd_tree (n : rnode) : Prop :=
  (fix go (l : list rnode) : Prop :=
     match l with [] => True | k :: q => (rcls k <> CRoot /\ rname k <> "metadatabundle" /\ rd_tree k) /\ go q end) (rkids n).
Lemma rd_tree_inv n : rd_tree n <-> Forall (fun k => rcls k <> CRoot /\ rname k <> "metadatabundle" /\ rd_tree k) (rkids n).
Proof.
  destruct n as [c nm t r m ks]. cbn [rd_tree rkids]. split; intros H.
  - induction ks as [|k q IH]; constructor; destruct H; auto.
  - induction H; cbn; auto.
Qed.

(* ---------- tags *)
Lemma enc_attrs n : oattrs (enc n) = node_tags n. Proof. rewrite enc_eq. reflexivity. Qed.
Lemma enc_links' n : olinks (enc n) = shallow_links n ++ enc_kids (rkids n). Proof. rewrite enc_eq. reflexivity. Qed.
Lemma enc_gtype n : attr_str (enc n) "emd_group_type" = Some (gtype (rcls n)).
Proof. rewrite enc_eq. reflexivity. Qed.
Lemma enc_pyclass n : attr_str (enc n) "python_class" = Some (pyclass (rcls n)).
Proof. rewrite enc_eq. reflexivity. Qed.
Lemma gtype_known c : mem (gtype c) EMD_group_types = true. Proof. destruct c; vm_compute; reflexivity. Qed.
Lemma cls_of_pyclass_pyclass c : cls_of_pyclass (pyclass c) = Some c. Proof. destruct c; reflexivity. Qed.
Lemma enc_is_data_group n : rcls n <> CRoot -> is_data_group (enc n) = true.
Proof. intros H. rewrite enc_eq. unfold is_data_group. change (attr_str (G (node_tags n) _) "emd_group_type") with (Some (gtype (rcls n))). destruct (rcls n); try congruence; vm_compute; reflexivity. Qed.

(* what a node writes itself is never taken for a child *)
Lemma dimname_not_bundle i : "dim" +++ nat_str i <> "metadatabundle". Proof. cbn. discriminate. Qed.
Lemma shallow_not_data n kv : In kv (shallow_links n) -> is_data_group (snd kv) = false.
Proof.
  unfold shallow_links. intros H. apply in_app_or in H. destruct H as [H|H].
  - destruct (rmds n); cbn [In] in H; [destruct H|]. destruct H as [<-|[]]. reflexivity.
  - unfold own in H. destruct (rcls n).
    + destruct H.
    + destruct H.
    + destruct H as [<-|H]; [reflexivity|]. apply in_map_iff in H. destruct H as (i & <- & _). reflexivity.
    + destruct H as [<-|[]]. reflexivity.
    + destruct H as [<-|[]]. reflexivity.
Qed.
Lemma own_no_bundle c t r : get (own c t r) "metadatabundle" = None.
Proof.
  apply get_none_notin. unfold own, keys. destruct c; cbn [map].
  - intros [].
  - intros [].
  - intros [H|H]; [discriminate|]. rewrite map_map in H. apply in_map_iff in H. destruct H as (i & Hi & _). cbn in Hi. discriminate.
  - intros [H|[]]. discriminate.
  - intros [H|[]]. discriminate.
Qed.

Lemma get_first {A} k (v : A) l : get ((k, v) :: l) k = Some v. Proof. cbn. rewrite String.eqb_refl. reflexivity. Qed.

(* ---------- metadata *)
Lemma read_md_group t : read_md (md_group t) = Ok t. Proof. reflexivity. Qed.
Lemma read_bundle_links (l : list (string * Z)) :
  fold_right (fun kv acc => do r <- acc; do t <- read_md (snd kv); Ok ((fst kv, t) :: r)) (Ok [])
             (map (fun kt => (fst kt, md_group (snd kt))) l) = Ok l.
Proof. induction l as [|[k t] r IH]; cbn [map fold_right]; [reflexivity|]. rewrite IH. cbn. reflexivity. Qed.

Lemma kids_no_bundle ks : Forall (fun k => rname k <> "metadatabundle") ks -> get (enc_kids ks) "metadatabundle" = None.
Proof.
  intros H. apply get_none_notin. rewrite keys_enc_kids. intros Hin. apply in_map_iff in Hin. destruct Hin as (k & Hk & Hin).
  rewrite Forall_forall in H. apply (H k Hin). exact Hk.
Qed.

Lemma read_bundle_enc n : Forall (fun k => rname k <> "metadatabundle") (rkids n) -> read_bundle (enc n) = Ok (ksort (rmds n)).
Proof.
  intros Hk. unfold read_bundle. rewrite enc_links'. unfold shallow_links. destruct (rmds n) as [|m0 mr] eqn:Em.
  - cbn [app]. rewrite get_app_r by apply own_no_bundle. rewrite kids_no_bundle by exact Hk. reflexivity.
  - cbn [app]. rewrite get_first. unfold bundle. cbn [olinks].
    rewrite (ksort_map md_group (m0 :: mr)). apply read_bundle_links.
Qed.

(* ---------- payloads *)
Lemma get_dims i r rest : i < r ->
  exists t s, get (map dim_dataset (seq 0 r) ++ rest) ("dim" +++ nat_str i) =
              Some (D [("name", AStr ("dim" +++ nat_str i)); ("units", AStr "pixels")] s t).
Proof.
  intros Hi. assert (In i (seq 0 r)) as Hin by (apply in_seq; split; [apply Nat.le_0_l|exact Hi]).
  induction (seq 0 r) as [|j q IH]; [destruct Hin|]. cbn [map app get dim_dataset fst snd].
  destruct (String.eqb ("dim" +++ nat_str i) ("dim" +++ nat_str j)) eqn:E.
  - apply String.eqb_eq in E. rewrite <- E. eauto.
  - destruct Hin as [->|Hin]; [rewrite String.eqb_refl in E; discriminate|]. apply IH. exact Hin.
Qed.

Lemma payload_array n : rcls n = CArray ->
  match get (olinks (enc n)) "data" with
  | Some (D a s t) => has a "units" = true /\ t = rtok n /\ length s = rrank n
  | _ => False end /\
  forallb (fun i => match get (olinks (enc n)) ("dim" +++ nat_str i) with
                    | Some (D da _ _) => has da "name" && has da "units" | _ => false end) (seq 0 (rrank n)) = true.
Proof.
  intros Hc. rewrite enc_links'. unfold shallow_links. rewrite Hc. cbn [own].
  set (pre := match rmds n with [] => [] | _ => _ end).
  assert (forall k, k <> "metadatabundle" -> forall rest, get (pre ++ rest) k = get rest k) as Hpre.
  { intros k Hk rest. subst pre. destruct (rmds n); [reflexivity|]. cbn [app get]. destruct (String.eqb k "metadatabundle") eqn:E; [apply String.eqb_eq in E; contradiction|reflexivity]. }
  split.
  - rewrite <- app_assoc. rewrite Hpre by discriminate. cbn [app get]. cbn. repeat split. apply repeat_length.
  - apply forallb_forall. intros i Hi. apply in_seq in Hi. rewrite <- app_assoc. rewrite Hpre by apply dimname_not_bundle.
    cbn [app get]. destruct (String.eqb ("dim" +++ nat_str i) "data") eqn:E; [cbn in E; discriminate|].
    destruct (get_dims i (rrank n) (enc_kids (rkids n)) (proj2 Hi)) as (t & s & ->). reflexivity.
Qed.

Lemma enc_kid_is_group ks kv : In kv (enc_kids ks) -> is_group (snd kv) = true.
Proof. unfold enc_kids. intros H. apply in_map_iff in H. destruct H as (k & <- & _). cbn. rewrite enc_eq. reflexivity. Qed.

Lemma payload_pl n : rcls n = CPl ->
  filter (fun kv => negb (is_group (snd kv))) (ksort (olinks (enc n))) = [("x", D [("dtype", AStr "int64")] [if Z.eqb (rtok n) 0 then 0 else 2] (rtok n))].
Proof.
  intros Hc. apply Permutation_length_1_inv. apply Permutation_sym.
  eapply Permutation_trans; [apply filter_perm; apply ksort_perm|].
  rewrite enc_links'. unfold shallow_links. rewrite Hc. cbn [own]. rewrite !filter_app.
  assert (filter (fun kv : string * obj => negb (is_group (snd kv))) (enc_kids (rkids n)) = []) as ->.
  { induction (rkids n) as [|k q IH]; [reflexivity|]. cbn [enc_kids map filter snd]. rewrite enc_eq at 1. cbn [is_group negb]. exact IH. }
  destruct (rmds n); cbn; apply Permutation_refl.
Qed.

Lemma payload_pla n : rcls n = CPla -> exists a s, get (olinks (enc n)) "data" = Some (D a s (rtok n)).
Proof.
  intros Hc. rewrite enc_links'. unfold shallow_links. rewrite Hc. cbn [own]. destruct (rmds n); cbn; eauto.
Qed.

(* ---------- one node *)
Lemma from_h5_enc n : Forall (fun k => rname k <> "metadatabundle") (rkids n) ->
  from_h5 (rcls n) (rname n) (enc n) = Ok (canon_shallow n).
Proof.
  intros Hk. unfold from_h5. rewrite enc_gtype, gtype_known. cbn [negb]. rewrite (read_bundle_enc n Hk).
  unfold canon_shallow. destruct (rcls n) eqn:Hc; cbn [bind ptok prank fst snd]; try reflexivity.
  - destruct (payload_array n Hc) as (Hd & Hf). destruct (get (olinks (enc n)) "data") as [[a l|a s t]|]; try contradiction.
    destruct Hd as (Hu & -> & Hs). rewrite Hu. rewrite Hs. rewrite Hf. reflexivity.
  - rewrite (payload_pl n Hc). reflexivity.
  - destruct (payload_pla n Hc) as (a & s & ->). reflexivity.
Qed.

Lemma read_single_node_enc n : Forall (fun k => rname k <> "metadatabundle") (rkids n) ->
  read_single_node (rname n) (enc n) = Ok (canon_shallow n).
Proof. intros Hk. unfold read_single_node. rewrite enc_pyclass, cls_of_pyclass_pyclass. apply from_h5_enc. exact Hk. Qed.

(* ---------- the whole branch *)
Definition pop_go (pop : obj -> res (list rnode)) : list (string * obj) -> res (list rnode) :=
  fix go (l : list (string * obj)) : res (list rnode) :=
    match l with
    | [] => Ok []
    | (k, c) :: r =>
        if is_data_group c
        then do n <- read_single_node k c; do sub <- pop c; do rest <- go r; Ok (with_kids n sub :: rest)
        else go r
    end.
Lemma populate_G a l : populate (G a l) = do ks <- pop_go populate l; Ok (rsort ks).
Proof. reflexivity. Qed.
Lemma pop_go_cons pop k c r :
  pop_go pop ((k, c) :: r) =
  if is_data_group c then do n <- read_single_node k c; do sub <- pop c; do rest <- pop_go pop r; Ok (with_kids n sub :: rest)
  else pop_go pop r.
Proof. reflexivity. Qed.
Lemma pop_go_skip pop l : (forall kv, In kv l -> is_data_group (snd kv) = false) -> forall l2, pop_go pop (l ++ l2) = pop_go pop l2.
Proof.
  induction l as [|[k o] q IHq]; intros Hl l2; [reflexivity|]. cbn [app]. rewrite pop_go_cons.
  pose proof (Hl (k, o) (or_introl eq_refl)) as Hd. cbn [snd] in Hd. rewrite Hd. apply IHq. intros kv Hkv. apply Hl. right. exact Hkv.
Qed.

Theorem populate_enc n : rd_tree n -> populate (enc n) = Ok (rsort (map canon (rkids n))).
Proof.
  induction n as [c nm t r m ks IH] using rnode_ind'. intros Hrd. apply rd_tree_inv in Hrd. cbn [rkids] in Hrd.
  rewrite enc_eq. rewrite populate_G. cbn [rkids].
  rewrite pop_go_skip by apply shallow_not_data.
  assert (pop_go populate (enc_kids ks) = Ok (map canon ks)) as ->; [|reflexivity].
  induction ks as [|k q IHq]; [reflexivity|].
  inversion IH as [|? ? IHk IHq']; subst. inversion Hrd as [|? ? (Hroot & Hname & Hk) Hq]; subst.
  cbn [enc_kids map]. rewrite pop_go_cons. rewrite (enc_is_data_group k Hroot).
  assert (Forall (fun k0 => rname k0 <> "metadatabundle") (rkids k)) as Hkk.
  { apply rd_tree_inv in Hk. eapply Forall_impl; [|exact Hk]. cbn. intros a H. apply H. }
  rewrite (read_single_node_enc k Hkk). cbn [bind]. rewrite (IHk Hk). cbn [bind].
  fold (enc_kids q). rewrite (IHq IHq' Hq). cbn [bind]. rewrite canon_eq. reflexivity.
Qed.

(* ---------- the saved file read back *)
Definition whole_file (c : cfg) (root : rnode) : obj := G (header c) [(rname root, enc root)].

Lemma remove_first_empty_single s : s <> "" -> remove_first_empty [s] = [s].
Proof. intros H. cbn. destruct (String.eqb s "") eqn:E; [apply String.eqb_eq in E; contradiction|reflexivity]. Qed.

Fixpoint no_slash (s : string) : bool :=
  match s with EmptyString => true | String c r => negb (Ascii.eqb c "/"%char) && no_slash r end.
Lemma append_snoc cur c r : (cur +++ String c "") +++ r = cur +++ String c r.
Proof. induction cur as [|a q IH]; cbn; [reflexivity|]. rewrite IH. reflexivity. Qed.
Lemma split_aux_no_slash s : forall cur, no_slash s = true -> split_aux s cur = [cur +++ s].
Proof.
  induction s as [|c r IH]; intros cur H; cbn.
  - f_equal. induction cur as [|a q IHq]; cbn; [reflexivity|]. rewrite <- IHq at 1. reflexivity.
  - cbn in H. apply andb_true_iff in H. destruct H as (Hc & Hr). apply negb_true_iff in Hc. rewrite Hc.
    rewrite IH by exact Hr. rewrite append_snoc. reflexivity.
Qed.
Lemma split_slash_no_slash s : no_slash s = true -> split_slash s = [s].
Proof. intros H. unfold split_slash. rewrite split_aux_no_slash by exact H. reflexivity. Qed.

Lemma rootgroups_whole c root : rcls root = CRoot -> rootgroups (whole_file c root) = [rname root].
Proof.
  intros Hc. unfold rootgroups, whole_file. cbn [olinks ksort fold_right kinsert filter snd map fst].
  assert (attr_is (enc root) "emd_group_type" "root" = true) as ->; [|reflexivity].
  rewrite enc_eq. unfold node_tags. rewrite Hc. reflexivity.
Qed.

Lemma canon_shallow_kids n ks : with_kids (canon_shallow n) ks = RN (rcls n) (rname n) (ptok (rcls n) (rtok n)) (prank (rcls n) (rrank n)) (ksort (rmds n)) ks.
Proof. reflexivity. Qed.

(* what read(path) hands back for a whole tree: the root, or its only child, or its only Metadata *)
Definition ret_of (t : rnode) : rret :=
  match rkids t, rmds t with
  | [k], _ => RetNode [rname k]
  | [], [(mk, _)] => RetMd mk
  | _, _ => RetRoot
  end.

Lemma root_no_bundle_kids root : rd_tree root -> Forall (fun k => rname k <> "metadatabundle") (rkids root).
Proof. intros H. apply rd_tree_inv in H. eapply Forall_impl; [|exact H]. cbn. intros a Ha. apply Ha. Qed.

(* read(path) of a freshly saved tree: the same tree, every node with its class, payload and metadata *)
Theorem read_whole_file c root :
  rcls root = CRoot -> rd_tree root -> rname root <> "" -> no_slash (rname root) = true ->
  read (H5 (whole_file c root)) None (Some true) = Ok (RTree (canon root) (ret_of (canon root))) /\
  read (H5 (whole_file c root)) None None = Ok (RTree (canon root) RetRoot) /\
  read (H5 (whole_file c root)) None (Some false) = Ok (RTree (canon_shallow root) RetRoot).
Proof.
  intros Hc Hrd Hne Hns. unfold read.
  assert (is_emd_file (whole_file c root) = true) as -> by (apply fresh_file_detected; exact Hc).
  unfold read_emd. rewrite (rootgroups_whole c root Hc).
  rewrite (split_slash_no_slash _ Hns). rewrite (remove_first_empty_single _ Hne).
  cbn [join_slash].
  assert (get (olinks (whole_file c root)) (rname root) = Some (enc root)) as Hg by (unfold whole_file; cbn [olinks]; apply get_first).
  rewrite !Hg. change (split_slash "") with [""]. cbn [String.eqb bind].
  pose proof (from_h5_enc root (root_no_bundle_kids root Hrd)) as Hf. rewrite Hc in Hf. rewrite !Hf. cbn [bind].
  rewrite !(populate_enc root Hrd). cbn [bind]. rewrite <- !canon_eq.
  split; [|split; reflexivity].
  unfold ret_of.
  assert (rkids (canon root) = rsort (map canon (rkids root))) as -> by (destruct root; reflexivity).
  assert (rmds (canon root) = rmds (canon_shallow root)) as -> by (destruct root; reflexivity).
  destruct (rsort (map canon (rkids root))) as [|k [|k2 q]]; try reflexivity.
  destruct (rmds (canon_shallow root)) as [|[mk mt] [|m2 mq]]; reflexivity.
Qed.

(* ---------- canon keeps every node at its path *)
Lemma rname_canon k : rname (canon k) = rname k. Proof. destruct k; reflexivity. Qed.
Lemma rcls_canon k : rcls (canon k) = rcls k. Proof. destruct k; reflexivity. Qed.
Lemma rget_map_canon ks nm : rget (map canon ks) nm = option_map canon (rget ks nm).
Proof. induction ks as [|k q IH]; [reflexivity|]. cbn [map rget]. rewrite rname_canon. destruct (String.eqb nm (rname k)); [reflexivity|exact IH]. Qed.
Lemma rget_none l nm : ~ In nm (map rname l) -> rget l nm = None.
Proof.
  induction l as [|y r IH]; intros H; [reflexivity|]. cbn [rget]. destruct (String.eqb nm (rname y)) eqn:E.
  - apply String.eqb_eq in E. exfalso. apply H. left. symmetry. exact E.
  - apply IH. intros Hin. apply H. right. exact Hin.
Qed.
Lemma rget_rinsert x l nm : ~ In (rname x) (map rname l) ->
  rget (rinsert x l) nm = if String.eqb nm (rname x) then Some x else rget l nm.
Proof.
  induction l as [|y r IH]; intros Hx; cbn [rinsert rget]; [reflexivity|].
  destruct (String.leb (rname x) (rname y)); cbn [rget]; [reflexivity|].
  rewrite IH by (intros H; apply Hx; right; exact H).
  destruct (String.eqb nm (rname y)) eqn:Ey; [|reflexivity].
  destruct (String.eqb nm (rname x)) eqn:Ex; [|reflexivity].
  apply String.eqb_eq in Ey, Ex. exfalso. apply Hx. left. congruence.
Qed.
Lemma rsort_names l : forall nm, In nm (map rname (rsort l)) <-> In nm (map rname l).
Proof.
  intros nm. rewrite !in_map_iff. split; intros (k & Hk & Hin); exists k; (split; [exact Hk|]); apply rsort_in; exact Hin.
Qed.
Lemma rget_rsort l nm : NoDup (map rname l) -> rget (rsort l) nm = rget l nm.
Proof.
  induction l as [|x r IH]; intros Hnd; [reflexivity|]. inversion Hnd as [|? ? Hx Hr]; subst. cbn [rsort fold_right].
  fold (rsort r). rewrite rget_rinsert by (intros H; apply Hx; apply rsort_names; exact H). cbn [rget]. rewrite IH by exact Hr. reflexivity.
Qed.

Theorem rwalk_canon n : ok_tree n -> forall p, rwalk (canon n) p = option_map canon (rwalk n p).
Proof.
  induction n as [c nm t r m ks IH] using rnode_ind'. intros Hok p. apply ok_tree_inv in Hok. cbn [rkids] in Hok. destruct Hok as (Hnd & _ & Hks).
  destruct p as [|k q]; [reflexivity|]. cbn [canon rwalk rkids].
  rewrite rget_rsort by (rewrite map_map; erewrite map_ext; [exact Hnd|intros a; apply rname_canon]).
  rewrite rget_map_canon. destruct (rget ks k) as [kid|] eqn:E; cbn [option_map]; [|reflexivity].
  apply rget_in in E. destruct E as (Hin & _). rewrite Forall_forall in IH, Hks. apply IH; [exact Hin|apply Hks; exact Hin].
Qed.

(* ---------- save then read *)
Theorem save_then_read c root :
  rcls root = CRoot -> ok_tree root -> rd_tree root -> rname root <> "" -> no_slash (rname root) = true ->
  exists f, fresh_file c root [] (Some true) = Ok f /\
            read (H5 f) None (Some true) = Ok (RTree (canon root) (ret_of (canon root))) /\
            read (H5 f) None None = Ok (RTree (canon root) RetRoot).
Proof.
  intros Hc Hok Hrd Hne Hns. exists (whole_file c root). split.
  - apply fresh_file_whole_tree; [exact Hc|exact Hok|discriminate].
  - destruct (read_whole_file c root Hc Hrd Hne Hns) as (A & B & _). split; assumption.
Qed.

Lemma rinsert_canon x l : rinsert (canon x) (map canon l) = map canon (rinsert x l).
Proof.
  induction l as [|y r IH]; [reflexivity|]. cbn [map rinsert]. rewrite !rname_canon.
  destruct (String.leb (rname x) (rname y)); [reflexivity|]. cbn [map]. rewrite IH. reflexivity.
Qed.
Lemma rsort_canon l : rsort (map canon l) = map canon (rsort l).
Proof.
  induction l as [|y r IH]; [reflexivity|]. cbn [map rsort fold_right]. fold (rsort r). fold (rsort (map canon r)).
  rewrite IH. apply rinsert_canon.
Qed.
Lemma canon_fields k :
  rcls (canon k) = rcls k /\ rname (canon k) = rname k /\
  rtok (canon k) = ptok (rcls k) (rtok k) /\ rrank (canon k) = prank (rcls k) (rrank k) /\
  rmds (canon k) = ksort (rmds k) /\ map rname (rkids (canon k)) = map rname (rsort (rkids k)).
Proof.
  destruct k as [c nm t r m ks]. cbn [canon rcls rname rtok rrank rmds rkids]. repeat split.
  rewrite rsort_canon. rewrite map_map. apply map_ext. intros a. apply rname_canon.
Qed.

(* ---------- partial reads: read(path, emdpath = "root/a/b", tree = ...) *)
Lemma split_aux_app x : forall cur rest, no_slash x = true ->
  split_aux (x +++ String "/" rest) cur = (cur +++ x) :: split_aux rest "".
Proof.
  induction x as [|ch r IH]; intros cur rest H; cbn.
  - f_equal. induction cur as [|a q IHq]; cbn; [reflexivity|]. rewrite <- IHq at 1. reflexivity.
  - cbn in H. apply andb_true_iff in H. destruct H as (Hc & Hr). apply negb_true_iff in Hc. rewrite Hc.
    rewrite IH by exact Hr. rewrite append_snoc. reflexivity.
Qed.
Lemma split_join l : l <> [] -> Forall (fun s => no_slash s = true) l -> split_slash (join_slash l) = l.
Proof.
  intros Hne H. induction l as [|x r IH]; [congruence|]. inversion H as [|? ? Hx Hr]; subst.
  destruct r as [|y q]; [apply split_slash_no_slash; exact Hx|].
  change (join_slash (x :: y :: q)) with (x +++ "/" +++ join_slash (y :: q)). unfold split_slash.
  change ("/" +++ join_slash (y :: q)) with (String "/" (join_slash (y :: q))).
  rewrite split_aux_app by exact Hx. cbn [String.append]. f_equal. apply IH; [discriminate|exact Hr].
Qed.
Lemma remove_first_empty_none l : Forall (fun s => s <> "") l -> remove_first_empty l = l.
Proof.
  induction 1 as [|x r Hx _ IH]; [reflexivity|]. cbn. destruct (String.eqb x "") eqn:E; [apply String.eqb_eq in E; contradiction|].
  rewrite IH. reflexivity.
Qed.

Lemma walk_groups_enc n : ok_tree n -> forall p k, rwalk n p = Some k -> walk_groups (enc n) p = Ok (enc k).
Proof.
  induction n as [c nm t r m ks IH] using rnode_ind'. intros Hok p k Hw. destruct p as [|x q]; [injection Hw as <-; reflexivity|].
  cbn [rwalk rkids] in Hw. destruct (rget ks x) as [kid|] eqn:E; [|discriminate].
  pose proof (lookup_enc _ Hok [x] kid) as Hl. cbn [rwalk rkids] in Hl. rewrite E in Hl. specialize (Hl eq_refl).
  rewrite enc_eq in Hl |- *. cbn [walk_groups]. cbn [lookup] in Hl.
  destruct (get (shallow_links (RN c nm t r m ks) ++ enc_kids (rkids (RN c nm t r m ks))) x) as [o|]; [|discriminate].
  cbn [lookup] in Hl. injection Hl as ->.
  apply ok_tree_inv in Hok. destruct Hok as (_ & _ & Hks). cbn [rkids] in Hks. apply rget_in in E. destruct E as (Hin & _).
  rewrite Forall_forall in IH, Hks. apply IH; [exact Hin|apply Hks; exact Hin|exact Hw].
Qed.

Lemma rwalk_last n : forall p k, p <> [] -> rwalk n p = Some k -> last p "" = rname k.
Proof.
  intros p. revert n. induction p as [|x q IH]; intros n k Hne Hw; [congruence|]. cbn [rwalk] in Hw.
  destruct (rget (rkids n) x) as [kid|] eqn:E; [|discriminate]. destruct q as [|y q'].
  - injection Hw as <-. apply rget_in in E. destruct E as (_ & ->). reflexivity.
  - change (last (x :: y :: q') "") with (last (y :: q') ""). eapply IH; [discriminate|exact Hw].
Qed.

Lemma rd_tree_walk n : rd_tree n -> forall p k, rwalk n p = Some k -> rd_tree k.
Proof.
  induction n as [c nm t r m ks IH] using rnode_ind'. intros Hrd p k Hw. destruct p as [|x q]; [injection Hw as <-; exact Hrd|].
  cbn [rwalk rkids] in Hw. destruct (rget ks x) as [kid|] eqn:E; [|discriminate]. apply rget_in in E. destruct E as (Hin & _).
  apply rd_tree_inv in Hrd. cbn [rkids] in Hrd. rewrite Forall_forall in IH, Hrd. eapply IH; [exact Hin|apply Hrd; exact Hin|exact Hw].
Qed.

(* the three partial reads of an inner node of a saved tree *)
Theorem read_inner_node c root p k :
  rcls root = CRoot -> ok_tree root -> rd_tree root -> p <> [] -> rwalk root p = Some k ->
  Forall (fun s => s <> "" /\ no_slash s = true) (rname root :: p) ->
  let ep := Some (join_slash (rname root :: p)) in
  let rt := canon_shallow root in
  read (H5 (whole_file c root)) ep (Some false) = Ok (RTree (with_kids rt [canon_shallow k]) (RetNode [rname k])) /\
  read (H5 (whole_file c root)) ep (Some true) = Ok (RTree (with_kids rt [canon k]) (RetNode [rname k])) /\
  read (H5 (whole_file c root)) ep None = Ok (RTree (with_kids rt (rsort (map canon (rkids k)))) RetRoot).
Proof.
  intros Hc Hok Hrd Hne Hw Hnames ep rt. subst ep rt. unfold read.
  assert (is_emd_file (whole_file c root) = true) as -> by (apply fresh_file_detected; exact Hc).
  unfold read_emd.
  assert (Forall (fun s => no_slash s = true) (rname root :: p)) as Hns by (eapply Forall_impl; [|exact Hnames]; cbn; intros a Ha; apply Ha).
  assert (Forall (fun s => s <> "") (rname root :: p)) as Hnn by (eapply Forall_impl; [|exact Hnames]; cbn; intros a Ha; apply Ha).
  assert (rname root :: p <> []) as Hcons by discriminate. rewrite (split_join _ Hcons Hns). rewrite (remove_first_empty_none _ Hnn).
  assert (get (olinks (whole_file c root)) (rname root) = Some (enc root)) as Hg by (unfold whole_file; cbn [olinks]; apply get_first).
  rewrite !Hg. inversion Hns as [|? ? _ Hnsp]; subst. inversion Hnn as [|? ? _ Hnnp]; subst.
  rewrite (split_join p Hne Hnsp).
  assert ((match p with [x] => String.eqb x "" | _ => false end) = false) as ->.
  { destruct p as [|x [|y q]]; try reflexivity. inversion Hnnp as [|? ? Hx _]; subst. destruct (String.eqb x "") eqn:E; [apply String.eqb_eq in E; contradiction|reflexivity]. }
  rewrite (walk_groups_enc root Hok p k Hw). cbn [bind].
  pose proof (from_h5_enc root (root_no_bundle_kids root Hrd)) as Hf. rewrite Hc in Hf. rewrite !Hf. cbn [bind].
  rewrite (rwalk_last root p k Hne Hw).
  pose proof (rd_tree_walk root Hrd p k Hw) as Hrk.
  rewrite !(read_single_node_enc k (root_no_bundle_kids k Hrk)). cbn [bind].
  rewrite !(populate_enc k Hrk). cbn [bind]. rewrite <- canon_eq. repeat split.
Qed.
