(* Locality of appends: a save aimed at one tree of a file is a function of that tree alone.  The file-level writer
   (append_existing, for a root name the file has) equals a tree-level function ae_tree lifted through any embedding X of
   a tree into a file that answers handles below the root name k like the tree itself. *)
From Emd Require Import Base.Prelude Model.H5 Model.Emd Generated.Tables Proofs.PRead.

Lemma set_set {A} (l : list (string * A)) k v w : set (set l k v) k w = set l k w.
Proof.
  induction l as [|[k' v'] r IH]; cbn [set]; [rewrite String.eqb_refl; reflexivity|].
  destruct (String.eqb k k') eqn:E; cbn [set]; [rewrite String.eqb_refl; reflexivity|]. rewrite E, IH. reflexivity.
Qed.

Section Local.
Variable k : string.
Variable X : obj -> obj.
Hypothesis Xupd : forall t p F, update_at (X t) (k :: p) F = do t' <- update_at t p F; Ok (X t').
Hypothesis Xlook : forall t p, lookup (X t) (k :: p) = lookup t p.
Hypothesis Xget : forall t, get (olinks (X t)) k = Some t.

Definition ow_tree (t : obj) (below : path) (n : rnode) (ntp : path) : res obj :=
  if String.eqb (rname n) (last_name (k :: below)) && path_eqb below ntp
  then match ntp with [] => Err EOther | _ => update_at t (init_path ntp) (overwrite_in_parent n) end
  else Err EAssert.

Lemma overwrite_at_X t below n ntp : overwrite_at (X t) (k :: below) n ntp = do t' <- ow_tree t below n ntp; Ok (X t').
Proof. unfold overwrite_at, ow_tree. destruct (String.eqb (rname n) (last_name (k :: below)) && path_eqb below ntp); [|reflexivity]. destruct ntp; [reflexivity|]. apply Xupd. Qed.

Definition owb_tree (t : obj) (below : path) (n : rnode) (ntp : path) (ao : bool) (tr : option bool) : res obj :=
  do t1 <- (match tr with Some _ => if ao then ow_tree t below n ntp else Ok t | None => Ok t end);
  match tr with Some false => Ok t1 | _ => update_at t1 below (append_branch ao n) end.

Lemma ow_and_branch_X t below n ntp ao tr : ow_and_branch (X t) (k :: below) n ntp ao tr = do t' <- owb_tree t below n ntp ao tr; Ok (X t').
Proof.
  unfold ow_and_branch, owb_tree.
  destruct tr as [[|]|]; destruct ao; cbn [bind]; rewrite ?overwrite_at_X;
    try (destruct (ow_tree t below n ntp) as [t1|e]; cbn [bind]; [|reflexivity]); rewrite ?Xupd; reflexivity.
Qed.

Definition tree_variants (t1 : obj) (p : path) (data : rnode) (tr : option bool) : res obj :=
  match tr with
  | Some true => update_at t1 p (fun g => do g1 <- write_single_node data g; in_child (rname data) (write_tree data) g1)
  | Some false => update_at t1 p (write_single_node data)
  | None => update_at t1 p (write_tree data)
  end.

Definition ae_tree (root : rnode) (tp : path) (a : wargs) (m : string) (t : obj) : res obj :=
  let isroot := match tp with [] => true | _ => false end in
  match rwalk root tp with
  | None => Err EAssert
  | Some data =>
  let ao := mem m appendovermode in
  match emdpath a with
  | None =>
      do t1 <- append_root_metadata ao (rmds root) t;
      if isroot then match tree a with Some false => Ok t1 | _ => append_branch ao data t1 end
      else match validate_names t1 tp [] with
           | VFalse => Err EOther
           | VInside p => match tree a with
                          | Some true => owb_tree t1 p data tp ao (Some true)
                          | Some false => if ao then ow_tree t1 p data tp else Ok t1
                          | None => update_at t1 p (append_branch ao data) end
           | VBeyond p => tree_variants t1 p data (tree a)
           end
  | Some ep =>
      if match ep with EmptyString => true | _ => false end then Err EOther else
      let '(rn, treepath) := parse_emdpath ep in
      match validate_treepath t treepath with
      | VInside tbelow =>
        do t1 <- append_root_metadata ao (rmds root) t;
        if isroot then match rwalk data tbelow with None => Err EOther | Some d2 => owb_tree t1 tbelow d2 tbelow ao (tree a) end
        else match validate_names t1 tp [] with
             | VFalse => Err EOther
             | VBeyond sp => if path_eqb sp tbelow then tree_variants t1 tbelow data (tree a) else Err EOther
             | VInside sp =>
                 if path_eqb sp tbelow then owb_tree t1 tbelow data tp ao (tree a)
                 else if match lookup t1 tbelow with Some tg => has (olinks tg) (last_name (k :: sp)) | None => false end
                 then owb_tree t1 sp data tp ao (tree a)
                 else match is_prefix sp tbelow with
                      | Some rel => match rwalk data rel with None => Err EOther | Some d2 => owb_tree t1 tbelow d2 tbelow ao (tree a) end
                      | None => Err EOther end
             end
      | _ => Err EOther
      end
  end end.

Lemma tree_variants_X t1 p data tr :
  match tr with
  | Some true => update_at (X t1) (k :: p) (fun g => do g1 <- write_single_node data g; in_child (rname data) (write_tree data) g1)
  | Some false => update_at (X t1) (k :: p) (write_single_node data)
  | None => update_at (X t1) (k :: p) (write_tree data)
  end = do t' <- tree_variants t1 p data tr; Ok (X t').
Proof. unfold tree_variants. destruct tr as [[|]|]; apply Xupd. Qed.

Theorem append_existing_local root tp a m t : rname root = k -> mem k (rootgroups (X t)) = true ->
  append_existing root tp a m (X t) = do t' <- ae_tree root tp a m t; Ok (X t').
Proof.
  intros Hk Hin. unfold append_existing, ae_tree. rewrite Hk, Hin.
  destruct (rwalk root tp) as [data|]; [|reflexivity].
  destruct (emdpath a) as [ep|].
  - destruct ep as [|c0 ep0]; [reflexivity|]. set (ep := String c0 ep0). destruct (parse_emdpath ep) as (rn, treepath).
    unfold emd_target. rewrite Xget. destruct (validate_treepath t treepath) as [|tbelow|sp0]; [reflexivity| |reflexivity].
    cbn [bind]. unfold in_child. rewrite Xupd.
    change (update_at t [] (append_root_metadata (mem m appendovermode) (rmds root))) with (append_root_metadata (mem m appendovermode) (rmds root) t).
    destruct (append_root_metadata (mem m appendovermode) (rmds root) t) as [t1|e]; [|reflexivity]. cbn [bind tl].
    destruct tp as [|x0 tp0].
    + destruct (rwalk data tbelow) as [d2|]; [|reflexivity]. apply ow_and_branch_X.
    + rewrite Xget. destruct (validate_names t1 (x0 :: tp0) []) as [|sp|sp]; [reflexivity| |].
      * destruct (path_eqb sp tbelow); [apply ow_and_branch_X|]. rewrite Xlook.
        destruct (match lookup t1 tbelow with Some tg => has (olinks tg) (last_name (k :: sp)) | None => false end); [apply ow_and_branch_X|].
        destruct (is_prefix sp tbelow) as [rel|]; [|reflexivity]. destruct (rwalk data rel) as [d2|]; [|reflexivity]. apply ow_and_branch_X.
      * destruct (path_eqb sp tbelow); [|reflexivity]. apply tree_variants_X.
  - unfold in_child. rewrite Xupd.
    change (update_at t [] (append_root_metadata (mem m appendovermode) (rmds root))) with (append_root_metadata (mem m appendovermode) (rmds root) t).
    destruct (append_root_metadata (mem m appendovermode) (rmds root) t) as [t1|e]; [|reflexivity]. cbn [bind].
    destruct tp as [|x0 tp0].
    + destruct (tree a) as [[|]|]; try reflexivity; rewrite Xupd; reflexivity.
    + rewrite Xget. destruct (validate_names t1 (x0 :: tp0) []) as [|sp|sp]; [reflexivity| |].
      * destruct (tree a) as [[|]|]; [apply ow_and_branch_X| |apply Xupd].
        destruct (mem m appendovermode); [apply overwrite_at_X|reflexivity].
      * apply tree_variants_X.
Qed.
End Local.

(* the two embeddings: a file holding only the tree, and any file holding the tree under the name k *)
Lemma sm_upd a k t p F : update_at (G a [(k, t)]) (k :: p) F = do t' <- update_at t p F; Ok (G a [(k, t')]).
Proof. cbn [update_at]. rewrite get_first. destruct (update_at t p F); [|reflexivity]. cbn [bind set]. rewrite String.eqb_refl. reflexivity. Qed.
Lemma emb_upd a l k t p F : update_at (G a (set l k t)) (k :: p) F = do t' <- update_at t p F; Ok (G a (set l k t')).
Proof. cbn [update_at]. rewrite get_set_same. destruct (update_at t p F); [|reflexivity]. cbn [bind]. rewrite set_set. reflexivity. Qed.

Theorem append_depends_on_its_tree_alone hdr l k t root tp a m :
  rname root = k -> mem k (rootgroups (G hdr [(k, t)])) = true -> mem k (rootgroups (G hdr (set l k t))) = true ->
  append_existing root tp a m (G hdr (set l k t))
  = match append_existing root tp a m (G hdr [(k, t)]) with
    | Ok s' => match get (olinks s') k with Some t' => Ok (G hdr (set l k t')) | None => Err EOther end
    | Err e => Err e
    end.
Proof.
  intros Hk H1 H2.
  rewrite (append_existing_local k (fun t0 => G hdr (set l k t0)) (emb_upd hdr l k)
             (fun t0 p => ltac:(cbn [lookup]; rewrite get_set_same; reflexivity)) (fun t0 => get_set_same l k t0) root tp a m t Hk H2).
  rewrite (append_existing_local k (fun t0 => G hdr [(k, t0)]) (sm_upd hdr k)
             (fun t0 p => ltac:(cbn [lookup]; rewrite get_first; reflexivity)) (fun t0 => get_first k t0 []) root tp a m t Hk H1).
  destruct (ae_tree k root tp a m t) as [t'|e]; [|reflexivity]. cbn [bind olinks]. rewrite get_first. reflexivity.
Qed.
