(* Lemmas about the forest model: labels (id, isroot, name) are conserved, stamps stay
   consistent.  Used by Props/C12.v. *)
From Coq Require Import Permutation.
From Emd Require Import Base.Prelude Model.Forest.

(* ---------- induction principle for the nested inductive *)
Section ind.
  Variable P : tn -> Prop.
  Hypothesis H : forall i b n sr sp m ks, Forall P ks -> P (TN i b n sr sp m ks).
  Fixpoint tn_ind' (t : tn) : P t :=
    match t with TN i b n sr sp m ks =>
      H i b n sr sp m ks ((fix go l : Forall P l :=
        match l with [] => Forall_nil _ | k :: q => Forall_cons _ (tn_ind' k) (go q) end) ks) end.
End ind.

(* ---------- labels *)
Definition lab (t : tn) : nat * bool * string := (tid t, tisroot t, tnm t).
Fixpoint labs (t : tn) : list (nat * bool * string) := lab t :: flat_map labs (tkids t).
Definition flabs (F : forest) := flat_map labs F.
Definition lid (l : nat * bool * string) : nat := fst (fst l).

Lemma ids_labs t : ids t = map lid (labs t).
Proof.
  induction t as [i b n sr sp m ks IH] using tn_ind'. cbn [ids labs tkids map lab tid]. f_equal.
  induction IH as [|k q Hk _ IHq]; [reflexivity|]. cbn [flat_map]. rewrite map_app, Hk, IHq. reflexivity.
Qed.
Lemma fids_flabs F : fids F = map lid (flabs F).
Proof. induction F as [|t q IH]; [reflexivity|]. unfold fids, flabs in *. cbn [flat_map]. rewrite map_app, ids_labs, IH. reflexivity. Qed.

Lemma labs_restamp r p t : labs (restamp r p t) = labs t.
Proof.
  revert p. induction t as [i b n sr sp m ks IH] using tn_ind'. intros p. cbn [restamp labs tkids lab tid tisroot tnm]. f_equal.
  induction IH as [|k q Hk _ IHq]; [reflexivity|]. cbn [map flat_map]. rewrite Hk, IHq. reflexivity.
Qed.
Lemma tnm_restamp r p t : tnm (restamp r p t) = tnm t. Proof. destruct t; reflexivity. Qed.
Lemma tid_restamp r p t : tid (restamp r p t) = tid t. Proof. destruct t; reflexivity. Qed.

(* ---------- find *)
Lemma find_unfold t x : find t x = if Nat.eqb (tid t) x then Some t else
  (fix go (l : list tn) : option tn := match l with [] => None | k :: q => match find k x with Some r => Some r | None => go q end end) (tkids t).
Proof. destruct t; reflexivity. Qed.

Fixpoint find_list (l : list tn) (x : nat) : option tn :=
  match l with [] => None | k :: q => match find k x with Some r => Some r | None => find_list q x end end.
Lemma find_eq t x : find t x = if Nat.eqb (tid t) x then Some t else find_list (tkids t) x.
Proof. rewrite find_unfold. destruct (Nat.eqb (tid t) x); [reflexivity|]. induction (tkids t) as [|k q IH]; [reflexivity|]. cbn. rewrite IH. reflexivity. Qed.
Lemma ffind_eq F x : ffind F x = find_list F x.
Proof. induction F as [|t q IH]; [reflexivity|]. cbn. rewrite IH. reflexivity. Qed.

Lemma find_id t x n : find t x = Some n -> tid n = x.
Proof.
  revert n. induction t as [i b nm sr sp m ks IH] using tn_ind'. intros n. rewrite find_eq. cbn [tid tkids].
  destruct (Nat.eqb i x) eqn:E; [intros H; injection H as <-; apply Nat.eqb_eq in E; exact E|].
  induction IH as [|k q Hk _ IHq]; [discriminate|]. cbn. destruct (find k x) eqn:Ek; [intros H; injection H as <-; apply Hk; reflexivity|exact IHq].
Qed.
Lemma find_list_none_gen l x :
  Forall (fun k => find k x = None <-> ~ In x (ids k)) l ->
  (find_list l x = None <-> ~ In x (flat_map ids l)).
Proof.
  intros H. induction H as [|k q Hk _ IHq]; cbn; [tauto|]. rewrite in_app_iff.
  destruct (find k x) eqn:Ek.
  - split; [discriminate|]. intros Hn. exfalso. apply Hn. left.
    destruct (in_dec Nat.eq_dec x (ids k)) as [Hi|Hi]; [exact Hi|]. apply Hk in Hi. discriminate.
  - rewrite IHq. pose proof (proj1 Hk eq_refl). tauto.
Qed.
Lemma find_none_notin t x : find t x = None <-> ~ In x (ids t).
Proof.
  induction t as [i b nm sr sp m ks IH] using tn_ind'. rewrite find_eq. cbn [tid tkids ids].
  destruct (Nat.eqb i x) eqn:E.
  - apply Nat.eqb_eq in E. subst. split; [discriminate|]. intros H; exfalso; apply H; left; reflexivity.
  - apply Nat.eqb_neq in E. rewrite (find_list_none_gen _ _ IH).
    split; [intros H [H1|H1]; [congruence|tauto]|intros H H1; apply H; right; exact H1].
Qed.
Lemma find_some_in t x n : find t x = Some n -> In x (ids t).
Proof. intros H. destruct (in_dec Nat.eq_dec x (ids t)) as [Hi|Hi]; [exact Hi|]. apply find_none_notin in Hi. congruence. Qed.
Lemma find_list_none l x : find_list l x = None <-> ~ In x (flat_map ids l).
Proof.
  induction l as [|k q IH]; cbn; [tauto|]. rewrite in_app_iff. destruct (find k x) eqn:E.
  - split; [discriminate|]. intros H; exfalso; apply H; left. eapply find_some_in; eauto.
  - apply find_none_notin in E. rewrite IH. tauto.
Qed.

(* ---------- stamps *)
Fixpoint stamped (r : nat) (p : list string) (t : tn) : Prop :=
  match t with TN _ b n sr sp _ ks =>
    b = false /\ sr = Some r /\ sp = Some (p ++ [n]) /\
    (fix go (l : list tn) : Prop := match l with [] => True | k :: q => stamped r (p ++ [n]) k /\ go q end) ks end.

Lemma stamped_inv r p i b n sr sp m ks :
  stamped r p (TN i b n sr sp m ks) <-> b = false /\ sr = Some r /\ sp = Some (p ++ [n]) /\ Forall (stamped r (p ++ [n])) ks.
Proof.
  cbn. split; intros (A & B & C & D); repeat split; auto.
  - induction ks as [|k q IH]; constructor; destruct D; auto.
  - induction D; cbn; auto.
Qed.
Lemma stamped_inv' r p t : stamped r p t <->
  tisroot t = false /\ tsroot t = Some r /\ tspath t = Some (p ++ [tnm t]) /\ Forall (stamped r (p ++ [tnm t])) (tkids t).
Proof. destruct t. apply stamped_inv. Qed.

Definition wf_top (t : tn) : Prop :=
  (tisroot t = true /\ tsroot t = Some (tid t) /\ tspath t = Some [] /\ Forall (stamped (tid t) []) (tkids t))
  \/ (tisroot t = false /\ tsroot t = None /\ tkids t = []).

(* all proper descendants are non-roots *)
Fixpoint nonroots (t : tn) : Prop :=
  match t with TN _ b _ _ _ _ ks => b = false /\
    (fix go (l : list tn) : Prop := match l with [] => True | k :: q => nonroots k /\ go q end) ks end.
Lemma nonroots_inv t : nonroots t <-> tisroot t = false /\ Forall nonroots (tkids t).
Proof.
  destruct t as [i b n sr sp m ks]. cbn. split; intros (A & D); split; auto.
  - induction ks as [|k q IH]; constructor; destruct D; auto.
  - induction D; cbn; auto.
Qed.
Lemma stamped_nonroots r p t : stamped r p t -> nonroots t.
Proof.
  revert p. induction t as [i b n sr sp m ks IH] using tn_ind'. intros p H. apply stamped_inv in H. destruct H as (A & _ & _ & D).
  apply nonroots_inv. split; [exact A|]. cbn [tkids]. rewrite Forall_forall in *. intros k Hk. eapply IH; eauto.
Qed.
Lemma restamp_stamped' r p t : nonroots t -> stamped r p (restamp (Some r) p t).
Proof.
  revert p. induction t as [i b n sr sp m ks IH] using tn_ind'. intros p H. apply nonroots_inv in H. destruct H as (A & D). cbn in A. subst b.
  cbn [restamp]. apply stamped_inv. repeat split. cbn [tkids] in D. rewrite Forall_forall in *.
  intros k Hk. apply in_map_iff in Hk. destruct Hk as (k0 & <- & Hk0). apply IH; auto.
Qed.

(* ---------- subtrees *)
Fixpoint sub (t : tn) : list tn := t :: flat_map sub (tkids t).
Lemma sub_self t : In t (sub t). Proof. destruct t; left; reflexivity. Qed.
Lemma sub_kid t k n : In k (tkids t) -> In n (sub k) -> In n (sub t).
Proof. intros Hk Hn. destruct t; cbn in *. right. apply in_flat_map. exists k. split; assumption. Qed.
Lemma sub_ids t n : In n (sub t) -> In (tid n) (ids t).
Proof.
  induction t as [i b nm sr sp m ks IH] using tn_ind'. cbn [sub ids tkids tid]. intros [<-|H]; [left; reflexivity|].
  right. apply in_flat_map in H. destruct H as (k & Hk & Hn). apply in_flat_map. exists k. split; [exact Hk|].
  rewrite Forall_forall in IH. apply IH; assumption.
Qed.
Lemma find_sub t x n : find t x = Some n -> In n (sub t).
Proof.
  revert n. induction t as [i b nm sr sp m ks IH] using tn_ind'. intros n. rewrite find_eq. cbn [tid tkids].
  destruct (Nat.eqb i x); [intros H; injection H as <-; apply sub_self|].
  intros H. cbn [sub tkids]. right. apply in_flat_map.
  induction IH as [|k q Hk _ IHq]; [discriminate|]. cbn in H. destruct (find k x) eqn:Ek.
  - injection H as <-. exists k. split; [left; reflexivity|apply Hk; reflexivity].
  - destruct (IHq H) as (k' & Hk' & Hn). exists k'. split; [right; exact Hk'|exact Hn].
Qed.

(* every subtree of a stamped tree is stamped, with its own prefix *)
Lemma stamped_sub r p t n : stamped r p t -> In n (sub t) ->
  exists q, stamped r q n.
Proof.
  revert p. induction t as [i b nm sr sp m ks IH] using tn_ind'. intros p Hs Hin. pose proof Hs as Hs0.
  apply stamped_inv in Hs. destruct Hs as (_ & _ & _ & C).
  cbn [sub tkids] in Hin. destruct Hin as [<-|Hin]; [exists p; exact Hs0|].
  apply in_flat_map in Hin. destruct Hin as (k & Hk & Hin). rewrite Forall_forall in IH, C. eapply IH; eauto.
Qed.

(* ---------- insert_under *)
Lemma ids_eq i b n sr sp m ks : ids (TN i b n sr sp m ks) = i :: flat_map ids ks.
Proof. reflexivity. Qed.
Lemma labs_eq i b n sr sp m ks : labs (TN i b n sr sp m ks) = (i, b, n) :: flat_map labs ks.
Proof. reflexivity. Qed.
Lemma sub_eq i b n sr sp m ks : sub (TN i b n sr sp m ks) = TN i b n sr sp m ks :: flat_map sub ks.
Proof. reflexivity. Qed.
Lemma insert_eq i b n sr sp m ks y s : insert_under (TN i b n sr sp m ks) y s =
  if Nat.eqb i y then TN i b n sr sp m (kid_set ks s) else TN i b n sr sp m (map (fun k => insert_under k y s) ks).
Proof. reflexivity. Qed.

Lemma insert_notin t y s : ~ In y (ids t) -> insert_under t y s = t.
Proof.
  induction t as [i b n sr sp m ks IH] using tn_ind'. rewrite ids_eq, insert_eq. intros H.
  destruct (Nat.eqb i y) eqn:E; [apply Nat.eqb_eq in E; exfalso; apply H; left; exact E|].
  f_equal. assert (~ In y (flat_map ids ks)) as H' by (intros H1; apply H; right; exact H1). clear H.
  induction IH as [|k q Hk _ IHq]; [reflexivity|]. cbn [map flat_map] in *. rewrite in_app_iff in H'.
  rewrite Hk, IHq by tauto. reflexivity.
Qed.

Lemma kid_set_app ks s : kid_get ks (tnm s) = None -> kid_set ks s = ks ++ [s].
Proof.
  induction ks as [|c r IH]; [reflexivity|]. cbn. destruct (String.eqb (tnm s) (tnm c)); [discriminate|].
  intros H. rewrite IH by exact H. reflexivity.
Qed.

Lemma flat_map_labs_app (l1 l2 : list tn) : flat_map labs (l1 ++ l2) = flat_map labs l1 ++ flat_map labs l2.
Proof. apply flat_map_app. Qed.

(* labels after inserting under the unique node y, when no child of y carries s's name *)
Lemma labs_insert t y s :
  NoDup (ids t) ->
  (forall yn, In yn (sub t) -> tid yn = y -> kid_get (tkids yn) (tnm s) = None) ->
  In y (ids t) ->
  Permutation (labs (insert_under t y s)) (labs t ++ labs s).
Proof.
  induction t as [i b n sr sp m ks IH] using tn_ind'. intros Hnd Hy Hin.
  rewrite insert_eq. destruct (Nat.eqb i y) eqn:E.
  - apply Nat.eqb_eq in E. specialize (Hy _ (sub_self _) E). cbn [tkids] in Hy.
    rewrite kid_set_app by exact Hy. rewrite !labs_eq. rewrite flat_map_labs_app. cbn [flat_map].
    rewrite app_nil_r. rewrite app_comm_cons. reflexivity.
  - apply Nat.eqb_neq in E. rewrite ids_eq in Hin, Hnd. destruct Hin as [Hin|Hin]; [congruence|].
    inversion Hnd as [|? ? _ Hnd']; subst. clear Hnd.
    rewrite !labs_eq. rewrite <- app_comm_cons. apply perm_skip.
    assert (forall k, In k ks -> forall yn, In yn (sub k) -> tid yn = y -> kid_get (tkids yn) (tnm s) = None) as Hy'.
    { intros k Hk yn Hyn. apply Hy. eapply sub_kid; [exact Hk|exact Hyn]. }
    clear Hy. induction IH as [|k q Hk _ IHq]; [destruct Hin|].
    cbn [flat_map map] in *. destruct (NoDup_app_inv _ _ Hnd') as (Hndk & Hndq & Hdisj).
    rewrite in_app_iff in Hin. destruct (in_dec Nat.eq_dec y (ids k)) as [Hyk|Hyk].
    + (* y is in k, hence not in the others *)
      assert (~ In y (flat_map ids q)) as Hnq by (apply Hdisj; exact Hyk).
      assert (map (fun k0 => insert_under k0 y s) q = q) as ->.
      { clear -Hnq. induction q as [|a l IHl]; [reflexivity|]. cbn [map flat_map] in *. rewrite in_app_iff in Hnq.
        rewrite insert_notin by tauto. rewrite IHl by tauto. reflexivity. }
      rewrite (Hk Hndk (Hy' k (or_introl eq_refl)) Hyk). rewrite <- !app_assoc. apply Permutation_app_head. apply Permutation_app_comm.
    + rewrite insert_notin by exact Hyk. rewrite <- app_assoc. apply Permutation_app_head.
      apply IHq; [tauto|exact Hndq|intros k' Hk'; apply Hy'; right; exact Hk'].
Qed.

Lemma kid_set_Forall (P : tn -> Prop) ks s : Forall P ks -> P s -> Forall P (kid_set ks s).
Proof.
  intros D Hs. induction D as [|c q Hc Hq IHq]; cbn [kid_set]; [constructor; [exact Hs|constructor]|].
  destruct (String.eqb (tnm s) (tnm c)); constructor; auto.
Qed.

(* inserting a correctly stamped branch keeps stamps *)
Lemma insert_stamped r p t y s :
  stamped r p t ->
  (forall yn, In yn (sub t) -> tid yn = y -> exists pp, tspath yn = Some pp /\ stamped r pp s) ->
  stamped r p (insert_under t y s).
Proof.
  revert p. induction t as [i b n sr sp m ks IH] using tn_ind'. intros p Hs Hy. apply stamped_inv in Hs. destruct Hs as (A & B & C & D).
  cbn [insert_under]. destruct (Nat.eqb i y) eqn:E.
  - apply stamped_inv. repeat split; auto. apply Nat.eqb_eq in E.
    destruct (Hy _ (sub_self _) E) as (pp & Hpp & Hst). cbn in Hpp. rewrite C in Hpp. injection Hpp as <-.
    apply kid_set_Forall; assumption.
  - apply stamped_inv. repeat split; auto. rewrite Forall_forall in *. intros k Hk. apply in_map_iff in Hk. destruct Hk as (k0 & <- & Hk0).
    apply IH; auto. intros yn Hin Hid. apply Hy; [|exact Hid]. eapply sub_kid; [|exact Hin]. exact Hk0.
Qed.

(* ---------- remove_at *)
Fixpoint remove_in (ks : list tn) (k : string) (q' : list string) (b : string) : option (list tn) :=
  match ks with [] => None
  | c :: rest => if String.eqb k (tnm c)
                 then match remove_at c q' b with Some c' => Some (c' :: rest) | None => None end
                 else match remove_in rest k q' b with Some rest' => Some (c :: rest') | None => None end
  end.
Lemma remove_at_eq i r n sr sp m ks q b : remove_at (TN i r n sr sp m ks) q b =
  match q with
  | [] => match kid_get ks b with Some _ => Some (TN i r n sr sp m (kid_del ks b)) | None => None end
  | k :: q' => match remove_in ks k q' b with Some ks' => Some (TN i r n sr sp m ks') | None => None end
  end.
Proof.
  destruct q as [|k q']; [reflexivity|]. cbn [remove_at].
  assert (forall l, (fix go (l : list tn) : option (list tn) :=
           match l with [] => None
           | c :: rest => if String.eqb k (tnm c)
                          then match remove_at c q' b with Some c' => Some (c' :: rest) | None => None end
                          else match go rest with Some rest' => Some (c :: rest') | None => None end
           end) l = remove_in l k q' b) as ->; [|reflexivity].
  induction l as [|c rest IH]; [reflexivity|]. cbn. rewrite IH. reflexivity.
Qed.

Lemma walk_eq t p : walk t p = match p with [] => Some t
  | k :: q => match kid_get (tkids t) k with Some c => walk c q | None => None end end.
Proof. destruct p; reflexivity. Qed.

Lemma kid_del_perm ks b c : kid_get ks b = Some c ->
  Permutation (flat_map labs ks) (flat_map labs (kid_del ks b) ++ labs c).
Proof.
  induction ks as [|x r IH]; [discriminate|]. cbn [kid_get kid_del]. destruct (String.eqb b (tnm x)).
  - intros H; injection H as <-. cbn [flat_map]. apply Permutation_app_comm.
  - intros H. cbn [flat_map]. rewrite <- app_assoc. apply Permutation_app_head. apply IH. exact H.
Qed.

(* what remove_at removes is what walk finds along the same names; labels split accordingly;
   the top node keeps its own fields *)
Lemma remove_at_spec t q b t' : remove_at t q b = Some t' ->
  exists c, walk t (q ++ [b]) = Some c /\ Permutation (labs t) (labs t' ++ labs c) /\
            tid t' = tid t /\ tisroot t' = tisroot t /\ tnm t' = tnm t /\ tsroot t' = tsroot t /\
            tspath t' = tspath t /\ tmds t' = tmds t.
Proof.
  revert q t'. induction t as [i r n sr sp m ks IH] using tn_ind'. intros q t'. rewrite remove_at_eq.
  destruct q as [|k q'].
  - destruct (kid_get ks b) as [c|] eqn:Eg; [|discriminate]. intros H; injection H as <-.
    exists c. cbn [app]. rewrite walk_eq. cbn [tkids]. rewrite Eg. rewrite walk_eq.
    split; [reflexivity|]. split; [|cbn; tauto]. rewrite !labs_eq. rewrite <- app_comm_cons. apply perm_skip.
    apply kid_del_perm. exact Eg.
  - destruct (remove_in ks k q' b) as [ks'|] eqn:Er; [|discriminate]. intros H; injection H as <-.
    cbn [app]. rewrite walk_eq. cbn [tkids].
    assert (exists c, match kid_get ks k with Some c0 => walk c0 (q' ++ [b]) | None => None end = Some c /\
                      Permutation (flat_map labs ks) (flat_map labs ks' ++ labs c)) as (c & Hw & Hp).
    { clear -IH Er. revert ks' Er. induction IH as [|x rest Hx _ IHr]; intros ks' Er; [discriminate|].
      cbn [remove_in kid_get] in *. destruct (String.eqb k (tnm x)).
      - destruct (remove_at x q' b) as [x'|] eqn:Ex; [|discriminate]. injection Er as <-.
        destruct (Hx _ _ Ex) as (c & Hw & Hp & _). exists c. split; [exact Hw|]. cbn [flat_map].
        rewrite Hp. rewrite <- !app_assoc. apply Permutation_app_head. apply Permutation_app_comm.
      - destruct (remove_in rest k q' b) as [rest'|] eqn:Er'; [|discriminate]. injection Er as <-.
        destruct (IHr _ eq_refl) as (c & Hw & Hp). exists c. split; [exact Hw|]. cbn [flat_map].
        rewrite <- app_assoc. apply Permutation_app_head. exact Hp. }
    exists c. split; [exact Hw|]. split; [|cbn; tauto]. rewrite !labs_eq. rewrite <- app_comm_cons. apply perm_skip. exact Hp.
Qed.

Lemma kid_del_Forall (P : tn -> Prop) ks b : Forall P ks -> Forall P (kid_del ks b).
Proof. intros D. induction D as [|c q Hc Hq IHq]; cbn; [constructor|]. destruct (String.eqb b (tnm c)); [exact Hq|constructor; auto]. Qed.

Lemma remove_at_stamped r p t q b t' : stamped r p t -> remove_at t q b = Some t' -> stamped r p t'.
Proof.
  revert p q t'. induction t as [i rr n sr sp m ks IH] using tn_ind'. intros p q t' Hs. apply stamped_inv in Hs. destruct Hs as (A & B & C & D).
  rewrite remove_at_eq. destruct q as [|k q'].
  - destruct (kid_get ks b); [|discriminate]. intros H; injection H as <-. apply stamped_inv. repeat split; auto. apply kid_del_Forall. exact D.
  - destruct (remove_in ks k q' b) as [ks'|] eqn:Er; [|discriminate]. intros H; injection H as <-. apply stamped_inv. repeat split; auto.
    clear -IH D Er. revert ks' Er. induction IH as [|x rest Hx _ IHr]; intros ks' Er; [discriminate|]. inversion D; subst.
    cbn [remove_in] in Er. destruct (String.eqb k (tnm x)).
    + destruct (remove_at x q' b) as [x'|] eqn:Ex; [|discriminate]. injection Er as <-. constructor; [eapply Hx; eauto|assumption].
    + destruct (remove_in rest k q' b) as [rest'|] eqn:Er'; [|discriminate]. injection Er as <-. constructor; [assumption|apply IHr; auto].
Qed.

(* at a root: the children stay stamped *)
Lemma remove_at_root_kids r t q b t' : Forall (stamped r []) (tkids t) -> remove_at t q b = Some t' -> Forall (stamped r []) (tkids t').
Proof.
  destruct t as [i rr n sr sp m ks]. cbn [tkids]. intros D. rewrite remove_at_eq. destruct q as [|k q'].
  - destruct (kid_get ks b); [|discriminate]. intros H; injection H as <-. cbn [tkids]. apply kid_del_Forall. exact D.
  - destruct (remove_in ks k q' b) as [ks'|] eqn:Er; [|discriminate]. intros H; injection H as <-. cbn [tkids].
    clear -D Er. revert ks' Er. induction D as [|x rest Hx Hrest IHr]; intros ks' Er; [discriminate|].
    cbn [remove_in] in Er. destruct (String.eqb k (tnm x)).
    + destruct (remove_at x q' b) as [x'|] eqn:Ex; [|discriminate]. injection Er as <-. constructor; [eapply remove_at_stamped; eauto|assumption].
    + destruct (remove_in rest k q' b) as [rest'|] eqn:Er'; [|discriminate]. injection Er as <-. constructor; [assumption|apply IHr; auto].
Qed.

(* ---------- distinct names and lookups *)
Definition nd_names (L : list (nat * bool * string)) : Prop :=
  forall a b, In a L -> In b L -> snd (fst a) = false -> snd (fst b) = false -> snd a = snd b -> lid a = lid b.

Lemma nd_names_incl L L' : (forall a, In a L' -> In a L) -> nd_names L -> nd_names L'.
Proof. intros Hi H a b Ha Hb. apply H; auto. Qed.

Lemma labs_self t : In (lab t) (labs t). Proof. destruct t; left; reflexivity. Qed.
Lemma labs_kid t k a : In k (tkids t) -> In a (labs k) -> In a (labs t).
Proof. intros Hk Ha. destruct t; cbn in *. right. apply in_flat_map. exists k. split; assumption. Qed.
Lemma ids_self t : In (tid t) (ids t). Proof. destruct t; left; reflexivity. Qed.

Lemma kid_get_self ks k :
  NoDup (flat_map ids ks) -> (forall c, In c ks -> tnm c = tnm k -> tid c = tid k) -> In k ks ->
  kid_get ks (tnm k) = Some k.
Proof.
  induction ks as [|x r IH]; intros Hnd Hn Hin; [destruct Hin|]. cbn [kid_get flat_map] in *.
  destruct (NoDup_app_inv _ _ Hnd) as (_ & Hr & Hdisj).
  destruct (String.eqb (tnm k) (tnm x)) eqn:E.
  - apply String.eqb_eq in E. destruct Hin as [->|Hin]; [reflexivity|]. exfalso.
    assert (tid x = tid k) as Hid by (apply Hn; [left; reflexivity|symmetry; exact E]).
    apply (Hdisj (tid x) (ids_self x)). rewrite Hid. apply in_flat_map. exists k. split; [exact Hin|apply ids_self].
  - destruct Hin as [->|Hin]; [rewrite String.eqb_refl in E; discriminate|].
    apply IH; [exact Hr|intros c Hc; apply Hn; right; exact Hc|exact Hin].
Qed.

Lemma kids_nodup_ids t k : NoDup (ids t) -> In k (tkids t) -> NoDup (ids k).
Proof.
  destruct t as [i b n sr sp m ks]. rewrite ids_eq. cbn [tkids]. intros H Hk. inversion H as [|? ? _ H']; subst. clear H.
  induction ks as [|x r IH]; [destruct Hk|]. cbn [flat_map] in H'. destruct (NoDup_app_inv _ _ H') as (Hx & Hr & _).
  destruct Hk as [->|Hk]; [exact Hx|apply IH; assumption].
Qed.
Lemma kids_nodup_flat t : NoDup (ids t) -> NoDup (flat_map ids (tkids t)).
Proof. destruct t. rewrite ids_eq. cbn [tkids]. intros H. inversion H; assumption. Qed.

(* the stored path of every node of a stamped tree is its real path *)
Lemma walk_stamped r p t n :
  stamped r p t -> NoDup (ids t) -> nd_names (labs t) -> In n (sub t) ->
  exists rest, tspath n = Some (p ++ [tnm t] ++ rest) /\ walk t rest = Some n /\ tsroot n = Some r.
Proof.
  revert p. induction t as [i b nm sr sp m ks IH] using tn_ind'. intros p Hs Hnd Hnames Hin. pose proof Hs as Hs0.
  apply stamped_inv in Hs. destruct Hs as (A & B & C & D). rewrite sub_eq in Hin. destruct Hin as [<-|Hin].
  - exists []. cbn [tspath tnm tsroot]. rewrite app_nil_r. auto.
  - apply in_flat_map in Hin. destruct Hin as (k & Hk & Hin). rewrite Forall_forall in IH, D.
    assert (NoDup (ids k)) as Hndk by (eapply kids_nodup_ids; [exact Hnd|exact Hk]).
    assert (nd_names (labs k)) as Hnk by (eapply nd_names_incl; [|exact Hnames]; intros a Ha; eapply labs_kid; [exact Hk|exact Ha]).
    destruct (IH k Hk (p ++ [nm]) (D k Hk) Hndk Hnk Hin) as (rest & Hp & Hw & Hr).
    exists (tnm k :: rest). cbn [tnm]. split; [rewrite Hp; rewrite <- !app_assoc; reflexivity|]. split; [|exact Hr].
    rewrite walk_eq. cbn [tkids].
    rewrite (kid_get_self ks k); [exact Hw|apply (kids_nodup_flat _ Hnd)| |exact Hk].
    intros c Hc Hcn. pose proof (stamped_nonroots _ _ _ (D c Hc)) as Nc. pose proof (stamped_nonroots _ _ _ (D k Hk)) as Nk.
    apply nonroots_inv in Nc, Nk. destruct Nc as [Nc _], Nk as [Nk _].
    apply (Hnames (lab c) (lab k)); [eapply labs_kid; [exact Hc|apply labs_self]|eapply labs_kid; [exact Hk|apply labs_self]|exact Nc|exact Nk|exact Hcn].
Qed.

(* the same from a root *)
Lemma walk_root R n :
  Forall (stamped (tid R) []) (tkids R) -> NoDup (ids R) -> nd_names (labs R) -> In n (sub R) -> n <> R ->
  exists path, path <> [] /\ tspath n = Some path /\ walk R path = Some n /\ tsroot n = Some (tid R).
Proof.
  intros D Hnd Hnames Hin Hne. destruct R as [i b nm sr sp m ks]. rewrite sub_eq in Hin. destruct Hin as [Heq|Hin]; [congruence|].
  cbn [tkids tid] in *. apply in_flat_map in Hin. destruct Hin as (k & Hk & Hin). rewrite Forall_forall in D.
  assert (NoDup (ids k)) as Hndk by (eapply kids_nodup_ids; [exact Hnd|exact Hk]).
  assert (nd_names (labs k)) as Hnk by (eapply nd_names_incl; [|exact Hnames]; intros a Ha; eapply (labs_kid (TN i b nm sr sp m ks)); [exact Hk|exact Ha]).
  destruct (walk_stamped _ _ _ _ (D k Hk) Hndk Hnk Hin) as (rest & Hp & Hw & Hr).
  exists (tnm k :: rest). split; [discriminate|]. split; [exact Hp|]. split; [|exact Hr]. rewrite walk_eq. cbn [tkids].
  rewrite (kid_get_self ks k); [exact Hw|apply (kids_nodup_flat _ Hnd)| |exact Hk].
  intros c Hc Hcn. pose proof (stamped_nonroots _ _ _ (D c Hc)) as Nc. pose proof (stamped_nonroots _ _ _ (D k Hk)) as Nk.
  apply nonroots_inv in Nc, Nk. destruct Nc as [Nc _], Nk as [Nk _].
  apply (Hnames (lab c) (lab k)); [eapply (labs_kid (TN i b nm sr sp m ks)); [exact Hc|apply labs_self]|eapply (labs_kid (TN i b nm sr sp m ks)); [exact Hk|apply labs_self]|exact Nc|exact Nk|exact Hcn].
Qed.

(* ---------- uniqueness of nodes by identity *)
Lemma sub_unique t a b : NoDup (ids t) -> In a (sub t) -> In b (sub t) -> tid a = tid b -> a = b.
Proof.
  induction t as [i bb n sr sp m ks IH] using tn_ind'. intros Hnd Ha Hb Hid. rewrite sub_eq in Ha, Hb. rewrite ids_eq in Hnd.
  inversion Hnd as [|? ? Hni Hnd']; subst. clear Hnd.
  assert (forall x, In x (flat_map sub ks) -> In (tid x) (flat_map ids ks)) as Hsub.
  { intros x Hx. apply in_flat_map in Hx. destruct Hx as (k & Hk & Hx). apply in_flat_map. exists k. split; [exact Hk|apply sub_ids; exact Hx]. }
  destruct Ha as [<-|Ha], Hb as [<-|Hb]; [reflexivity| | |].
  - exfalso. apply Hni. cbn [tid] in Hid. rewrite Hid. apply Hsub. exact Hb.
  - exfalso. apply Hni. cbn [tid] in Hid. rewrite <- Hid. apply Hsub. exact Ha.
  - clear Hni Hsub. induction IH as [|k q Hk _ IHq]; [destruct Ha|]. cbn [flat_map] in *.
    destruct (NoDup_app_inv _ _ Hnd') as (Hndk & Hndq & Hdisj). rewrite in_app_iff in Ha, Hb.
    assert (forall x, In x (flat_map sub q) -> In (tid x) (flat_map ids q)) as Hsubq.
    { intros x Hx. apply in_flat_map in Hx. destruct Hx as (k' & Hk' & Hx). apply in_flat_map. exists k'. split; [exact Hk'|apply sub_ids; exact Hx]. }
    destruct Ha as [Ha|Ha], Hb as [Hb|Hb].
    + apply Hk; assumption.
    + exfalso. apply (Hdisj (tid a)); [apply sub_ids; exact Ha|rewrite Hid; apply Hsubq; exact Hb].
    + exfalso. apply (Hdisj (tid b)); [apply sub_ids; exact Hb|rewrite <- Hid; apply Hsubq; exact Ha].
    + apply IHq; assumption.
Qed.

(* ---------- forest level *)
Lemma ffind_top F x n : ffind F x = Some n -> exists T, In T F /\ find T x = Some n.
Proof.
  induction F as [|t q IH]; [discriminate|]. cbn. destruct (find t x) eqn:E.
  - intros H; injection H as <-. exists t. split; [left; reflexivity|exact E].
  - intros H. destruct (IH H) as (T & HT & Hf). exists T. split; [right; exact HT|exact Hf].
Qed.
Lemma ffind_none F x : ffind F x = None <-> ~ In x (fids F).
Proof. rewrite ffind_eq. apply find_list_none. Qed.
Lemma ffind_in F x : In x (fids F) -> exists n, ffind F x = Some n.
Proof. intros H. destruct (ffind F x) eqn:E; [eauto|]. apply ffind_none in E. tauto. Qed.

Lemma fids_top_in F T : In T F -> forall x, In x (ids T) -> In x (fids F).
Proof. intros HT x Hx. apply in_flat_map. exists T. split; assumption. Qed.

Lemma top_split F T : In T F -> NoDup (fids F) ->
  exists F1 F2, F = F1 ++ T :: F2 /\
    (forall T', tid T' = tid T -> freplace_top F T' = F1 ++ T' :: F2) /\
    fremove_top F (tid T) = F1 ++ F2 /\ ftop F (tid T) = Some T.
Proof.
  induction F as [|t q IH]; intros Hin Hnd; [destruct Hin|]. unfold fids in Hnd. cbn [flat_map] in Hnd.
  destruct (NoDup_app_inv _ _ Hnd) as (_ & Hq & Hdisj). destruct Hin as [->|Hin].
  - exists [], q. cbn. rewrite Nat.eqb_refl. split; [reflexivity|]. split; [|auto].
    intros T' HT'. rewrite HT'. rewrite Nat.eqb_refl. reflexivity.
  - destruct (IH Hin Hq) as (F1 & F2 & -> & Hrep & Hrem & Htop).
    assert (Nat.eqb (tid t) (tid T) = false) as Hne.
    { apply Nat.eqb_neq. intros He. apply (Hdisj (tid t) (ids_self t)). rewrite He. apply in_flat_map. exists T. split; [exact Hin|apply ids_self]. }
    exists (t :: F1), F2. cbn. rewrite Hne. split; [reflexivity|]. split; [|rewrite Hrem, Htop; auto].
    intros T' HT'. rewrite HT'. rewrite Hne. rewrite Hrep by exact HT'. reflexivity.
Qed.

Lemma ftop_in F x T : ftop F x = Some T -> In T F /\ tid T = x.
Proof.
  induction F as [|t q IH]; [discriminate|]. cbn. destruct (Nat.eqb (tid t) x) eqn:E.
  - intros H; injection H as <-. apply Nat.eqb_eq in E. auto.
  - intros H. destruct (IH H). auto.
Qed.

Lemma flabs_app F G : flabs (F ++ G) = flabs F ++ flabs G. Proof. apply flat_map_app. Qed.
Lemma fids_app F G : fids (F ++ G) = fids F ++ fids G. Proof. apply flat_map_app. Qed.

Lemma labs_insert_list l y s :
  NoDup (flat_map ids l) ->
  (forall k, In k l -> forall yn, In yn (sub k) -> tid yn = y -> kid_get (tkids yn) (tnm s) = None) ->
  In y (flat_map ids l) ->
  Permutation (flat_map labs (map (fun k => insert_under k y s) l)) (flat_map labs l ++ labs s).
Proof.
  induction l as [|k q IHq]; intros Hnd Hy Hin; [destruct Hin|].
  cbn [flat_map map] in *. destruct (NoDup_app_inv _ _ Hnd) as (Hndk & Hndq & Hdisj).
  rewrite in_app_iff in Hin. destruct (in_dec Nat.eq_dec y (ids k)) as [Hyk|Hyk].
  - assert (~ In y (flat_map ids q)) as Hnq by (apply Hdisj; exact Hyk).
    assert (map (fun k0 => insert_under k0 y s) q = q) as ->.
    { clear -Hnq. induction q as [|a l IHl]; [reflexivity|]. cbn [map flat_map] in *. rewrite in_app_iff in Hnq.
      rewrite insert_notin by tauto. rewrite IHl by tauto. reflexivity. }
    rewrite (labs_insert k y s Hndk (Hy k (or_introl eq_refl)) Hyk). rewrite <- !app_assoc. apply Permutation_app_head. apply Permutation_app_comm.
  - rewrite insert_notin by exact Hyk. rewrite <- app_assoc. apply Permutation_app_head.
    apply IHq; [exact Hndq|intros k' Hk'; apply Hy; right; exact Hk'|tauto].
Qed.

Definition WFf (F : forest) : Prop := NoDup (fids F) /\ Forall wf_top F.

Lemma NoDup_perm_map {A B} (f : A -> B) l l' : Permutation l l' -> NoDup (map f l) -> NoDup (map f l').
Proof. intros P H. eapply Permutation_NoDup; [apply Permutation_map; exact P|exact H]. Qed.

Lemma kid_get_in ks k c : kid_get ks k = Some c -> In c ks /\ tnm c = k.
Proof.
  induction ks as [|x r IH]; [discriminate|]. cbn. destruct (String.eqb k (tnm x)) eqn:E.
  - intros H; injection H as <-. apply String.eqb_eq in E. auto.
  - intros H. destruct (IH H). auto.
Qed.

Lemma wf_top_nonroot_kids T k : wf_top T -> In k (tkids T) -> nonroots k.
Proof.
  intros [(_ & _ & _ & D)|(_ & _ & E)] Hk; [|rewrite E in Hk; destruct Hk].
  rewrite Forall_forall in D. eapply stamped_nonroots. apply D. exact Hk.
Qed.
(* every non-top node of a well-formed top is a non-root *)
Lemma wf_top_sub_nonroot T n : wf_top T -> In n (sub T) -> n <> T -> tisroot n = false.
Proof.
  intros W Hin Hne. destruct T as [i b nm sr sp m ks]. rewrite sub_eq in Hin. destruct Hin as [He|Hin]; [congruence|].
  apply in_flat_map in Hin. destruct Hin as (k & Hk & Hin).
  pose proof (wf_top_nonroot_kids _ k W Hk) as Nk. clear -Nk Hin.
  revert n Hin. induction k as [i b nm sr sp m ks IH] using tn_ind'. intros n Hin. apply nonroots_inv in Nk. destruct Nk as (A & D).
  rewrite sub_eq in Hin. destruct Hin as [<-|Hin]; [exact A|]. apply in_flat_map in Hin. destruct Hin as (k & Hk & Hin).
  cbn [tkids] in D. rewrite Forall_forall in IH, D. eapply IH; eauto.
Qed.

Lemma nonroots_sub t n : nonroots t -> In n (sub t) -> nonroots n.
Proof.
  revert n. induction t as [i b nm sr sp m ks IH] using tn_ind'. intros n N Hin. pose proof N as N0. apply nonroots_inv in N. destruct N as (A & D).
  rewrite sub_eq in Hin. destruct Hin as [<-|Hin]; [exact N0|]. apply in_flat_map in Hin. destruct Hin as (k & Hk & Hin).
  cbn [tkids] in D. rewrite Forall_forall in IH, D. eapply IH; eauto.
Qed.
Lemma wf_top_kid_of_sub_nonroot T yn c : wf_top T -> In yn (sub T) -> In c (tkids yn) -> nonroots c.
Proof.
  intros W Hyn Hc. destruct T as [i b nm sr sp m ks]. rewrite sub_eq in Hyn. destruct Hyn as [<-|Hyn].
  - eapply wf_top_nonroot_kids; eauto.
  - apply in_flat_map in Hyn. destruct Hyn as (k & Hk & Hyn). pose proof (wf_top_nonroot_kids _ k W Hk) as Nk.
    pose proof (nonroots_sub _ _ Nk Hyn) as Ny. apply nonroots_inv in Ny. destruct Ny as (_ & D). rewrite Forall_forall in D. auto.
Qed.

Lemma top_unique F T1 T2 x : NoDup (fids F) -> In T1 F -> In T2 F -> In x (ids T1) -> In x (ids T2) -> T1 = T2.
Proof.
  induction F as [|t q IH]; intros Hnd H1 H2 Hx1 Hx2; [destruct H1|]. unfold fids in Hnd. cbn [flat_map] in Hnd.
  destruct (NoDup_app_inv _ _ Hnd) as (_ & Hq & Hdisj).
  destruct H1 as [<-|H1], H2 as [<-|H2]; [reflexivity| | |apply IH; assumption].
  - exfalso. apply (Hdisj x Hx1). apply in_flat_map. exists T2. split; assumption.
  - exfalso. apply (Hdisj x Hx2). apply in_flat_map. exists T1. split; assumption.
Qed.

Lemma sub_labs t n : In n (sub t) -> In (lab n) (labs t).
Proof.
  induction t as [i b nm sr sp m ks IH] using tn_ind'. rewrite sub_eq, labs_eq. intros [<-|H]; [left; reflexivity|].
  right. apply in_flat_map in H. destruct H as (k & Hk & Hn). apply in_flat_map. exists k. split; [exact Hk|].
  rewrite Forall_forall in IH. apply IH; assumption.
Qed.

Lemma sub_trans t a b : In a (sub t) -> In b (sub a) -> In b (sub t).
Proof.
  induction t as [i bb nm sr sp m ks IH] using tn_ind'. rewrite !sub_eq. intros [<-|Ha] Hb; [rewrite sub_eq in Hb; exact Hb|].
  right. apply in_flat_map in Ha. destruct Ha as (k & Hk & Ha). apply in_flat_map. exists k. split; [exact Hk|].
  rewrite Forall_forall in IH. eapply IH; eauto.
Qed.
Lemma sub_kid_of t yn c : In yn (sub t) -> In c (tkids yn) -> In c (sub t).
Proof. intros Hy Hc. eapply sub_trans; [exact Hy|]. eapply sub_kid; [exact Hc|apply sub_self]. Qed.

Lemma in_flabs F T a : In T F -> In a (labs T) -> In a (flabs F).
Proof. intros HT Ha. apply in_flat_map. exists T. split; assumption. Qed.

Lemma wf_top_insert T p s' pn :
  wf_top T -> NoDup (ids T) ->
  (In pn (sub T) -> tid pn = p -> exists r pp, tsroot pn = Some r /\ tspath pn = Some pp /\ stamped r pp s') ->
  (In p (ids T) -> In pn (sub T) /\ tid pn = p) ->
  wf_top (insert_under T p s').
Proof.
  intros W Hnd Hst Hin. destruct (in_dec Nat.eq_dec p (ids T)) as [Hp|Hp]; [|rewrite insert_notin by exact Hp; exact W].
  destruct (Hin Hp) as (HpnT & Hpid). destruct (Hst HpnT Hpid) as (r & pp & Er & Ep & Hs').
  destruct W as [(A & B & C & D)|(A & B & C)].
  - left. destruct T as [i b nm sr sp m ks]. cbn [tisroot tsroot tspath tkids tid] in *. rewrite insert_eq.
    destruct (Nat.eqb i p) eqn:E.
    + apply Nat.eqb_eq in E. cbn [tisroot tsroot tspath tkids tid]. repeat split; auto.
      assert (pn = TN i b nm sr sp m ks) as ->.
      { eapply sub_unique; [exact Hnd|exact HpnT|apply sub_self|cbn [tid]; congruence]. }
      cbn [tsroot tspath] in Er, Ep. rewrite B in Er. rewrite C in Ep. injection Er as <-. injection Ep as <-.
      apply kid_set_Forall; assumption.
    + cbn [tisroot tsroot tspath tkids tid]. repeat split; auto. rewrite Forall_forall in *. intros k Hk.
      apply in_map_iff in Hk. destruct Hk as (k0 & <- & Hk0). apply insert_stamped; [apply D; exact Hk0|].
      intros yn Hyn Hid. assert (In yn (sub (TN i b nm sr sp m ks))) as HynT by (eapply sub_kid; [exact Hk0|exact Hyn]).
      assert (yn = pn) as -> by (eapply sub_unique; [exact Hnd|exact HynT|exact HpnT|congruence]).
      destruct (stamped_sub _ _ _ _ (D k0 Hk0) Hyn) as (q & Hq). apply stamped_inv' in Hq. destruct Hq as (_ & Hr & Hpath & _).
      rewrite Hr in Er. injection Er as <-. exists pp. split; [exact Ep|exact Hs'].
  - exfalso. assert (pn = T) as ->.
    { destruct T as [i b nm sr sp m ks]. cbn [tkids] in C. subst ks. rewrite sub_eq in HpnT. cbn in HpnT. destruct HpnT as [<-|[]]. reflexivity. }
    congruence.
Qed.

Lemma attach_wf F p s F' :
  WFf F -> nonroots s -> NoDup (ids s) -> (forall x, In x (ids s) -> ~ In x (fids F)) ->
  nd_names (flabs F ++ labs s) ->
  attach F p s = Some F' ->
  WFf F' /\ Permutation (flabs F') (flabs F ++ labs s).
Proof.
  intros [Hnd Hwf] Ns Hnds Hdisj Hnames. unfold attach.
  destruct (ffind F p) as [pn|] eqn:Ef; [|discriminate].
  destruct (tsroot pn) as [r|] eqn:Er; [|discriminate]. destruct (tspath pn) as [pp|] eqn:Ep; [|discriminate].
  intros H; injection H as <-.
  destruct (ffind_top _ _ _ Ef) as (T & HT & HfT). pose proof (find_sub _ _ _ HfT) as HpnT. pose proof (find_id _ _ _ HfT) as Hpid.
  set (s' := restamp (Some r) pp s).
  assert (In p (fids F)) as Hpin by (eapply fids_top_in; [exact HT|eapply find_some_in; exact HfT]).
  rewrite Forall_forall in Hwf.
  assert (Permutation (flabs (finsert F p s')) (flabs F ++ labs s)) as Hperm.
  { unfold flabs, finsert. rewrite <- (labs_restamp (Some r) pp s). fold s'. apply labs_insert_list; [exact Hnd| |exact Hpin].
    intros k Hk yn Hyn Hid. destruct (kid_get (tkids yn) (tnm s')) as [c|] eqn:Ec; [|reflexivity]. exfalso.
    apply kid_get_in in Ec. destruct Ec as (Hc & Hcn). unfold s' in Hcn. rewrite tnm_restamp in Hcn.
    pose proof (wf_top_kid_of_sub_nonroot _ _ _ (Hwf k Hk) Hyn Hc) as Nc.
    apply nonroots_inv in Nc. destruct Nc as (Nc & _). pose proof Ns as Ns'. apply nonroots_inv in Ns'. destruct Ns' as (Ns' & _).
    assert (In c (sub k)) as Hcs by (eapply sub_kid_of; eauto).
    assert (lid (lab c) = lid (lab s)) as Hid2.
    { apply Hnames; [apply in_app_iff; left; eapply in_flabs; [exact Hk|apply sub_labs; exact Hcs]|apply in_app_iff; right; apply labs_self|exact Nc|exact Ns'|exact Hcn]. }
    unfold lid, lab in Hid2. cbn [fst] in Hid2. apply (Hdisj (tid s) (ids_self s)). rewrite <- Hid2.
    eapply fids_top_in; [exact Hk|apply sub_ids; exact Hcs]. }
  split; [|exact Hperm]. split.
  - rewrite fids_flabs. eapply NoDup_perm_map; [apply Permutation_sym; exact Hperm|]. rewrite map_app, <- fids_flabs, <- ids_labs.
    apply NoDup_app_intro; [exact Hnd|exact Hnds|]. intros x Hx Hx'. apply (Hdisj x Hx' Hx).
  - apply Forall_forall. intros T' HT'. unfold finsert in HT'. apply in_map_iff in HT'. destruct HT' as (T0 & <- & HT0).
    assert (NoDup (ids T0)) as HndT0.
    { clear -Hnd HT0. induction F as [|t q IH]; [destruct HT0|]. unfold fids in Hnd. cbn [flat_map] in Hnd. destruct (NoDup_app_inv _ _ Hnd) as (A & B & _). destruct HT0 as [->|H]; auto. }
    apply (wf_top_insert T0 p s' pn); [apply Hwf; exact HT0|exact HndT0| |].
    + intros _ _. exists r, pp. split; [exact Er|]. split; [exact Ep|]. apply restamp_stamped'. exact Ns.
    + intros Hp0. assert (T0 = T) as -> by (eapply top_unique; [exact Hnd|exact HT0|exact HT|exact Hp0|eapply find_some_in; exact HfT]). auto.
Qed.

Lemma flabs_mid F1 T F2 : flabs (F1 ++ T :: F2) = flabs F1 ++ labs T ++ flabs F2.
Proof. rewrite flabs_app. reflexivity. Qed.

(* ---------- replacing a top tree *)
Lemma labs_set_mds T M : labs (set_mds T M) = labs T. Proof. destruct T; reflexivity. Qed.
Lemma wf_top_set_mds T M : wf_top T -> wf_top (set_mds T M). Proof. destruct T; exact (fun H => H). Qed.
Lemma tid_set_mds T M : tid (set_mds T M) = tid T. Proof. destruct T; reflexivity. Qed.

Lemma replace_top_wf F T T' :
  WFf F -> In T F -> tid T' = tid T -> wf_top T' ->
  forall c, Permutation (labs T) (labs T' ++ c) ->
  exists F1 F2, F = F1 ++ T :: F2 /\ freplace_top F T' = F1 ++ T' :: F2 /\
    Permutation (flabs F) (flabs (freplace_top F T') ++ c) /\
    Forall wf_top (freplace_top F T').
Proof.
  intros [Hnd Hwf] HT Hid W c Hp. destruct (top_split _ _ HT Hnd) as (F1 & F2 & -> & Hrep & _ & _).
  exists F1, F2. split; [reflexivity|]. rewrite (Hrep _ Hid). split; [reflexivity|]. split.
  - rewrite !flabs_mid. rewrite Hp. rewrite <- !app_assoc.
    apply Permutation_app_head. apply Permutation_app_head. apply Permutation_app_comm.
  - apply Forall_app in Hwf. destruct Hwf as (H1 & H2). inversion H2; subst. apply Forall_app. split; [exact H1|constructor; assumption].
Qed.

Lemma replace_mds_wf F T M : WFf F -> In T F ->
  WFf (freplace_top F (set_mds T M)) /\ flabs (freplace_top F (set_mds T M)) = flabs F.
Proof.
  intros W HT. pose proof W as [Hnd Hwf]. rewrite Forall_forall in Hwf.
  destruct (replace_top_wf F T (set_mds T M) W HT (tid_set_mds T M) (wf_top_set_mds _ _ (Hwf T HT)) [])
    as (F1 & F2 & -> & -> & _ & Hw); [rewrite labs_set_mds, app_nil_r; reflexivity|].
  assert (flabs (F1 ++ set_mds T M :: F2) = flabs (F1 ++ T :: F2)) as E.
  { rewrite !flabs_mid. rewrite labs_set_mds. reflexivity. }
  split; [|exact E]. split; [|exact Hw]. rewrite fids_flabs, E, <- fids_flabs. exact Hnd.
Qed.

Lemma WFf_perm_nodup F L : Permutation (flabs F) L -> NoDup (map lid L) -> NoDup (fids F).
Proof. intros P H. rewrite fids_flabs. eapply NoDup_perm_map; [apply Permutation_sym; exact P|exact H]. Qed.

Lemma nd_names_perm L L' : Permutation L L' -> nd_names L -> nd_names L'.
Proof. intros P. apply nd_names_incl. intros a Ha. eapply Permutation_in; [apply Permutation_sym; exact P|exact Ha]. Qed.

(* ---------- add_to_tree *)
Lemma add_wf F p c F' : WFf F -> nd_names (flabs F) -> add_to_tree F p c = Some F' ->
  WFf F' /\ Permutation (flabs F') (flabs F).
Proof.
  intros W Hn. pose proof W as [Hnd Hwf]. unfold add_to_tree.
  destruct (ffind F p) as [pn|] eqn:Ef; [|discriminate]. destruct (ftop F c) as [cn|] eqn:Ec; [|discriminate].
  destruct (tsroot pn) eqn:Erp; [|discriminate]. destruct (tsroot cn) eqn:Erc; [discriminate|]. intros Ha.
  destruct (ftop_in _ _ _ Ec) as (Hcn & Hcid). rewrite Forall_forall in Hwf.
  destruct (Hwf cn Hcn) as [(_ & B & _)|(A & _ & C)]; [congruence|].
  destruct (top_split _ _ Hcn Hnd) as (F1 & F2 & HF & _ & Hrem & _). rewrite Hcid in Hrem. rewrite Hrem in Ha.
  assert (labs cn = [lab cn] /\ ids cn = [tid cn]) as (Hl & Hi) by (destruct cn; cbn in C; subst; split; reflexivity).
  assert (Permutation (flabs F) (flabs (F1 ++ F2) ++ labs cn)) as Hp.
  { rewrite HF, flabs_mid, flabs_app. rewrite <- app_assoc. apply Permutation_app_head. apply Permutation_app_comm. }
  assert (NoDup (map lid (flabs (F1 ++ F2) ++ labs cn))) as Hnd2 by (eapply NoDup_perm_map; [exact Hp|rewrite <- fids_flabs; exact Hnd]).
  rewrite map_app, <- fids_flabs, <- ids_labs in Hnd2. destruct (NoDup_app_inv _ _ Hnd2) as (N1 & N2 & N3).
  assert (WFf (F1 ++ F2)) as W0.
  { split; [exact N1|]. apply Forall_forall. intros t Ht. apply Hwf. rewrite HF. apply in_app_iff in Ht. apply in_app_iff. destruct Ht; [left|right; right]; assumption. }
  destruct (attach_wf (F1 ++ F2) p cn F' W0) as (W' & P'); auto.
  - apply nonroots_inv. split; [exact A|rewrite C; constructor].
  - intros x Hx Hx'. apply (N3 x Hx' Hx).
  - eapply nd_names_perm; [exact Hp|exact Hn].
  - split; [exact W'|]. rewrite P'. apply Permutation_sym. exact Hp.
Qed.

(* ---------- graft of a non-root node *)
Lemma unsnoc_some l q b : unsnoc l = Some (q, b) -> l = q ++ [b].
Proof.
  unfold unsnoc. destruct (rev l) as [|x r] eqn:E; [discriminate|]. intros H; injection H as <- <-.
  rewrite <- (rev_involutive l), E. reflexivity.
Qed.
Lemma unsnoc_none l : unsnoc l = None -> l = [].
Proof. unfold unsnoc. destruct (rev l) eqn:E; [|discriminate]. intros _. rewrite <- (rev_involutive l), E. reflexivity. Qed.

Lemma wf_top_nodup F T : NoDup (fids F) -> In T F -> NoDup (ids T).
Proof.
  induction F as [|t q IH]; intros Hnd HT; [destruct HT|]. unfold fids in Hnd. cbn [flat_map] in Hnd.
  destruct (NoDup_app_inv _ _ Hnd) as (A & B & _). destruct HT as [->|H]; auto.
Qed.

(* a rooted non-top node lives in the tree of its stored root, at its stored path *)
Lemma rooted_node_position F x n r p :
  WFf F -> nd_names (flabs F) -> ffind F x = Some n -> tisroot n = false -> tsroot n = Some r -> tspath n = Some p ->
  exists R, ftop F r = Some R /\ In R F /\ tid R = r /\ In n (sub R) /\ n <> R /\ p <> [] /\ walk R p = Some n /\
            tisroot R = true /\ Forall (stamped (tid R) []) (tkids R).
Proof.
  intros [Hnd Hwf] Hn Hf Hnr Hr Hp. destruct (ffind_top _ _ _ Hf) as (T & HT & HfT). pose proof (find_sub _ _ _ HfT) as HnT.
  rewrite Forall_forall in Hwf. pose proof (Hwf T HT) as W. destruct W as [(A & B & C & D)|(A & B & C)].
  - assert (n <> T) as Hne by (intros ->; congruence).
    assert (nd_names (labs T)) as HnT' by (eapply nd_names_incl; [|exact Hn]; intros a Ha; eapply in_flabs; eauto).
    destruct (walk_root T n D (wf_top_nodup _ _ Hnd HT) HnT' HnT Hne) as (path & Hpne & Hpath & Hw & Hroot).
    rewrite Hr in Hroot. injection Hroot as ->. rewrite Hp in Hpath. injection Hpath as ->.
    destruct (top_split _ _ HT Hnd) as (_ & _ & _ & _ & _ & Htop).
    exists T. repeat split; auto.
  - exfalso. destruct T as [i b nm sr sp m ks]. cbn [tkids] in C. subst ks. rewrite sub_eq in HnT. cbn in HnT.
    destruct HnT as [<-|[]]. cbn in *. congruence.
Qed.

Lemma graft_nonroot_wf s recv d o s' dn :
  WFf (trees s) -> nd_names (flabs (trees s)) ->
  ffind (trees s) d = Some dn -> tisroot dn = false -> ~ In recv (ids dn) ->
  graft s recv d o = Some s' ->
  WFf (trees s') /\ Permutation (flabs (trees s')) (flabs (trees s)) /\ next_id s' = next_id s.
Proof.
  intros W Hn Hfd Hnr Hdom. unfold graft. rewrite Hfd.
  destruct (ffind (trees s) recv) as [rn|] eqn:Efr; [|discriminate].
  destruct (tsroot dn) as [rd|] eqn:Erd; [|discriminate]. destruct (tsroot rn) as [rr|] eqn:Err; [|discriminate].
  destruct (tspath dn) as [dp|] eqn:Edp; [|discriminate].
  destruct (rooted_node_position _ _ _ _ _ W Hn Hfd Hnr Erd Edp) as (R & Htop & HR & HRid & HdnR & Hne & Hdpne & Hwalk & HRroot & HRkids).
  rewrite Htop. destruct (unsnoc dp) as [[q b]|] eqn:Eu; [|apply unsnoc_none in Eu; exfalso; apply Hdpne; exact Eu].
  apply unsnoc_some in Eu. subst dp.
  destruct (remove_at R q b) as [R'|] eqn:Erem; [|discriminate].
  destruct (remove_at_spec _ _ _ _ Erem) as (c & Hwc & Hperm & Hid' & Hroot' & Hnm' & Hsr' & Hsp' & Hmds').
  rewrite Hwalk in Hwc. injection Hwc as <-.
  pose proof W as [Hnd Hwf]. rewrite Forall_forall in Hwf.
  assert (wf_top R') as WR'.
  { destruct (Hwf R HR) as [(A & B & C & D)|(A & _)]; [|congruence]. left. rewrite Hroot', Hsr', Hsp', Hid'. repeat split; auto.
    eapply remove_at_root_kids; [exact D|exact Erem]. }
  destruct (replace_top_wf _ R R' W HR Hid' WR' (labs dn) Hperm) as (F1 & F2 & HF & Hrep & HpF & HwF0).
  set (F0 := freplace_top (trees s) R') in *.
  assert (NoDup (map lid (flabs F0 ++ labs dn))) as Hnd2 by (eapply NoDup_perm_map; [exact HpF|rewrite <- fids_flabs; exact Hnd]).
  rewrite map_app, <- fids_flabs, <- ids_labs in Hnd2. destruct (NoDup_app_inv _ _ Hnd2) as (N1 & N2 & N3).
  destruct (attach F0 recv dn) as [F1'|] eqn:Eat; [|discriminate].
  assert (nonroots dn) as Ndn.
  { destruct R as [i bb nm sr sp m ks]. rewrite sub_eq in HdnR. destruct HdnR as [He|HdnR]; [congruence|].
    apply in_flat_map in HdnR. destruct HdnR as (k & Hk & HdnR). cbn [tkids] in HRkids. rewrite Forall_forall in HRkids.
    eapply nonroots_sub; [eapply stamped_nonroots; apply HRkids; exact Hk|exact HdnR]. }
  destruct (attach_wf F0 recv dn F1' (conj N1 HwF0) Ndn N2) as (W1 & P1); auto.
  - intros x Hx Hx'. apply (N3 x Hx' Hx).
  - eapply nd_names_perm; [exact HpF|exact Hn].
  - destruct (ftop F1' rr) as [recv_root|] eqn:Etr; [|discriminate].
    destruct (md_merge o (tmds R) (tmds recv_root) (next_md s)) as [M fresh] eqn:Em.
    intros H; injection H as <-. cbn [trees next_id].
    destruct (ftop_in _ _ _ Etr) as (Hrr & _). destruct (replace_mds_wf F1' recv_root M W1 Hrr) as (W2 & E2).
    split; [exact W2|]. split; [|reflexivity]. rewrite E2, P1. apply Permutation_sym. exact HpF.
Qed.

(* ---------- cut, force_add, step *)
Lemma nd_names_add_roots L E : nd_names L -> Forall (fun l => snd (fst l) = true) E -> nd_names (L ++ E).
Proof.
  intros H HE a b Ha Hb Na Nb Hab. rewrite Forall_forall in HE. apply in_app_iff in Ha, Hb.
  destruct Ha as [Ha|Ha]; [|apply HE in Ha; congruence]. destruct Hb as [Hb|Hb]; [|apply HE in Hb; congruence].
  apply H; assumption.
Qed.

Lemma ffind_app_l F G x n : ffind F x = Some n -> ffind (F ++ G) x = Some n.
Proof. induction F as [|t q IH]; [discriminate|]. cbn. destruct (find t x); [auto|exact IH]. Qed.

Definition WF (s : st) : Prop := WFf (trees s) /\ (forall i, In i (fids (trees s)) -> i < next_id s).
Definition names_ok (s : st) : Prop := nd_names (flabs (trees s)).

Lemma cut_nonroot_wf s d o s' dn :
  WF s -> names_ok s -> ffind (trees s) d = Some dn -> tisroot dn = false ->
  cut s d o = Some s' ->
  WFf (trees s') /\ next_id s' = S (next_id s) /\
  exists nm, Permutation (flabs (trees s')) (flabs (trees s) ++ [(next_id s, true, nm)]).
Proof.
  intros [W Hfresh] Hn Hfd Hnr. unfold cut. rewrite Hfd. destruct (tsroot dn) as [rd|] eqn:Erd; [|discriminate].
  destruct (ftop (trees s) rd) as [old_root|] eqn:Et; [|discriminate].
  set (nr := TN (next_id s) true (tnm old_root +++ "_cut_" +++ tnm dn) (Some (next_id s)) (Some []) [] []).
  intros Hg. pose proof W as [Hnd Hwf].
  assert (~ In (next_id s) (fids (trees s))) as Hnew by (intros Hi; apply Hfresh in Hi; lia).
  assert (WFf (trees s ++ [nr])) as W1.
  { split.
    - rewrite fids_app. apply NoDup_app_intro; [exact Hnd|cbn; constructor; [intros []|constructor]|].
      intros x Hx [<-|[]]. exact (Hnew Hx).
    - apply Forall_app. split; [exact Hwf|]. constructor; [|constructor]. left. cbn. repeat split; constructor. }
  assert (flabs (trees s ++ [nr]) = flabs (trees s) ++ [(next_id s, true, tnm old_root +++ "_cut_" +++ tnm dn)]) as El.
  { rewrite flabs_app. reflexivity. }
  destruct (graft_nonroot_wf (ST (trees s ++ [nr]) (S (next_id s)) (next_md s)) (next_id s) d o s' dn) as (W2 & P2 & N2); auto.
  - cbn [trees]. rewrite El. apply nd_names_add_roots; [exact Hn|constructor; [reflexivity|constructor]].
  - cbn [trees]. apply ffind_app_l. exact Hfd.
  - intros Hi. apply Hnew. destruct (ffind_top _ _ _ Hfd) as (T & HT & HfT). eapply fids_top_in; [exact HT|].
    pose proof (find_sub _ _ _ HfT) as Hs. clear -Hs Hi. revert Hi. generalize (next_id s). intros x Hx.
    assert (forall t n, In n (sub t) -> forall y, In y (ids n) -> In y (ids t)) as Hsubids.
    { clear. intros t. induction t as [i b nm sr sp m ks IH] using tn_ind'. intros n Hn y Hy. rewrite sub_eq in Hn. destruct Hn as [<-|Hn]; [exact Hy|].
      rewrite ids_eq. right. apply in_flat_map in Hn. destruct Hn as (k & Hk & Hn). apply in_flat_map. exists k. split; [exact Hk|].
      rewrite Forall_forall in IH. eapply IH; eauto. }
    eapply Hsubids; eauto.
  - split; [exact W2|]. split; [exact N2|]. eexists. cbn [trees] in P2. rewrite P2, El. reflexivity.
Qed.

Definition graft_dom (F : forest) (recv d : nat) : Prop :=
  forall dn, ffind F d = Some dn -> tisroot dn = false /\ ~ In recv (ids dn).

Definition in_domain (s : st) (o : op) : Prop :=
  match o with
  | OAdd _ _ => True
  | OForceAdd p c => graft_dom (trees s) p c
  | OGraft recv d _ => graft_dom (trees s) recv d
  | OCut d _ => forall dn, ffind (trees s) d = Some dn -> tisroot dn = false
  end.

Lemma graft_some_found s recv d o s' : graft s recv d o = Some s' -> exists dn, ffind (trees s) d = Some dn.
Proof. unfold graft. destruct (ffind (trees s) d); [eauto|discriminate]. Qed.
Lemma cut_some_found s d o s' : cut s d o = Some s' -> exists dn, ffind (trees s) d = Some dn.
Proof. unfold cut. destruct (ffind (trees s) d); [eauto|discriminate]. Qed.

Lemma perm_fids F F' E : Permutation (flabs F') (flabs F ++ E) -> forall i, In i (fids F') -> In i (fids F) \/ In i (map lid E).
Proof.
  intros P i Hi. rewrite fids_flabs in *. apply in_map_iff in Hi. destruct Hi as (l & <- & Hl).
  eapply Permutation_in in Hl; [|exact P]. apply in_app_iff in Hl. destruct Hl; [left|right]; apply in_map; assumption.
Qed.

Theorem step_wf s o : WF s -> names_ok s -> in_domain s o ->
  let s' := fst (step s o) in
  WF s' /\ names_ok s' /\
  exists E, Permutation (flabs (trees s')) (flabs (trees s) ++ E) /\
            Forall (fun l => snd (fst l) = true /\ next_id s <= lid l < next_id s') E /\ next_id s <= next_id s'.
Proof.
  intros Wf Hn Hdom. pose proof Wf as [W Hfresh]. unfold step.
  assert (WF s /\ names_ok s /\ exists E, Permutation (flabs (trees s)) (flabs (trees s) ++ E) /\
            Forall (fun l => snd (fst l) = true /\ next_id s <= lid l < next_id s) E /\ next_id s <= next_id s) as Hsame.
  { split; [exact Wf|]. split; [exact Hn|]. exists []. rewrite app_nil_r. split; [reflexivity|]. split; [constructor|lia]. }
  assert (forall s1, WFf (trees s1) -> Permutation (flabs (trees s1)) (flabs (trees s)) -> next_id s1 = next_id s ->
          WF s1 /\ names_ok s1 /\ exists E, Permutation (flabs (trees s1)) (flabs (trees s) ++ E) /\
            Forall (fun l => snd (fst l) = true /\ next_id s <= lid l < next_id s1) E /\ next_id s <= next_id s1) as Hkeep.
  { intros s1 W1 P1 N1. split; [split; [exact W1|]|].
    - intros i Hi. rewrite N1. apply Hfresh. destruct (perm_fids _ _ [] (eq_rect _ (fun L => Permutation _ L) P1 _ (eq_sym (app_nil_r _))) i Hi) as [H|[]]. exact H.
    - split; [eapply nd_names_perm; [apply Permutation_sym; exact P1|exact Hn]|]. exists []. rewrite app_nil_r. split; [exact P1|]. split; [constructor|lia]. }
  destruct o as [p c|p c|recv d m|d m]; cbn [in_domain] in Hdom.
  - destruct (add_to_tree (trees s) p c) as [F'|] eqn:Ea; cbn [fst]; [|exact Hsame].
    destruct (add_wf _ _ _ _ W Hn Ea) as (W1 & P1). apply (Hkeep (ST F' (next_id s) (next_md s))); auto.
  - unfold force_add. destruct (add_to_tree (trees s) p c) as [F'|] eqn:Ea.
    + cbn [fst]. destruct (add_wf _ _ _ _ W Hn Ea) as (W1 & P1). apply (Hkeep (ST F' (next_id s) (next_md s))); auto.
    + destruct (graft s p c MFalse) as [s1|] eqn:Eg; cbn [fst]; [|exact Hsame].
      destruct (graft_some_found _ _ _ _ _ Eg) as (dn & Hfd). destruct (Hdom dn Hfd) as (Hnr & Hni).
      destruct (graft_nonroot_wf _ _ _ _ _ _ W Hn Hfd Hnr Hni Eg) as (W1 & P1 & N1). apply Hkeep; auto.
  - destruct (graft s recv d m) as [s1|] eqn:Eg; cbn [fst]; [|exact Hsame].
    destruct (graft_some_found _ _ _ _ _ Eg) as (dn & Hfd). destruct (Hdom dn Hfd) as (Hnr & Hni).
    destruct (graft_nonroot_wf _ _ _ _ _ _ W Hn Hfd Hnr Hni Eg) as (W1 & P1 & N1). apply Hkeep; auto.
  - destruct (cut s d m) as [s1|] eqn:Ec; cbn [fst]; [|exact Hsame].
    destruct (cut_some_found _ _ _ _ Ec) as (dn & Hfd). pose proof (Hdom dn Hfd) as Hnr.
    destruct (cut_nonroot_wf _ _ _ _ _ Wf Hn Hfd Hnr Ec) as (W1 & N1 & nm & P1).
    split; [split; [exact W1|]|].
    + intros i Hi. rewrite N1. destruct (perm_fids _ _ _ P1 i Hi) as [H|H]; [apply Hfresh in H; lia|]. cbn in H. destruct H as [<-|[]]. unfold lid. cbn. lia.
    + split; [eapply nd_names_perm; [apply Permutation_sym; exact P1|]; apply nd_names_add_roots; [exact Hn|constructor; [reflexivity|constructor]]|].
      exists [(next_id s, true, nm)]. split; [exact P1|]. split; [|lia]. constructor; [|constructor]. unfold lid. cbn. lia.
Qed.

(* ---------- sequences *)
Fixpoint dom_run (s : st) (ops : list op) : Prop :=
  match ops with [] => True | o :: rest => in_domain s o /\ dom_run (fst (step s o)) rest end.
Lemma run_fst s ops : fst (run s ops) = fold_left (fun s o => fst (step s o)) ops s.
Proof.
  revert s. induction ops as [|o rest IH]; intros s; [reflexivity|]. cbn [run fold_left].
  destruct (step s o) as [s1 b] eqn:E. specialize (IH s1). destruct (run s1 rest) as [s2 bs]. cbn [fst] in *. exact IH.
Qed.
Theorem run_wf ops : forall s, WF s -> names_ok s -> dom_run s ops -> WF (fst (run s ops)) /\ names_ok (fst (run s ops)).
Proof.
  induction ops as [|o rest IH]; intros s W N D; [cbn; auto|]. destruct D as (D1 & D2).
  destruct (step_wf s o W N D1) as (W1 & N1 & _). rewrite run_fst. cbn [fold_left]. rewrite <- run_fst. apply IH; assumption.
Qed.

(* ---------- lookups in a well-formed forest *)
Theorem lookup_own_path s R x n :
  WF s -> names_ok s -> In R (trees s) -> tisroot R = true -> find R x = Some n -> n <> R ->
  exists path, tspath n = Some path /\ walk R path = Some n /\ tsroot n = Some (tid R).
Proof.
  intros [[Hnd Hwf] _] Hn HR Hroot Hf Hne. rewrite Forall_forall in Hwf.
  destruct (Hwf R HR) as [(_ & _ & _ & D)|(A & _)]; [|congruence].
  assert (nd_names (labs R)) as HnR by (eapply nd_names_incl; [|exact Hn]; intros a Ha; eapply in_flabs; eauto).
  destruct (walk_root R n D (wf_top_nodup _ _ Hnd HR) HnR (find_sub _ _ _ Hf) Hne) as (path & _ & Hp & Hw & Hr). eauto.
Qed.

(* ---------- forbidden operations change nothing *)
Lemma add_rooted_fails F p c cn r : ftop F c = Some cn -> tsroot cn = Some r -> add_to_tree F p c = None.
Proof. intros Hc Hr. unfold add_to_tree. destruct (ffind F p); [|reflexivity]. rewrite Hc. destruct (tsroot t); [rewrite Hr|]; reflexivity. Qed.
Lemma add_nontop_fails F p c : ftop F c = None -> add_to_tree F p c = None.
Proof. intros Hc. unfold add_to_tree. destruct (ffind F p); [|reflexivity]. rewrite Hc. reflexivity. Qed.
Lemma add_to_unrooted_fails F p c pn : ffind F p = Some pn -> tsroot pn = None -> add_to_tree F p c = None.
Proof. intros Hp Hr. unfold add_to_tree. rewrite Hp. destruct (ftop F c); [|reflexivity]. rewrite Hr. reflexivity. Qed.
Lemma graft_unrooted_fails s recv d o dn : ffind (trees s) d = Some dn -> tsroot dn = None -> graft s recv d o = None.
Proof. intros Hd Hr. unfold graft. rewrite Hd. destruct (ffind (trees s) recv); [|reflexivity]. rewrite Hr. reflexivity. Qed.
Lemma graft_onto_unrooted_fails s recv d o rn : ffind (trees s) recv = Some rn -> tsroot rn = None -> graft s recv d o = None.
Proof. intros Hd Hr. unfold graft. destruct (ffind (trees s) d); [|reflexivity]. rewrite Hd. destruct (tsroot t); [rewrite Hr|]; reflexivity. Qed.
Lemma step_fail_unchanged s o : snd (step s o) = false -> fst (step s o) = s.
Proof. unfold step. destruct o; match goal with |- context [match ?x with Some _ => _ | None => _ end] => destruct x end; cbn; congruence. Qed.
