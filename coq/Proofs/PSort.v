(* Order facts about String.leb (byte order) and about sorting by name. *)
From Coq Require Import Permutation Sorted OrderedTypeEx.
From Emd Require Import Base.Prelude.

Lemma leb_iff a b : String.leb a b = true <-> a = b \/ String_as_OT.lt a b.
Proof.
  unfold String.leb. change (String.compare a b) with (String_as_OT.cmp a b).
  destruct (String_as_OT.cmp a b) eqn:E.
  - apply String_as_OT.cmp_eq in E. split; auto.
  - apply String_as_OT.cmp_lt in E. split; auto.
  - split; [discriminate|]. intros [H|H].
    + apply String_as_OT.cmp_eq in H. congruence.
    + apply String_as_OT.cmp_lt in H. congruence.
Qed.
Lemma leb_trans a b c : String.leb a b = true -> String.leb b c = true -> String.leb a c = true.
Proof.
  rewrite !leb_iff. intros [->|H1] [->|H2]; auto. right. eapply String_as_OT.lt_trans; eauto.
Qed.

(* ---------- decimal rendering is injective *)
From Coq Require Import DecimalNat DecimalString List.
Lemma to_uint_nonnil n : Nat.to_uint n <> Decimal.Nil.
Proof.
  intros H. pose proof (DecimalNat.Unsigned.to_of (Nat.to_uint n)) as E. rewrite DecimalNat.Unsigned.of_to in E.
  rewrite H in E. cbn in E. discriminate.
Qed.
Lemma nat_str_inj a b : nat_str a = nat_str b -> a = b.
Proof.
  unfold nat_str. intros H. apply DecimalNat.Unsigned.to_uint_inj.
  pose proof (NilZero.usu (Nat.to_uint a) (to_uint_nonnil a)) as Ha.
  pose proof (NilZero.usu (Nat.to_uint b) (to_uint_nonnil b)) as Hb.
  rewrite H in Ha. rewrite Ha in Hb. injection Hb as ->. reflexivity.
Qed.
