(* C16 (metadata part): what read returns is accepted by save again, and the second generation is equivalent to the
   first -- reader-produced forms (numpy scalars inside sequences) included. *)
From Coq Require Import ZArith List Bool Lia PrimFloat.
From Emd Require Import Base.Prelude Model.Md Proofs.P03 Proofs.P15.

(* documented values, with numpy scalars allowed wherever numbers are (what the reader hands back) *)
Definition gnums_ok (xs : list mval) : bool :=
  match all_numbers xs with Some l => forallb sc_storable l && forallb (lossless (max_kind l)) l | None => false end.
Definition gflat_ok (v : mval) : bool := match v with MTuple ys => gnums_ok ys | _ => false end.
Definition gseq (tup : bool) (xs : list mval) : bool :=
  match xs with
  | [] => true
  | x0 :: _ =>
      match x0 with
      | MSc _ | MNp _ => gnums_ok xs
      | MTuple _ => tup && forallb gflat_ok xs
      | MArr _ _ _ => forallb arr_ok xs
      | MStr _ => forallb str_ok xs
      | _ => false end
  end.
Fixpoint docg (v : mval) : bool :=
  match v with
  | MNone => true
  | MStr s => no_nul s && negb (String.eqb s "_None")
  | MSc x => sc_storable x
  | MArr dt _ _ => h5_dtype_ok dt
  | MTuple xs => gseq true xs
  | MList xs => gseq false xs
  | MDict kvs => keys_nodup (map fst kvs) &&
      (fix go (l : list (string * mval)) : bool := match l with [] => true | (k, x) :: r => valid_key k && docg x && go r end) kvs
  | _ => false
  end.

(* ---------- acceptance *)
Lemma gnums_vec xs : gnums_ok xs = true -> exists l, all_numbers xs = Some l /\ vec_of xs = Some (DsVec (promote l)).
Proof.
  unfold gnums_ok, vec_of. destruct (all_numbers xs) as [l|]; [|discriminate]. intros H. apply andb_true_iff in H. destruct H as (Hs & _).
  rewrite Hs. eauto.
Qed.
Lemma opt_all_some {A B} (f : A -> option B) l : (forall x, In x l -> exists y, f x = Some y) -> exists ys, opt_all f l = Some ys.
Proof.
  induction l as [|x r IH]; intros H; [exists []; reflexivity|]. destruct (H x (or_introl eq_refl)) as (y & Hy).
  destruct (IH (fun z Hz => H z (or_intror Hz))) as (ys & Hys). exists (y :: ys). cbn. rewrite Hy, Hys. reflexivity.
Qed.
Lemma existsb_is_tuple_head ys r : existsb is_tuple (MTuple ys :: r) = true. Proof. reflexivity. Qed.
Lemma no_tuple_in l (P : mval -> bool) : forallb P l = true -> (forall v, P v = true -> is_tuple v = false) -> existsb is_tuple l = false.
Proof. intros H HP. induction l as [|v r IH]; [reflexivity|]. cbn in *. apply andb_true_iff in H. destruct H as (A & B). rewrite (HP v A), (IH B). reflexivity. Qed.

Lemma gseq_accepted tup xs : gseq tup xs = true -> exists it, save_seq tup xs = Ok it.
Proof.
  intros H. unfold save_seq. destruct xs as [|x0 r]; [eexists; reflexivity|]. unfold gseq in H.
  destruct x0 as [|s|x|x|dt sh t|ys| | | |]; try discriminate.
  - (* strings *)
    cbn [isinstance_number]. rewrite (no_tuple_in _ _ H) by (intros v Hv; destruct v; try discriminate; reflexivity). rewrite andb_false_r.
    destruct (opt_all_some str_member (MStr s :: r)) as (ms & ->); [|eexists; reflexivity].
    intros v Hv. rewrite forallb_forall in H. specialize (H v Hv). destruct v; try discriminate. cbn in H. unfold no_nul in H. apply negb_true_iff in H. cbn. rewrite H. eauto.
  - cbn [isinstance_number]. destruct (gnums_vec _ H) as (l & _ & ->). eexists; reflexivity.
  - cbn [isinstance_number]. destruct (gnums_vec _ H) as (l & _ & ->). eexists; reflexivity.
  - cbn [isinstance_number]. rewrite (no_tuple_in _ _ H) by (intros v Hv; destruct v; try discriminate; reflexivity). rewrite andb_false_r.
    destruct (opt_all_some arr_member (MArr dt sh t :: r)) as (ms & ->); [|eexists; reflexivity].
    intros v Hv. rewrite forallb_forall in H. specialize (H v Hv). destruct v; try discriminate. cbn in H. cbn. rewrite H. eauto.
  - apply andb_true_iff in H. destruct H as (-> & H). cbn [isinstance_number]. rewrite existsb_is_tuple_head. cbn [andb].
    destruct (opt_all_some tt_member (MTuple ys :: r)) as (ms & ->); [|eexists; reflexivity].
    intros v Hv. rewrite forallb_forall in H. specialize (H v Hv). destruct v; try discriminate. cbn in H. destruct (gnums_vec _ H) as (l & _ & Hvec). cbn. rewrite Hvec. eauto.
Qed.

Theorem docg_accepted v : docg v = true -> exists it, save_item v = Ok it.
Proof.
  induction v as [|s|x|x|dt sh t|xs|xs|kvs IH|s|] using mval_ind_dict; intros Hd; try discriminate.
  - eexists; reflexivity.
  - cbn in Hd. apply andb_true_iff in Hd. destruct Hd as (A & _). unfold no_nul in A. apply negb_true_iff in A. cbn [save_item]. rewrite A. eexists; reflexivity.
  - cbn in Hd. destruct x; cbn [save_item]; rewrite ?Hd; eexists; reflexivity.
  - cbn in Hd. cbn [save_item]. rewrite Hd. eexists; reflexivity.
  - apply (gseq_accepted true). exact Hd.
  - apply (gseq_accepted false). exact Hd.
  - cbn [docg] in Hd. apply andb_true_iff in Hd. destruct Hd as (_ & Hd). cbn [save_item].
    assert (exists its, (fix go (l : list (string * mval)) : res (list (string * item)) :=
         match l with [] => Ok [] | (k, x) :: r => if valid_key k then do it <- save_item x; do rest <- go r; Ok ((k, it) :: rest) else Err EOther end) kvs = Ok its) as (its & ->); [|eexists; reflexivity].
    induction IH as [|[k x] r Hx _ IHr]; [eexists; reflexivity|]. apply andb_true_iff in Hd. destruct Hd as (Hkx & Hr). apply andb_true_iff in Hkx. destruct Hkx as (Hk & Hx').
    destruct (IHr Hr) as (its & Hits). cbn [snd] in Hx. destruct (Hx Hx') as (it & Hit). rewrite Hk, Hit. cbn [bind]. rewrite Hits. cbn [bind]. eexists; reflexivity.
Qed.

(* ---------- docg values are clean Python values *)
Lemma gnums_lossless xs : gnums_ok xs = true -> nums_lossless xs = true.
Proof. unfold gnums_ok, nums_lossless. destruct (all_numbers xs); [|discriminate]. intros H. apply andb_true_iff in H. tauto. Qed.
Lemma all_numbers_no_tuple xs l : all_numbers xs = Some l -> forallb (fun x => match x with MTuple ys => nums_lossless ys | _ => true end) xs = true.
Proof.
  revert l. induction xs as [|v r IH]; intros l H; [reflexivity|]. cbn in H. destruct (is_number v) eqn:E; [|discriminate]. destruct (all_numbers r) eqn:Er; [|discriminate].
  cbn. rewrite (IH _ eq_refl). destruct v; cbn in E; try discriminate; reflexivity.
Qed.
Lemma gseq_clean tup xs : gseq tup xs = true -> clean (if tup then MTuple xs else MList xs) = true.
Proof.
  intros H. assert (nums_lossless xs && forallb (fun x => match x with MTuple ys => nums_lossless ys | _ => true end) xs = true) as G; [|destruct tup; exact G].
  destruct xs as [|x0 r]; [reflexivity|]. unfold gseq in H. destruct x0 as [|s|x|x|dt sh t|ys| | | |]; try discriminate.
  - unfold nums_lossless. cbn [all_numbers is_number]. cbn [andb]. clear -H. induction (MStr s :: r) as [|v q IH]; [reflexivity|]. cbn in *. apply andb_true_iff in H. destruct H as (A & B). destruct v; try discriminate. cbn. auto.
  - rewrite (gnums_lossless _ H). unfold gnums_ok in H. destruct (all_numbers (MSc x :: r)) eqn:E; [|discriminate]. rewrite (all_numbers_no_tuple _ _ E). reflexivity.
  - rewrite (gnums_lossless _ H). unfold gnums_ok in H. destruct (all_numbers (MNp x :: r)) eqn:E; [|discriminate]. rewrite (all_numbers_no_tuple _ _ E). reflexivity.
  - unfold nums_lossless. cbn [all_numbers is_number]. cbn [andb]. clear -H. induction (MArr dt sh t :: r) as [|v q IH]; [reflexivity|]. cbn in *. apply andb_true_iff in H. destruct H as (A & B). destruct v; try discriminate. cbn. auto.
  - apply andb_true_iff in H. destruct H as (_ & H). unfold nums_lossless at 1. cbn [all_numbers is_number]. cbn [andb].
    clear -H. induction (MTuple ys :: r) as [|v q IH]; [reflexivity|]. cbn in *. apply andb_true_iff in H. destruct H as (A & B). destruct v; try discriminate. cbn in A. rewrite (gnums_lossless _ A). cbn. auto.
Qed.
Theorem docg_clean v : docg v = true -> clean v = true /\ wf_dicts v = true.
Proof.
  induction v as [|s|x|x|dt sh t|xs|xs|kvs IH|s|] using mval_ind_dict; intros Hd; try discriminate; try (split; reflexivity).
  - cbn in Hd. apply andb_true_iff in Hd. destruct Hd as (_ & B). split; [exact B|reflexivity].
  - split; [apply (gseq_clean true); exact Hd|reflexivity].
  - split; [apply (gseq_clean false); exact Hd|reflexivity].
  - cbn [docg] in Hd. apply andb_true_iff in Hd. destruct Hd as (Hnd & Hd). cbn [clean wf_dicts]. rewrite Hnd. cbn [andb].
    clear Hnd. induction IH as [|[k x] r Hx _ IHr]; [split; reflexivity|]. apply andb_true_iff in Hd. destruct Hd as (Hkx & Hr). apply andb_true_iff in Hkx. destruct Hkx as (_ & Hx').
    destruct (IHr Hr) as (A & B). cbn [snd] in Hx. destruct (Hx Hx') as (C & D). rewrite A, B, C, D. split; reflexivity.
Qed.

(* any docg value goes through a full generation and comes back equivalent *)
Theorem docg_generation v : docg v = true ->
  exists it v', save_item v = Ok it /\ read_item it = Ok v' /\ mequiv v v' = true.
Proof.
  intros Hd. destruct (docg_accepted _ Hd) as (it & Hs). destruct (docg_clean _ Hd) as (Hc & Hw).
  destruct (md_total _ _ Hs Hc Hw) as (v' & Hr & Hm). eauto.
Qed.

(* ---------- what the reader hands back is again a (generalised) documented value *)
Lemma kind_to_kind k x : kind x <= k -> k <= 3 -> kind (to_kind k x) = k.
Proof. destruct x, k as [|[|[|[|k]]]]; cbn; intros; try lia; reflexivity. Qed.
Lemma storable_to_kind k x : sc_storable x = true -> sc_storable (to_kind k x) = true.
Proof. destruct x as [[|]| | |], k as [|[|[|[|k]]]]; cbn; intros; try reflexivity; assumption. Qed.
Lemma all_numbers_np p : all_numbers (map MNp p) = Some p.
Proof. induction p as [|x r IH]; [reflexivity|]. cbn. rewrite IH. reflexivity. Qed.
Lemma max_kind_bound p K : (forall x, In x p -> kind x = K) -> max_kind p <= K.
Proof. induction p as [|x r IH]; intros H; [cbn; lia|]. rewrite max_kind_cons. rewrite (H x (or_introl eq_refl)). specialize (IH (fun y Hy => H y (or_intror Hy))). lia. Qed.

Lemma promote_gnums l : forallb sc_storable l = true -> gnums_ok (map MNp (promote l)) = true.
Proof.
  intros Hs. unfold gnums_ok. rewrite all_numbers_np. unfold promote. set (K := max_kind l).
  assert (forall x, In x (map (to_kind K) l) -> kind x = K /\ sc_storable x = true) as Hall.
  { intros y Hy. apply in_map_iff in Hy. destruct Hy as (x & <- & Hx). split; [apply kind_to_kind; [apply kind_le_max; exact Hx|apply max_kind_le3]|].
    apply storable_to_kind. rewrite forallb_forall in Hs. apply Hs. exact Hx. }
  apply andb_true_iff. split; apply forallb_forall; intros y Hy; destruct (Hall y Hy) as (Hk & Hst); [exact Hst|].
  assert (max_kind (map (to_kind K) l) <= K) as Hm by (apply max_kind_bound; intros z Hz; apply Hall; exact Hz).
  unfold lossless. destruct y as [b|z|f|re im]; try reflexivity. cbn in Hk. destruct (Nat.leb 2 (max_kind (map (to_kind K) l))) eqn:E; [|reflexivity].
  apply Nat.leb_le in E. lia.
Qed.

Lemma seq_closure tup xs : seq_doc tup xs = true ->
  exists it v', save_seq tup xs = Ok it /\ read_item it = Ok v' /\ docg v' = true.
Proof.
  intros Hd. destruct xs as [|x0 r].
  - unfold save_seq. destruct tup; do 2 eexists; repeat split; reflexivity.
  - unfold seq_doc in Hd. destruct x0 as [|s|x| | dt sh t|ys| | | |]; try discriminate.
    + destruct (strs_rt _ Hd) as (ms & Hm & Hr & He & Ht). unfold save_seq. cbn [isinstance_number]. rewrite Ht, andb_false_r, Hm.
      destruct tup; (eexists; eexists; split; [reflexivity|]); cbn [read_item append String.eqb Ascii.eqb Bool.eqb]; (split; [reflexivity|]); rewrite Hr; cbn [docg gseq]; exact Hd.
    + destruct (py_numbers (MSc x :: r)) as [l|] eqn:Ep; [|discriminate]. unfold save_seq. cbn [isinstance_number].
      rewrite (vec_of_numbers _ _ Ep Hd). unfold numseq_ok in Hd. apply andb_true_iff in Hd. destruct Hd as (Hs & _).
      pose proof (promote_gnums _ Hs) as Hg.
      destruct tup; (eexists; eexists; split; [reflexivity|]); cbn [read_item String.eqb Ascii.eqb Bool.eqb]; (split; [reflexivity|]); cbn [docg];
        (destruct (promote l) as [|p0 pr] eqn:Epp; [reflexivity|]); cbn [map gseq]; rewrite <- Epp in *; cbn [map] in Hg; rewrite Epp in Hg; exact Hg.
    + destruct (arrs_rt _ Hd) as (ms & Hm & Hr & He & Ht). unfold save_seq. cbn [isinstance_number]. rewrite Ht, andb_false_r, Hm.
      destruct tup; (eexists; eexists; split; [reflexivity|]); cbn [read_item append String.eqb Ascii.eqb Bool.eqb]; (split; [reflexivity|]); rewrite Hr; cbn [docg gseq]; exact Hd.
    + apply andb_true_iff in Hd. destruct Hd as (Ht & Hd). subst tup.
      assert (exists ms, opt_all tt_member (MTuple ys :: r) = Some ms /\ forallb gflat_ok (map rd_member_tt ms) = true /\
                         exists m0 mr, map rd_member_tt ms = MTuple m0 :: mr) as (ms & Hm & Hg & m0 & mr & Hhd).
      { assert (forall l0, forallb flat_tuple_ok l0 = true -> exists ms, opt_all tt_member l0 = Some ms /\ forallb gflat_ok (map rd_member_tt ms) = true /\
                  (forall y q, l0 = MTuple y :: q -> exists m0 mr, map rd_member_tt ms = MTuple m0 :: mr)) as Hgen.
        { induction l0 as [|v q IH]; intros Hq; [exists []; split; [reflexivity|split; [reflexivity|intros y q E; discriminate]]|].
          cbn in Hq. apply andb_true_iff in Hq. destruct Hq as (A & B). destruct (IH B) as (ms & Hm & Hg & _).
          destruct v as [| | | | |zs| | | |]; try discriminate. cbn [flat_tuple_ok] in A. destruct (py_numbers zs) as [l0'|] eqn:Ep; [|discriminate].
          cbn [opt_all tt_member]. rewrite (vec_of_numbers _ _ Ep A), Hm. eexists. split; [reflexivity|]. cbn [map rd_member_tt forallb gflat_ok].
          unfold numseq_ok in A. apply andb_true_iff in A. destruct A as (As & _). rewrite (promote_gnums _ As), Hg. split; [reflexivity|]. intros y q0 _. eauto. }
        destruct (Hgen _ Hd) as (ms & Hm & Hg & Hhd). destruct (Hhd ys r eq_refl) as (m0 & mr & E). exists ms. eauto. }
      unfold save_seq. cbn [isinstance_number existsb is_tuple orb andb]. rewrite Hm.
      eexists. eexists. split; [reflexivity|]. cbn [read_item String.eqb Ascii.eqb Bool.eqb]. split; [reflexivity|]. cbn [docg]. rewrite Hhd in *. cbn [gseq andb]. exact Hg.
Qed.

Theorem generation_closure v : doc v = true ->
  exists it v', save_item v = Ok it /\ read_item it = Ok v' /\ docg v' = true.
Proof.
  induction v as [|s|x|x|dt sh t|xs|xs|kvs IH|s|] using mval_ind_dict; intros Hd; try discriminate.
  - eexists. eexists. split; [reflexivity|]. split; reflexivity.
  - cbn in Hd. pose proof Hd as Hd0. apply andb_true_iff in Hd. destruct Hd as (A & B). unfold no_nul in A. apply negb_true_iff in A. apply negb_true_iff in B.
    cbn [save_item]. rewrite A. eexists. eexists. split; [reflexivity|]. cbn [read_item String.eqb Ascii.eqb Bool.eqb]. rewrite B. split; [reflexivity|exact Hd0].
  - cbn in Hd. destruct x as [b|z|f|re im]; cbn [save_item]; rewrite ?Hd; (eexists; eexists; split; [reflexivity|]); cbn [read_item String.eqb Ascii.eqb Bool.eqb]; (split; [reflexivity|exact Hd]).
  - cbn in Hd. cbn [save_item]. rewrite Hd. eexists. eexists. split; [reflexivity|]. cbn [read_item String.eqb Ascii.eqb Bool.eqb]. split; [reflexivity|exact Hd].
  - apply (seq_closure true). exact Hd.
  - apply (seq_closure false). exact Hd.
  - cbn [doc] in Hd. apply andb_true_iff in Hd. destruct Hd as (Hnd & Hd).
    assert (exists its vs',
      (fix go (l : list (string * mval)) : res (list (string * item)) :=
         match l with [] => Ok [] | (k, x) :: r => if valid_key k then do it <- save_item x; do rest <- go r; Ok ((k, it) :: rest) else Err EOther end) kvs = Ok its /\
      (fix go (l : list (string * item)) : res (list (string * mval)) :=
         match l with [] => Ok [] | (k, x) :: r => do v <- read_item x; do rest <- go r; Ok ((k, v) :: rest) end) its = Ok vs' /\
      map fst vs' = map fst kvs /\
      (fix go (l : list (string * mval)) : bool := match l with [] => true | (k, x) :: r => valid_key k && docg x && go r end) vs' = true) as (its & vs' & Hs & Hr & Hk & Hg).
    { clear Hnd. induction IH as [|[k x] r Hx _ IHr]; [exists [], []; repeat split; reflexivity|].
      apply andb_true_iff in Hd. destruct Hd as (Hkx & Hdr). apply andb_true_iff in Hkx. destruct Hkx as (Hk & Hdx).
      destruct (IHr Hdr) as (its & vs' & Hs & Hr & Hkk & Hg). cbn [snd] in Hx. destruct (Hx Hdx) as (it & v' & Hsi & Hri & Hdg).
      exists ((k, it) :: its), ((k, v') :: vs'). rewrite Hk, Hsi. cbn [bind]. rewrite Hs. cbn [bind]. split; [reflexivity|].
      rewrite Hri. cbn [bind]. rewrite Hr. cbn [bind]. split; [reflexivity|]. split; [cbn; rewrite Hkk; reflexivity|].
      rewrite Hdg, Hg. reflexivity. }
    cbn [save_item]. rewrite Hs. eexists. eexists. split; [reflexivity|]. cbn [read_item]. rewrite Hr. split; [reflexivity|]. cbn [docg]. rewrite Hk, Hnd, Hg. reflexivity.
Qed.

(* C16 for metadata: two generations *)
Theorem second_generation_equals_first v : doc v = true ->
  exists it v' it' v'', save_item v = Ok it /\ read_item it = Ok v' /\ mequiv v v' = true /\
                       save_item v' = Ok it' /\ read_item it' = Ok v'' /\ mequiv v' v'' = true.
Proof.
  intros Hd. destruct (generation_closure _ Hd) as (it & v' & Hs & Hr & Hg). destruct (md_roundtrip _ Hd) as (it0 & Hs0 & v0 & Hr0 & Hm).
  rewrite Hs in Hs0. injection Hs0 as <-. rewrite Hr in Hr0. injection Hr0 as <-.
  destruct (docg_generation _ Hg) as (it' & v'' & Hs' & Hr' & Hm'). exists it, v', it', v''. auto 10.
Qed.
(* ... and any number of further generations: docg is closed under a generation *)

(* ---------- C16 for Array calibrations: the first generation is again a well-formed Array, so it round-trips too *)
From Emd Require Import Model.Arr Proofs.P14 Proofs.P02.

Lemma list_eqb_len {A} (e : A -> A -> bool) l l' : list_eqb e l l' = true -> length l = length l'.
Proof. revert l'. induction l as [|x r IH]; intros [|y r']; cbn; try discriminate; [reflexivity|]. intros H. apply andb_true_iff in H. destruct H as (_ & H). f_equal. apply IH. exact H. Qed.
Lemma dimv_equiv_len d d' : dimv_equiv d d' -> dimv_len d' = dimv_len d.
Proof. intros [->|(xs & ys & -> & -> & H)]; [reflexivity|]. cbn. symmetry. eapply list_eqb_len. exact H. Qed.

Theorem array_second_generation a : arr_inv a ->
  (forall d, a_depth a = Some d -> length (a_labels a) = d) -> (a_depth a = None -> a_labels a = []) ->
  exists a' a'', arr_load (arr_store a) = Ok a' /\ arr_load (arr_store a') = Ok a'' /\
    a_shape a'' = a_shape a' /\ a_depth a'' = a_depth a' /\ a_units a'' = a_units a' /\ a_names a'' = a_names a' /\
    a_labels a'' = a_labels a' /\ Forall2 dimv_equiv (a_dims a') (a_dims a'').
Proof.
  intros Hi Hl Hn. destruct (calibration_roundtrip a Hi Hl Hn) as (a' & H1 & Hs & Hd & Hu & Hnm & Hlab & Hdims).
  assert (arr_inv a') as Hi'.
  { destruct Hi as (A & B & C & D). unfold arr_inv, a_rank in *. rewrite Hs, Hu, Hnm. repeat split; auto.
    - rewrite <- (Forall2_length _ _ _ Hdims). exact A.
    - clear -D Hdims. revert D. generalize (a_shape a). induction Hdims as [|d d' ds ds' He _ IH]; intros sh D; inversion D; subst; constructor.
      + rewrite (dimv_equiv_len _ _ He). reflexivity.
      + apply IH. assumption. }
  destruct (calibration_roundtrip a' Hi') as (a'' & H2 & R); [rewrite Hd, Hlab; exact Hl|rewrite Hd, Hlab; exact Hn|].
  exists a', a''. tauto.
Qed.
