(* C09: append only extends the file tree; append-over replaces a node's own content and keeps the
   data children that exist only in the file. *)
From Emd Require Import Base.Prelude Model.H5 Model.Emd Proofs.PTree Proofs.PFault.

Lemma ext_update_one name w g g' :
  (forall c c', w c = Ok c' -> ext c c') -> update_at g [name] w = Ok g' -> ext g g'.
Proof.
  intros Hw. cbn [update_at]. destruct g as [a l|]; [|discriminate]. destruct (get l name) as [c|] eqn:Eg; [|discriminate].
  cbn [update_at]. destruct (w c) as [c'|] eqn:Ew; cbn [bind]; [|discriminate]. intros H; injection H as <-.
  eapply ext_set; [exact Eg|eapply Hw; exact Ew].
Qed.
Lemma ext_write_single n g g' : write_single_node n g = Ok g' -> ext g g'.
Proof. unfold write_single_node. destruct g as [a l|]; [apply ext_add|discriminate]. Qed.

Lemma ext_write_tree n : forall g g', write_tree n g = Ok g' -> ext g g'.
Proof.
  induction n as [c nm t r m ks IH] using rnode_ind'. intros g g'. cbn [write_tree rkids]. rewrite Forall_forall in IH.
  assert (forall ks0, (forall k, In k ks0 -> In k ks) -> forall acc g'', (forall g0, acc = Ok g0 -> ext g g0) ->
     fold_left (fun acc k => do g0 <- acc; do g1 <- write_single_node k g0; in_child (rname k) (write_tree k) g1) ks0 acc = Ok g'' -> ext g g'') as Hgen.
  { induction ks0 as [|k q IHq]; intros Hsub acc g'' Hacc H; [cbn in H; apply Hacc; exact H|].
    cbn [fold_left] in H. refine (IHq (fun k0 Hk0 => Hsub k0 (or_intror Hk0)) _ g'' _ H).
    intros g1 E1. destruct acc as [g0|]; cbn [bind] in E1; [|discriminate].
    destruct (write_single_node k g0) as [g01|] eqn:Ew; cbn [bind] in E1; [|discriminate].
    eapply ext_trans; [apply Hacc; reflexivity|]. eapply ext_trans; [eapply ext_write_single; exact Ew|].
    eapply ext_update_one; [|exact E1]. intros c0 c0'. apply IH. apply Hsub. left. reflexivity. }
  apply (Hgen ks (fun k H => H)). intros g0 E; injection E as <-. apply ext_refl.
Qed.

(* append mode: every node already in the file is unchanged *)
Theorem append_only_extends n : forall g g', append_branch false n g = Ok g' -> ext g g'.
Proof.
  induction n as [c nm t r m ks IH] using rnode_ind'. intros g g'. cbn [append_branch rkids]. rewrite Forall_forall in IH.
  match goal with |- fold_left ?F ks _ = _ -> _ =>
    assert (forall ks0, (forall k, In k ks0 -> In k ks) -> forall acc g'', (forall g0, acc = Ok g0 -> ext g g0) ->
       fold_left F ks0 acc = Ok g'' -> ext g g'') as Hgen end.
  { induction ks0 as [|k q IHq]; intros Hsub acc g'' Hacc H; [cbn in H; apply Hacc; exact H|].
    cbn [fold_left] in H. refine (IHq (fun k0 Hk0 => Hsub k0 (or_intror Hk0)) _ g'' _ H).
    intros g1 E1. destruct acc as [g0|]; cbn [bind] in E1; [|discriminate].
    eapply ext_trans; [apply Hacc; reflexivity|].
    destruct (mem (rname k) _).
    - cbn [bind] in E1. eapply ext_update_one; [|exact E1]. intros c0 c0'. apply IH. apply Hsub. left. reflexivity.
    - destruct (write_single_node k g0) as [g01|] eqn:Ew; cbn [bind] in E1; [|discriminate].
      eapply ext_trans; [eapply ext_write_single; exact Ew|]. eapply ext_update_one; [|exact E1]. intros c0 c0'. apply ext_write_tree. }
  apply (Hgen ks (fun k H => H)). intros g0 E; injection E as <-. apply ext_refl.
Qed.

(* a runtime child the file lacks is written as a whole new branch at its runtime path (one step of the merge) *)
Lemma new_child_written_whole k a l : ok_tree k -> ~ In (rname k) (keys l) ->
  (do g1 <- write_single_node k (G a l); in_child (rname k) (write_tree k) g1) = Ok (G a (l ++ [(rname k, enc k)])).
Proof.
  intros Hok Hn. unfold write_single_node, add_link. pose proof Hn as Hn'. apply has_false_iff in Hn'. rewrite Hn'. cbn [bind].
  unfold in_child. cbn [update_at]. rewrite get_app_r by (apply get_none_notin; exact Hn). cbn [get]. rewrite String.eqb_refl. cbn [update_at].
  rewrite (write_tree_enc _ Hok). cbn [bind]. rewrite set_app_last by (apply get_none_notin; exact Hn). reflexivity.
Qed.

(* ---------- append-over: replacing one node *)
Lemma fold_add_links keep : forall a l, NoDup (keys keep) -> (forall k, In k (keys keep) -> ~ In k (keys l)) ->
  fold_left (fun acc kv => do g <- acc; add_link (fst kv) (snd kv) g) keep (Ok (G a l)) = Ok (G a (l ++ keep)).
Proof.
  induction keep as [|[k v] r IH]; intros a l Hnd Hd; [cbn; rewrite app_nil_r; reflexivity|].
  cbn [fold_left bind fst snd]. unfold add_link. cbn [keys map fst] in *. apply NoDup_cons_iff in Hnd. destruct Hnd as (Hk & Hnd).
  assert (has l k = false) as Hh by (apply has_false_iff; apply Hd; left; reflexivity). rewrite Hh.
  rewrite IH; [rewrite <- app_assoc; reflexivity|exact Hnd|].
  intros k0 Hk0. rewrite keys_app. cbn [keys map fst]. intros Hi. apply in_app_iff in Hi. destruct Hi as [Hi|[<-|[]]]; [apply (Hd k0 (or_intror Hk0) Hi)|exact (Hk Hk0)].
Qed.

Lemma get_rename_other {A} (l : list (string * A)) a b k : k <> a -> k <> b -> get (rename l a b) k = get l k.
Proof.
  intros Ha Hb. induction l as [|[k' v] r IH]; [reflexivity|]. cbn [rename]. destruct (String.eqb k' a) eqn:E.
  - apply String.eqb_eq in E. subst k'. cbn [get]. destruct (String.eqb k b) eqn:E1; [apply String.eqb_eq in E1; congruence|].
    destruct (String.eqb k a) eqn:E2; [apply String.eqb_eq in E2; congruence|reflexivity].
  - cbn [get]. destruct (String.eqb k k'); [reflexivity|exact IH].
Qed.
Lemma get_del_other {A} (l : list (string * A)) a k : k <> a -> get (del l a) k = get l k.
Proof.
  intros Ha. induction l as [|[k' v] r IH]; [reflexivity|]. cbn [del]. destruct (String.eqb a k') eqn:E.
  - apply String.eqb_eq in E. subst k'. cbn [get]. destruct (String.eqb k a) eqn:E2; [apply String.eqb_eq in E2; congruence|reflexivity].
  - cbn [get]. destruct (String.eqb k k'); [reflexivity|exact IH].
Qed.
Lemma get_rename_new {A} (l : list (string * A)) a b v : get l a = Some v -> get l b = None -> get (rename l a b) b = Some v.
Proof.
  induction l as [|[k' w] r IH]; [discriminate|]. cbn [get rename]. destruct (String.eqb a k') eqn:E.
  - apply String.eqb_eq in E. subst k'. intros H _; injection H as <-. rewrite String.eqb_refl. cbn [get]. rewrite String.eqb_refl. reflexivity.
  - rewrite (String.eqb_sym k' a), E. cbn [get]. destruct (String.eqb b k') eqn:E2; [discriminate|]. exact IH.
Qed.

Lemma keys_rename_nodup {A} (l : list (string * A)) a b : NoDup (keys l) -> ~ In b (keys l) -> NoDup (keys (rename l a b)).
Proof.
  intros Hnd Hb. induction l as [|[k v] r IH]; [constructor|]. cbn [rename keys map fst] in *. apply NoDup_cons_iff in Hnd. destruct Hnd as (Hk & Hnd).
  destruct (String.eqb k a) eqn:E; cbn [keys map fst].
  - constructor; [intros Hi; apply Hb; right; exact Hi|exact Hnd].
  - constructor; [|apply IH; [exact Hnd|intros Hi; apply Hb; right; exact Hi]].
    intros Hi. assert (forall (l0 : list (string * A)), In k (keys (rename l0 a b)) -> In k (keys l0) \/ k = b) as Hr.
    { clear. induction l0 as [|[k' v'] r' IHr]; [intros []|]. cbn [rename]. destruct (String.eqb k' a); cbn [keys map fst]; intros [H|H]; auto.
      - left. right. exact H.
      - left. left. exact H.
      - destruct (IHr H); auto. left. right. assumption. }
    destruct (Hr _ Hi) as [H|H]; [exact (Hk H)|]. apply Hb. left. exact H.
Qed.
Lemma get_del_same {A} (l : list (string * A)) t : NoDup (keys l) -> get (del l t) t = None.
Proof.
  intros Hnd. induction l as [|[k v] r IH]; [reflexivity|]. cbn [del keys map fst] in *. apply NoDup_cons_iff in Hnd. destruct Hnd as (Hk & Hnd).
  destruct (String.eqb t k) eqn:E.
  - apply String.eqb_eq in E. subst k. apply get_none_notin. exact Hk.
  - cbn [get]. rewrite E. apply IH. exact Hnd.
Qed.

(* the replaced node: its own content is the runtime node's (tags, metadata bundle, datasets), the data
   children that existed in the file are kept below it, every sibling is untouched, no scratch group remains *)
Theorem overwrite_spec n a l old p' :
  NoDup (keys l) ->
  get l (rname n) = Some old -> get l (tmpname (rname n)) = None ->
  NoDup (keys (filter (fun kv => is_data_group (snd kv)) (ksort (olinks old)))) ->
  (forall k, In k (keys (filter (fun kv => is_data_group (snd kv)) (ksort (olinks old)))) -> ~ In k (keys (shallow_links n))) ->
  overwrite_in_parent n (G a l) = Ok p' ->
  get (olinks p') (rname n) = Some (G (node_tags n) (shallow_links n ++ filter (fun kv => is_data_group (snd kv)) (ksort (olinks old))))
  /\ get (olinks p') (tmpname (rname n)) = None
  /\ oattrs p' = a
  /\ forall k, k <> rname n -> k <> tmpname (rname n) -> get (olinks p') k = get l k.
Proof.
  intros HndL Hold Htmp Hnd Hdisj. unfold overwrite_in_parent. cbn [olinks]. rewrite Hold. set (name := rname n) in *. set (tmp := tmpname name) in *.
  set (keep := filter (fun kv => is_data_group (snd kv)) (ksort (olinks old))) in *.
  unfold move_link, has. rewrite Hold, Htmp. cbn [bind].
  set (l1 := rename l name tmp).
  assert (name <> tmp) as Hne by apply tmpname_neq.
  assert (~ In tmp (keys l)) as HtmpL by (apply get_none_notin; exact Htmp).
  assert (~ In name (keys l1)) as Hn1 by (apply keys_rename_notin; assumption).
  assert (NoDup (keys l1)) as Hnd1 by (apply keys_rename_nodup; assumption).
  unfold write_single_node. unfold add_link at 1. fold name. assert (has l1 name = false) as Hh by (apply has_false_iff; exact Hn1). rewrite Hh. cbn [bind].
  unfold in_child. cbn [update_at]. rewrite get_app_r by (apply get_none_notin; exact Hn1). cbn [get]. rewrite String.eqb_refl. cbn [update_at].
  cbv beta. rewrite node_shallow_eq. rewrite (fold_add_links keep (node_tags n) (shallow_links n) Hnd Hdisj). cbn [bind].
  rewrite set_app_last by (apply get_none_notin; exact Hn1).
  set (newg := G (node_tags n) (shallow_links n ++ keep)).
  unfold del_link. assert (get l1 tmp = Some old) as Ht1 by (apply get_rename_new; assumption).
  unfold has. rewrite (get_app_l _ [(name, newg)] _ _ Ht1). intros H; injection H as <-. cbn [olinks oattrs].
  assert (NoDup (keys (l1 ++ [(name, newg)]))) as HndX.
  { rewrite keys_app. apply NoDup_app_intro; [exact Hnd1|cbn; constructor; [intros []|constructor]|]. intros x Hx [<-|[]]. exact (Hn1 Hx). }
  split; [|split; [|split]].
  - rewrite get_del_other by exact Hne. rewrite get_app_r by (apply get_none_notin; exact Hn1). cbn [get]. rewrite String.eqb_refl. reflexivity.
  - apply get_del_same. exact HndX.
  - reflexivity.
  - intros k Hk1 Hk2. rewrite get_del_other by exact Hk2.
    destruct (get l1 k) eqn:E.
    + rewrite (get_app_l _ _ _ _ E). rewrite <- E. apply get_rename_other; assumption.
    + rewrite get_app_r by exact E. cbn [get]. destruct (String.eqb k name) eqn:E2; [apply String.eqb_eq in E2; congruence|].
      rewrite <- E. apply get_rename_other; assumption.
Qed.
