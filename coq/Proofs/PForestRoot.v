(* C12: grafting / cutting from a Root (its children are moved one by one) keeps the forest well formed. *)
From Coq Require Import Permutation Lia.
From Emd Require Import Base.Prelude Model.Forest Proofs.PForest.

Lemma tid_insert_under t y s : tid (insert_under t y s) = tid t.
Proof. destruct t as [i b n sr sp m ks]. rewrite insert_eq. destruct (Nat.eqb i y); reflexivity. Qed.

Lemma finsert_replace_comm F U' y s : insert_under U' y s = U' ->
  finsert (freplace_top F U') y s = freplace_top (finsert F y s) U'.
Proof.
  intros H. induction F as [|a q IH]; [reflexivity|]. cbn [freplace_top finsert map]. rewrite tid_insert_under.
  destruct (Nat.eqb (tid a) (tid U')); cbn [map]; [rewrite H; reflexivity|]. fold (finsert q y s). rewrite <- IH. reflexivity.
Qed.

Lemma ftop_finsert F y s x : ftop (finsert F y s) x = option_map (fun t => insert_under t y s) (ftop F x).
Proof.
  induction F as [|a q IH]; [reflexivity|]. cbn [finsert map ftop]. rewrite tid_insert_under.
  destruct (Nat.eqb (tid a) x); [reflexivity|exact IH].
Qed.

Lemma ffind_replace_other F U' x :
  (forall t, In t F -> tid t = tid U' -> find t x = None) -> find U' x = None ->
  ffind (freplace_top F U') x = ffind F x.
Proof.
  intros H HU. induction F as [|a q IH]; [reflexivity|]. cbn [freplace_top]. destruct (Nat.eqb (tid a) (tid U')) eqn:E.
  - apply Nat.eqb_eq in E. cbn [ffind]. rewrite HU, (H a (or_introl eq_refl) E). reflexivity.
  - cbn [ffind]. destruct (find a x); [reflexivity|]. apply IH. intros t Ht. apply H. right. exact Ht.
Qed.

Lemma ftop_replace F U' : (exists t, In t F /\ tid t = tid U') -> ftop (freplace_top F U') (tid U') = Some U'.
Proof.
  intros (t & Ht & Hid). induction F as [|a q IH]; [destruct Ht|]. cbn [freplace_top]. destruct (Nat.eqb (tid a) (tid U')) eqn:E.
  - cbn [ftop]. rewrite Nat.eqb_refl. reflexivity.
  - cbn [ftop]. rewrite E. apply IH. destruct Ht as [->|Ht]; [rewrite Hid, Nat.eqb_refl in E; discriminate|exact Ht].
Qed.

(* ---------- one child of the donor root moved under recv *)
Lemma set_kids_remove U b k : kid_get (tkids U) b = Some k -> remove_at U [] b = Some (set_kids U (kid_del (tkids U) b)).
Proof. destruct U as [i r n sr sp m ks]. cbn [tkids set_kids]. intros H. rewrite remove_at_eq, H. reflexivity. Qed.

Lemma perm_ids_incl t t' c : Permutation (labs t) (labs t' ++ c) -> forall x, In x (ids t') -> In x (ids t).
Proof.
  intros P x Hx. rewrite ids_labs in *. apply in_map_iff in Hx. destruct Hx as (l & <- & Hl). apply in_map.
  eapply Permutation_in; [apply Permutation_sym; exact P|]. apply in_app_iff. left. exact Hl.
Qed.

Lemma move_step_wf F up recv U k F1 :
  WFf F -> nd_names (flabs F) ->
  In U F -> tid U = up -> tisroot U = true -> kid_get (tkids U) (tnm k) = Some k -> ~ In recv (ids U) ->
  attach F recv k = Some F1 ->
  let U' := set_kids U (kid_del (tkids U) (tnm k)) in
  ftop F1 up = Some U /\
  let F2 := freplace_top F1 U' in
  WFf F2 /\ Permutation (flabs F2) (flabs F) /\ In U' F2 /\ tid U' = up /\ tisroot U' = true /\
  (forall x, In x (ids U') -> In x (ids U)) /\ tmds U' = tmds U.
Proof.
  intros W Hn HU Hup Hroot Hk Hrecv Hat U'.
  pose proof W as [Hnd Hwf]. rewrite Forall_forall in Hwf.
  pose proof (set_kids_remove U (tnm k) k Hk) as Erem. fold U' in Erem.
  destruct (remove_at_spec _ _ _ _ Erem) as (c & Hwc & Hperm & Hid' & Hroot' & Hnm' & Hsr' & Hsp' & Hmds').
  cbn [app walk] in Hwc. rewrite Hk in Hwc. injection Hwc as <-.
  assert (wf_top U') as WU'.
  { destruct (Hwf U HU) as [(A & B & C & D)|(A & _)]; [|congruence]. left. rewrite Hroot', Hsr', Hsp', Hid'. repeat split; auto.
    eapply remove_at_root_kids; [exact D|exact Erem]. }
  destruct (replace_top_wf _ U U' W HU Hid' WU' (labs k) Hperm) as (Fa & Fb & HF & Hrep & HpF & HwF0).
  set (F0 := freplace_top F U') in *.
  assert (NoDup (map lid (flabs F0 ++ labs k))) as Hnd2 by (eapply NoDup_perm_map; [exact HpF|rewrite <- fids_flabs; exact Hnd]).
  rewrite map_app, <- fids_flabs, <- ids_labs in Hnd2. destruct (NoDup_app_inv _ _ Hnd2) as (N1 & N2 & N3).
  assert (forall x, In x (ids U') -> In x (ids U)) as Hsub by (apply (perm_ids_incl U U' (labs k) Hperm)).
  assert (~ In recv (ids U')) as Hrecv' by (intros H; apply Hrecv; apply Hsub; exact H).
  (* the attach is on another tree: it commutes with the removal *)
  unfold attach in Hat. destruct (ffind F recv) as [pn|] eqn:Efr; [|discriminate].
  destruct (tsroot pn) as [r|] eqn:Er; [|discriminate]. destruct (tspath pn) as [pp|] eqn:Ep; [|discriminate]. injection Hat as <-.
  set (s' := restamp (Some r) pp k).
  assert (ftop (finsert F recv s') up = Some U) as Htop1.
  { rewrite ftop_finsert. destruct (top_split _ _ HU Hnd) as (_ & _ & _ & _ & _ & Ht). rewrite Hup in Ht. rewrite Ht. cbn [option_map].
    rewrite insert_notin by exact Hrecv. reflexivity. }
  split; [exact Htop1|]. intros F2.
  assert (F2 = finsert F0 recv s') as EF2.
  { subst F2 F0. symmetry. apply finsert_replace_comm. apply insert_notin. exact Hrecv'. }
  assert (ffind F0 recv = Some pn) as Efr0.
  { subst F0. rewrite ffind_replace_other; [exact Efr| |apply find_none_notin; exact Hrecv'].
    intros t Ht Htid. assert (t = U) as ->.
    { eapply (top_unique F t U (tid U)); [exact Hnd|exact Ht|exact HU| |apply ids_self]. rewrite <- Hid', <- Htid. apply ids_self. }
    apply find_none_notin. exact Hrecv. }
  assert (attach F0 recv k = Some F2) as Hat0.
  { unfold attach. rewrite Efr0, Er, Ep. rewrite EF2. reflexivity. }
  assert (nonroots k) as Nk.
  { destruct (Hwf U HU) as [(A & B & C & D)|(A & _)]; [|congruence]. apply kid_get_in in Hk. destruct Hk as (Hk & _).
    rewrite Forall_forall in D. eapply stamped_nonroots. apply D. exact Hk. }
  destruct (attach_wf F0 recv k F2 (conj N1 HwF0) Nk N2) as (W1 & P1); auto.
  - intros x Hx Hx'. apply (N3 x Hx' Hx).
  - eapply nd_names_perm; [exact HpF|exact Hn].
  - split; [exact W1|]. split; [rewrite P1; apply Permutation_sym; exact HpF|].
    assert (ftop F2 up = Some U') as Htop2.
    { rewrite EF2, ftop_finsert. subst F0. rewrite <- Hup, <- Hid'. rewrite ftop_replace by (exists U; split; [exact HU|symmetry; exact Hid']).
      cbn [option_map]. rewrite insert_notin by exact Hrecv'. reflexivity. }
    split; [apply ftop_in in Htop2; apply Htop2|]. split; [rewrite Hid'; exact Hup|]. split; [rewrite Hroot'; exact Hroot|].
    split; [exact Hsub|exact Hmds'].
Qed.

Lemma kid_get_del_other l b nm : nm <> b -> kid_get (kid_del l b) nm = kid_get l nm.
Proof.
  intros Hne. induction l as [|c r IH]; [reflexivity|]. cbn [kid_del kid_get]. destruct (String.eqb b (tnm c)) eqn:E.
  - apply String.eqb_eq in E. destruct (String.eqb nm (tnm c)) eqn:E2; [apply String.eqb_eq in E2; congruence|reflexivity].
  - cbn [kid_get]. destruct (String.eqb nm (tnm c)); [reflexivity|exact IH].
Qed.
Lemma tkids_set_kids U l : tkids (set_kids U l) = l. Proof. destruct U; reflexivity. Qed.

(* ---------- all the children of the donor root, one after the other *)
Lemma move_kids_wf up recv : forall ks F U F',
  WFf F -> nd_names (flabs F) -> In U F -> tid U = up -> tisroot U = true -> ~ In recv (ids U) ->
  NoDup (map tnm ks) -> (forall k, In k ks -> kid_get (tkids U) (tnm k) = Some k) ->
  move_kids F up recv ks = Some F' ->
  WFf F' /\ Permutation (flabs F') (flabs F).
Proof.
  induction ks as [|k rest IH]; intros F U F' W Hn HU Hup Hroot Hrecv Hnd Hget Hmv.
  - injection Hmv as <-. split; [exact W|apply Permutation_refl].
  - cbn [move_kids] in Hmv. destruct (attach F recv k) as [F1|] eqn:Hat; [|discriminate].
    destruct (move_step_wf F up recv U k F1 W Hn HU Hup Hroot (Hget k (or_introl eq_refl)) Hrecv Hat) as (Htop1 & W2 & P2 & HU' & Hup' & Hroot' & Hsub & _).
    rewrite Htop1 in Hmv. inversion Hnd as [|? ? Hk Hr]; subst.
    destruct (IH _ _ F' W2 (nd_names_perm _ _ (Permutation_sym P2) Hn) HU' Hup' Hroot' (fun H => Hrecv (Hsub _ H)) Hr) as (W3 & P3).
    + intros k' Hk'. rewrite tkids_set_kids. rewrite kid_get_del_other; [apply Hget; right; exact Hk'|].
      intros Heq. apply Hk. rewrite <- Heq. apply in_map. exact Hk'.
    + exact Hmv.
    + split; [exact W3|]. eapply Permutation_trans; [exact P3|exact P2].
Qed.

(* ---------- the children of a root: distinctly named, each found under its name *)
Lemma root_kids_facts F T : WFf F -> nd_names (flabs F) -> In T F -> tisroot T = true ->
  NoDup (map tnm (tkids T)) /\ (forall k, In k (tkids T) -> kid_get (tkids T) (tnm k) = Some k).
Proof.
  intros [Hnd Hwf] Hn HT Hroot. rewrite Forall_forall in Hwf. destruct (Hwf T HT) as [(_ & _ & _ & D)|(A & _)]; [|congruence].
  pose proof (kids_nodup_flat T (wf_top_nodup _ _ Hnd HT)) as Hndk.
  assert (forall a b, In a (tkids T) -> In b (tkids T) -> tnm a = tnm b -> tid a = tid b) as Hsame.
  { intros a b Ha Hb Hab. rewrite Forall_forall in D.
    pose proof (D a Ha) as Sa. pose proof (D b Hb) as Sb. apply stamped_inv' in Sa, Sb. destruct Sa as (Ra & _). destruct Sb as (Rb & _).
    apply (Hn (lab a) (lab b)).
    - eapply in_flabs; [exact HT|]. eapply labs_kid; [exact Ha|apply labs_self].
    - eapply in_flabs; [exact HT|]. eapply labs_kid; [exact Hb|apply labs_self].
    - exact Ra.
    - exact Rb.
    - exact Hab. }
  split.
  - clear -Hndk Hsame. induction (tkids T) as [|x r IH]; [constructor|]. cbn [map flat_map] in *.
    destruct (NoDup_app_inv _ _ Hndk) as (_ & Hr & Hdis). constructor.
    + intros Hin. apply in_map_iff in Hin. destruct Hin as (c & Hc & Hcr).
      assert (tid c = tid x) as Hid by (apply Hsame; [right; exact Hcr|left; reflexivity|exact Hc]).
      apply (Hdis (tid x) (ids_self x)). apply in_flat_map. exists c. split; [exact Hcr|]. rewrite <- Hid. apply ids_self.
    + apply IH; [exact Hr|]. intros a b Ha Hb. apply Hsame; right; assumption.
  - intros k Hk. apply kid_get_self; [exact Hndk| |exact Hk]. intros c Hc Hcn. apply Hsame; assumption.
Qed.

Lemma root_is_top F d dn : WFf F -> ffind F d = Some dn -> tisroot dn = true -> In dn F.
Proof.
  intros [Hnd Hwf] Hf Hr. destruct (ffind_top _ _ _ Hf) as (T & HT & HfT). pose proof (find_sub _ _ _ HfT) as Hs.
  rewrite Forall_forall in Hwf. destruct (Nat.eq_dec (tid dn) (tid T)) as [He|Hne].
  - assert (dn = T) as -> by (eapply sub_unique; [apply (wf_top_nodup _ _ Hnd HT)|exact Hs|apply sub_self|exact He]). exact HT.
  - assert (dn <> T) as Hne' by (intros ->; apply Hne; reflexivity).
    pose proof (wf_top_sub_nonroot T dn (Hwf T HT) Hs Hne'). congruence.
Qed.

(* ---------- graft / cut / force_add with a Root as the donor *)
Lemma graft_root_wf s recv d o s' dn :
  WFf (trees s) -> nd_names (flabs (trees s)) ->
  ffind (trees s) d = Some dn -> tisroot dn = true -> ~ In recv (ids dn) ->
  graft s recv d o = Some s' ->
  WFf (trees s') /\ Permutation (flabs (trees s')) (flabs (trees s)) /\ next_id s' = next_id s.
Proof.
  intros W Hn Hfd Hroot Hdom. pose proof (root_is_top _ _ _ W Hfd Hroot) as HT.
  pose proof W as [Hnd Hwf]. rewrite Forall_forall in Hwf.
  destruct (Hwf dn HT) as [(_ & Hsr & Hsp & D)|(A & _)]; [|congruence].
  unfold graft. rewrite Hfd. destruct (ffind (trees s) recv) as [rn|] eqn:Efr; [|discriminate].
  rewrite Hsr. destruct (tsroot rn) as [rr|] eqn:Err; [|discriminate]. rewrite Hsp.
  destruct (top_split _ _ HT Hnd) as (_ & _ & _ & _ & _ & Htop). rewrite Htop.
  change (unsnoc []) with (@None (list string * string)).
  destruct (move_kids (trees s) (tid dn) recv (tkids dn)) as [F1|] eqn:Emv; [|discriminate].
  destruct (root_kids_facts _ _ W Hn HT Hroot) as (Hndn & Hget).
  destruct (move_kids_wf (tid dn) recv (tkids dn) (trees s) dn F1 W Hn HT eq_refl Hroot Hdom Hndn Hget Emv) as (W1 & P1).
  destruct (ftop F1 rr) as [recv_root|] eqn:Etr; [|discriminate].
  destruct (md_merge o (tmds dn) (tmds recv_root) (next_md s)) as [M fresh] eqn:Em.
  intros H; injection H as <-. cbn [trees next_id].
  destruct (ftop_in _ _ _ Etr) as (Hrr & _). destruct (replace_mds_wf F1 recv_root M W1 Hrr) as (W2 & E2).
  split; [exact W2|]. split; [|reflexivity]. rewrite E2. exact P1.
Qed.

Lemma graft_wf s recv d o s' dn :
  WFf (trees s) -> nd_names (flabs (trees s)) ->
  ffind (trees s) d = Some dn -> ~ In recv (ids dn) ->
  graft s recv d o = Some s' ->
  WFf (trees s') /\ Permutation (flabs (trees s')) (flabs (trees s)) /\ next_id s' = next_id s.
Proof.
  intros W Hn Hfd Hdom Hg. destruct (tisroot dn) eqn:Er.
  - eapply graft_root_wf; eauto.
  - eapply graft_nonroot_wf; eauto.
Qed.

Lemma sub_ids_incl : forall t n, In n (sub t) -> forall y, In y (ids n) -> In y (ids t).
Proof.
  intros t. induction t as [i b nm sr sp m ks IH] using tn_ind'. intros n Hn y Hy. rewrite sub_eq in Hn. destruct Hn as [<-|Hn]; [exact Hy|].
  rewrite ids_eq. right. apply in_flat_map in Hn. destruct Hn as (k & Hk & Hn). apply in_flat_map. exists k. split; [exact Hk|].
  rewrite Forall_forall in IH. eapply IH; eauto.
Qed.

Lemma cut_wf s d o s' dn :
  WF s -> names_ok s -> ffind (trees s) d = Some dn ->
  cut s d o = Some s' ->
  WFf (trees s') /\ next_id s' = S (next_id s) /\
  exists nm, Permutation (flabs (trees s')) (flabs (trees s) ++ [(next_id s, true, nm)]).
Proof.
  intros [W Hfresh] Hn Hfd. unfold cut. rewrite Hfd. destruct (tsroot dn) as [rd|] eqn:Erd; [|discriminate].
  destruct (ftop (trees s) rd) as [old_root|] eqn:Et; [|discriminate].
  set (nr := TN (next_id s) true (tnm old_root +++ "_cut_" +++ tnm dn) (Some (next_id s)) (Some []) [] []).
  intros Hg. pose proof W as [Hnd Hwf].
  assert (~ In (next_id s) (fids (trees s))) as Hnew by (intros Hi; apply Hfresh in Hi; lia).
  assert (WFf (trees s ++ [nr])) as W1.
  { split.
    - rewrite fids_app. apply NoDup_app_intro; [exact Hnd|cbn; constructor; [intros []|constructor]|].
      intros x Hx [<-|[]]. exact (Hnew Hx).
    - apply Forall_app. split; [exact Hwf|]. constructor; [|constructor]. left. cbn. repeat split; constructor. }
  assert (flabs (trees s ++ [nr]) = flabs (trees s) ++ [(next_id s, true, tnm old_root +++ "_cut_" +++ tnm dn)]) as El.
  { rewrite flabs_app. reflexivity. }
  destruct (graft_wf (ST (trees s ++ [nr]) (S (next_id s)) (next_md s)) (next_id s) d o s' dn) as (W2 & P2 & N2); auto.
  - cbn [trees]. rewrite El. apply nd_names_add_roots; [exact Hn|constructor; [reflexivity|constructor]].
  - cbn [trees]. apply ffind_app_l. exact Hfd.
  - intros Hi. apply Hnew. destruct (ffind_top _ _ _ Hfd) as (T & HT & HfT). eapply fids_top_in; [exact HT|].
    eapply sub_ids_incl; [eapply find_sub; exact HfT|exact Hi].
  - split; [exact W2|]. split; [exact N2|]. eexists. cbn [trees] in P2. rewrite P2, El. reflexivity.
Qed.

(* ---------- the step theorem without the restriction on the donor *)
Definition graft_dom' (F : forest) (recv d : nat) : Prop := forall dn, ffind F d = Some dn -> ~ In recv (ids dn).
(* the property's own exclusion: grafting a branch onto a node of that very branch *)
Definition in_domain' (s : st) (o : op) : Prop :=
  match o with
  | OAdd _ _ => True
  | OForceAdd p c => graft_dom' (trees s) p c
  | OGraft recv d _ => graft_dom' (trees s) recv d
  | OCut _ _ => True
  end.

Theorem step_wf_full s o : WF s -> names_ok s -> in_domain' s o ->
  let s' := fst (step s o) in
  WF s' /\ names_ok s' /\
  exists E, Permutation (flabs (trees s')) (flabs (trees s) ++ E) /\
            Forall (fun l => snd (fst l) = true /\ next_id s <= lid l < next_id s') E /\ next_id s <= next_id s'.
Proof.
  intros Wf Hn Hdom. pose proof Wf as [W Hfresh]. unfold step.
  assert (WF s /\ names_ok s /\ exists E, Permutation (flabs (trees s)) (flabs (trees s) ++ E) /\
            Forall (fun l => snd (fst l) = true /\ next_id s <= lid l < next_id s) E /\ next_id s <= next_id s) as Hsame.
  { split; [exact Wf|]. split; [exact Hn|]. exists []. rewrite app_nil_r. split; [reflexivity|]. split; [constructor|lia]. }
  assert (forall s1, WFf (trees s1) -> Permutation (flabs (trees s1)) (flabs (trees s)) -> next_id s1 = next_id s ->
          WF s1 /\ names_ok s1 /\ exists E, Permutation (flabs (trees s1)) (flabs (trees s) ++ E) /\
            Forall (fun l => snd (fst l) = true /\ next_id s <= lid l < next_id s1) E /\ next_id s <= next_id s1) as Hkeep.
  { intros s1 W1 P1 N1. split; [split; [exact W1|]|].
    - intros i Hi. rewrite N1. apply Hfresh. destruct (perm_fids _ _ [] (eq_rect _ (fun L => Permutation _ L) P1 _ (eq_sym (app_nil_r _))) i Hi) as [H|[]]. exact H.
    - split; [eapply nd_names_perm; [apply Permutation_sym; exact P1|exact Hn]|]. exists []. rewrite app_nil_r. split; [exact P1|]. split; [constructor|lia]. }
  destruct o as [p c|p c|recv d m|d m]; cbn [in_domain'] in Hdom.
  - destruct (add_to_tree (trees s) p c) as [F'|] eqn:Ea; cbn [fst]; [|exact Hsame].
    destruct (add_wf _ _ _ _ W Hn Ea) as (W1 & P1). apply (Hkeep (ST F' (next_id s) (next_md s))); auto.
  - unfold force_add. destruct (add_to_tree (trees s) p c) as [F'|] eqn:Ea.
    + cbn [fst]. destruct (add_wf _ _ _ _ W Hn Ea) as (W1 & P1). apply (Hkeep (ST F' (next_id s) (next_md s))); auto.
    + destruct (graft s p c MFalse) as [s1|] eqn:Eg; cbn [fst]; [|exact Hsame].
      destruct (graft_some_found _ _ _ _ _ Eg) as (dn & Hfd).
      destruct (graft_wf _ _ _ _ _ _ W Hn Hfd (Hdom dn Hfd) Eg) as (W1 & P1 & N1). apply Hkeep; auto.
  - destruct (graft s recv d m) as [s1|] eqn:Eg; cbn [fst]; [|exact Hsame].
    destruct (graft_some_found _ _ _ _ _ Eg) as (dn & Hfd).
    destruct (graft_wf _ _ _ _ _ _ W Hn Hfd (Hdom dn Hfd) Eg) as (W1 & P1 & N1). apply Hkeep; auto.
  - destruct (cut s d m) as [s1|] eqn:Ec; cbn [fst]; [|exact Hsame].
    destruct (cut_some_found _ _ _ _ Ec) as (dn & Hfd).
    destruct (cut_wf _ _ _ _ _ Wf Hn Hfd Ec) as (W1 & N1 & nm & P1).
    split; [split; [exact W1|]|].
    + intros i Hi. rewrite N1. destruct (perm_fids _ _ _ P1 i Hi) as [H|H]; [apply Hfresh in H; lia|]. cbn in H. destruct H as [<-|[]]. unfold lid. cbn. lia.
    + split; [eapply nd_names_perm; [apply Permutation_sym; exact P1|]; apply nd_names_add_roots; [exact Hn|constructor; [reflexivity|constructor]]|].
      exists [(next_id s, true, nm)]. split; [exact P1|]. split; [|lia]. constructor; [|constructor]. unfold lid. cbn. lia.
Qed.

Fixpoint dom_run' (s : st) (ops : list op) : Prop :=
  match ops with [] => True | o :: rest => in_domain' s o /\ dom_run' (fst (step s o)) rest end.
Theorem run_wf_full ops : forall s, WF s -> names_ok s -> dom_run' s ops -> WF (fst (run s ops)) /\ names_ok (fst (run s ops)).
Proof.
  induction ops as [|o rest IH]; intros s W N D; [cbn; auto|]. destruct D as (D1 & D2).
  destruct (step_wf_full s o W N D1) as (W1 & N1 & _). rewrite run_fst. cbn [fold_left]. rewrite <- run_fst. apply IH; assumption.
Qed.
