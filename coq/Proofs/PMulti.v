(* C10: files holding several trees: each successive save of a tree with a new root name adds exactly that tree,
   every tree is read back by its root name as saved, a read without a path reports the root names. *)
From Coq Require Import Permutation.
From Emd Require Import Base.Prelude Model.H5 Model.Emd Model.Reader Generated.Tables
     Proofs.PTree Proofs.P05 Proofs.P08 Proofs.PRead Proofs.PUnion.

Definition tree_links (ts : list rnode) : list (string * obj) := map (fun t => (rname t, enc t)) ts.
Definition forest_file (c : cfg) (ts : list rnode) : obj := G (header c) (tree_links ts).
Lemma keys_tree_links ts : keys (tree_links ts) = map rname ts.
Proof. unfold keys, tree_links. rewrite map_map. reflexivity. Qed.
Lemma forest_file_one c t : forest_file c [t] = whole_file c t. Proof. reflexivity. Qed.

(* ---------- adding a tree under a new root name *)
Lemma write_new_tree root a l tr : rcls root = CRoot -> ok_tree root -> tr <> Some false -> ~ In (rname root) (keys l) ->
  write_from_root root [] tr (G a l) = Ok (G a (l ++ [(rname root, enc root)])).
Proof.
  intros Hc Hok Htr Hn. unfold write_from_root. unfold write_single_node, add_link.
  pose proof Hn as Hh. apply has_false_iff in Hh. rewrite Hh. cbn [bind].
  assert (get l (rname root) = None) as Hg by (apply get_none_notin; exact Hn).
  unfold set_root_tag, in_child. cbn [update_at]. rewrite get_app_r by exact Hg. cbn [get]. rewrite String.eqb_refl. cbn [update_at].
  rewrite (root_tag_noop _ Hc). cbn [bind]. rewrite set_app_last by exact Hg.
  assert (update_at (G a (l ++ [(rname root, node_shallow root)])) [rname root] (write_tree root) = Ok (G a (l ++ [(rname root, enc root)]))) as Hw.
  { cbn [update_at]. rewrite get_app_r by exact Hg. cbn [get]. rewrite String.eqb_refl. cbn [update_at]. rewrite (write_tree_enc _ Hok). cbn [bind].
    rewrite set_app_last by exact Hg. reflexivity. }
  destruct tr as [[|]|]; [exact Hw|congruence|exact Hw].
Qed.

(* ---------- the detector and the root names of such a file *)
Lemma header_ok c l : forallb (htest_ok (G (header c) l)) header_tested = true.
Proof. vm_compute. reflexivity. Qed.

Lemma filter_roots ts : Forall (fun t => rcls t = CRoot) ts ->
  forall l, Permutation l (tree_links ts) -> map fst (filter (fun kv => attr_is (snd kv) "emd_group_type" "root") l) = map fst l.
Proof.
  intros Hr l P. assert (forall kv, In kv l -> attr_is (snd kv) "emd_group_type" "root" = true) as Hall.
  { intros kv Hkv. eapply Permutation_in in Hkv; [|exact P]. unfold tree_links in Hkv. apply in_map_iff in Hkv. destruct Hkv as (t & <- & Ht).
    rewrite Forall_forall in Hr. cbn [snd]. rewrite enc_eq. unfold node_tags. rewrite (Hr t Ht). reflexivity. }
  clear P. induction l as [|kv r IH]; [reflexivity|]. cbn [filter]. rewrite (Hall kv (or_introl eq_refl)). cbn [map]. f_equal.
  apply IH. intros x Hx. apply Hall. right. exact Hx.
Qed.
Lemma rootgroups_forest c ts : Forall (fun t => rcls t = CRoot) ts -> rootgroups (forest_file c ts) = map fst (ksort (tree_links ts)).
Proof. intros Hr. unfold rootgroups, forest_file. cbn [olinks]. apply (filter_roots ts Hr). apply ksort_perm. Qed.
Lemma rootgroups_forest_perm c ts : Forall (fun t => rcls t = CRoot) ts -> Permutation (rootgroups (forest_file c ts)) (map rname ts).
Proof.
  intros Hr. rewrite (rootgroups_forest c ts Hr). rewrite <- keys_tree_links. unfold keys. apply Permutation_map. apply ksort_perm.
Qed.
Lemma forest_is_emd c ts : ts <> [] -> Forall (fun t => rcls t = CRoot) ts -> is_emd_file (forest_file c ts) = true.
Proof.
  intros Hne Hr. unfold is_emd_file. unfold forest_file at 1. rewrite header_ok. cbn [andb].
  pose proof (rootgroups_forest_perm c ts Hr) as P. destruct (rootgroups (forest_file c ts)) eqn:E; [|reflexivity].
  apply Permutation_nil in P. destruct ts; [congruence|discriminate].
Qed.

(* save(path, root, mode = append or append-over) of a tree whose root name the file does not have *)
Theorem save_new_tree c c0 ts root md tr :
  In md (appendmode ++ appendovermode) -> tr <> Some false ->
  ts <> [] -> Forall (fun t => rcls t = CRoot) ts -> rcls root = CRoot -> ok_tree root -> ~ In (rname root) (map rname ts) ->
  write_node c (H5 (forest_file c0 ts)) root [] (WA md tr None) = (Ok tt, H5 (forest_file c0 (ts ++ [root]))).
Proof.
  intros Hmd Htr Hne Hr Hc Hok Hnew. unfold write_node. cbn [mode emdpath tree slot_exists].
  assert (run_prelude prelude_order md None true = Ok md /\ mem md overwritemode = false /\ mem md writemode = false) as (-> & -> & ->).
  { cbn [app] in Hmd. repeat (destruct Hmd as [<-|Hmd]; [repeat split; vm_compute; reflexivity|]). destruct Hmd. }
  cbn [slot_exists negb andb orb]. rewrite andb_false_r. cbn [orb].
  rewrite (forest_is_emd c0 ts Hne Hr).
  unfold append_existing. cbn [rwalk emdpath tree].
  assert (mem (rname root) (rootgroups (forest_file c0 ts)) = false) as ->.
  { destruct (mem (rname root) (rootgroups (forest_file c0 ts))) eqn:Em; [|reflexivity]. exfalso. apply mem_In in Em. pose proof Em as H. apply Hnew. eapply Permutation_in; [apply rootgroups_forest_perm; exact Hr|exact H]. }
  unfold forest_file. rewrite (write_new_tree root _ _ tr Hc Hok Htr); [|rewrite keys_tree_links; exact Hnew].
  unfold tree_links. rewrite map_app. reflexivity.
Qed.

(* ---------- reading one tree of such a file by its root name *)
Lemma get_tree_links ts t : NoDup (map rname ts) -> In t ts -> get (tree_links ts) (rname t) = Some (enc t).
Proof.
  induction ts as [|y r IH]; intros Hnd Hin; [destruct Hin|]. inversion Hnd as [|? ? Hy Hr]; subst. cbn [tree_links map get].
  destruct Hin as [->|Hin]; [rewrite String.eqb_refl; reflexivity|].
  destruct (String.eqb (rname t) (rname y)) eqn:E; [apply String.eqb_eq in E; exfalso; apply Hy; rewrite <- E; apply in_map; exact Hin|].
  apply IH; assumption.
Qed.

Theorem read_tree_by_name c ts t :
  NoDup (map rname ts) -> In t ts -> Forall (fun x => rcls x = CRoot) ts ->
  rd_tree t -> rname t <> "" -> no_slash (rname t) = true ->
  read (H5 (forest_file c ts)) (Some (rname t)) (Some true) = Ok (RTree (canon t) (ret_of (canon t))) /\
  read (H5 (forest_file c ts)) (Some (rname t)) None = Ok (RTree (canon t) RetRoot) /\
  read (H5 (forest_file c ts)) (Some (rname t)) (Some false) = Ok (RTree (canon_shallow t) RetRoot).
Proof.
  intros Hnd Hin Hr Hrd Hne Hns. assert (ts <> []) as Hts by (intros ->; destruct Hin).
  assert (rcls t = CRoot) as Hc by (rewrite Forall_forall in Hr; apply Hr; exact Hin).
  unfold read. rewrite (forest_is_emd c ts Hts Hr). unfold read_emd.
  rewrite (split_slash_no_slash _ Hns). rewrite (remove_first_empty_single _ Hne). cbn [join_slash].
  assert (get (olinks (forest_file c ts)) (rname t) = Some (enc t)) as Hg by (unfold forest_file; cbn [olinks]; apply get_tree_links; assumption).
  rewrite !Hg. change (split_slash "") with [""]. cbn [String.eqb bind].
  pose proof (from_h5_enc t (root_no_bundle_kids t Hrd)) as Hf. rewrite Hc in Hf. rewrite !Hf. cbn [bind].
  rewrite !(populate_enc t Hrd). cbn [bind]. rewrite <- !canon_eq.
  split; [|split; reflexivity].
  unfold ret_of.
  assert (rkids (canon t) = rsort (map canon (rkids t))) as -> by (destruct t; reflexivity).
  assert (rmds (canon t) = rmds (canon_shallow t)) as -> by (destruct t; reflexivity).
  destruct (rsort (map canon (rkids t))) as [|k [|k2 q]]; try reflexivity.
  destruct (rmds (canon_shallow t)) as [|[mk mt] [|m2 mq]]; reflexivity.
Qed.

(* a read without a path on a file with two or more trees reports exactly the root names (in name order) *)
Theorem read_reports_root_names c ts tr t1 t2 rest : ts = t1 :: t2 :: rest -> Forall (fun x => rcls x = CRoot) ts ->
  exists names, read (H5 (forest_file c ts)) None tr = Ok (RNames names) /\ Permutation names (map rname ts).
Proof.
  intros Hts Hr. assert (ts <> []) as Hne by (rewrite Hts; discriminate).
  exists (rootgroups (forest_file c ts)). split; [|apply rootgroups_forest_perm; exact Hr].
  unfold read. rewrite (forest_is_emd c ts Hne Hr). unfold read_emd.
  pose proof (rootgroups_forest_perm c ts Hr) as P. rewrite Hts in P at 2. cbn [map] in P.
  destruct (rootgroups (forest_file c ts)) as [|r1 [|r2 rr]] eqn:E.
  - apply Permutation_nil in P. discriminate.
  - apply Permutation_length in P. cbn in P. discriminate.
  - reflexivity.
Qed.

(* ---------- any sequence of such saves *)
Theorem successive_saves c c0 : forall more ts,
  ts <> [] -> Forall (fun t => rcls t = CRoot) (ts ++ more) -> Forall ok_tree more -> NoDup (map rname (ts ++ more)) ->
  forall mds, length mds = length more -> Forall (fun md => In (fst md) (appendmode ++ appendovermode) /\ snd md <> Some false) mds ->
  fold_left (fun s tm => snd (write_node c s (fst tm) [] (WA (fst (snd tm)) (snd (snd tm)) None))) (combine more mds) (H5 (forest_file c0 ts))
  = H5 (forest_file c0 (ts ++ more)).
Proof.
  induction more as [|t q IH]; intros ts Hne Hr Hok Hnd mds Hlen Hmds; [rewrite app_nil_r; reflexivity|].
  destruct mds as [|[md tr] mq]; [discriminate|]. cbn [combine fold_left fst snd].
  inversion Hok as [|? ? Hokt Hokq]; subst. inversion Hmds as [|? ? (Hmd & Htr) Hmq]; subst. cbn [fst snd] in Hmd, Htr.
  assert (Forall (fun t => rcls t = CRoot) ts /\ rcls t = CRoot) as (Hrts & Hct).
  { rewrite Forall_forall in Hr. split; [apply Forall_forall; intros x Hx; apply Hr; apply in_or_app; left; exact Hx|apply Hr; apply in_or_app; right; left; reflexivity]. }
  assert (~ In (rname t) (map rname ts)) as Hnew.
  { rewrite map_app in Hnd. apply NoDup_app_inv in Hnd. destruct Hnd as (_ & _ & Hdis). intros H. apply (Hdis _ H). left. reflexivity. }
  rewrite (save_new_tree c c0 ts t md tr Hmd Htr Hne Hrts Hct Hokt Hnew). cbn [snd].
  replace (ts ++ t :: q) with ((ts ++ [t]) ++ q) in * by (rewrite <- app_assoc; reflexivity).
  apply IH; try assumption; [destruct ts; discriminate|injection Hlen as Hlen; exact Hlen].
Qed.

(* ---------- list saves without rooted items: given roots whole, everything unrooted under one shared root *)
From Emd Require Import Model.EmdList.

Definition list_given (tops : list rnode) (items : list litem) : list rnode :=
  flat_map (fun it => match it with LTop i [] => if is_root_top tops i then [nth i tops dummy] else [] | _ => [] end) items.
Definition list_unrooted (tops : list rnode) (items : list litem) : list rnode :=
  flat_map (fun it => match it with LTop i [] => if is_root_top tops i then [] else [nth i tops dummy] | _ => [] end) items.
Definition list_has_other (items : list litem) : bool := existsb (fun it => match it with LTop _ _ => false | _ => true end) items.
Definition list_saved (tops : list rnode) (items : list litem) : list rnode :=
  let unrooted := list_unrooted tops items in
  let '(arrs, dicts) := others items (map rname unrooted) 0 0 in
  match unrooted, list_has_other items with
  | [], false => []
  | _, _ => [RN CRoot "root_savedlist" 0 0 dicts (fold_left rset (unrooted ++ arrs) [])] end.
Definition list_unrooted_idx (tops : list rnode) (items : list litem) : list nat :=
  flat_map (fun it => match it with LTop i [] => if is_root_top tops i then [] else [i] | _ => [] end) items.
Definition no_rooted_items (items : list litem) : Prop := Forall (fun it => match it with LTop _ (_ :: _) => False | _ => True end) items.

Lemma no_rooted_flat items : no_rooted_items items ->
  flat_map (fun it => match it with LTop i (x :: q) => [(i, x :: q)] | _ => [] end) items = [].
Proof. induction 1 as [|it r Hit _ IH]; [reflexivity|]. cbn [flat_map]. rewrite IH. destruct it as [i [|x q]| |]; try reflexivity. destruct Hit. Qed.

Lemma sequence_ok_cons c s call rest s1 : (let '(root, tp, a) := call in write_node c s root tp a) = (Ok tt, s1) ->
  sequence c s (call :: rest) = sequence c s1 rest.
Proof. intros H. unfold sequence. cbn [fold_left]. rewrite H. reflexivity. Qed.

Lemma sequence_new_trees c md : In md (appendmode ++ appendovermode) -> forall more ts,
  ts <> [] -> Forall (fun t => rcls t = CRoot) (ts ++ more) -> Forall ok_tree more -> NoDup (map rname (ts ++ more)) ->
  sequence c (H5 (forest_file c ts)) (map (fun r => (r, [], WA md (Some true) None)) more) = (Ok tt, H5 (forest_file c (ts ++ more))).
Proof.
  intros Hmd. induction more as [|t q IH]; intros ts Hne Hr Hok Hnd; [rewrite app_nil_r; reflexivity|].
  cbn [map]. inversion Hok as [|? ? Hokt Hokq]; subst.
  assert (Forall (fun t => rcls t = CRoot) ts /\ rcls t = CRoot) as (Hrts & Hct).
  { rewrite Forall_forall in Hr. split; [apply Forall_forall; intros x Hx; apply Hr; apply in_or_app; left; exact Hx|apply Hr; apply in_or_app; right; left; reflexivity]. }
  assert (~ In (rname t) (map rname ts)) as Hnew.
  { rewrite map_app in Hnd. apply NoDup_app_inv in Hnd. destruct Hnd as (_ & _ & Hdis). intros H. apply (Hdis _ H). left. reflexivity. }
  rewrite (sequence_ok_cons c _ _ _ (H5 (forest_file c (ts ++ [t])))); [|apply save_new_tree; try assumption; discriminate].
  replace (ts ++ t :: q) with ((ts ++ [t]) ++ q) in * by (rewrite <- app_assoc; reflexivity).
  apply IH; try assumption. destruct ts; discriminate.
Qed.

Lemma first_tree_fresh c md t : In md (appendmode ++ appendovermode) -> rcls t = CRoot -> ok_tree t ->
  write_node c Absent t [] (WA md (Some true) None) = (Ok tt, H5 (forest_file c [t])).
Proof.
  intros Hmd Hc Hok. unfold write_node. cbn [mode emdpath tree slot_exists].
  assert (run_prelude prelude_order md None false = Ok md /\ mem md overwritemode = false /\ (mem md appendmode || mem md appendovermode) = true) as (-> & -> & Hap).
  { cbn [app] in Hmd. repeat (destruct Hmd as [<-|Hmd]; [repeat split; vm_compute; reflexivity|]). destruct Hmd. }
  cbn [slot_exists negb]. rewrite Hap. cbn [andb]. rewrite orb_true_r.
  rewrite (fresh_file_whole_tree c t (Some true) Hc Hok); [reflexivity|discriminate].
Qed.

Theorem list_save_into_a_fresh_file c tops items md tr :
  no_rooted_items items -> nodup_nat (list_unrooted_idx tops items) = true -> In md allmodes ->
  let trees := list_saved tops items ++ list_given tops items in
  trees <> [] -> Forall (fun t => rcls t = CRoot) trees -> Forall ok_tree trees -> NoDup (map rname trees) ->
  write_list c Absent tops items (WA md tr None) = (Ok tt, H5 (forest_file c trees)).
Proof.
  intros Hnr Hidx Hmd trees Hne Hr Hok Hnd. unfold write_list. cbn [mode emdpath slot_exists].
  assert (run_prelude prelude_order md None false = Ok md) as ->.
  { unfold allmodes in Hmd. cbn [app] in Hmd. repeat (destruct Hmd as [<-|Hmd]; [vm_compute; reflexivity|]). destruct Hmd. }
  rewrite (no_rooted_flat items Hnr). cbn [fold_left map app existsb].
  fold (list_given tops items). fold (list_unrooted tops items). fold (list_has_other items). fold (list_unrooted_idx tops items).
  rewrite Hidx. cbn [negb orb].
  assert (exists m1, (if mem md writemode then ("a", Absent) else if mem md overwritemode then ("a", Absent) else (md, Absent)) = (m1, Absent) /\ In m1 (appendmode ++ appendovermode)) as (m1 & Em1 & Hm1).
  { unfold allmodes in Hmd. cbn [app] in Hmd. repeat (destruct Hmd as [<-|Hmd]; [eexists; split; [vm_compute; reflexivity|vm_compute; tauto]|]). destruct Hmd. }
  subst trees. unfold list_saved in *.
  destruct (others items (map rname (list_unrooted tops items)) 0 0) as [arrs dicts] eqn:Eo. cbv zeta.
  set (trees := (match list_unrooted tops items, list_has_other items with
                 | [], false => [] | _, _ => [RN CRoot "root_savedlist" 0 0 dicts (fold_left rset (list_unrooted tops items ++ arrs) [])] end) ++ list_given tops items) in *.
  rewrite Em1. rewrite app_nil_r.
  destruct trees as [|t0 rest] eqn:Et; [congruence|]. cbn [map].
  inversion Hr as [|? ? Hc0 Hrr]; subst. inversion Hok as [|? ? Hok0 Hokr]; subst.
  rewrite (sequence_ok_cons c _ _ _ (H5 (forest_file c [t0]))); [|apply first_tree_fresh; assumption].
  change (t0 :: rest) with ([t0] ++ rest). apply sequence_new_trees.
  - exact Hm1.
  - discriminate.
  - cbn [app]. constructor; assumption.
  - exact Hokr.
  - cbn [app]. exact Hnd.
Qed.

(* ---------- list items that are rooted nodes (direct children of one root): stored alone under a copy of their root *)
Lemma md_links_eq (l : list (string * Z)) : olinks (bundle l) = map (fun kt => (fst kt, md_group (snd kt))) l.
Proof. reflexivity. Qed.

Lemma ao_md_fold (existing : list string) : forall S P : list (string * Z),
  NoDup (keys (S ++ P)) -> (forall k, In k (keys S) -> In k existing) ->
  fold_left (fun acc kt => do b0 <- acc;
               if mem (fst kt) existing
               then do b1 <- del_link (fst kt) b0; add_link (fst kt) (md_group (snd kt)) b1
               else add_link (fst kt) (md_group (snd kt)) b0) S (Ok (bundle (S ++ P)))
  = Ok (bundle (P ++ S)).
Proof.
  induction S as [|[k t] r IH]; intros P Hnd Hex; [cbn; rewrite app_nil_r; reflexivity|].
  cbn [fold_left bind fst snd]. assert (mem k existing = true) as -> by (apply mem_In; apply Hex; left; reflexivity).
  cbn [keys map fst app] in Hnd. apply NoDup_cons_iff in Hnd. destruct Hnd as (Hk & Hnd).
  unfold del_link, bundle at 1. cbn [app map fst snd]. unfold has. cbn [get]. rewrite String.eqb_refl. cbn [del]. rewrite String.eqb_refl. cbn [bind].
  unfold add_link.
  assert (has (map (fun kt : string * Z => (fst kt, md_group (snd kt))) (r ++ P)) k = false) as ->.
  { apply has_false_iff. unfold keys. rewrite map_map. cbn [fst]. exact Hk. }
  assert (map (fun kt : string * Z => (fst kt, md_group (snd kt))) (r ++ P) ++ [(k, md_group t)] = map (fun kt => (fst kt, md_group (snd kt))) (r ++ (P ++ [(k, t)]))) as ->.
  { rewrite !map_app. cbn [map fst snd]. rewrite <- app_assoc. reflexivity. }
  change (G [("emd_group_type", AStr "metadatabundle")] (map (fun kt : string * Z => (fst kt, md_group (snd kt))) (r ++ P ++ [(k, t)]))) with (bundle (r ++ (P ++ [(k, t)]))).
  rewrite IH.
  - rewrite <- app_assoc. reflexivity.
  - unfold keys in *. rewrite !map_app in *. cbn [map fst]. rewrite app_assoc. apply NoDup_app_intro; [exact Hnd|repeat constructor; intros []|].
    intros x Hx [<-|[]]. exact (Hk Hx).
  - intros k0 Hk0. apply Hex. right. exact Hk0.
Qed.

Lemma ao_root_md_same copy : rkids copy = [] -> NoDup (keys (rmds copy)) -> forall extra,
  (forall kv, In kv extra -> fst kv <> "metadatabundle") ->
  append_root_metadata true (rmds copy) (G (node_tags copy) (shallow_links copy ++ extra)) = Ok (G (node_tags copy) (shallow_links copy ++ extra)).
Proof.
  intros Hk Hnd extra Hex. unfold append_root_metadata. destruct (rmds copy) as [|m0 mr] eqn:Em; [reflexivity|]. rewrite <- Em in *.
  unfold shallow_links. rewrite Em. rewrite <- Em. cbn [app olinks]. unfold has. rewrite get_first. cbn [bind].
  unfold in_child. cbn [update_at]. rewrite get_first. cbn [update_at].
  rewrite md_links_eq. rewrite (Proofs.PUnion.bundle_existing (rmds copy)).
  pose proof (ao_md_fold (keys (rmds copy)) (rmds copy) []) as Hf. rewrite app_nil_r in Hf. cbn [app] in Hf.
  rewrite Hf; [|exact Hnd|auto]. cbn [bind set]. rewrite String.eqb_refl. reflexivity.
Qed.

Lemma node_shallow_enc' data : node_shallow data = enc (with_kids data []).
Proof. destruct data as [c s t r m ks]. rewrite enc_eq. cbn [with_kids rkids enc_kids map]. rewrite app_nil_r. reflexivity. Qed.

(* one rooted item: the node alone is added under the copy of its root *)
Lemma rooted_item_step c c0 r x data kids :
  rcls r = CRoot -> rname r <> "" -> no_slash (rname r) = true -> NoDup (keys (rmds r)) ->
  rwalk r [x] = Some data -> rname data = x ->
  ~ In x (map rname kids) -> (rmds r <> [] -> x <> "metadatabundle") ->
  (forall k, In k kids -> rname k <> "metadatabundle") ->
  let T := RN CRoot (rname r) 0%Z 0 (rmds r) kids in
  write_node c (H5 (forest_file c0 [T])) r [x] (WA "ao" (Some false) (Some (rname r)))
  = (Ok tt, H5 (forest_file c0 [RN CRoot (rname r) 0%Z 0 (rmds r) (kids ++ [with_kids data []])])).
Proof.
  intros Hc Hne Hns Hnd Hw Hdn Hx Hxb Hkb T.
  unfold write_node. cbn [mode emdpath tree slot_exists].
  assert (run_prelude prelude_order "ao" (Some (rname r)) true = Ok "ao") as -> by (vm_compute; reflexivity).
  change (mem "ao" overwritemode) with false. change (mem "ao" writemode) with false. cbn [slot_exists negb andb orb]. rewrite andb_false_r. cbn [orb].
  assert (is_emd_file (forest_file c0 [T]) = true) as -> by (apply forest_is_emd; [discriminate|repeat constructor]).
  unfold append_existing. rewrite Hw. cbn [emdpath tree]. change (mem "ao" appendovermode) with true.
  assert (rootgroups (forest_file c0 [T]) = [rname r]) as -> by (rewrite forest_file_one; apply (rootgroups_whole c0 T); reflexivity).
  cbn [mem]. rewrite String.eqb_refl.
  assert ((match rname r with "" => true | String _ _ => false end) = false) as -> by (destruct (rname r); [congruence|reflexivity]).
  assert (parse_emdpath (rname r) = (rname r, "")) as ->.
  { unfold parse_emdpath. assert (match rname r with String c1 rest => if Ascii.eqb c1 "/"%char then rest else rname r | EmptyString => rname r end = rname r) as ->.
    { destruct (rname r) as [|c1 r1] eqn:E; [reflexivity|]. cbn [no_slash] in Hns. apply andb_true_iff in Hns. destruct Hns as (Hc1 & _). apply negb_true_iff in Hc1. rewrite Hc1. reflexivity. }
    rewrite (split_slash_no_slash _ Hns). reflexivity. }
  assert (get (olinks (forest_file c0 [T])) (rname r) = Some (enc T)) as Hg by (unfold forest_file, tree_links; cbn [olinks map]; apply get_first).
  unfold emd_target. rewrite Hg. unfold validate_treepath. change (split_slash "") with [""]. cbn [remove_first_empty String.eqb validate_names app bind].
  (* root metadata: replaced entry by entry, ending where it started *)
  assert (in_child (rname r) (append_root_metadata true (rmds r)) (forest_file c0 [T]) = Ok (forest_file c0 [T])) as ->.
  { unfold in_child, forest_file, tree_links. cbn [update_at map]. rewrite get_first. cbn [update_at].
    rewrite (enc_eq T). change (rkids T) with kids.
    pose proof (ao_root_md_same (RN CRoot (rname r) 0%Z 0 (rmds r) []) eq_refl Hnd (enc_kids kids)) as Hmd.
    cbn [rmds] in Hmd. change (node_tags (RN CRoot (rname r) 0%Z 0 (rmds r) [])) with (node_tags T) in Hmd.
    change (shallow_links (RN CRoot (rname r) 0%Z 0 (rmds r) [])) with (shallow_links T) in Hmd.
    rewrite Hmd; [cbn [bind set]; rewrite String.eqb_refl; reflexivity|].
    intros kv Hkv. unfold enc_kids in Hkv. apply in_map_iff in Hkv. destruct Hkv as (k & <- & Hk). cbn [fst]. apply Hkb. exact Hk. }
  cbn [bind tl]. rewrite Hg.
  (* the item is one node beyond the file: written alone under the root copy *)
  assert (~ In x (keys (olinks (enc T)))) as Hxl.
  { rewrite enc_links. intros H. apply in_app_or in H. destruct H as [H|H]; [|exact (Hx H)].
    unfold shallow_links in H. cbn [rmds rcls own T] in H. rewrite app_nil_r in H. destruct (rmds r) eqn:E; [destruct H|]. destruct H as [H|[]]. apply Hxb; [discriminate|symmetry; exact H]. }
  change (mem "ao" writemode) with false. cbn [orb].
  assert (get (olinks (enc T)) x = None) as HgN by (apply get_none_notin; exact Hxl).
  rewrite (enc_eq T) at 1. cbv beta iota. rewrite (enc_links' T) in HgN. rewrite HgN.
  cbn [path_eqb]. unfold forest_file, tree_links. cbn [map update_at]. rewrite get_first. cbn [update_at].
  unfold write_single_node, add_link. rewrite (enc_eq T) at 1. rewrite Hdn.
  assert (has (shallow_links T ++ enc_kids (rkids T)) x = false) as -> by (apply has_false_iff; rewrite <- (enc_links' T); exact Hxl).
  cbn [bind set]. rewrite String.eqb_refl. f_equal. f_equal. f_equal. f_equal.
  rewrite (enc_eq (RN CRoot (rname r) 0%Z 0 (rmds r) (kids ++ [with_kids data []]))). cbn [rkids]. unfold enc_kids. rewrite map_app. cbn [map].
  rewrite app_assoc. f_equal. f_equal. rewrite <- node_shallow_enc'. assert (rname (with_kids data []) = x) as -> by (destruct data; exact Hdn). reflexivity.
Qed.

Definition rooted_list (i : nat) (xs : list string) : list litem := map (fun x => LTop i [x]) xs.

Lemma rooted_list_given tops i xs : flat_map (fun it => match it with LTop i0 [] => if is_root_top tops i0 then [nth i0 tops dummy] else [] | _ => [] end) (rooted_list i xs) = [].
Proof. induction xs as [|x q IH]; [reflexivity|]. cbn [rooted_list map flat_map app]. exact IH. Qed.
Lemma rooted_list_unrooted tops i xs : flat_map (fun it => match it with LTop i0 [] => if is_root_top tops i0 then [] else [nth i0 tops dummy] | _ => [] end) (rooted_list i xs) = [].
Proof. induction xs as [|x q IH]; [reflexivity|]. cbn [rooted_list map flat_map app]. exact IH. Qed.
Lemma rooted_list_unrooted_idx tops i xs : flat_map (fun it => match it with LTop i0 [] => if is_root_top tops i0 then [] else [i0] | _ => [] end) (rooted_list i xs) = [].
Proof. induction xs as [|x q IH]; [reflexivity|]. cbn [rooted_list map flat_map app]. exact IH. Qed.
Lemma rooted_list_items i xs : flat_map (fun it => match it with LTop i0 (x :: q) => [(i0, x :: q)] | _ => [] end) (rooted_list i xs) = map (fun x => (i, [x])) xs.
Proof. induction xs as [|x q IH]; [reflexivity|]. cbn [rooted_list map flat_map app]. fold (rooted_list i q). rewrite IH. reflexivity. Qed.
Lemma rooted_list_no_other i xs : existsb (fun it => match it with LTop _ _ => false | _ => true end) (rooted_list i xs) = false.
Proof. induction xs as [|x q IH]; [reflexivity|]. cbn [rooted_list map existsb orb]. exact IH. Qed.
Lemma rooted_list_others i xs used : others (rooted_list i xs) used 0 0 = ([], []).
Proof. induction xs as [|x q IH]; [reflexivity|]. cbn [rooted_list map others]. exact IH. Qed.
Lemma existsb_false {A} (f : A -> bool) l : (forall a, In a l -> f a = false) -> existsb f l = false.
Proof. induction l as [|x r IH]; intros H; [reflexivity|]. cbn [existsb]. rewrite (H x (or_introl eq_refl)). apply IH. intros a Ha. apply H. right. exact Ha. Qed.
Lemma same_idx_no_conflict (tops : list rnode) i (l : list string) :
  existsb (fun a => existsb (fun b => negb (Nat.eqb a b) && String.eqb (rname (nth a tops dummy)) (rname (nth b tops dummy))) (map fst (map (fun x => (i, [x])) l)))
          (map fst (map (fun x : string => (i, [x])) l)) = false.
Proof.
  assert (forall a, In a (map fst (map (fun x : string => (i, [x])) l)) -> a = i) as Hall.
  { intros a Ha. rewrite map_map in Ha. apply in_map_iff in Ha. destruct Ha as (x & <- & _). reflexivity. }
  apply existsb_false. intros a Ha. apply existsb_false. intros b Hb. rewrite (Hall a Ha), (Hall b Hb), Nat.eqb_refl. reflexivity.
Qed.

Lemma root_copies_one (tops : list rnode) i xs : xs <> [] ->
  fold_left (fun acc (it : nat * path) =>
               if mem (rname (nth (fst it) tops dummy)) (map rname acc) then acc
               else acc ++ [RN CRoot (rname (nth (fst it) tops dummy)) 0%Z 0 (rmds (nth (fst it) tops dummy)) []])
            (map (fun x : string => (i, [x])) xs) []
  = [RN CRoot (rname (nth i tops dummy)) 0%Z 0 (rmds (nth i tops dummy)) []].
Proof.
  intros Hne. destruct xs as [|x q]; [congruence|]. clear Hne. cbn [map fold_left fst mem app].
  induction q as [|y w IH]; [reflexivity|]. cbn [map fold_left fst rname mem]. rewrite String.eqb_refl. exact IH.
Qed.

(* the items one after the other *)
Lemma rooted_items_sequence c r : rcls r = CRoot -> rname r <> "" -> no_slash (rname r) = true -> NoDup (keys (rmds r)) ->
  forall xs kids,
  NoDup (map rname kids ++ xs) ->
  (forall x, In x xs -> exists data, rwalk r [x] = Some data /\ rname data = x) ->
  (forall k, In k kids -> rname k <> "metadatabundle") -> ~ In "metadatabundle" xs ->
  sequence c (H5 (forest_file c [RN CRoot (rname r) 0%Z 0 (rmds r) kids]))
           (map (fun x => (r, [x], WA "ao" (Some false) (Some (rname r)))) xs)
  = (Ok tt, H5 (forest_file c [RN CRoot (rname r) 0%Z 0 (rmds r)
                                 (kids ++ map (fun x => match rwalk r [x] with Some d => with_kids d [] | None => dummy end) xs)])).
Proof.
  intros Hc Hne Hns Hndm. induction xs as [|x q IH]; intros kids Hnd Hdata Hkb Hb2; [cbn; rewrite app_nil_r; reflexivity|].
  destruct (Hdata x (or_introl eq_refl)) as (data & Hw & Hdn). cbn [map].
  assert (~ In x (map rname kids)) as Hx.
  { apply NoDup_app_inv in Hnd. destruct Hnd as (_ & _ & Hdis). intros H. apply (Hdis _ H). left. reflexivity. }
  rewrite (sequence_ok_cons c _ _ _ (H5 (forest_file c [RN CRoot (rname r) 0%Z 0 (rmds r) (kids ++ [with_kids data []])]))).
  - rewrite Hw. replace (kids ++ with_kids data [] :: map (fun x0 => match rwalk r [x0] with Some d => with_kids d [] | None => dummy end) q)
      with ((kids ++ [with_kids data []]) ++ map (fun x0 => match rwalk r [x0] with Some d => with_kids d [] | None => dummy end) q) by (rewrite <- app_assoc; reflexivity).
    apply IH.
    + rewrite map_app. cbn [map]. assert (rname (with_kids data []) = x) as -> by (destruct data; exact Hdn).
      rewrite <- app_assoc. exact Hnd.
    + intros y Hy. apply Hdata. right. exact Hy.
    + intros k Hk. apply in_app_or in Hk. destruct Hk as [Hk|[<-|[]]]; [apply Hkb; exact Hk|].
      assert (rname (with_kids data []) = x) as -> by (destruct data; exact Hdn). intros E. apply Hb2. left. exact E.
    + intros H. apply Hb2. right. exact H.
  - apply rooted_item_step; try assumption. intros _ E. apply Hb2. left. exact E.
Qed.

Theorem list_of_rooted_items c tops i xs md tr :
  let r := nth i tops dummy in
  rcls r = CRoot -> rname r <> "" -> no_slash (rname r) = true -> NoDup (keys (rmds r)) ->
  xs <> [] -> NoDup xs -> ~ In "metadatabundle" xs ->
  (forall x, In x xs -> exists data, rwalk r [x] = Some data /\ rname data = x) ->
  In md allmodes ->
  write_list c Absent tops (rooted_list i xs) (WA md tr None)
  = (Ok tt, H5 (forest_file c [RN CRoot (rname r) 0%Z 0 (rmds r)
                                 (map (fun x => match rwalk r [x] with Some d => with_kids d [] | None => dummy end) xs)])).
Proof.
  intros r Hc Hne Hns Hndm Hxs Hnd Hb Hdata Hmd. unfold write_list. cbn [mode emdpath slot_exists].
  assert (run_prelude prelude_order md None false = Ok md) as ->.
  { unfold allmodes in Hmd. cbn [app] in Hmd. repeat (destruct Hmd as [<-|Hmd]; [vm_compute; reflexivity|]). destruct Hmd. }
  rewrite rooted_list_given, rooted_list_unrooted, rooted_list_unrooted_idx, rooted_list_items, rooted_list_no_other.
  cbn [nodup_nat negb orb]. rewrite same_idx_no_conflict. cbn [map].
  rewrite rooted_list_others. cbv beta iota zeta.
  match goal with |- context [fold_left ?F (map (fun x : string => (i, [x])) xs) []] =>
    replace (fold_left F (map (fun x : string => (i, [x])) xs) []) with [RN CRoot (rname r) 0%Z 0 (rmds r) []]
      by (symmetry; apply (root_copies_one tops i xs Hxs)) end.
  cbn [app map].
  assert (exists m1, (if mem md writemode then ("a", Absent) else if mem md overwritemode then ("a", Absent) else (md, Absent)) = (m1, Absent) /\ In m1 (appendmode ++ appendovermode)) as (m1 & Em1 & Hm1).
  { unfold allmodes in Hmd. cbn [app] in Hmd. repeat (destruct Hmd as [<-|Hmd]; [eexists; split; [vm_compute; reflexivity|vm_compute; tauto]|]). destruct Hmd. }
  rewrite Em1.
  rewrite (sequence_ok_cons c _ _ _ (H5 (forest_file c [RN CRoot (rname r) 0%Z 0 (rmds r) []]))).
  - rewrite map_map. cbn [fst snd].
    pose proof (rooted_items_sequence c r Hc Hne Hns Hndm xs [] Hnd Hdata (fun k Hk => match Hk with end) Hb) as Hseq. cbn [app] in Hseq. exact Hseq.
  - apply first_tree_fresh; [exact Hm1|reflexivity|]. apply ok_tree_inv. cbn [rkids map]. repeat split; [constructor|intros k []|constructor].
Qed.
