(* Closed form of a file after an update below a path: the tree with the node at that path substituted.  From it: the file a
   targeted append leaves is the encoding of a tree (so it is readable as that tree and passes the validator). *)
From Emd Require Import Base.Prelude Model.H5 Model.Emd Model.Reader Generated.Tables Proofs.PTree Proofs.PAppend Proofs.PRead
     Proofs.P05 Proofs.PUnion Proofs.PUnionAO Proofs.PTarget Proofs.PWf.

Fixpoint rsubst (p : path) (m k' : rnode) {struct p} : rnode :=
  match p with
  | [] => k'
  | x :: q => with_kids m (map (fun c => if String.eqb (rname c) x then rsubst q c k' else c) (rkids m))
  end.

Lemma rname_with_kids m ks : rname (with_kids m ks) = rname m. Proof. destruct m; reflexivity. Qed.

Lemma rname_rsubst : forall p m km k', rwalk m p = Some km -> rname k' = rname km -> rname (rsubst p m k') = rname m.
Proof.
  intros p. destruct p as [|x q]; intros m km k' Hw Hn; [injection Hw as <-; exact Hn|]. cbn [rsubst]. apply rname_with_kids.
Qed.

Lemma set_enc_kids_subst M x c c' : NoDup (map rname M) -> rget M x = Some c -> rname c' = rname c ->
  set (enc_kids M) x (enc c') = enc_kids (map (fun y => if String.eqb (rname y) x then c' else y) M).
Proof.
  induction M as [|y r IH]; intros Hnd Hg Hn; [discriminate|]. inversion Hnd as [|? ? Hy Hr]; subst. cbn [rget] in Hg.
  cbn [enc_kids map set]. destruct (String.eqb x (rname y)) eqn:E.
  - injection Hg as <-. apply String.eqb_eq in E. subst x. rewrite String.eqb_refl. rewrite Hn. f_equal.
    clear -Hy. fold (enc_kids r). induction r as [|z q IHq]; [reflexivity|]. cbn [map enc_kids].
    destruct (String.eqb (rname z) (rname y)) eqn:Ez; [apply String.eqb_eq in Ez; exfalso; apply Hy; left; exact Ez|].
    fold (enc_kids q). rewrite <- IHq; [reflexivity|]. intros H. apply Hy. right. exact H.
  - assert (String.eqb (rname y) x = false) as -> by (apply eqb_sym_false; exact E).
    fold (enc_kids r). rewrite (IH Hr Hg Hn). reflexivity.
Qed.

(* an update at the path of an existing node, by a transformer that turns its encoding into the encoding of k' *)
Theorem update_at_enc F : forall p m km k', ok_tree m -> rwalk m p = Some km -> rname k' = rname km ->
  F (enc km) = Ok (enc k') -> update_at (enc m) p F = Ok (enc (rsubst p m k')).
Proof.
  induction p as [|x q IH]; intros m km k' Hok Hw Hn HF; [injection Hw as <-; exact HF|].
  cbn [rwalk] in Hw. destruct (rget (rkids m) x) as [c|] eqn:Eg; [|discriminate].
  apply ok_tree_inv in Hok. destruct Hok as (Hnd & Hkb & Hall).
  destruct (rget_in _ _ _ Eg) as (Hin & Hcn). rewrite Forall_forall in Hall.
  rewrite enc_eq. cbn [update_at].
  assert (get (shallow_links m) x = None) as Hsh.
  { apply get_none_notin. rewrite <- Hcn. apply Hkb. exact Hin. }
  rewrite (get_app_r _ _ _ Hsh). rewrite (get_enc_kids_some _ _ _ Eg).
  rewrite (IH c km k' (Hall c Hin) Hw Hn HF). cbn [bind]. f_equal.
  rewrite (enc_eq (rsubst (x :: q) m k')). cbn [rsubst].
  assert (node_tags (with_kids m (map (fun c0 => if String.eqb (rname c0) x then rsubst q c0 k' else c0) (rkids m))) = node_tags m) as -> by (destruct m; reflexivity).
  assert (shallow_links (with_kids m (map (fun c0 => if String.eqb (rname c0) x then rsubst q c0 k' else c0) (rkids m))) = shallow_links m) as -> by (destruct m; reflexivity).
  assert (rkids (with_kids m (map (fun c0 => if String.eqb (rname c0) x then rsubst q c0 k' else c0) (rkids m))) = map (fun c0 => if String.eqb (rname c0) x then rsubst q c0 k' else c0) (rkids m)) as -> by (destruct m; reflexivity).
  f_equal. rewrite set_app_r; [|exact Hsh|unfold has; rewrite (get_enc_kids_some _ _ _ Eg); reflexivity]. f_equal.
  rewrite (set_enc_kids_subst (rkids m) x c (rsubst q c k') Hnd Eg (rname_rsubst q c km k' Hw Hn)).
  f_equal. apply map_ext_in. intros y Hy. destruct (String.eqb (rname y) x) eqn:E; [|reflexivity].
  (* the only child of that name is c *)
  apply String.eqb_eq in E. assert (y = c) as ->; [|reflexivity].
  clear -Hnd Hy Hin E Hcn. rewrite <- Hcn in E. induction (rkids m) as [|z r IHr]; [destruct Hy|].
  inversion Hnd as [|? ? Hz Hr]; subst. destruct Hy as [->|Hy]; destruct Hin as [->|Hin]; try reflexivity.
  - exfalso. apply Hz. rewrite E. apply in_map. exact Hin.
  - exfalso. apply Hz. rewrite <- E. apply in_map. exact Hy.
  - apply IHr; assumption.
Qed.

(* ---------- the file a targeted append leaves, in closed form *)
Theorem inner_node_append_closed_form c0 m root p km d2 md tr :
  In md appendmode -> tr <> Some false ->
  rcls m = CRoot -> rname root = rname m -> rmds root = [] -> ok_tree m -> p <> [] ->
  rwalk m p = Some km -> rwalk root p = Some d2 -> compat km d2 ->
  append_existing root p (WA md tr None) md (whole_file c0 m) = Ok (whole_file c0 (rsubst p m (merge km d2))).
Proof.
  intros Hmd Htr Hc Hname Hmds Hok Hp Hwm Hwr Hcompat.
  assert (mem md appendovermode = false) as Hao by (destruct Hmd as [<-|[<-|[<-|[]]]]; reflexivity).
  rewrite (inner_save_shape c0 m root p km d2 md tr Hc Hname Hmds Hok Hp Hwm Hwr). rewrite Hao.
  pose proof (ok_tree_walk m Hok p km Hwm) as Hokm.
  assert (update_at (whole_file c0 m) (rname m :: p) (append_branch false d2) = Ok (whole_file c0 (rsubst p m (merge km d2)))) as Hu.
  { unfold whole_file. cbn [update_at]. rewrite get_first.
    rewrite (update_at_enc (append_branch false d2) p m km (merge km d2) Hok Hwm (rname_merge km d2) (append_is_union km d2 Hokm Hcompat)).
    cbn [bind set]. rewrite String.eqb_refl. rewrite (rname_rsubst p m km (merge km d2) Hwm (rname_merge km d2)). reflexivity. }
  unfold ow_and_branch. destruct tr as [[|]|]; [cbn [bind]; exact Hu|congruence|cbn [bind]; exact Hu].
Qed.

(* ---------- the substituted tree is as plain as its parts: the file passes the validator *)
Lemma unique_child (l : list rnode) y c : NoDup (map rname l) -> In y l -> In c l -> rname y = rname c -> y = c.
Proof.
  induction l as [|z r IH]; intros Hnd Hy Hc E; [destruct Hy|]. inversion Hnd as [|? ? Hz Hr]; subst.
  destruct Hy as [->|Hy]; destruct Hc as [->|Hc]; try reflexivity.
  - exfalso. apply Hz. rewrite E. apply in_map. exact Hc.
  - exfalso. apply Hz. rewrite <- E. apply in_map. exact Hy.
  - apply IH; assumption.
Qed.

Lemma rcls_rsubst : forall p m km k', rwalk m p = Some km -> rcls k' = rcls km -> rcls (rsubst p m k') = rcls m.
Proof. intros p. destruct p as [|x q]; intros m km k' Hw Hc; [injection Hw as <-; exact Hc|]. cbn [rsubst]. destruct m; reflexivity. Qed.

Lemma plain_tree_rsubst : forall p m km k', ok_tree m -> plain_tree m -> rwalk m p = Some km ->
  rname k' = rname km -> rcls k' = rcls km -> plain_tree k' -> plain_tree (rsubst p m k').
Proof.
  induction p as [|x q IH]; intros m km k' Hok Hp Hw Hn Hcl Hk; [exact Hk|].
  cbn [rwalk] in Hw. destruct (rget (rkids m) x) as [c|] eqn:Eg; [|discriminate].
  destruct (rget_in _ _ _ Eg) as (Hin & Hcn).
  apply ok_tree_inv in Hok. destruct Hok as (Hnd & _ & Hall). rewrite Forall_forall in Hall.
  cbn [rsubst]. apply plain_tree_inv. apply plain_tree_inv in Hp.
  assert (rkids (with_kids m (map (fun c0 => if String.eqb (rname c0) x then rsubst q c0 k' else c0) (rkids m))) = map (fun c0 => if String.eqb (rname c0) x then rsubst q c0 k' else c0) (rkids m)) as -> by (destruct m; reflexivity).
  apply Forall_forall. intros y' Hy'. apply in_map_iff in Hy'. destruct Hy' as (y & <- & Hy). rewrite Forall_forall in Hp.
  destruct (Hp y Hy) as (A & B & C & D). destruct (String.eqb (rname y) x) eqn:E; [|repeat split; assumption].
  apply String.eqb_eq in E. assert (y = c) as -> by (apply (unique_child (rkids m)); try assumption; rewrite E, Hcn; reflexivity).
  rewrite (rname_rsubst q c km k' Hw Hn), (rcls_rsubst q c km k' Hw Hcl). repeat (split; [assumption|]).
  apply (IH c km k' (Hall c Hin) D Hw Hn Hcl Hk).
Qed.

Lemma rcls_merge m n : rcls (merge m n) = rcls m. Proof. destruct m; reflexivity. Qed.

Theorem wf_after_inner_node_append c0 m root p km d2 md tr :
  In md appendmode -> tr <> Some false ->
  rcls m = CRoot -> rname root = rname m -> rmds root = [] -> ok_tree m -> p <> [] ->
  rwalk m p = Some km -> rwalk root p = Some d2 -> compat km d2 ->
  plain_tree m -> plain_tree d2 ->
  exists f, append_existing root p (WA md tr None) md (whole_file c0 m) = Ok f /\ wf_emd c0 f = true.
Proof.
  intros Hmd Htr Hc Hname Hmds Hok Hp Hwm Hwr Hcompat Hpm Hpd.
  exists (whole_file c0 (rsubst p m (merge km d2))). split; [apply inner_node_append_closed_form; assumption|].
  apply wf_whole_file.
  - rewrite (rcls_rsubst p m km (merge km d2) Hwm (rcls_merge km d2)). exact Hc.
  - apply (plain_tree_rsubst p m km (merge km d2) Hok Hpm Hwm (rname_merge km d2) (rcls_merge km d2)).
    apply plain_tree_merge; [|exact Hpd]. destruct (plain_tree_walk m Hpm p km Hp Hwm) as (_ & _ & _ & D). exact D.
Qed.

(* ---------- appends given an emdpath leave a valid file too (via the reductions of PTarget) *)
Theorem wf_after_an_append_at_an_emdpath c0 m root p km d2 md tr :
  In md appendmode -> tr <> Some false ->
  rcls m = CRoot -> rname root = rname m -> rmds root = [] -> ok_tree m -> p <> [] ->
  rwalk m p = Some km -> rwalk root p = Some d2 -> compat km d2 ->
  plain_tree m -> plain_tree d2 ->
  Forall (fun s => s <> "" /\ no_slash s = true) (rname m :: p) ->
  exists f, append_existing root [] (WA md tr (Some (join_slash (rname m :: p)))) md (whole_file c0 m) = Ok f /\ wf_emd c0 f = true.
Proof.
  intros Hmd Htr Hc Hname Hmds Hok Hp Hwm Hwr Hcompat Hpm Hpd Hnames.
  rewrite (whole_tree_at_an_emdpath_is_the_inner_node_save c0 m root p km d2 md tr Hc Hname Hmds Hok Hp Hwm Hwr Hnames).
  apply (wf_after_inner_node_append c0 m root p km d2 md tr); assumption.
Qed.

Theorem wf_after_an_inner_node_append_with_an_emdpath c0 m root p km d2 md tr ep_path :
  In md appendmode -> tr <> Some false ->
  rcls m = CRoot -> rname root = rname m -> rmds root = [] -> ok_tree m -> p <> [] ->
  rwalk m p = Some km -> rwalk root p = Some d2 -> compat km d2 ->
  plain_tree m -> plain_tree d2 ->
  Forall (fun s => s <> "" /\ no_slash s = true) (rname m :: p) ->
  (ep_path = p \/ ep_path = removelast p) ->
  exists f, append_existing root p (WA md tr (Some (join_slash (rname m :: ep_path)))) md (whole_file c0 m) = Ok f /\ wf_emd c0 f = true.
Proof.
  intros Hmd Htr Hc Hname Hmds Hok Hp Hwm Hwr Hcompat Hpm Hpd Hnames Hep.
  rewrite (inner_node_emdpath_to_itself_or_parent_is_redundant c0 m root p km d2 md tr ep_path Hc Hname Hmds Hok Hp Hwm Hwr Hnames Hep).
  apply (wf_after_inner_node_append c0 m root p km d2 md tr); assumption.
Qed.

(* and the closed form of the targeted append of C09 (6): save(root, emdpath = 'root/p') *)
Theorem targeted_append_closed_form c0 m root p km d2 md tr :
  In md appendmode -> tr <> Some false ->
  rcls m = CRoot -> rname root = rname m -> rmds root = [] -> ok_tree m -> p <> [] ->
  rwalk m p = Some km -> rwalk root p = Some d2 -> compat km d2 ->
  Forall (fun s => s <> "" /\ no_slash s = true) (rname m :: p) ->
  append_existing root [] (WA md tr (Some (join_slash (rname m :: p)))) md (whole_file c0 m) = Ok (whole_file c0 (rsubst p m (merge km d2))).
Proof.
  intros Hmd Htr Hc Hname Hmds Hok Hp Hwm Hwr Hcompat Hnames.
  rewrite (whole_tree_at_an_emdpath_is_the_inner_node_save c0 m root p km d2 md tr Hc Hname Hmds Hok Hp Hwm Hwr Hnames).
  apply inner_node_append_closed_form; assumption.
Qed.

(* ---------- and it reads back as that tree *)
From Emd Require Import Proofs.PAfter.
Lemma rd_tree_rsubst : forall p m km k', ok_tree m -> rd_tree m -> rwalk m p = Some km ->
  rname k' = rname km -> rcls k' = rcls km -> rd_tree k' -> rd_tree (rsubst p m k').
Proof.
  induction p as [|x q IH]; intros m km k' Hok Hp Hw Hn Hcl Hk; [exact Hk|].
  cbn [rwalk] in Hw. destruct (rget (rkids m) x) as [c|] eqn:Eg; [|discriminate].
  destruct (rget_in _ _ _ Eg) as (Hin & Hcn).
  apply ok_tree_inv in Hok. destruct Hok as (Hnd & _ & Hall). rewrite Forall_forall in Hall.
  cbn [rsubst]. apply rd_tree_inv. apply rd_tree_inv in Hp.
  assert (rkids (with_kids m (map (fun c0 => if String.eqb (rname c0) x then rsubst q c0 k' else c0) (rkids m))) = map (fun c0 => if String.eqb (rname c0) x then rsubst q c0 k' else c0) (rkids m)) as -> by (destruct m; reflexivity).
  apply Forall_forall. intros y' Hy'. apply in_map_iff in Hy'. destruct Hy' as (y & <- & Hy). rewrite Forall_forall in Hp.
  destruct (Hp y Hy) as (A & B & C). destruct (String.eqb (rname y) x) eqn:E; [|repeat split; assumption].
  apply String.eqb_eq in E. assert (y = c) as -> by (apply (unique_child (rkids m)); try assumption; rewrite E, Hcn; reflexivity).
  rewrite (rname_rsubst q c km k' Hw Hn), (rcls_rsubst q c km k' Hw Hcl). repeat (split; [assumption|]).
  apply (IH c km k' (Hall c Hin) C Hw Hn Hcl Hk).
Qed.

Lemma rd_tree_walk_p : forall p m km, rd_tree m -> rwalk m p = Some km -> rd_tree km.
Proof.
  induction p as [|x q IH]; intros m km Hm Hw; [injection Hw as <-; exact Hm|].
  cbn [rwalk] in Hw. destruct (rget (rkids m) x) as [c|] eqn:Eg; [|discriminate]. destruct (rget_in _ _ _ Eg) as (Hin & _).
  apply rd_tree_inv in Hm. rewrite Forall_forall in Hm. destruct (Hm c Hin) as (_ & _ & Hc). apply (IH c km Hc Hw).
Qed.

Theorem targeted_append_then_read c c0 m root p km d2 md tr :
  In md appendmode -> tr <> Some false ->
  rcls m = CRoot -> rname root = rname m -> rmds root = [] -> ok_tree m -> p <> [] ->
  rwalk m p = Some km -> rwalk root p = Some d2 -> compat km d2 ->
  Forall (fun s => s <> "" /\ no_slash s = true) (rname m :: p) ->
  rd_tree m -> rd_tree d2 ->
  let t := rsubst p m (merge km d2) in
  exists f, write_node c (H5 (whole_file c0 m)) root [] (WA md tr (Some (join_slash (rname m :: p)))) = (Ok tt, H5 f) /\
            read (H5 f) None (Some true) = Ok (RTree (canon t) (ret_of (canon t))).
Proof.
  intros Hmd Htr Hc Hname Hmds Hok Hp Hwm Hwr Hcompat Hnames Hrm Hrd t.
  exists (whole_file c0 t). split.
  - unfold write_node. cbn [mode emdpath tree slot_exists].
    (* with an emdpath every append spelling is normalised to "a" by the prelude *)
    assert (run_prelude prelude_order md (Some (join_slash (rname m :: p))) true = Ok "a") as ->.
    { destruct Hmd as [<-|[<-|[<-|[]]]]; vm_compute; reflexivity. }
    change (mem "a" overwritemode) with false. change (mem "a" writemode) with false.
    cbn [orb slot_exists negb]. rewrite andb_false_r.
    assert (is_emd_file (whole_file c0 m) = true) as -> by (apply fresh_file_detected; exact Hc).
    change (append_existing root [] (WA md tr (Some (join_slash (rname m :: p)))) "a" (whole_file c0 m))
      with (append_existing root [] (WA "a" tr (Some (join_slash (rname m :: p)))) "a" (whole_file c0 m)).
    rewrite (targeted_append_closed_form c0 m root p km d2 "a" tr (or_introl eq_refl) Htr Hc Hname Hmds Hok Hp Hwm Hwr Hcompat Hnames). reflexivity.
  - inversion Hnames as [|? ? (Hrne & Hrns) _]; subst.
    assert (rname t = rname m) as Hnt by (apply (rname_rsubst p m km (merge km d2) Hwm (rname_merge km d2))).
    assert (rcls t = CRoot) as Hct by (unfold t; rewrite (rcls_rsubst p m km (merge km d2) Hwm (rcls_merge km d2)); exact Hc).
    assert (rd_tree t) as Hrt.
    { apply (rd_tree_rsubst p m km (merge km d2) Hok Hrm Hwm (rname_merge km d2) (rcls_merge km d2)).
      apply rd_tree_merge; [apply (rd_tree_walk_p p m km Hrm Hwm)|exact Hrd]. }
    destruct (read_whole_file c0 t Hct Hrt) as (A & _); [rewrite Hnt; exact Hrne|rewrite Hnt; exact Hrns|exact A].
Qed.

(* ---------- a foreign tree (root name the file lacks) placed under an emdpath target: closed form, hence valid *)
Theorem foreign_tree_closed_form c0 m root p kt md tr :
  rcls m = CRoot -> rname root <> rname m -> ok_tree m -> rwalk m p = Some kt -> tr <> Some false -> ok_tree root ->
  (forall k, In k (rkids root) -> ~ In (rname k) (keys (olinks (enc kt)))) ->
  Forall (fun s => s <> "" /\ no_slash s = true) (rname m :: p) ->
  append_existing root [] (WA md tr (Some (join_slash (rname m :: p)))) md (whole_file c0 m)
  = Ok (whole_file c0 (rsubst p m (with_kids kt (rkids kt ++ rkids root)))).
Proof.
  intros Hc Hrn Hok Hw Htr Hokr Hnew Hnames.
  inversion Hnames as [|? ? (Hrne & Hrns) Hnp]; subst.
  assert (Forall (fun s => no_slash s = true) (rname m :: p)) as Hns.
  { constructor; [exact Hrns|]. eapply Forall_impl; [|exact Hnp]. cbn. intros a Ha. apply Ha. }
  unfold append_existing. cbn [rwalk emdpath tree].
  rewrite (rootgroups_whole c0 m Hc). cbn [mem].
  assert (String.eqb (rname root) (rname m) = false) as -> by (destruct (String.eqb (rname root) (rname m)) eqn:E; [apply String.eqb_eq in E; congruence|reflexivity]).
  assert (join_slash (rname m :: p) <> "") as Hjne.
  { destruct (rname m) as [|c1 r1] eqn:E; [congruence|]. destruct p; cbn [join_slash String.append]; discriminate. }
  assert ((match join_slash (rname m :: p) with "" => true | String _ _ => false end) = false) as -> by (destruct (join_slash (rname m :: p)); [congruence|reflexivity]).
  rewrite (parse_emdpath_join (rname m) p Hrne Hns).
  rewrite (emd_target_enc c0 m p kt Hok Hw Hnp). cbn [bind].
  assert (update_at (whole_file c0 m) (rname m :: p) (write_tree root) = Ok (whole_file c0 (rsubst p m (with_kids kt (rkids kt ++ rkids root))))) as Hu.
  { unfold whole_file. cbn [update_at]. rewrite get_first.
    assert (rname (with_kids kt (rkids kt ++ rkids root)) = rname kt) as Hn by (destruct kt; reflexivity).
    rewrite (update_at_enc (write_tree root) p m kt (with_kids kt (rkids kt ++ rkids root)) Hok Hw Hn).
    - cbn [bind set]. rewrite String.eqb_refl. rewrite (rname_rsubst p m kt _ Hw Hn). reflexivity.
    - rewrite (enc_eq kt). rewrite enc_links' in Hnew.
      rewrite (write_tree_spec root Hokr (node_tags kt) (shallow_links kt ++ enc_kids (rkids kt)) Hnew). f_equal.
      rewrite (enc_eq (with_kids kt (rkids kt ++ rkids root))).
      assert (node_tags (with_kids kt (rkids kt ++ rkids root)) = node_tags kt /\ shallow_links (with_kids kt (rkids kt ++ rkids root)) = shallow_links kt /\ rkids (with_kids kt (rkids kt ++ rkids root)) = rkids kt ++ rkids root) as (-> & -> & ->) by (destruct kt; repeat split; reflexivity).
      unfold enc_kids. rewrite map_app, app_assoc. reflexivity. }
  destruct tr as [[|]|]; [exact Hu|congruence|exact Hu].
Qed.

Theorem wf_after_a_foreign_tree_under_an_emdpath c0 m root p kt md tr :
  rcls m = CRoot -> rname root <> rname m -> ok_tree m -> rwalk m p = Some kt -> tr <> Some false -> ok_tree root ->
  (forall k, In k (rkids root) -> ~ In (rname k) (keys (olinks (enc kt)))) ->
  Forall (fun s => s <> "" /\ no_slash s = true) (rname m :: p) ->
  plain_tree m -> plain_tree root ->
  exists f, append_existing root [] (WA md tr (Some (join_slash (rname m :: p)))) md (whole_file c0 m) = Ok f /\ wf_emd c0 f = true.
Proof.
  intros Hc Hrn Hok Hw Htr Hokr Hnew Hnames Hpm Hpr.
  exists (whole_file c0 (rsubst p m (with_kids kt (rkids kt ++ rkids root)))). split; [apply foreign_tree_closed_form; assumption|].
  assert (rname (with_kids kt (rkids kt ++ rkids root)) = rname kt /\ rcls (with_kids kt (rkids kt ++ rkids root)) = rcls kt) as (Hn & Hcl) by (destruct kt; split; reflexivity).
  apply wf_whole_file.
  - rewrite (rcls_rsubst p m kt _ Hw Hcl). exact Hc.
  - apply (plain_tree_rsubst p m kt _ Hok Hpm Hw Hn Hcl).
    apply plain_tree_inv. assert (rkids (with_kids kt (rkids kt ++ rkids root)) = rkids kt ++ rkids root) as -> by (destruct kt; reflexivity).
    apply Forall_app. split.
    + assert (plain_tree kt) as Hpk.
      { destruct p as [|x q]; [injection Hw as <-; exact Hpm|]. destruct (plain_tree_walk m Hpm (x :: q) kt ltac:(discriminate) Hw) as (_ & _ & _ & D). exact D. }
      apply plain_tree_inv. exact Hpk.
    + apply plain_tree_inv. exact Hpr.
Qed.

(* ---------- append-over of an inner node, closed form: the parent at q with its child list replaced by aom *)
Theorem inner_node_appendover_closed_form c0 m root q x pk km data md :
  In md appendovermode ->
  rcls m = CRoot -> rname root = rname m -> rmds root = [] -> ok_tree m ->
  rwalk m q = Some pk -> rwalk m (q ++ [x]) = Some km ->
  rwalk root (q ++ [x]) = Some data -> rname data = x ->
  compat_ao (RN CNode "" 0%Z 0 [] [data]) (shallow_links pk) (rkids pk) ->
  append_existing root (q ++ [x]) (WA md (Some true) None) md (whole_file c0 m)
  = Ok (whole_file c0 (rsubst q m (with_kids pk (aom (RN CNode "" 0%Z 0 [] [data]) (rkids pk))))).
Proof.
  intros Hmd Hc Hname Hmds Hok Hwp Hwm Hwr Hdn Hcompat.
  assert (mem md appendovermode = true) as Hao by (destruct Hmd as [<-|[<-|[<-|[<-|[<-|[]]]]]]; reflexivity).
  set (pk' := with_kids pk (aom (RN CNode "" 0%Z 0 [] [data]) (rkids pk))).
  assert (rname pk' = rname pk) as Hn' by (destruct pk; reflexivity).
  pose proof (ao_union (RN CNode "" 0%Z 0 [] [data]) (node_tags pk) (shallow_links pk) (rkids pk) Hcompat) as Hstep.
  rewrite <- (enc_eq pk) in Hstep. cbn [append_branch rkids fold_left bind] in Hstep.
  assert (km_in : rget (rkids pk) x = Some km).
  { clear -Hwp Hwm. revert m Hwp Hwm. induction q as [|y q' IH]; intros m Hwp Hwm.
    - injection Hwp as <-. cbn [app rwalk] in Hwm. destruct (rget (rkids m) x); [injection Hwm as <-; reflexivity|discriminate].
    - cbn [app rwalk] in *. destruct (rget (rkids m) y) as [kid|]; [|discriminate]. apply (IH kid Hwp Hwm). }
  assert (mem (rname data) (map fst (filter (fun kv => is_group (snd kv) && has_gtype (snd kv)) (olinks (enc pk)))) = true) as Hmem.
  { rewrite Hdn. apply mem_In. apply in_map_iff. exists (x, enc km). split; [reflexivity|]. apply filter_In. split; [|apply enc_has_gtype].
    rewrite enc_links'. apply in_or_app. right. apply get_In. apply get_enc_kids_some. exact km_in. }
  rewrite Hmem in Hstep.
  assert (G (node_tags pk) (shallow_links pk ++ enc_kids (aom (RN CNode "" 0%Z 0 [] [data]) (rkids pk))) = enc pk') as Epk'.
  { rewrite (enc_eq pk'). unfold pk'. destruct pk; reflexivity. }
  rewrite Epk' in Hstep.
  assert (update_at (whole_file c0 m) (rname m :: q) (fun g0 => do g1 <- overwrite_in_parent data g0; in_child (rname data) (append_branch true data) g1)
          = Ok (whole_file c0 (rsubst q m pk'))) as Hu.
  { unfold whole_file. cbn [update_at]. rewrite get_first.
    rewrite (update_at_enc _ q m pk pk' Hok Hwp Hn' Hstep). cbn [bind set]. rewrite String.eqb_refl.
    rewrite (rname_rsubst q m pk pk' Hwp Hn'). reflexivity. }
  unfold append_existing. rewrite Hwr. cbn [emdpath tree]. rewrite Hao.
  rewrite (rootgroups_whole c0 m Hc). rewrite Hname. cbn [mem]. rewrite String.eqb_refl. rewrite Hmds.
  assert (in_child (rname m) (append_root_metadata true []) (whole_file c0 m) = Ok (whole_file c0 m)) as ->.
  { unfold in_child, whole_file. cbn [update_at]. rewrite get_first. cbn [update_at append_root_metadata bind set]. rewrite String.eqb_refl. reflexivity. }
  cbn [bind]. assert ((match q ++ [x] with [] => true | _ :: _ => false end) = false) as -> by (destruct q; reflexivity).
  assert (get (olinks (whole_file c0 m)) (rname m) = Some (enc m)) as -> by (unfold whole_file; cbn [olinks]; apply get_first).
  rewrite (validate_names_enc m Hok (q ++ [x]) km [] Hwm). cbn [app].
  unfold ow_and_branch, overwrite_at. rewrite Hdn.
  destruct (init_last q x) as (Hinit & Hlast).
  assert (last_name (rname m :: q ++ [x]) = x) as ->.
  { unfold last_name. change (rname m :: q ++ [x]) with ((rname m :: q) ++ [x]). apply last_last. }
  rewrite String.eqb_refl, path_eqb_refl. cbn [andb]. assert (exists y q0, q ++ [x] = y :: q0) as (y & q0 & Eq) by (destruct q; cbn; eauto). rewrite Eq at 1. rewrite Hinit.
  destruct (update_at_first_ok (rname m :: q) (whole_file c0 m) (overwrite_in_parent data) (in_child (rname data) (append_branch true data)) _ Hu) as (f1 & E1).
  rewrite E1. cbn [bind]. change (rname m :: q ++ [x]) with ((rname m :: q) ++ [x]).
  rewrite (update_at_compose (rname m :: q) (whole_file c0 m) (overwrite_in_parent data) f1 x (append_branch true data) E1).
  rewrite <- Hdn. exact Hu.
Qed.

Theorem wf_after_inner_node_appendover c0 m root q x pk km data md :
  In md appendovermode ->
  rcls m = CRoot -> rname root = rname m -> rmds root = [] -> ok_tree m ->
  rwalk m q = Some pk -> rwalk m (q ++ [x]) = Some km ->
  rwalk root (q ++ [x]) = Some data -> rname data = x ->
  compat_ao (RN CNode "" 0%Z 0 [] [data]) (shallow_links pk) (rkids pk) ->
  plain_tree m -> plain (rname data) = true -> rname data <> "metadatabundle" -> rcls data <> CRoot -> plain_tree data ->
  exists f, append_existing root (q ++ [x]) (WA md (Some true) None) md (whole_file c0 m) = Ok f /\ wf_emd c0 f = true.
Proof.
  intros Hmd Hc Hname Hmds Hok Hwp Hwm Hwr Hdn Hcompat Hpm Hd1 Hd2 Hd3 Hd4.
  eexists. split; [apply (inner_node_appendover_closed_form c0 m root q x pk km data md); assumption|].
  set (pk' := with_kids pk (aom (RN CNode "" 0%Z 0 [] [data]) (rkids pk))).
  assert (rname pk' = rname pk /\ rcls pk' = rcls pk) as (Hn' & Hc') by (destruct pk; split; reflexivity).
  apply wf_whole_file.
  - rewrite (rcls_rsubst q m pk pk' Hwp Hc'). exact Hc.
  - apply (plain_tree_rsubst q m pk pk' Hok Hpm Hwp Hn' Hc').
    apply plain_tree_inv. assert (rkids pk' = aom (RN CNode "" 0%Z 0 [] [data]) (rkids pk)) as -> by (destruct pk; reflexivity).
    apply plain_aom.
    + assert (plain_tree pk) as Hpk.
      { destruct q as [|y q']; [injection Hwp as <-; exact Hpm|]. destruct (plain_tree_walk m Hpm (y :: q') pk ltac:(discriminate) Hwp) as (_ & _ & _ & D). exact D. }
      apply plain_tree_inv. exact Hpk.
    + apply plain_tree_inv. cbn [rkids]. constructor; [|constructor]. repeat split; assumption.
Qed.

(* append-over of the whole tree at an emdpath 'root/q/x' (tree = True) = append-over of the inner node there *)
Theorem wf_after_an_appendover_at_an_emdpath c0 m root q x pk km data md :
  In md appendovermode ->
  rcls m = CRoot -> rname root = rname m -> rmds root = [] -> ok_tree m ->
  rwalk m q = Some pk -> rwalk m (q ++ [x]) = Some km ->
  rwalk root (q ++ [x]) = Some data -> rname data = x ->
  compat_ao (RN CNode "" 0%Z 0 [] [data]) (shallow_links pk) (rkids pk) ->
  plain_tree m -> plain (rname data) = true -> rname data <> "metadatabundle" -> rcls data <> CRoot -> plain_tree data ->
  Forall (fun s => s <> "" /\ no_slash s = true) (rname m :: q ++ [x]) ->
  exists f, append_existing root [] (WA md (Some true) (Some (join_slash (rname m :: q ++ [x])))) md (whole_file c0 m) = Ok f /\ wf_emd c0 f = true.
Proof.
  intros Hmd Hc Hname Hmds Hok Hwp Hwm Hwr Hdn Hcompat Hpm Hd1 Hd2 Hd3 Hd4 Hnames.
  assert (q ++ [x] <> []) as Hne by (destruct q; discriminate).
  rewrite (whole_tree_at_an_emdpath_is_the_inner_node_save c0 m root (q ++ [x]) km data md (Some true) Hc Hname Hmds Hok Hne Hwm Hwr Hnames).
  apply (wf_after_inner_node_appendover c0 m root q x pk km data md); assumption.
Qed.

(* ---------- append-over of the branch BELOW an inner node (tree = None): the node keeps its own content, its children are
   united with the runtime node's, common ones replaced *)
Theorem inner_node_appendover_branch_closed_form c0 m root p km data md :
  In md appendovermode ->
  rcls m = CRoot -> rname root = rname m -> rmds root = [] -> ok_tree m -> p <> [] ->
  rwalk m p = Some km -> rwalk root p = Some data ->
  compat_ao data (shallow_links km) (rkids km) ->
  append_existing root p (WA md None None) md (whole_file c0 m)
  = Ok (whole_file c0 (rsubst p m (with_kids km (aom data (rkids km))))).
Proof.
  intros Hmd Hc Hname Hmds Hok Hp Hwm Hwr Hcompat.
  assert (mem md appendovermode = true) as Hao by (destruct Hmd as [<-|[<-|[<-|[<-|[<-|[]]]]]]; reflexivity).
  rewrite (inner_save_shape c0 m root p km data md None Hc Hname Hmds Hok Hp Hwm Hwr). rewrite Hao.
  set (km' := with_kids km (aom data (rkids km))).
  assert (rname km' = rname km) as Hn' by (destruct km; reflexivity).
  assert (append_branch true data (enc km) = Ok (enc km')) as Hstep.
  { rewrite (enc_eq km). rewrite (ao_union data (node_tags km) (shallow_links km) (rkids km) Hcompat). f_equal.
    rewrite (enc_eq km'). unfold km'. destruct km; reflexivity. }
  unfold ow_and_branch. cbn [bind]. unfold whole_file. cbn [update_at]. rewrite get_first.
  rewrite (update_at_enc (append_branch true data) p m km km' Hok Hwm Hn' Hstep). cbn [bind set]. rewrite String.eqb_refl.
  rewrite (rname_rsubst p m km km' Hwm Hn'). reflexivity.
Qed.

Theorem wf_after_inner_node_appendover_branch c0 m root p km data md :
  In md appendovermode ->
  rcls m = CRoot -> rname root = rname m -> rmds root = [] -> ok_tree m -> p <> [] ->
  rwalk m p = Some km -> rwalk root p = Some data ->
  compat_ao data (shallow_links km) (rkids km) ->
  plain_tree m -> plain_tree data ->
  exists f, append_existing root p (WA md None None) md (whole_file c0 m) = Ok f /\ wf_emd c0 f = true.
Proof.
  intros Hmd Hc Hname Hmds Hok Hp Hwm Hwr Hcompat Hpm Hpd.
  eexists. split; [apply (inner_node_appendover_branch_closed_form c0 m root p km data md); assumption|].
  set (km' := with_kids km (aom data (rkids km))).
  assert (rname km' = rname km /\ rcls km' = rcls km) as (Hn' & Hc') by (destruct km; split; reflexivity).
  apply wf_whole_file.
  - rewrite (rcls_rsubst p m km km' Hwm Hc'). exact Hc.
  - apply (plain_tree_rsubst p m km km' Hok Hpm Hwm Hn' Hc').
    apply plain_tree_inv. assert (rkids km' = aom data (rkids km)) as -> by (destruct km; reflexivity).
    apply plain_aom; [|exact Hpd].
    destruct (plain_tree_walk m Hpm p km Hp Hwm) as (_ & _ & _ & D). apply plain_tree_inv. exact D.
Qed.

(* ---------- a foreign inner node (of a tree whose root name the file lacks) placed under an emdpath target, for each tree
   flag: the node with its branch / the node alone / the branch below it become children of the target *)
Definition placed (data : rnode) (tr : option bool) : list rnode :=
  match tr with Some true => [data] | Some false => [with_kids data []] | None => rkids data end.

Theorem foreign_node_closed_form c0 m root tp data p kt md tr :
  rcls m = CRoot -> rname root <> rname m -> ok_tree m -> rwalk m p = Some kt ->
  tp <> [] -> rwalk root tp = Some data -> ok_tree data ->
  (forall k, In k (placed data tr) -> ~ In (rname k) (keys (olinks (enc kt)))) ->
  Forall (fun s => s <> "" /\ no_slash s = true) (rname m :: p) ->
  append_existing root tp (WA md tr (Some (join_slash (rname m :: p)))) md (whole_file c0 m)
  = Ok (whole_file c0 (rsubst p m (with_kids kt (rkids kt ++ placed data tr)))).
Proof.
  intros Hc Hrn Hok Hw Htp Hwr Hokd Hnew Hnames.
  inversion Hnames as [|? ? (Hrne & Hrns) Hnp]; subst.
  assert (Forall (fun s => no_slash s = true) (rname m :: p)) as Hns.
  { constructor; [exact Hrns|]. eapply Forall_impl; [|exact Hnp]. cbn. intros a Ha. apply Ha. }
  unfold append_existing. rewrite Hwr. cbn [emdpath tree].
  rewrite (rootgroups_whole c0 m Hc). cbn [mem].
  assert (String.eqb (rname root) (rname m) = false) as -> by (destruct (String.eqb (rname root) (rname m)) eqn:E; [apply String.eqb_eq in E; congruence|reflexivity]).
  assert (join_slash (rname m :: p) <> "") as Hjne.
  { destruct (rname m) as [|c1 r1] eqn:E; [congruence|]. destruct p; cbn [join_slash String.append]; discriminate. }
  assert ((match join_slash (rname m :: p) with "" => true | String _ _ => false end) = false) as -> by (destruct (join_slash (rname m :: p)); [congruence|reflexivity]).
  rewrite (parse_emdpath_join (rname m) p Hrne Hns).
  rewrite (emd_target_enc c0 m p kt Hok Hw Hnp). cbn [bind].
  assert ((match tp with [] => true | _ :: _ => false end) = false) as -> by (destruct tp; [congruence|reflexivity]).
  set (kt' := with_kids kt (rkids kt ++ placed data tr)).
  assert (rname kt' = rname kt) as Hn by (destruct kt; reflexivity).
  assert (forall F, F (enc kt) = Ok (enc kt') -> update_at (whole_file c0 m) (rname m :: p) F = Ok (whole_file c0 (rsubst p m kt'))) as Hup.
  { intros F HF. unfold whole_file. cbn [update_at]. rewrite get_first.
    rewrite (update_at_enc F p m kt kt' Hok Hw Hn HF). cbn [bind set]. rewrite String.eqb_refl. rewrite (rname_rsubst p m kt kt' Hw Hn). reflexivity. }
  assert (forall extra, enc (with_kids kt (rkids kt ++ extra)) = G (node_tags kt) ((shallow_links kt ++ enc_kids (rkids kt)) ++ enc_kids extra)) as Henc.
  { intros extra. rewrite (enc_eq (with_kids kt (rkids kt ++ extra))).
    assert (node_tags (with_kids kt (rkids kt ++ extra)) = node_tags kt /\ shallow_links (with_kids kt (rkids kt ++ extra)) = shallow_links kt /\ rkids (with_kids kt (rkids kt ++ extra)) = rkids kt ++ extra) as (-> & -> & ->) by (destruct kt; repeat split; reflexivity).
    unfold enc_kids. rewrite map_app, app_assoc. reflexivity. }
  rewrite enc_links' in Hnew.
  destruct tr as [[|]|]; cbn [placed] in *; apply Hup; unfold kt'; cbn [placed]; rewrite Henc; rewrite (enc_eq kt).
  - rewrite (new_child_written_whole data _ _ Hokd (Hnew data (or_introl eq_refl))). reflexivity.
  - unfold write_single_node, add_link. assert (rname (with_kids data []) = rname data) as Hnd by (destruct data; reflexivity).
    pose proof (Hnew (with_kids data []) (or_introl eq_refl)) as Hn0. rewrite Hnd in Hn0. apply has_false_iff in Hn0. rewrite Hn0.
    cbn [enc_kids map]. rewrite Hnd. rewrite <- node_shallow_enc. reflexivity.
  - apply (write_tree_spec data Hokd). exact Hnew.
Qed.

Theorem wf_after_a_foreign_node_under_an_emdpath c0 m root tp data p kt md tr :
  rcls m = CRoot -> rname root <> rname m -> ok_tree m -> rwalk m p = Some kt ->
  tp <> [] -> rwalk root tp = Some data -> ok_tree data ->
  (forall k, In k (placed data tr) -> ~ In (rname k) (keys (olinks (enc kt)))) ->
  Forall (fun s => s <> "" /\ no_slash s = true) (rname m :: p) ->
  plain_tree m ->
  Forall (fun k => plain (rname k) = true /\ rname k <> "metadatabundle" /\ rcls k <> CRoot /\ plain_tree k) (placed data tr) ->
  exists f, append_existing root tp (WA md tr (Some (join_slash (rname m :: p)))) md (whole_file c0 m) = Ok f /\ wf_emd c0 f = true.
Proof.
  intros Hc Hrn Hok Hw Htp Hwr Hokd Hnew Hnames Hpm Hpl.
  eexists. split; [apply (foreign_node_closed_form c0 m root tp data p kt md tr); assumption|].
  set (kt' := with_kids kt (rkids kt ++ placed data tr)).
  assert (rname kt' = rname kt /\ rcls kt' = rcls kt) as (Hn & Hcl) by (destruct kt; split; reflexivity).
  apply wf_whole_file.
  - rewrite (rcls_rsubst p m kt kt' Hw Hcl). exact Hc.
  - apply (plain_tree_rsubst p m kt kt' Hok Hpm Hw Hn Hcl).
    apply plain_tree_inv. assert (rkids kt' = rkids kt ++ placed data tr) as -> by (destruct kt; reflexivity).
    apply Forall_app. split; [|exact Hpl].
    assert (plain_tree kt) as Hpk.
    { destruct p as [|x q]; [injection Hw as <-; exact Hpm|]. destruct (plain_tree_walk m Hpm (x :: q) kt ltac:(discriminate) Hw) as (_ & _ & _ & D). exact D. }
    apply plain_tree_inv. exact Hpk.
Qed.

(* ---------- append-over of an inner node ALONE (tree = False): replaced in its parent, all its file children kept, none added *)
Lemma set_get_same {A} (l : list (string * A)) k v : get l k = Some v -> set l k v = l.
Proof.
  induction l as [|[k' v'] r IH]; intros H; [discriminate|]. cbn [get set] in *.
  destruct (String.eqb k k') eqn:E; [injection H as <-; apply String.eqb_eq in E; subst; reflexivity|]. rewrite (IH H). reflexivity.
Qed.

Lemma overwrite_in_parent_shallow data g : overwrite_in_parent data g = overwrite_in_parent (with_kids data []) g.
Proof. destruct data; reflexivity. Qed.

Theorem inner_node_appendover_alone_closed_form c0 m root q x pk km data md :
  In md appendovermode ->
  rcls m = CRoot -> rname root = rname m -> rmds root = [] -> ok_tree m ->
  rwalk m q = Some pk -> rwalk m (q ++ [x]) = Some km ->
  rwalk root (q ++ [x]) = Some data -> rname data = x ->
  compat_ao (RN CNode "" 0%Z 0 [] [with_kids data []]) (shallow_links pk) (rkids pk) ->
  append_existing root (q ++ [x]) (WA md (Some false) None) md (whole_file c0 m)
  = Ok (whole_file c0 (rsubst q m (with_kids pk (aom (RN CNode "" 0%Z 0 [] [with_kids data []]) (rkids pk))))).
Proof.
  intros Hmd Hc Hname Hmds Hok Hwp Hwm Hwr Hdn Hcompat.
  assert (mem md appendovermode = true) as Hao by (destruct Hmd as [<-|[<-|[<-|[<-|[<-|[]]]]]]; reflexivity).
  set (d0 := with_kids data []). assert (rname d0 = x) as Hd0 by (unfold d0; destruct data; exact Hdn).
  set (pk' := with_kids pk (aom (RN CNode "" 0%Z 0 [] [d0]) (rkids pk))).
  assert (rname pk' = rname pk) as Hn' by (destruct pk; reflexivity).
  pose proof (ao_union (RN CNode "" 0%Z 0 [] [d0]) (node_tags pk) (shallow_links pk) (rkids pk) Hcompat) as Hstep.
  rewrite <- (enc_eq pk) in Hstep. cbn [append_branch rkids fold_left bind] in Hstep.
  assert (km_in : rget (rkids pk) x = Some km).
  { clear -Hwp Hwm. revert m Hwp Hwm. induction q as [|y q' IH]; intros m Hwp Hwm.
    - injection Hwp as <-. cbn [app rwalk] in Hwm. destruct (rget (rkids m) x); [injection Hwm as <-; reflexivity|discriminate].
    - cbn [app rwalk] in *. destruct (rget (rkids m) y) as [kid|]; [|discriminate]. apply (IH kid Hwp Hwm). }
  assert (mem (rname d0) (map fst (filter (fun kv => is_group (snd kv) && has_gtype (snd kv)) (olinks (enc pk)))) = true) as Hmem.
  { rewrite Hd0. apply mem_In. apply in_map_iff. exists (x, enc km). split; [reflexivity|]. apply filter_In. split; [|apply enc_has_gtype].
    rewrite enc_links'. apply in_or_app. right. apply get_In. apply get_enc_kids_some. exact km_in. }
  rewrite Hmem in Hstep.
  assert (G (node_tags pk) (shallow_links pk ++ enc_kids (aom (RN CNode "" 0%Z 0 [] [d0]) (rkids pk))) = enc pk') as Epk'.
  { rewrite (enc_eq pk'). unfold pk'. destruct pk; reflexivity. }
  rewrite Epk' in Hstep.
  (* the merge below a childless node is the identity: the replace step alone already gives enc pk' *)
  assert (overwrite_in_parent data (enc pk) = Ok (enc pk')) as Hrep.
  { rewrite overwrite_in_parent_shallow. fold d0.
    destruct (overwrite_in_parent d0 (enc pk)) as [g1|e] eqn:E1; [|discriminate]. cbn [bind] in Hstep.
    assert (append_branch true d0 = fun g => Ok g) as Hid by (unfold d0; destruct data; reflexivity).
    rewrite Hid in Hstep. unfold in_child in Hstep. cbn [update_at] in Hstep.
    destruct g1 as [a1 l1|]; [|discriminate]. destruct (get l1 (rname d0)) as [c1|] eqn:Eg; [|discriminate].
    cbn [update_at bind] in Hstep. rewrite (set_get_same l1 (rname d0) c1 Eg) in Hstep. exact Hstep. }
  assert (update_at (whole_file c0 m) (rname m :: q) (overwrite_in_parent data) = Ok (whole_file c0 (rsubst q m pk'))) as Hu.
  { unfold whole_file. cbn [update_at]. rewrite get_first.
    rewrite (update_at_enc _ q m pk pk' Hok Hwp Hn' Hrep). cbn [bind set]. rewrite String.eqb_refl.
    rewrite (rname_rsubst q m pk pk' Hwp Hn'). reflexivity. }
  assert (q ++ [x] <> []) as Hne by (destruct q; discriminate).
  rewrite (inner_save_shape c0 m root (q ++ [x]) km data md (Some false) Hc Hname Hmds Hok Hne Hwm Hwr). rewrite Hao.
  unfold ow_and_branch, overwrite_at. rewrite Hdn.
  destruct (init_last q x) as (Hinit & Hlast).
  assert (last_name (rname m :: q ++ [x]) = x) as ->.
  { unfold last_name. change (rname m :: q ++ [x]) with ((rname m :: q) ++ [x]). apply last_last. }
  rewrite String.eqb_refl, path_eqb_refl. cbn [andb]. assert (exists y q0, q ++ [x] = y :: q0) as (y & q0 & Eq) by (destruct q; cbn; eauto). rewrite Eq at 1. rewrite Hinit.
  rewrite Hu. reflexivity.
Qed.

Theorem wf_after_inner_node_appendover_alone c0 m root q x pk km data md :
  In md appendovermode ->
  rcls m = CRoot -> rname root = rname m -> rmds root = [] -> ok_tree m ->
  rwalk m q = Some pk -> rwalk m (q ++ [x]) = Some km ->
  rwalk root (q ++ [x]) = Some data -> rname data = x ->
  compat_ao (RN CNode "" 0%Z 0 [] [with_kids data []]) (shallow_links pk) (rkids pk) ->
  plain_tree m -> plain (rname data) = true -> rname data <> "metadatabundle" -> rcls data <> CRoot ->
  exists f, append_existing root (q ++ [x]) (WA md (Some false) None) md (whole_file c0 m) = Ok f /\ wf_emd c0 f = true.
Proof.
  intros Hmd Hc Hname Hmds Hok Hwp Hwm Hwr Hdn Hcompat Hpm Hd1 Hd2 Hd3.
  eexists. split; [apply (inner_node_appendover_alone_closed_form c0 m root q x pk km data md); assumption|].
  set (pk' := with_kids pk (aom (RN CNode "" 0%Z 0 [] [with_kids data []]) (rkids pk))).
  assert (rname pk' = rname pk /\ rcls pk' = rcls pk) as (Hn' & Hc') by (destruct pk; split; reflexivity).
  apply wf_whole_file.
  - rewrite (rcls_rsubst q m pk pk' Hwp Hc'). exact Hc.
  - apply (plain_tree_rsubst q m pk pk' Hok Hpm Hwp Hn' Hc').
    apply plain_tree_inv. assert (rkids pk' = aom (RN CNode "" 0%Z 0 [] [with_kids data []]) (rkids pk)) as -> by (destruct pk; reflexivity).
    apply plain_aom.
    + assert (plain_tree pk) as Hpk.
      { destruct q as [|y q']; [injection Hwp as <-; exact Hpm|]. destruct (plain_tree_walk m Hpm (y :: q') pk ltac:(discriminate) Hwp) as (_ & _ & _ & D). exact D. }
      apply plain_tree_inv. exact Hpk.
    + apply plain_tree_inv. cbn [rkids]. constructor; [|constructor].
      assert (rname (with_kids data []) = rname data /\ rcls (with_kids data []) = rcls data) as (-> & ->) by (destruct data; split; reflexivity).
      repeat (split; [assumption|]). apply plain_tree_inv. destruct data; constructor.
Qed.
