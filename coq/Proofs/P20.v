(* C20: the generated version comparison is lexicographic >= on triples of integers. *)
From Coq Require Import ZArith Bool Lia ZifyBool.
From Emd Require Import Base.Prelude Generated.Version Generated.Tables.
Open Scope Z_scope.

Definition lex_geq (c m : Z * Z * Z) : bool :=
  let '(a, b, r) := c in let '(x, y, z) := m in
  (a >? x) || ((a =? x) && ((b >? y) || ((b =? y) && (r >=? z)))).

(* Python truthiness of the helper's result: None (fell off the end) is falsy *)
Definition truthy (o : option bool) : bool := match o with Some true => true | _ => false end.

(* independent reading of lex_geq as the usual lexicographic order *)
Lemma lex_geq_spec a b r x y z :
  lex_geq (a, b, r) (x, y, z) = true <->
  (a > x \/ (a = x /\ (b > y \/ (b = y /\ r >= z)))).
Proof. unfold lex_geq. lia. Qed.

Ltac split_ifs :=
  repeat match goal with
  | |- context [if ?b then _ else _] => destruct b eqn:?
  end.

Lemma version_geq_lex : forall c m, truthy (version_is_geq c m) = lex_geq c m.
Proof.
  intros [[a b] r] [[x y] z]. unfold version_is_geq, lex_geq, nth3.
  cbn [Z.eqb Pos.eqb]. split_ifs; cbn [oseq truthy]; lia.
Qed.

(* The version emdfile reports for a header: major, minor, optional release (default 0),
   as in _get_EMD_version; on the header the package writes. *)
Definition hint (k : string) (h : list (string * hval)) : option Z :=
  match get h k with Some (HInt z) => Some z | _ => None end.
Definition written_version : option (Z * Z * Z) :=
  match hint "version_major" header_written, hint "version_minor" header_written with
  | Some a, Some b =>
      Some (a, b, match get header_written "version_release" with
                  | Some (HInt r) => r | Some _ => (-1) | None => 0 end)
  | _, _ => None
  end.

Lemma written_version_ok :
  exists v, written_version = Some v /\ truthy (version_is_geq v (1, 0, 0)) = true.
Proof. eexists. split; [vm_compute; reflexivity|]. vm_compute. reflexivity. Qed.

(* non-vacuity / sanity: a few concrete evaluations *)
Example geq_ex1 : truthy (version_is_geq (1, 0, 150) (1, 1, 0)) = false. Proof. reflexivity. Qed.
Example geq_ex2 : truthy (version_is_geq (0, 0, 100) (0, 1, 0)) = false. Proof. reflexivity. Qed.
Example geq_ex3 : truthy (version_is_geq (2, 0, 0) (1, 9, 9)) = true. Proof. reflexivity. Qed.
