(* C10: lists mixing roots, unrooted items and rooted nodes of several roots.  The rooted items are appended one by one,
   each alone, as the last child of the tree named like its root; locality (PLocal) lifts the one-tree step to a forest. *)
From Coq Require Import Permutation.
From Emd Require Import Base.Prelude Model.H5 Model.Emd Model.Reader Generated.Tables
     Proofs.PTree Proofs.P05 Proofs.P08 Proofs.PRead Proofs.PUnion Proofs.PMulti Proofs.PLocal Model.EmdList.

Lemma set_tree_links pre T post T' : rname T' = rname T -> ~ In (rname T) (map rname pre) ->
  set (tree_links (pre ++ T :: post)) (rname T) (enc T') = tree_links (pre ++ T' :: post).
Proof.
  intros Hn Hpre. induction pre as [|p q IH]; cbn [app tree_links map set].
  - rewrite String.eqb_refl. rewrite Hn. reflexivity.
  - destruct (String.eqb (rname T) (rname p)) eqn:E; [apply String.eqb_eq in E; exfalso; apply Hpre; left; symmetry; exact E|].
    f_equal. apply IH. intros H. apply Hpre. right. exact H.
Qed.

Lemma mem_rootgroups_forest c ts T : Forall (fun t => rcls t = CRoot) ts -> In T ts -> mem (rname T) (rootgroups (forest_file c ts)) = true.
Proof.
  intros Hr Hin. apply mem_In. apply (Permutation_in _ (Permutation_sym (rootgroups_forest_perm c ts Hr))). apply in_map. exact Hin.
Qed.

(* a save aimed at the tree T of a forest does to the forest what it does to the one-tree file *)
Lemma write_node_in_forest c c0 pre T post T' r tp a m :
  run_prelude prelude_order (mode a) (emdpath a) true = Ok m -> mem m overwritemode = false -> mem m writemode = false ->
  rname r = rname T -> rname T' = rname T -> ~ In (rname T) (map rname pre) ->
  Forall (fun t => rcls t = CRoot) (pre ++ T :: post) ->
  write_node c (H5 (forest_file c0 [T])) r tp a = (Ok tt, H5 (forest_file c0 [T'])) ->
  write_node c (H5 (forest_file c0 (pre ++ T :: post))) r tp a = (Ok tt, H5 (forest_file c0 (pre ++ T' :: post))).
Proof.
  intros Hp Hov Hwm Hrn Hn Hpre Hr. unfold write_node. cbn [slot_exists]. rewrite Hp, Hov, Hwm. cbn [orb slot_exists negb]. rewrite andb_false_r.
  assert (rcls T = CRoot) as HcT by (rewrite Forall_forall in Hr; apply Hr; apply in_or_app; right; left; reflexivity).
  rewrite (forest_is_emd c0 [T]) by (try discriminate; repeat constructor; exact HcT).
  rewrite (forest_is_emd c0 (pre ++ T :: post)) by (try exact Hr; destruct pre; discriminate).
  intros H1.
  assert (append_existing r tp a m (forest_file c0 [T]) = Ok (forest_file c0 [T'])) as Hs.
  { destruct (append_existing r tp a m (forest_file c0 [T])) as [f'|e]; [|discriminate]. injection H1 as ->. reflexivity. }
  pose proof (append_depends_on_its_tree_alone (header c0) (tree_links (pre ++ T :: post)) (rname T) (enc T) r tp a m Hrn) as Hloc.
  rewrite (set_tree_links pre T post T eq_refl Hpre) in Hloc.
  change (G (header c0) [(rname T, enc T)]) with (forest_file c0 [T]) in Hloc.
  change (G (header c0) (tree_links (pre ++ T :: post))) with (forest_file c0 (pre ++ T :: post)) in Hloc.
  rewrite Hloc.
  - rewrite Hs. unfold forest_file at 1. cbn [olinks tree_links map]. rewrite Hn. rewrite get_first.
    rewrite (set_tree_links pre T post T' Hn Hpre). reflexivity.
  - apply (mem_rootgroups_forest c0 [T] T); [repeat constructor; exact HcT|left; reflexivity].
  - apply (mem_rootgroups_forest c0 (pre ++ T :: post) T Hr). apply in_or_app. right. left. reflexivity.
Qed.

Definition add_item (tops : list rnode) (ts : list rnode) (it : nat * path) : list rnode :=
  let r := nth (fst it) tops dummy in
  map (fun T => if String.eqb (rname T) (rname r)
                then match rwalk r (snd it) with Some d => with_kids T (rkids T ++ [with_kids d []]) | None => T end
                else T) ts.

Definition item_ok (tops ts : list rnode) (it : nat * path) : Prop :=
  let r := nth (fst it) tops dummy in
  rcls r = CRoot /\ rname r <> "" /\ no_slash (rname r) = true /\ NoDup (keys (rmds r)) /\
  exists x data kids, snd it = [x] /\ rwalk r [x] = Some data /\ rname data = x /\ x <> "metadatabundle" /\
    In (RN CRoot (rname r) 0%Z 0 (rmds r) kids) ts /\ ~ In x (map rname kids) /\ (forall k, In k kids -> rname k <> "metadatabundle").

Lemma map_same {A} (f : A -> A) l : (forall a, In a l -> f a = a) -> map f l = l.
Proof. induction l as [|x r IH]; intros H; [reflexivity|]. cbn [map]. rewrite (H x (or_introl eq_refl)), IH; [reflexivity|]. intros a Ha. apply H. right. exact Ha. Qed.

Lemma add_item_names tops ts it : map rname (add_item tops ts it) = map rname ts.
Proof.
  unfold add_item. rewrite map_map. apply map_ext. intros T. destruct (String.eqb (rname T) (rname (nth (fst it) tops dummy))); [|reflexivity].
  destruct (rwalk (nth (fst it) tops dummy) (snd it)); [|reflexivity]. destruct T; reflexivity.
Qed.
Lemma add_item_cls tops ts it : Forall (fun t => rcls t = CRoot) ts -> Forall (fun t => rcls t = CRoot) (add_item tops ts it).
Proof.
  intros H. unfold add_item. apply Forall_forall. intros T' HT'. apply in_map_iff in HT'. destruct HT' as (T & <- & HT).
  rewrite Forall_forall in H. specialize (H T HT). destruct (String.eqb (rname T) (rname (nth (fst it) tops dummy))); [|exact H].
  destruct (rwalk (nth (fst it) tops dummy) (snd it)); [|exact H]. destruct T; exact H.
Qed.

Lemma rooted_phase c tops : forall its ts,
  NoDup (map rname ts) -> Forall (fun t => rcls t = CRoot) ts ->
  (forall it, In it its -> item_ok tops ts it) ->
  (forall a b, In a its -> In b its -> rname (nth (fst a) tops dummy) = rname (nth (fst b) tops dummy) -> fst a = fst b) ->
  NoDup (map (fun it => (rname (nth (fst it) tops dummy), snd it)) its) ->
  sequence c (H5 (forest_file c ts))
    (map (fun it => (nth (fst it) tops dummy, snd it, WA "ao" (Some false) (Some (rname (nth (fst it) tops dummy))))) its)
  = (Ok tt, H5 (forest_file c (fold_left (add_item tops) its ts))).
Proof.
  induction its as [|it q IH]; intros ts Hnd Hr Hok Hsame Hpairs; [reflexivity|].
  destruct (Hok it (or_introl eq_refl)) as (Hc & Hne & Hns & Hndm & x & data & kids & Hsnd & Hw & Hdn & Hxb & HT & Hx & Hkb).
  set (r := nth (fst it) tops dummy) in *.
  set (T := RN CRoot (rname r) 0%Z 0 (rmds r) kids) in *.
  set (T' := RN CRoot (rname r) 0%Z 0 (rmds r) (kids ++ [with_kids data []])).
  destruct (in_split T ts HT) as (pre & post & Ets).
  assert (~ In (rname T) (map rname pre) /\ ~ In (rname T) (map rname post)) as (Hpre & Hpost).
  { rewrite Ets, map_app in Hnd. cbn [map] in Hnd. apply NoDup_remove_2 in Hnd. split; intros H; apply Hnd; apply in_or_app; [left|right]; exact H. }
  assert (add_item tops ts it = pre ++ T' :: post) as Eadd.
  { unfold add_item. fold r. rewrite Ets, map_app. cbn [map]. rewrite Hsnd, Hw. change (rname T) with (rname r). rewrite String.eqb_refl. f_equal; [|f_equal].
    - apply map_same. intros a Ha. destruct (String.eqb (rname a) (rname r)) eqn:E; [|reflexivity]. apply String.eqb_eq in E. exfalso. apply Hpre. change (rname T) with (rname r). rewrite <- E. apply in_map. exact Ha.
    - apply map_same. intros a Ha. destruct (String.eqb (rname a) (rname r)) eqn:E; [|reflexivity]. apply String.eqb_eq in E. exfalso. apply Hpost. change (rname T) with (rname r). rewrite <- E. apply in_map. exact Ha. }
  cbn [map fold_left].
  rewrite (sequence_ok_cons c _ _ _ (H5 (forest_file c (pre ++ T' :: post)))).
  - rewrite Eadd. rewrite <- Eadd. apply IH.
    + rewrite add_item_names. exact Hnd.
    + apply add_item_cls. exact Hr.
    + intros it2 Hit2. destruct (Hok it2 (or_intror Hit2)) as (Hc2 & Hne2 & Hns2 & Hndm2 & y & data2 & kids2 & Hsnd2 & Hw2 & Hdn2 & Hyb & HT2 & Hy & Hkb2).
      repeat (split; [assumption|]).
      rewrite Eadd. rewrite Ets in HT2. apply in_app_or in HT2. destruct HT2 as [HT2|[HT2|HT2]].
      * exists y, data2, kids2. repeat (split; [assumption|]). split; [apply in_or_app; left; exact HT2|split; assumption].
      * (* the same tree: the same root, one more child *)
        assert (rname r = rname (nth (fst it2) tops dummy)) as Hrn by (unfold T in HT2; injection HT2 as E1 _ _; exact E1).
        assert (fst it = fst it2) as Hidx by (apply Hsame; [left; reflexivity|right; exact Hit2|exact Hrn]).
        assert (kids2 = kids) as -> by (unfold T in HT2; injection HT2 as _ _ E3; symmetry; exact E3).
        exists y, data2, (kids ++ [with_kids data []]). repeat (split; [assumption|]). split; [|split].
        -- apply in_or_app. right. left. unfold T', r. rewrite Hidx. reflexivity.
        -- rewrite map_app. cbn [map]. intros H. apply in_app_or in H. destruct H as [H|[H|[]]]; [exact (Hy H)|].
           assert (rname (with_kids data []) = x) as Ex by (destruct data; exact Hdn). rewrite Ex in H.
           cbn [map] in Hpairs. apply NoDup_cons_iff in Hpairs. destruct Hpairs as (Hnot & _). apply Hnot.
           apply in_map_iff. exists it2. split; [|exact Hit2]. fold r. rewrite <- Hrn, Hsnd2, Hsnd, H. reflexivity.
        -- intros k0 Hk0. apply in_app_or in Hk0. destruct Hk0 as [Hk0|[<-|[]]]; [apply Hkb; exact Hk0|].
           assert (rname (with_kids data []) = x) as -> by (destruct data; exact Hdn). exact Hxb.
      * exists y, data2, kids2. repeat (split; [assumption|]). split; [apply in_or_app; right; right; exact HT2|split; assumption].
    + intros a b Ha Hb. apply Hsame; right; assumption.
    + cbn [map] in Hpairs. apply NoDup_cons_iff in Hpairs. apply Hpairs.
  - rewrite Ets. fold r. rewrite Hsnd.
    apply (write_node_in_forest c c pre T post T' r [x] (WA "ao" (Some false) (Some (rname r))) "ao").
    + vm_compute. reflexivity.
    + reflexivity.
    + reflexivity.
    + reflexivity.
    + reflexivity.
    + exact Hpre.
    + rewrite <- Ets. exact Hr.
    + apply rooted_item_step; try assumption. intros _. exact Hxb.
Qed.

(* ---------- the whole list save *)
Definition list_rooted (items : list litem) : list (nat * path) :=
  flat_map (fun it => match it with LTop i (x :: q) => [(i, x :: q)] | _ => [] end) items.
Definition copy_step (tops : list rnode) (acc : list rnode) (it : nat * path) : list rnode :=
  let r := nth (fst it) tops dummy in
  if mem (rname r) (map rname acc) then acc else acc ++ [RN CRoot (rname r) 0%Z 0 (rmds r) []].
Definition list_copies (tops : list rnode) (items : list litem) : list rnode := fold_left (copy_step tops) (list_rooted items) [].
Definition list_conflict (tops : list rnode) (items : list litem) : bool :=
  let idx := map fst (list_rooted items) in
  existsb (fun i => existsb (fun j => negb (Nat.eqb i j) && String.eqb (rname (nth i tops dummy)) (rname (nth j tops dummy))) idx) idx.

Lemma sequence_app c s l1 l2 s1 : sequence c s l1 = (Ok tt, s1) -> sequence c s (l1 ++ l2) = sequence c s1 l2.
Proof. unfold sequence. intros H. rewrite fold_left_app, H. reflexivity. Qed.

Lemma sequence_fresh_forest c m1 trees : In m1 (appendmode ++ appendovermode) -> trees <> [] ->
  Forall (fun t => rcls t = CRoot) trees -> Forall ok_tree trees -> NoDup (map rname trees) ->
  sequence c Absent (map (fun r => (r, @nil string, WA m1 (Some true) None)) trees) = (Ok tt, H5 (forest_file c trees)).
Proof.
  intros Hm1 Hne Hr Hok Hnd. destruct trees as [|t0 rest]; [congruence|]. cbn [map].
  inversion Hr as [|? ? Hc0 Hrr]; subst. inversion Hok as [|? ? Hok0 Hokr]; subst.
  rewrite (sequence_ok_cons c _ _ _ (H5 (forest_file c [t0]))); [|apply first_tree_fresh; assumption].
  change (t0 :: rest) with ([t0] ++ rest). apply sequence_new_trees; [exact Hm1|discriminate|cbn [app]; constructor; assumption|exact Hokr|exact Hnd].
Qed.

Lemma copies_spec tops : forall its acc,
  (forall T, In T acc -> In T (fold_left (copy_step tops) its acc)) /\
  (forall it, In it its -> exists T, In T (fold_left (copy_step tops) its acc) /\ rname T = rname (nth (fst it) tops dummy) /\
     (In T acc \/ exists it0, In it0 its /\ T = RN CRoot (rname (nth (fst it0) tops dummy)) 0%Z 0 (rmds (nth (fst it0) tops dummy)) [])).
Proof.
  induction its as [|it q IH]; intros acc; [split; [auto|intros it []]|].
  cbn [fold_left]. destruct (IH (copy_step tops acc it)) as (Hkeep & Hnew).
  assert (forall T, In T acc -> In T (copy_step tops acc it)) as Hacc.
  { intros T HT. unfold copy_step. destruct (mem _ _); [exact HT|apply in_or_app; left; exact HT]. }
  split; [intros T HT; apply Hkeep; apply Hacc; exact HT|].
  intros it1 [<-|Hit1].
  -  destruct (mem (rname (nth (fst it) tops dummy)) (map rname acc)) eqn:E.
    + apply mem_In in E. apply in_map_iff in E. destruct E as (T & En & HT). exists T. split; [apply Hkeep; apply Hacc; exact HT|]. split; [exact En|left; exact HT].
    + exists (RN CRoot (rname (nth (fst it) tops dummy)) 0%Z 0 (rmds (nth (fst it) tops dummy)) []). split; [|split; [reflexivity|right; exists it; split; [left; reflexivity|reflexivity]]].
      apply Hkeep. unfold copy_step. rewrite E. apply in_or_app. right. left. reflexivity.
  - destruct (Hnew it1 Hit1) as (T & HT & En & Hor). exists T. split; [exact HT|split; [exact En|]].
    destruct Hor as [Hin|(it0 & Hit0 & ET)]; [|right; exists it0; split; [right; exact Hit0|exact ET]].
    unfold copy_step in Hin. destruct (mem (rname (nth (fst it) tops dummy)) (map rname acc)); [left; exact Hin|].
    apply in_app_or in Hin. destruct Hin as [Hin|[<-|[]]]; [left; exact Hin|]. right. exists it. split; [left; reflexivity|reflexivity].
Qed.

Lemma conflict_false (tops : list rnode) (idx : list nat) :
  existsb (fun i => existsb (fun j => negb (Nat.eqb i j) && String.eqb (rname (nth i tops dummy)) (rname (nth j tops dummy))) idx) idx = false ->
  forall i j, In i idx -> In j idx -> rname (nth i tops dummy) = rname (nth j tops dummy) -> i = j.
Proof.
  intros H i j Hi Hj En.
  assert (forall {A} (f : A -> bool) l, existsb f l = false -> forall a, In a l -> f a = false) as Hex.
  { intros A f l. induction l as [|x r IH]; intros Hf a Ha; [destruct Ha|]. cbn [existsb] in Hf. apply orb_false_iff in Hf. destruct Hf as (Hx & Hr0). destruct Ha as [<-|Ha]; [exact Hx|apply IH; assumption]. }
  pose proof (Hex _ _ _ (Hex _ _ _ H i Hi) j Hj) as Hij. cbv beta in Hij. rewrite En, String.eqb_refl, andb_true_r in Hij.
  apply negb_false_iff in Hij. apply Nat.eqb_eq in Hij. exact Hij.
Qed.

Theorem mixed_list_into_a_fresh_file c tops items md tr :
  nodup_nat (list_unrooted_idx tops items) = true -> list_conflict tops items = false -> In md allmodes ->
  let base := (list_saved tops items ++ list_given tops items) ++ list_copies tops items in
  base <> [] -> Forall (fun t => rcls t = CRoot) base -> Forall ok_tree base -> NoDup (map rname base) ->
  Forall (fun it => let r := nth (fst it) tops dummy in
            rcls r = CRoot /\ rname r <> "" /\ no_slash (rname r) = true /\ NoDup (keys (rmds r)) /\
            exists x data, snd it = [x] /\ rwalk r [x] = Some data /\ rname data = x /\ x <> "metadatabundle") (list_rooted items) ->
  NoDup (map (fun it => (rname (nth (fst it) tops dummy), snd it)) (list_rooted items)) ->
  write_list c Absent tops items (WA md tr None) = (Ok tt, H5 (forest_file c (fold_left (add_item tops) (list_rooted items) base))).
Proof.
  intros Hidx Hconf Hmd base Hne Hr Hok Hnd Hitems Hpairs. unfold write_list. cbn [mode emdpath slot_exists].
  assert (run_prelude prelude_order md None false = Ok md) as ->.
  { unfold allmodes in Hmd. cbn [app] in Hmd. repeat (destruct Hmd as [<-|Hmd]; [vm_compute; reflexivity|]). destruct Hmd. }
  fold (list_given tops items). fold (list_unrooted tops items). fold (list_has_other items). fold (list_unrooted_idx tops items). fold (list_rooted items).
  rewrite Hidx. cbn [negb orb]. unfold list_conflict in Hconf. cbv zeta in Hconf.
  match goal with |- (if ?b then _ else _) = _ => replace b with false by (symmetry; exact Hconf) end.
  assert (exists m1, (if mem md writemode then ("a", Absent) else if mem md overwritemode then ("a", Absent) else (md, Absent)) = (m1, Absent) /\ In m1 (appendmode ++ appendovermode)) as (m1 & Em1 & Hm1).
  { unfold allmodes in Hmd. cbn [app] in Hmd. repeat (destruct Hmd as [<-|Hmd]; [eexists; split; [vm_compute; reflexivity|vm_compute; tauto]|]). destruct Hmd. }
  subst base. unfold list_saved in *.
  destruct (others items (map rname (list_unrooted tops items)) 0 0) as [arrs dicts] eqn:Eo. cbv zeta.
  set (sv := match list_unrooted tops items, list_has_other items with
             | [], false => [] | _, _ => [RN CRoot "root_savedlist" 0 0 dicts (fold_left rset (list_unrooted tops items ++ arrs) [])] end) in *.
  change (fold_left (fun (acc : list rnode) (it : nat * path) =>
            if mem (rname (nth (fst it) tops dummy)) (map rname acc) then acc
            else acc ++ [RN CRoot (rname (nth (fst it) tops dummy)) 0 0 (rmds (nth (fst it) tops dummy)) []]) (list_rooted items) [])
    with (list_copies tops items).
  rewrite Em1. rewrite app_assoc. rewrite <- map_app.
  set (base := (sv ++ list_given tops items) ++ list_copies tops items) in *.
  rewrite (sequence_app c Absent _ _ (H5 (forest_file c base))); [|apply sequence_fresh_forest; assumption].
  apply rooted_phase; try assumption.
  - intros it Hit. rewrite Forall_forall in Hitems. destruct (Hitems it Hit) as (Hc & Hn0 & Hns & Hndm & x & data & Hsnd & Hw & Hdn & Hxb).
    unfold item_ok. repeat (split; [assumption|]). exists x, data, []. repeat (split; [assumption|]). split; [|split; [intros []|intros k0 []]].
    destruct (proj2 (copies_spec tops (list_rooted items) []) it Hit) as (T & HT & En & [[]|(it0 & Hit0 & ET)]).
    assert (fst it0 = fst it) as E0.
    { apply (conflict_false tops _ Hconf); [apply in_map; exact Hit0|apply in_map; exact Hit|]. rewrite ET in En. exact En. }
    rewrite E0 in ET. subst T. apply in_or_app. right. exact HT.
  - intros a b Ha Hb. apply (conflict_false tops _ Hconf); apply in_map; assumption.
Qed.

(* ---------- the same list saved into a file that already holds other trees (append / append-over, any spelling) *)
Theorem mixed_list_into_an_existing_file c tops items md tr ts :
  In md (appendmode ++ appendovermode) -> ts <> [] -> Forall (fun t => rcls t = CRoot) ts ->
  nodup_nat (list_unrooted_idx tops items) = true -> list_conflict tops items = false ->
  let base := (list_saved tops items ++ list_given tops items) ++ list_copies tops items in
  Forall (fun t => rcls t = CRoot) base -> Forall ok_tree base -> NoDup (map rname (ts ++ base)) ->
  Forall (fun it => let r := nth (fst it) tops dummy in
            rcls r = CRoot /\ rname r <> "" /\ no_slash (rname r) = true /\ NoDup (keys (rmds r)) /\
            exists x data, snd it = [x] /\ rwalk r [x] = Some data /\ rname data = x /\ x <> "metadatabundle") (list_rooted items) ->
  NoDup (map (fun it => (rname (nth (fst it) tops dummy), snd it)) (list_rooted items)) ->
  write_list c (H5 (forest_file c ts)) tops items (WA md tr None)
  = (Ok tt, H5 (forest_file c (fold_left (add_item tops) (list_rooted items) (ts ++ base)))).
Proof.
  intros Hmd Hts Hrts Hidx Hconf base Hr Hok Hnd Hitems Hpairs. unfold write_list. cbn [mode emdpath slot_exists].
  assert (run_prelude prelude_order md None true = Ok md /\ mem md writemode = false /\ mem md overwritemode = false) as (-> & Hw & Ho).
  { cbn [app] in Hmd. repeat (destruct Hmd as [<-|Hmd]; [repeat split; vm_compute; reflexivity|]). destruct Hmd. }
  fold (list_given tops items). fold (list_unrooted tops items). fold (list_has_other items). fold (list_unrooted_idx tops items). fold (list_rooted items).
  rewrite Hidx. cbn [negb orb]. unfold list_conflict in Hconf. cbv zeta in Hconf.
  match goal with |- (if ?b then _ else _) = _ => replace b with false by (symmetry; exact Hconf) end.
  subst base. unfold list_saved in *.
  destruct (others items (map rname (list_unrooted tops items)) 0 0) as [arrs dicts] eqn:Eo. cbv zeta.
  set (sv := match list_unrooted tops items, list_has_other items with
             | [], false => [] | _, _ => [RN CRoot "root_savedlist" 0 0 dicts (fold_left rset (list_unrooted tops items ++ arrs) [])] end) in *.
  change (fold_left (fun (acc : list rnode) (it : nat * path) =>
            if mem (rname (nth (fst it) tops dummy)) (map rname acc) then acc
            else acc ++ [RN CRoot (rname (nth (fst it) tops dummy)) 0 0 (rmds (nth (fst it) tops dummy)) []]) (list_rooted items) [])
    with (list_copies tops items).
  rewrite Hw, Ho. rewrite app_assoc. rewrite <- map_app.
  set (base := (sv ++ list_given tops items) ++ list_copies tops items) in *.
  assert (Forall (fun t => rcls t = CRoot) (ts ++ base)) as Hrall by (apply Forall_app; split; assumption).
  rewrite (sequence_app c _ _ _ (H5 (forest_file c (ts ++ base)))); [|apply sequence_new_trees; assumption].
  apply rooted_phase; try assumption.
  - intros it Hit. rewrite Forall_forall in Hitems. destruct (Hitems it Hit) as (Hc & Hn0 & Hns & Hndm & x & data & Hsnd & Hw1 & Hdn & Hxb).
    unfold item_ok. repeat (split; [assumption|]). exists x, data, []. repeat (split; [assumption|]). split; [|split; [intros []|intros k0 []]].
    destruct (proj2 (copies_spec tops (list_rooted items) []) it Hit) as (T & HT & En & [[]|(it0 & Hit0 & ET)]).
    assert (fst it0 = fst it) as E0.
    { apply (conflict_false tops _ Hconf); [apply in_map; exact Hit0|apply in_map; exact Hit|]. rewrite ET in En. exact En. }
    rewrite E0 in ET. subst T. apply in_or_app. right. apply in_or_app. right. exact HT.
  - intros a b Ha Hb. apply (conflict_false tops _ Hconf); apply in_map; assumption.
Qed.

(* ---------- modifying one tree of a file of several: that tree becomes the union (append) / union + replace (append-over)
   of its old content and the runtime tree; every other tree, the order and the header stay *)
Lemma rname_union_root T root : rname (union_root T root) = rname T.
Proof. unfold union_root. rewrite rname_merge. destruct T; reflexivity. Qed.

Theorem append_into_a_tree_of_a_forest c c0 pre T post root md tr :
  In md appendmode -> tr <> Some false ->
  rname root = rname T -> ok_tree T -> compat T root ->
  (rmds T <> [] \/ rmds root = []) -> NoDup (keys (rmds root)) ->
  (forall k, In k (rkids T) -> rname k <> "metadatabundle") ->
  ~ In (rname T) (map rname pre) -> Forall (fun t => rcls t = CRoot) (pre ++ T :: post) ->
  write_node c (H5 (forest_file c0 (pre ++ T :: post))) root [] (WA md tr None)
  = (Ok tt, H5 (forest_file c0 (pre ++ union_root T root :: post))).
Proof.
  intros Hmd Htr Hname Hok Hcompat Hmdc Hndr Hres Hpre Hr.
  assert (rcls T = CRoot) as HcT by (rewrite Forall_forall in Hr; apply Hr; apply in_or_app; right; left; reflexivity).
  apply (write_node_in_forest c c0 pre T post (union_root T root) root [] (WA md tr None) md).
  - cbn [mode emdpath]. destruct Hmd as [<-|[<-|[<-|[]]]]; vm_compute; reflexivity.
  - destruct Hmd as [<-|[<-|[<-|[]]]]; reflexivity.
  - destruct Hmd as [<-|[<-|[<-|[]]]]; reflexivity.
  - exact Hname.
  - apply rname_union_root.
  - exact Hpre.
  - exact Hr.
  - rewrite !forest_file_one. apply append_save_is_union; assumption.
Qed.

From Emd Require Import Proofs.PUnionAO.
Theorem appendover_into_a_tree_of_a_forest c c0 pre T post root md tr :
  In md appendovermode -> tr <> Some false ->
  rname root = rname T -> rmds root = [] -> compat_ao root (shallow_links T) (rkids T) ->
  ~ In (rname T) (map rname pre) -> Forall (fun t => rcls t = CRoot) (pre ++ T :: post) ->
  write_node c (H5 (forest_file c0 (pre ++ T :: post))) root [] (WA md tr None)
  = (Ok tt, H5 (forest_file c0 (pre ++ with_kids T (aom root (rkids T)) :: post))).
Proof.
  intros Hmd Htr Hname Hmds Hcompat Hpre Hr.
  assert (rcls T = CRoot) as HcT by (rewrite Forall_forall in Hr; apply Hr; apply in_or_app; right; left; reflexivity).
  apply (write_node_in_forest c c0 pre T post (with_kids T (aom root (rkids T))) root [] (WA md tr None) md).
  - cbn [mode emdpath]. destruct Hmd as [<-|[<-|[<-|[<-|[<-|[]]]]]]; vm_compute; reflexivity.
  - destruct Hmd as [<-|[<-|[<-|[<-|[<-|[]]]]]]; reflexivity.
  - destruct Hmd as [<-|[<-|[<-|[<-|[<-|[]]]]]]; reflexivity.
  - exact Hname.
  - destruct T; reflexivity.
  - exact Hpre.
  - exact Hr.
  - rewrite !forest_file_one. apply appendover_save; assumption.
Qed.

(* ---------- any history of whole-tree saves into one file: new trees, appends and append-overs in any order *)
Inductive hstep := HNew (root : rnode) (md : string) (tr : option bool)
                 | HApp (root : rnode) (md : string) (tr : option bool)
                 | HAo (root : rnode) (md : string) (tr : option bool).
Definition hroot (s : hstep) := match s with HNew r _ _ | HApp r _ _ | HAo r _ _ => r end.
Definition hmode (s : hstep) := match s with HNew _ m _ | HApp _ m _ | HAo _ m _ => m end.
Definition htree (s : hstep) := match s with HNew _ _ t | HApp _ _ t | HAo _ _ t => t end.

Definition happly (ts : list rnode) (s : hstep) : list rnode :=
  match s with
  | HNew r _ _ => ts ++ [r]
  | HApp r _ _ => map (fun t => if String.eqb (rname t) (rname r) then union_root t r else t) ts
  | HAo r _ _ => map (fun t => if String.eqb (rname t) (rname r) then with_kids t (aom r (rkids t)) else t) ts
  end.

(* what each step needs of the file as it is when the step is taken *)
Definition hok (ts : list rnode) (s : hstep) : Prop :=
  htree s <> Some false /\
  match s with
  | HNew r md _ => In md (appendmode ++ appendovermode) /\ rcls r = CRoot /\ ok_tree r /\ ~ In (rname r) (map rname ts)
  | HApp r md _ => In md appendmode /\ exists T, In T ts /\ rname r = rname T /\ ok_tree T /\ compat T r /\
                     (rmds T <> [] \/ rmds r = []) /\ NoDup (keys (rmds r)) /\ (forall k, In k (rkids T) -> rname k <> "metadatabundle")
  | HAo r md _ => In md appendovermode /\ exists T, In T ts /\ rname r = rname T /\ rmds r = [] /\ compat_ao r (shallow_links T) (rkids T)
  end.

Fixpoint hgood (ts : list rnode) (steps : list hstep) : Prop :=
  match steps with [] => True | s :: rest => hok ts s /\ hgood (happly ts s) rest end.

Lemma map_replace_unique (f : rnode -> rnode) pre T post nm : rname T = nm ->
  ~ In nm (map rname pre) -> ~ In nm (map rname post) ->
  map (fun t => if String.eqb (rname t) nm then f t else t) (pre ++ T :: post) = pre ++ f T :: post.
Proof.
  intros HT Hpre Hpost. rewrite map_app. cbn [map]. rewrite HT, String.eqb_refl. f_equal; [|f_equal].
  - apply map_same. intros a Ha. destruct (String.eqb (rname a) nm) eqn:E; [|reflexivity]. apply String.eqb_eq in E. exfalso. apply Hpre. rewrite <- E. apply in_map. exact Ha.
  - apply map_same. intros a Ha. destruct (String.eqb (rname a) nm) eqn:E; [|reflexivity]. apply String.eqb_eq in E. exfalso. apply Hpost. rewrite <- E. apply in_map. exact Ha.
Qed.

Lemma split_unique ts T : NoDup (map rname ts) -> In T ts ->
  exists pre post, ts = pre ++ T :: post /\ ~ In (rname T) (map rname pre) /\ ~ In (rname T) (map rname post).
Proof.
  intros Hnd HT. destruct (in_split T ts HT) as (pre & post & E). exists pre, post. split; [exact E|].
  rewrite E, map_app in Hnd. cbn [map] in Hnd. apply NoDup_remove_2 in Hnd. split; intros H; apply Hnd; apply in_or_app; [left|right]; exact H.
Qed.

Lemma hstep_ok c c0 ts s :
  ts <> [] -> Forall (fun t => rcls t = CRoot) ts -> NoDup (map rname ts) -> hok ts s ->
  write_node c (H5 (forest_file c0 ts)) (hroot s) [] (WA (hmode s) (htree s) None) = (Ok tt, H5 (forest_file c0 (happly ts s))) /\
  happly ts s <> [] /\ Forall (fun t => rcls t = CRoot) (happly ts s) /\ NoDup (map rname (happly ts s)).
Proof.
  intros Hne Hr Hnd (Htr & Hs).
  destruct s as [r md tr|r md tr|r md tr]; cbn [hroot hmode htree happly] in *.
    - destruct Hs as (Hmd & Hc & Hok & Hnew). split; [apply save_new_tree; assumption|].
      split; [destruct ts; discriminate|]. split; [apply Forall_app; split; [exact Hr|repeat constructor; exact Hc]|].
      rewrite map_app. cbn [map]. apply NoDup_app_intro; [exact Hnd|repeat constructor; intros []|]. intros x Hx [<-|[]]. exact (Hnew Hx).
    - destruct Hs as (Hmd & T & HT & Hname & Hok & Hcompat & Hmdc & Hndr & Hres).
      destruct (split_unique ts T Hnd HT) as (pre & post & E & Hpre & Hpost).
      assert (map (fun t => if String.eqb (rname t) (rname r) then union_root t r else t) ts = pre ++ union_root T r :: post) as Emap.
      { rewrite E. apply (map_replace_unique (fun t => union_root t r) pre T post (rname r)); [symmetry; exact Hname|rewrite Hname; exact Hpre|rewrite Hname; exact Hpost]. }
      rewrite Emap. split; [rewrite E; apply append_into_a_tree_of_a_forest; try assumption; rewrite <- E; exact Hr|].
      split; [destruct pre; discriminate|]. split.
      + rewrite E in Hr. apply Forall_app in Hr. destruct Hr as (Hr1 & Hr2). inversion Hr2 as [|? ? HcT Hr3]; subst.
        apply Forall_app. split; [exact Hr1|]. constructor; [|exact Hr3]. unfold union_root. destruct T; exact HcT.
      + rewrite E in Hnd. rewrite map_app in *. cbn [map] in *. rewrite rname_union_root. exact Hnd.
    - destruct Hs as (Hmd & T & HT & Hname & Hmds & Hcompat).
      destruct (split_unique ts T Hnd HT) as (pre & post & E & Hpre & Hpost).
      assert (map (fun t => if String.eqb (rname t) (rname r) then with_kids t (aom r (rkids t)) else t) ts = pre ++ with_kids T (aom r (rkids T)) :: post) as Emap.
      { rewrite E. apply (map_replace_unique (fun t => with_kids t (aom r (rkids t))) pre T post (rname r)); [symmetry; exact Hname|rewrite Hname; exact Hpre|rewrite Hname; exact Hpost]. }
      rewrite Emap. split; [rewrite E; apply appendover_into_a_tree_of_a_forest; try assumption; rewrite <- E; exact Hr|].
      split; [destruct pre; discriminate|]. split.
      + rewrite E in Hr. apply Forall_app in Hr. destruct Hr as (Hr1 & Hr2). inversion Hr2 as [|? ? HcT Hr3]; subst.
        apply Forall_app. split; [exact Hr1|]. constructor; [|exact Hr3]. destruct T; exact HcT.
      + rewrite E in Hnd. rewrite map_app in *. cbn [map] in *. assert (rname (with_kids T (aom r (rkids T))) = rname T) as -> by (destruct T; reflexivity). exact Hnd.
Qed.

Theorem any_history_of_whole_tree_saves c c0 : forall steps ts,
  ts <> [] -> Forall (fun t => rcls t = CRoot) ts -> NoDup (map rname ts) -> hgood ts steps ->
  fold_left (fun s st => snd (write_node c s (hroot st) [] (WA (hmode st) (htree st) None))) steps (H5 (forest_file c0 ts))
  = H5 (forest_file c0 (fold_left happly steps ts)).
Proof.
  induction steps as [|s rest IH]; intros ts Hne Hr Hnd Hg; [reflexivity|].
  destruct Hg as (Hs & Hrest). cbn [fold_left].
  destruct (hstep_ok c c0 ts s Hne Hr Hnd Hs) as (Hw & Hne' & Hr' & Hnd').
  rewrite Hw. cbn [snd]. apply IH; assumption.
Qed.

(* the same history issued as one sequence of calls (a list argument): every call succeeds *)
Theorem sequence_of_whole_tree_saves c : forall steps ts,
  ts <> [] -> Forall (fun t => rcls t = CRoot) ts -> NoDup (map rname ts) -> hgood ts steps ->
  sequence c (H5 (forest_file c ts)) (map (fun st => (hroot st, @nil string, WA (hmode st) (htree st) None)) steps)
  = (Ok tt, H5 (forest_file c (fold_left happly steps ts))).
Proof.
  induction steps as [|s rest IH]; intros ts Hne Hr Hnd Hg; [reflexivity|].
  destruct Hg as (Hs & Hrest). cbn [map fold_left].
  destruct (hstep_ok c c ts s Hne Hr Hnd Hs) as (Hw & Hne' & Hr' & Hnd').
  rewrite (sequence_ok_cons c _ _ _ (H5 (forest_file c (happly ts s)))); [|exact Hw]. apply IH; assumption.
Qed.

(* a list of roots and unrooted items appended to a file that may already hold some of those roots: each listed tree is a new
   tree, an append or an append-over according to what the file holds when its turn comes *)
Theorem list_of_trees_into_an_existing_file c tops items md tr ts steps :
  In md (appendmode ++ appendovermode) -> no_rooted_items items -> nodup_nat (list_unrooted_idx tops items) = true ->
  map hroot steps = list_saved tops items ++ list_given tops items ->
  Forall (fun st => hmode st = md /\ htree st = Some true) steps ->
  ts <> [] -> Forall (fun t => rcls t = CRoot) ts -> NoDup (map rname ts) -> hgood ts steps ->
  write_list c (H5 (forest_file c ts)) tops items (WA md tr None) = (Ok tt, H5 (forest_file c (fold_left happly steps ts))).
Proof.
  intros Hmd Hnr Hidx Hroots Hsteps Hne Hr Hnd Hg. unfold write_list. cbn [mode emdpath slot_exists].
  assert (run_prelude prelude_order md None true = Ok md /\ mem md writemode = false /\ mem md overwritemode = false) as (-> & Hw & Ho).
  { cbn [app] in Hmd. repeat (destruct Hmd as [<-|Hmd]; [repeat split; vm_compute; reflexivity|]). destruct Hmd. }
  rewrite (no_rooted_flat items Hnr). cbn [fold_left map app existsb].
  fold (list_given tops items). fold (list_unrooted tops items). fold (list_has_other items). fold (list_unrooted_idx tops items).
  rewrite Hidx. cbn [negb orb].
  unfold list_saved in Hroots.
  destruct (others items (map rname (list_unrooted tops items)) 0 0) as [arrs dicts] eqn:Eo. cbv zeta in Hroots |- *.
  rewrite Hw, Ho. rewrite app_nil_r. rewrite <- Hroots. rewrite map_map.
  rewrite <- (sequence_of_whole_tree_saves c steps ts Hne Hr Hnd Hg). f_equal.
  apply map_ext_in. intros st Hst. rewrite Forall_forall in Hsteps. destruct (Hsteps st Hst) as (-> & ->). reflexivity.
Qed.
