(* C18: a failing append-over step restores the parent group exactly, for every fault point;
   append mode only ever extends what is there. *)
From Emd Require Import Base.Prelude Model.H5 Model.Emd Model.Fault Proofs.PTree.

Lemma append_length a b : String.length (a +++ b) = String.length a + String.length b.
Proof. induction a as [|c r IH]; cbn; [reflexivity|]. rewrite IH. reflexivity. Qed.
Lemma tmpname_neq n : n <> tmpname n.
Proof. intros H. apply (f_equal String.length) in H. unfold tmpname in H. rewrite append_length in H. cbn in H. lia. Qed.

Lemma rename_back {A} (l : list (string * A)) a b : NoDup (keys l) -> ~ In b (keys l) -> rename (rename l a b) b a = l.
Proof.
  intros Hnd Hb. induction l as [|[k v] l IH]; [reflexivity|]. cbn [rename keys map fst] in *. apply NoDup_cons_iff in Hnd. destruct Hnd as (Hk & Hnd).
  destruct (String.eqb k a) eqn:E.
  - cbn [rename]. apply String.eqb_eq in E; subst. rewrite String.eqb_refl. reflexivity.
  - cbn [rename]. destruct (String.eqb k b) eqn:E2.
    + apply String.eqb_eq in E2; subst. exfalso. apply Hb. left. reflexivity.
    + f_equal. apply IH; [assumption|]. intro Hc. apply Hb. right. exact Hc.
Qed.
Lemma del_app_last {A} (l : list (string * A)) n v : ~ In n (keys l) -> del (l ++ [(n, v)]) n = l.
Proof.
  intros Hn. induction l as [|[k x] l IH]; cbn in *; [rewrite String.eqb_refl; reflexivity|].
  destruct (String.eqb n k) eqn:E; [apply String.eqb_eq in E; subst; tauto|]. f_equal. apply IH. tauto.
Qed.
Lemma del_set_app_last {A} (l : list (string * A)) n v w : ~ In n (keys l) -> del (set (l ++ [(n, v)]) n w) n = l.
Proof. intros Hn. rewrite set_app_last by (apply get_none_notin; exact Hn). apply del_app_last. exact Hn. Qed.
Lemma keys_rename_notin {A} (l : list (string * A)) a b : NoDup (keys l) -> a <> b -> ~ In b (keys l) -> ~ In a (keys (rename l a b)).
Proof.
  intros Hnd Hab Hb. induction l as [|[k v] l IH]; [intros []|]. cbn [rename keys map fst] in *. apply NoDup_cons_iff in Hnd. destruct Hnd as (Hk & Hnd).
  destruct (String.eqb k a) eqn:E; cbn [keys map fst].
  - apply String.eqb_eq in E; subst. intros [H|H]; [apply Hab; symmetry; exact H|apply Hk; exact H].
  - assert (k <> a) by (intro; subst; rewrite String.eqb_refl in E; discriminate).
    intros [H0|H0]; [congruence|]. revert H0. apply IH; [exact Hnd|]. intros Hc. apply Hb. right. exact Hc.
Qed.

(* the state after the relinking loop: only the new node's group was touched *)
Lemma in_child_b_shape name w a l b g' b' ok : in_child_b name w (G a l) b = (g', b', ok) ->
  (exists c c', get l name = Some c /\ g' = G a (set l name c')) \/ g' = G a l.
Proof.
  unfold in_child_b. destruct (get l name) as [c|] eqn:E; [|intros H; injection H as <- _ _; auto].
  destruct (w c b) as [[c' b1] ok1]. intros H; injection H as <- _ _. left. eauto.
Qed.

(* C18 core: whatever the fault point, a failing replace leaves the parent group exactly as it was *)
Theorem overwrite_fail_restores n a l b p' b' :
  NoDup (keys l) -> ~ In (tmpname (rname n)) (keys l) ->
  overwrite_b n (G a l) b = (p', b', false) -> p' = G a l.
Proof.
  intros Hnd Htmp. unfold overwrite_b. cbn [olinks]. set (name := rname n) in *.
  destruct (get l name) as [old|] eqn:Eg; [|intros H; injection H; auto].
  assert (In name (keys l)) as Hin by (eapply get_in_keys; exact Eg).
  destruct (tick b) as [b1|]; [|intros H; injection H; auto].
  unfold move_link. unfold has. rewrite Eg.
  assert (get l (tmpname name) = None) as Etmp by (apply get_none_notin; exact Htmp). rewrite Etmp.
  assert (Hback : rename (rename l name (tmpname name)) (tmpname name) name = l) by (apply rename_back; assumption).
  assert (Hnotin : ~ In name (keys (rename l name (tmpname name)))) by (apply keys_rename_notin; [assumption|apply tmpname_neq|assumption]).
  destruct (tick b1) as [b2|]; [|intros H; injection H as <- _; cbn [restore_moved]; rewrite Hback; reflexivity].
  unfold write_single_node, add_link. fold name.
  assert (has (rename l name (tmpname name)) name = false) as Hh by (apply has_false_iff; exact Hnotin). rewrite Hh.
  set (l2 := rename l name (tmpname name) ++ [(name, node_shallow n)]).
  destruct (in_child_b name (link_all (filter (fun kv => is_data_group (snd kv)) (ksort (olinks old)))) (G a l2) b2) as [[p3 b3] ok3] eqn:E3.
  assert (restore name p3 = G a l) as Hrest.
  { destruct (in_child_b_shape _ _ _ _ _ _ _ _ E3) as [(c & c' & _ & ->)| ->]; cbn [restore]; unfold l2.
    - rewrite del_set_app_last by exact Hnotin. rewrite Hback. reflexivity.
    - rewrite del_app_last by exact Hnotin. rewrite Hback. reflexivity. }
  destruct ok3; cbn [negb]; [|intros H; injection H as <- _; exact Hrest].
  destruct (tick b3) as [b4|]; [|intros H; injection H as <- _; exact Hrest].
  destruct (del_link (tmpname name) p3); [discriminate|]. intros H; injection H as <- _. exact Hrest.
Qed.

(* the same for one root-metadata entry *)
Theorem md_entry_fail_restores ao existing kt a l b g' b' :
  NoDup (keys l) -> ~ In (tmpname (fst kt)) (keys l) ->
  md_entry_b ao existing kt (G a l) b = (g', b', false) -> g' = G a l.
Proof.
  intros Hnd Htmp. unfold md_entry_b. set (k := fst kt) in *.
  destruct (mem k existing).
  - destruct ao; [|discriminate].
    destruct (tick b) as [b1|]; [|intros H; injection H; auto].
    unfold move_link, has. destruct (get l k) as [old|] eqn:Eg; [|intros H; injection H; auto].
    assert (get l (tmpname k) = None) as Etmp by (apply get_none_notin; exact Htmp). rewrite Etmp.
    assert (Hback : rename (rename l k (tmpname k)) (tmpname k) k = l) by (apply rename_back; assumption).
    assert (Hnotin : ~ In k (keys (rename l k (tmpname k)))) by (apply keys_rename_notin; [assumption|apply tmpname_neq|assumption]).
    destruct (tick b1) as [b2|]; [|intros H; injection H as <- _; cbn [restore_moved]; rewrite Hback; reflexivity].
    unfold add_link. assert (has (rename l k (tmpname k)) k = false) as Hh by (apply has_false_iff; exact Hnotin). rewrite Hh.
    destruct (tick b2) as [b3|]; [|intros H; injection H as <- _; cbn [restore]; rewrite del_app_last by exact Hnotin; rewrite Hback; reflexivity].
    destruct (del_link _ _); [discriminate|]. intros H; injection H as <- _. cbn [restore]. rewrite del_app_last by exact Hnotin. rewrite Hback. reflexivity.
  - destruct (tick b) as [b1|]; [|intros H; injection H; auto].
    destruct (add_link k (md_group (snd kt)) (G a l)); [discriminate|]. intros H; injection H; auto.
Qed.

(* ---------- append mode only extends *)
Section oind.
  Variable P : obj -> Prop.
  Hypothesis HD : forall a s t, P (D a s t).
  Hypothesis HG : forall a l, Forall (fun kv => P (snd kv)) l -> P (G a l).
  Fixpoint obj_ind' (o : obj) : P o :=
    match o with
    | D a s t => HD a s t
    | G a l => HG a l ((fix go (l : list (string * obj)) : Forall (fun kv => P (snd kv)) l :=
                         match l with [] => Forall_nil _ | (k, c) :: r => Forall_cons (k, c) (obj_ind' c) (go r) end) l)
    end.
End oind.

(* g' extends g: same attributes, datasets untouched, every link of g still there and itself extended *)
Inductive ext : obj -> obj -> Prop :=
  | ext_D a s t : ext (D a s t) (D a s t)
  | ext_G a l l' : (forall k c, get l k = Some c -> exists c', get l' k = Some c' /\ ext c c') -> ext (G a l) (G a l').

Lemma ext_refl o : ext o o.
Proof.
  induction o as [a s t|a l IH] using obj_ind'; constructor. intros k c Hg. exists c. split; [exact Hg|].
  rewrite Forall_forall in IH. apply (IH (k, c)). apply get_In. exact Hg.
Qed.
Lemma ext_trans o1 : forall o2 o3, ext o1 o2 -> ext o2 o3 -> ext o1 o3.
Proof.
  induction o1 as [a s t|a l IH] using obj_ind'; intros o2 o3 H12 H23.
  - inversion H12; subst. exact H23.
  - inversion H12 as [|? ? l2 H]; subst. inversion H23 as [|? ? l3 H']; subst. constructor. intros k c Hg.
    destruct (H k c Hg) as (c2 & Hg2 & E2). destruct (H' k c2 Hg2) as (c3 & Hg3 & E3). exists c3. split; [exact Hg3|].
    rewrite Forall_forall in IH. apply (IH (k, c) (get_In _ _ _ Hg) c2 c3); assumption.
Qed.
Lemma ext_set a l k c c' : get l k = Some c -> ext c c' -> ext (G a l) (G a (set l k c')).
Proof.
  intros Hg He. constructor. intros k0 c0 Hg0. destruct (String.eqb k0 k) eqn:E.
  - apply String.eqb_eq in E. subst k0. rewrite get_set_same. exists c'. split; [reflexivity|]. congruence.
  - assert (k0 <> k) by (intros ->; rewrite String.eqb_refl in E; discriminate). rewrite get_set_other by assumption. exists c0. split; [exact Hg0|apply ext_refl].
Qed.
Lemma ext_add a l name c g' : add_link name c (G a l) = Ok g' -> ext (G a l) g'.
Proof.
  unfold add_link. destruct (has l name); [discriminate|]. intros H; injection H as <-. constructor.
  intros k c0 Hg. exists c0. split; [apply get_app_l; exact Hg|apply ext_refl].
Qed.

Lemma ext_in_child_b name w g b g' b' ok :
  (forall c bb c' bb' okk, w c bb = (c', bb', okk) -> ext c c') ->
  in_child_b name w g b = (g', b', ok) -> ext g g'.
Proof.
  intros Hw. unfold in_child_b. destruct g as [a l|]; [|intros H; injection H as <- _ _; apply ext_refl].
  destruct (get l name) as [c|] eqn:Eg; [|intros H; injection H as <- _ _; apply ext_refl].
  destruct (w c b) as [[c' b1] ok1] eqn:Ew. intros H; injection H as <- _ _. eapply ext_set; [exact Eg|eapply Hw; exact Ew].
Qed.

Lemma ext_write_single_b n g b g' b' ok : write_single_b n g b = (g', b', ok) -> ext g g'.
Proof.
  unfold write_single_b. destruct (tick b); [|intros H; injection H as <- _ _; apply ext_refl].
  destruct (write_single_node n g) as [g1|] eqn:E; intros H; injection H as <- _ _; [|apply ext_refl].
  unfold write_single_node in E. destruct g as [a l|]; [eapply ext_add; exact E|discriminate].
Qed.

Lemma ext_write_tree_b n : forall g b g' b' ok, write_tree_b n g b = (g', b', ok) -> ext g g'.
Proof.
  induction n as [c nm t r m ks IH] using rnode_ind'. intros g b g' b' ok. cbn [write_tree_b rkids].
  assert (forall (acc : R), ext g (fst (fst acc)) ->
     ext g (fst (fst (fold_left (fun (acc : R) k => let '(g0, b0, ok0) := acc in
        if ok0 then let '(g1, b1, ok1) := write_single_b k g0 b0 in
                    if ok1 then in_child_b (rname k) (write_tree_b k) g1 b1 else (g1, b1, false) else acc) ks acc)))) as Hgen.
  { induction IH as [|k q Hk _ IHq]; intros acc Hacc; [exact Hacc|]. cbn [fold_left]. apply IHq.
    destruct acc as [[g0 b0] ok0]. cbn [fst] in Hacc. destruct ok0; [|exact Hacc].
    destruct (write_single_b k g0 b0) as [[g1 b1] ok1] eqn:E1. pose proof (ext_write_single_b _ _ _ _ _ _ E1) as X1.
    destruct ok1; [|cbn [fst]; eapply ext_trans; eauto].
    destruct (in_child_b (rname k) (write_tree_b k) g1 b1) as [[g2 b2] ok2] eqn:E2. cbn [fst].
    eapply ext_trans; [exact Hacc|]. eapply ext_trans; [exact X1|]. eapply ext_in_child_b; [|exact E2]. intros; eapply Hk; eauto. }
  intros H. specialize (Hgen (g, b, true) (ext_refl g)). rewrite H in Hgen. exact Hgen.
Qed.

(* append (not append-over): whatever the fault point, completed or not, the file group is only extended *)
Theorem append_mode_only_extends n : forall g b g' b' ok, append_branch_b false n g b = (g', b', ok) -> ext g g'.
Proof.
  induction n as [c nm t r m ks IH] using rnode_ind'. intros g b g' b' ok. cbn [append_branch_b rkids].
  match goal with |- fold_left ?F ks _ = _ -> _ =>
    assert (forall (acc : R), ext g (fst (fst acc)) -> ext g (fst (fst (fold_left F ks acc)))) as Hgen end.
  { induction IH as [|k q Hk _ IHq]; intros acc Hacc; [exact Hacc|]. cbn [fold_left]. apply IHq.
    destruct acc as [[g0 b0] ok0]. cbn [fst] in Hacc. destruct ok0; [|exact Hacc].
    destruct (mem (rname k) _).
    - destruct (in_child_b (rname k) (append_branch_b false k) g0 b0) as [[g2 b2] ok2] eqn:E2. cbn [fst].
      eapply ext_trans; [exact Hacc|]. eapply ext_in_child_b; [|exact E2]. intros; eapply Hk; eauto.
    - destruct (write_single_b k g0 b0) as [[g1 b1] ok1] eqn:E1. pose proof (ext_write_single_b _ _ _ _ _ _ E1) as X1.
      destruct ok1; [|cbn [fst]; eapply ext_trans; eauto].
      destruct (in_child_b (rname k) (write_tree_b k) g1 b1) as [[g2 b2] ok2] eqn:E2. cbn [fst].
      eapply ext_trans; [exact Hacc|]. eapply ext_trans; [exact X1|]. eapply ext_in_child_b; [|exact E2]. intros; eapply ext_write_tree_b; eauto. }
  intros H. specialize (Hgen (g, b, true) (ext_refl g)). rewrite H in Hgen. exact Hgen.
Qed.

(* what "extends" means for a node that was in the file: still at its path, same attributes, same datasets *)
Lemma ext_lookup g g' : ext g g' -> forall p o, lookup g p = Some o -> exists o', lookup g' p = Some o' /\ ext o o'.
Proof.
  intros He p. revert g g' He. induction p as [|k q IH]; intros g g' He o Hl.
  - cbn in *. injection Hl as <-. eauto.
  - cbn [lookup] in Hl. destruct g as [a l|]; [|discriminate]. destruct (get l k) as [c|] eqn:Eg; [|discriminate].
    inversion He as [|? ? l' H]; subst. destruct (H k c Eg) as (c' & Hg' & Ec). cbn [lookup]. rewrite Hg'. eapply IH; eauto.
Qed.
Lemma ext_same_own o o' : ext o o' -> oattrs o' = oattrs o /\ forall k d, get (olinks o) k = Some d -> is_group d = false -> get (olinks o') k = Some d.
Proof.
  intros H. inversion H as [|a l l' Hl]; subst; [split; [reflexivity|auto]|]. split; [reflexivity|].
  cbn [olinks]. intros k d Hg Hd. destruct (Hl k d Hg) as (d' & Hg' & Ed). destruct d; [discriminate|]. inversion Ed; subst. exact Hg'.
Qed.
