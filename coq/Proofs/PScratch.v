(* C05, the clause of harness/validator.py that wf_emd (Proofs/PWf.v) does not carry: no scratch name ("_tmp_...") among the
   entries of any metadata bundle of the file.  Every file that is the encoding of a tree -- a fresh save, and every closed form
   the append / append-over theorems arrive at -- has it, when the tree's own metadata keys are not scratch names. *)
From Emd Require Import Base.Prelude Model.H5 Model.Emd Model.Reader Generated.Tables Proofs.PTree Proofs.PRead Proofs.PMulti Proofs.PWf Proofs.PUnion Proofs.PUnionAO Proofs.P08.

Definition bundle_clean (o : obj) : bool :=
  match o with G _ l => forallb (fun kv => plain (fst kv)) l | D _ _ _ => true end.

Fixpoint bundles_clean (o : obj) : bool :=
  match o with
  | D _ _ _ => true
  | G _ l =>
      (fix go (l : list (string * obj)) : bool :=
         match l with
         | [] => true
         | (k, c) :: r => (if String.eqb k "metadatabundle" then bundle_clean c else bundles_clean c) && go r
         end) l
  end.

Lemma bundles_clean_G a l :
  bundles_clean (G a l) = forallb (fun kv => if String.eqb (fst kv) "metadatabundle" then bundle_clean (snd kv) else bundles_clean (snd kv)) l.
Proof. cbn [bundles_clean]. induction l as [|[k c] r IH]; [reflexivity|]. cbn [forallb fst snd]. rewrite <- IH. reflexivity. Qed.

(* the tree's own metadata keys are not scratch names; no node is called like the bundle *)
Fixpoint md_keys_plain (n : rnode) : Prop :=
  Forall (fun kt => plain (fst kt) = true) (rmds n) /\
  (fix go (l : list rnode) : Prop := match l with [] => True | k :: q => (rname k <> "metadatabundle" /\ md_keys_plain k) /\ go q end) (rkids n).
Lemma md_keys_plain_inv n :
  md_keys_plain n <-> Forall (fun kt => plain (fst kt) = true) (rmds n) /\ Forall (fun k => rname k <> "metadatabundle" /\ md_keys_plain k) (rkids n).
Proof.
  destruct n as [c nm t r m ks]. cbn [md_keys_plain rmds rkids]. split; intros [Hm H]; (split; [exact Hm|]).
  - induction ks as [|k q IH]; constructor; destruct H; auto.
  - induction H; cbn; auto.
Qed.

Lemma bundle_clean_bundle m : Forall (fun kt : string * Z => plain (fst kt) = true) m -> bundle_clean (bundle m) = true.
Proof.
  intros H. unfold bundle, bundle_clean. rewrite forallb_forall. intros [k o] Hin. apply in_map_iff in Hin. destruct Hin as (kt & E & Hin).
  inversion E; subst. cbn [fst]. rewrite Forall_forall in H. exact (H kt Hin).
Qed.

Lemma own_clean c t r :
  forallb (fun kv : string * obj => if String.eqb (fst kv) "metadatabundle" then bundle_clean (snd kv) else bundles_clean (snd kv)) (own c t r) = true.
Proof.
  rewrite forallb_forall. intros [k o] Hin. cbn [fst snd].
  assert (Hd : exists a s tk, o = D a s tk).
  { destruct c; cbn [own] in Hin; try contradiction.
    - destruct Hin as [E|Hin]; [inversion E; eauto|]. apply in_map_iff in Hin. destruct Hin as (i & E & _). unfold dim_dataset in E. inversion E; eauto.
    - destruct Hin as [E|[]]. inversion E; eauto.
    - destruct Hin as [E|[]]. inversion E; eauto. }
  destruct Hd as (a & s & tk & ->). destruct (String.eqb k "metadatabundle"); reflexivity.
Qed.

Theorem enc_bundles_clean n : md_keys_plain n -> bundles_clean (enc n) = true.
Proof.
  induction n as [c nm t r m ks IH] using rnode_ind'. intros H. apply md_keys_plain_inv in H. cbn [rmds rkids] in H. destruct H as [Hm Hk].
  rewrite enc_eq, bundles_clean_G. cbn [rkids]. rewrite forallb_app. apply andb_true_intro. split.
  - unfold shallow_links. cbn [rmds rcls rtok rrank]. rewrite forallb_app. apply andb_true_intro. split; [|apply own_clean].
    destruct m as [|kt m']; [reflexivity|]. cbn [forallb fst snd]. change (String.eqb "metadatabundle" "metadatabundle") with true. cbn iota.
    rewrite bundle_clean_bundle; [reflexivity|exact Hm].
  - unfold enc_kids. rewrite forallb_forall. intros [k o] Hin. apply in_map_iff in Hin. destruct Hin as (kid & E & Hin). inversion E; subst. cbn [fst snd].
    rewrite Forall_forall in Hk, IH. destruct (Hk kid Hin) as [Hne Hp].
    destruct (String.eqb (rname kid) "metadatabundle") eqn:Eq; [apply String.eqb_eq in Eq; contradiction|]. apply IH; assumption.
Qed.

(* whole files: one tree, or several *)
Theorem forest_file_bundles_clean c ts :
  Forall (fun t => rname t <> "metadatabundle" /\ md_keys_plain t) ts -> bundles_clean (forest_file c ts) = true.
Proof.
  intros H. unfold forest_file. rewrite bundles_clean_G. unfold tree_links. rewrite forallb_forall. intros [k o] Hin.
  apply in_map_iff in Hin. destruct Hin as (t & E & Hin). inversion E; subst. cbn [fst snd]. rewrite Forall_forall in H. destruct (H t Hin) as [Hne Hp].
  destruct (String.eqb (rname t) "metadatabundle") eqn:Eq; [apply String.eqb_eq in Eq; contradiction|]. apply enc_bundles_clean. exact Hp.
Qed.

Corollary whole_file_bundles_clean c t : rname t <> "metadatabundle" -> md_keys_plain t -> bundles_clean (whole_file c t) = true.
Proof. intros Hn Hp. rewrite <- forest_file_one. apply forest_file_bundles_clean. constructor; [split; assumption|constructor]. Qed.

(* ---------- the trees the append / append-over theorems arrive at keep the hypothesis: the union of two trees with plain keys has
   plain keys, and so has the union + replace *)
Lemma md_keys_plain_merge m : forall n, md_keys_plain m -> md_keys_plain n -> md_keys_plain (merge m n).
Proof.
  induction m as [c nm t r md ks IH] using rnode_ind'. intros n Hm Hn. rewrite merge_eq. cbn [rcls rname rtok rrank rmds rkids].
  apply md_keys_plain_inv in Hm. cbn [rmds rkids] in Hm. destruct Hm as [Hmd Hks]. apply md_keys_plain_inv in Hn. destruct Hn as [_ Hkn].
  apply md_keys_plain_inv. cbn [rmds rkids]. split; [exact Hmd|]. apply Forall_app. split.
  - rewrite Forall_forall. intros x Hin. apply in_map_iff in Hin. destruct Hin as (km & <- & Hin).
    rewrite Forall_forall in Hks, IH. destruct (Hks km Hin) as [Hne Hp]. unfold upd. destruct (rget (rkids n) (rname km)) as [kn|] eqn:E.
    + rewrite rname_merge. split; [exact Hne|]. apply IH; [exact Hin|exact Hp|]. apply rget_in in E. destruct E as [Hin' _].
      rewrite Forall_forall in Hkn. exact (proj2 (Hkn kn Hin')).
    + split; assumption.
  - rewrite Forall_forall. intros x Hin. apply filter_In in Hin. destruct Hin as [Hin _]. rewrite Forall_forall in Hkn. exact (Hkn x Hin).
Qed.

Lemma md_union_plain mf mr :
  Forall (fun kt : string * Z => plain (fst kt) = true) mf -> Forall (fun kt : string * Z => plain (fst kt) = true) mr ->
  Forall (fun kt : string * Z => plain (fst kt) = true) (md_union mf mr).
Proof.
  intros Hf Hr. unfold md_union. apply Forall_app. split; [exact Hf|]. rewrite Forall_forall in *. intros x Hin. apply filter_In in Hin. exact (Hr x (proj1 Hin)).
Qed.

Theorem md_keys_plain_union_root m root : md_keys_plain m -> md_keys_plain root -> md_keys_plain (union_root m root).
Proof.
  intros Hm Hr. unfold union_root. apply md_keys_plain_merge; [|exact Hr].
  apply md_keys_plain_inv in Hm. destruct Hm as [Hmd Hks]. pose proof (proj1 (md_keys_plain_inv root) Hr) as [Hrmd _].
  destruct m as [c nm t r md ks]. cbn [with_mds]. apply md_keys_plain_inv. cbn [rmds rkids] in *. split; [apply md_union_plain; assumption|exact Hks].
Qed.

Lemma md_keys_plain_aom n : forall ks,
  md_keys_plain n -> Forall (fun k => rname k <> "metadatabundle" /\ md_keys_plain k) ks ->
  Forall (fun k => rname k <> "metadatabundle" /\ md_keys_plain k) (aom n ks).
Proof.
  induction n as [c nm t r md kn IH] using rnode_ind'. intros ks Hn Hks. rewrite aom_eq. cbn [rkids].
  apply md_keys_plain_inv in Hn. cbn [rmds rkids] in Hn. destruct Hn as [_ Hkn]. apply Forall_app. split.
  - rewrite Forall_forall in *. intros x Hin. apply filter_In in Hin. exact (Hks x (proj1 Hin)).
  - rewrite Forall_forall. intros x Hin. apply in_map_iff in Hin. destruct Hin as (k & <- & Hin).
    rewrite Forall_forall in Hkn, IH. destruct (Hkn k Hin) as [Hne Hp]. destruct (rget ks (rname k)) as [km|] eqn:E; [|split; assumption].
    unfold replaced. cbn [rname]. split; [exact Hne|]. apply md_keys_plain_inv. cbn [rmds rkids]. split; [exact (proj1 (proj1 (md_keys_plain_inv k) Hp))|].
    apply IH; [exact Hin|exact Hp|]. apply rget_in in E. destruct E as [Hin' _]. rewrite Forall_forall in Hks. destruct (Hks km Hin') as [_ Hpm].
    apply md_keys_plain_inv in Hpm. destruct Hpm as [_ Hkm]. apply Forall_forall. intros y Hy. apply (proj1 (rsort_in _ _)) in Hy. rewrite Forall_forall in Hkm. exact (Hkm y Hy).
Qed.

Theorem md_keys_plain_appendover T root : md_keys_plain T -> md_keys_plain root -> md_keys_plain (with_kids T (aom root (rkids T))).
Proof.
  intros HT Hr. pose proof (proj1 (md_keys_plain_inv T) HT) as [Hmd Hks]. destruct T as [c nm t r md ks]. cbn [with_kids rkids rmds] in *.
  apply md_keys_plain_inv. cbn [rmds rkids]. split; [exact Hmd|]. apply md_keys_plain_aom; assumption.
Qed.

(* not vacuous: a parked entry left inside the bundle of a root is rejected *)
Example bundles_clean_rejects :
  bundles_clean (G [] [("r", G [] [("metadatabundle", G [] [("_tmp_m1", md_group 1); ("m1", md_group 2)])])]) = false /\
  bundles_clean (G [] [("r", G [] [("metadatabundle", G [] [("m1", md_group 2)]); ("a", G [] [("metadatabundle", G [] [("_tmp_x", md_group 3)])])])]) = false.
Proof. split; vm_compute; reflexivity. Qed.
