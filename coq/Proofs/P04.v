(* C04: PointList and PointListArray codecs. *)
From Coq Require Import List Bool Arith Lia.
From Emd Require Import Base.Prelude Model.Pl.

Definition endian_eqb (a b : endian) : bool := match a, b with LE, LE | BE, BE => true | _, _ => false end.
Definition dtype_eqb (a b : dtype) : bool :=
  match a, b with
  | DBool, DBool => true
  | DInt s n e, DInt s' n' e' => Bool.eqb s s' && Nat.eqb n n' && endian_eqb e e'
  | DFloat n e, DFloat n' e' | DComplex n e, DComplex n' e' => Nat.eqb n n' && endian_eqb e e'
  | DBytes w, DBytes w' => String.eqb w w'
  | _, _ => false end.
Lemma dtype_eqb_eq a b : dtype_eqb a b = true -> a = b.
Proof.
  destruct a as [|s n e|n e|n e|w], b as [|s' n' e'|n' e'|n' e'|w']; cbn; try discriminate; try reflexivity; intros H;
    repeat (apply andb_true_iff in H; destruct H as (H & ?));
    repeat match goal with
           | H : Bool.eqb _ _ = true |- _ => apply Bool.eqb_prop in H
           | H : Nat.eqb _ _ = true |- _ => apply Nat.eqb_eq in H
           | H : String.eqb _ _ = true |- _ => apply String.eqb_eq in H
           | H : endian_eqb ?x ?y = true |- _ => destruct x, y; try discriminate; clear H
           end; subst; reflexivity.
Qed.

(* finite part: checked by evaluation over the whole enumerated universe *)
Lemma numeric_roundtrip_all :
  forallb (fun d => negb (valid_dtype d) || match dtype_of_str (dtype_to_str d) with Some d' => dtype_eqb d d' | None => false end) all_numeric = true.
Proof. vm_compute. reflexivity. Qed.

Lemma valid_numeric_in d : valid_dtype d = true -> (forall w, d <> DBytes w) -> In d all_numeric.
Proof.
  intros Hv Hn. destruct d as [|s n e|n e|n e|w]; [left; reflexivity| | | |exfalso; eapply Hn; reflexivity]; cbn in Hv;
    repeat (apply orb_true_iff in Hv; destruct Hv as [Hv|Hv]);
    try (apply andb_true_iff in Hv; destruct Hv as (Hv & He); destruct e; try discriminate);
    apply Nat.eqb_eq in Hv; subst; try destruct s; try destruct e; cbn; intuition.
Qed.

(* the dtype survives its string form: np.dtype(str(dt)) = dt *)
Theorem dtype_str_roundtrip d : valid_dtype d = true -> dtype_of_str (dtype_to_str d) = Some d.
Proof.
  intros Hv. destruct d as [|s n e|n e|n e|w] eqn:Ed.
  5:{ cbn in *. apply negb_true_iff in Hv. rewrite Hv. reflexivity. }
  all: rewrite <- Ed in *; assert (In d all_numeric) as Hin by (apply valid_numeric_in; [exact Hv|intros w0 Hw; subst; discriminate]);
       pose proof numeric_roundtrip_all as Hall; rewrite forallb_forall in Hall; specialize (Hall d Hin); rewrite Hv in Hall; cbn [negb orb] in Hall;
       destruct (dtype_of_str (dtype_to_str d)) as [d'|]; [|discriminate]; apply dtype_eqb_eq in Hall; subst d'; reflexivity.
Qed.

(* ---------- sorting commutes with a map on the values *)
Lemma kinsert_map {A B} (g : A -> B) x l :
  kinsert (fst x, g (snd x)) (map (fun kv => (fst kv, g (snd kv))) l) = map (fun kv => (fst kv, g (snd kv))) (kinsert x l).
Proof. induction l as [|y r IH]; [reflexivity|]. cbn. destruct (String.leb (fst x) (fst y)); [reflexivity|]. cbn. rewrite IH. reflexivity. Qed.
Lemma ksort_map {A B} (g : A -> B) l : ksort (map (fun kv => (fst kv, g (snd kv))) l) = map (fun kv => (fst kv, g (snd kv))) (ksort l).
Proof. induction l as [|x r IH]; [reflexivity|]. cbn [map ksort fold_right]. change (fold_right kinsert [] ?l) with (ksort l). rewrite IH. apply (kinsert_map g). Qed.
Lemma kinsert_in {A} (x y : string * A) l : In y (kinsert x l) <-> y = x \/ In y l.
Proof. induction l as [|z r IH]; cbn; [intuition|]. destruct (String.leb (fst x) (fst z)); cbn; [intuition|]. rewrite IH. intuition. Qed.
Lemma ksort_in {A} (y : string * A) l : In y (ksort l) <-> In y l.
Proof. induction l as [|x r IH]; cbn; [tauto|]. change (fold_right kinsert [] r) with (ksort r). rewrite kinsert_in, IH. intuition. Qed.
Lemma ksort_length {A} (l : list (string * A)) : length (ksort l) = length l.
Proof.
  assert (forall (x : string * A) l0, length (kinsert x l0) = S (length l0)) as Hi.
  { intros x l0. induction l0 as [|z r IH]; cbn; [reflexivity|]. destruct (String.leb (fst x) (fst z)); cbn; [reflexivity|]. rewrite IH. reflexivity. }
  induction l as [|x r IH]; cbn; [reflexivity|]. change (fold_right kinsert [] r) with (ksort r). rewrite Hi, IH. reflexivity.
Qed.

Definition keyed (fs : list field) : list (string * field) := map (fun f => (f_name f, f)) fs.

(* the PointList comes back with the same length and, in name order, exactly its fields: each with its dtype and content *)
Theorem pl_roundtrip p : pl_fields p <> [] -> forallb (fun f => valid_dtype (f_dtype f)) (pl_fields p) = true ->
  pl_load (pl_store p) = Ok (PLV (pl_len p) (map snd (ksort (keyed (pl_fields p))))).
Proof.
  intros Hne Hv. unfold pl_load, pl_store.
  assert (map (fun f => (f_name f, (dtype_to_str (f_dtype f), pl_len p, f_tok f))) (pl_fields p)
          = map (fun kv => (fst kv, (fun f => (dtype_to_str (f_dtype f), pl_len p, f_tok f)) (snd kv))) (keyed (pl_fields p))) as ->.
  { unfold keyed. rewrite map_map. reflexivity. }
  rewrite (ksort_map (fun f => (dtype_to_str (f_dtype f), pl_len p, f_tok f))). cbv beta.
  assert (forall kf, In kf (ksort (keyed (pl_fields p))) -> fst kf = f_name (snd kf) /\ valid_dtype (f_dtype (snd kf)) = true) as Hall.
  { intros kf Hin. apply (proj1 (ksort_in _ _)) in Hin. unfold keyed in Hin. apply in_map_iff in Hin. destruct Hin as (f & <- & Hf). cbn. split; [reflexivity|].
    rewrite forallb_forall in Hv. apply Hv. exact Hf. }
  set (S := ksort (keyed (pl_fields p))) in *.
  assert (decode_all (map (fun kv => (fst kv, (dtype_to_str (f_dtype (snd kv)), pl_len p, f_tok (snd kv)))) S) = Ok (map snd S)) as Hf.
  { clearbody S. revert Hall. induction S as [|[k f] r IH]; intros Hall; [reflexivity|]. unfold decode_all in *.
    cbn [map fold_right fst snd]. rewrite IH by (intros kf Hk; apply Hall; right; exact Hk). cbn [bind].
    destruct (Hall (k, f) (or_introl eq_refl)) as (Hk & Hvd). cbn [fst snd] in *. rewrite (dtype_str_roundtrip _ Hvd). subst k. destruct f; reflexivity. }
  assert (first_len (map (fun kv => (fst kv, (dtype_to_str (f_dtype (snd kv)), pl_len p, f_tok (snd kv)))) S) = Some (pl_len p)) as Hl.
  { destruct S as [|[k0 f0] rest] eqn:Es; [|reflexivity]. exfalso. apply (f_equal (@length _)) in Es. unfold S in Es. rewrite ksort_length in Es.
    unfold keyed in Es. rewrite map_length in Es. destruct (pl_fields p); [congruence|discriminate]. }
  cbv zeta. rewrite Hl, Hf. reflexivity.
Qed.

(* same set of fields *)
Lemma pl_same_fields p f : In f (map snd (ksort (keyed (pl_fields p)))) <-> In f (pl_fields p).
Proof.
  rewrite in_map_iff. split.
  - intros ((k, f') & <- & Hin). apply (proj1 (ksort_in _ _)) in Hin. unfold keyed in Hin. apply in_map_iff in Hin. destruct Hin as (g & Hg & Hin). injection Hg as _ <-. exact Hin.
  - intros Hin. exists (f_name f, f). split; [reflexivity|]. apply ksort_in. unfold keyed. apply in_map_iff. eauto.
Qed.

(* ---------- PointListArray: every cell holds exactly the points stored in it, empty cells included,
   provided h5py hands each cell back (faithful_h5) *)
Theorem pla_roundtrip p : pla_load (pla_shape p) (pla_dtype p) (faithful_h5 p) = p.
Proof.
  unfold pla_load, faithful_h5. destruct p as [sh dt cells]. cbn. f_equal. rewrite map_map.
  rewrite <- (map_id cells) at 2. apply map_ext. intros row. rewrite map_map. rewrite <- (map_id row) at 2. apply map_ext. intros [n t]. reflexivity.
Qed.
(* the swallowed ValueError is a real risk: a non-empty cell whose read raises is silently dropped *)
Theorem pla_swallow_refuted : exists p reads, reads <> faithful_h5 p /\ pla_load (pla_shape p) (pla_dtype p) reads <> p.
Proof.
  exists (PLA (1, 1) "float64" [[(3, 7%Z)]]), [[CellValueError]]. split; [discriminate|]. cbn. discriminate.
Qed.
