(* C15 (metadata part): for ANY value of the universe, save_item either fails or produces an item that reads back
   to an equivalent value -- up to the two known findings, which `clean` excludes. *)
From Coq Require Import ZArith List Bool Lia PrimFloat.
From Emd Require Import Base.Prelude Model.Md Proofs.P03.

(* the two known findings, as a decidable side condition *)
Definition nums_lossless (xs : list mval) : bool :=
  match all_numbers xs with Some l => forallb (lossless (max_kind l)) l | None => true end.
Fixpoint clean (v : mval) : bool :=
  match v with
  | MStr s => negb (String.eqb s "_None")
  | MTuple xs | MList xs =>
      nums_lossless xs && forallb (fun x => match x with MTuple ys => nums_lossless ys | _ => true end) xs
  | MDict kvs => (fix go (l : list (string * mval)) : bool := match l with [] => true | (_, x) :: r => clean x && go r end) kvs
  | _ => true
  end.

(* a Python dict has pairwise distinct keys, at every depth *)
Fixpoint wf_dicts (v : mval) : bool :=
  match v with
  | MDict kvs => keys_nodup (map fst kvs) &&
      (fix go (l : list (string * mval)) : bool := match l with [] => true | (_, x) :: r => wf_dicts x && go r end) kvs
  | _ => true
  end.

Lemma all_numbers_equiv xs l : all_numbers xs = Some l -> forallb (lossless (max_kind l)) l = true ->
  list_eqb elem_equiv xs (map MNp (promote l)) = true.
Proof.
  intros Ha Hl. unfold promote.
  assert (forall xs0 l0, all_numbers xs0 = Some l0 -> (forall x, In x l0 -> In x l) ->
            list_eqb elem_equiv xs0 (map MNp (map (to_kind (max_kind l)) l0)) = true) as Hgen.
  { induction xs0 as [|v r IH]; intros l0 H0 Hsub; cbn in H0.
    - injection H0 as <-. reflexivity.
    - destruct (is_number v) as [x|] eqn:En; [|discriminate]. destruct (all_numbers r) as [l1|] eqn:Er; [|discriminate]. injection H0 as <-.
      cbn [map list_eqb]. rewrite (IH l1 eq_refl) by (intros y Hy; apply Hsub; right; exact Hy). rewrite andb_true_r.
      assert (elem_equiv v (MNp (to_kind (max_kind l) x)) = sc_equiv x (to_kind (max_kind l) x)) as ->.
      { destruct v; cbn in En; try discriminate; injection En as <-; reflexivity. }
      apply sc_equiv_to_kind; [apply kind_le_max; apply Hsub; left; reflexivity|apply max_kind_le3|].
      rewrite forallb_forall in Hl. apply Hl. apply Hsub. left. reflexivity. }
  apply (Hgen xs l Ha). auto.
Qed.

Lemma vec_of_inv xs d : vec_of xs = Some d -> exists l, all_numbers xs = Some l /\ d = DsVec (promote l).
Proof. unfold vec_of. destruct (all_numbers xs) as [l|]; [|discriminate]. destruct (forallb sc_storable l); [|discriminate]. intros H; injection H as <-. eauto. Qed.

Lemma sc_equiv_refl x : sc_equiv x x = true. Proof. unfold sc_equiv. rewrite sc_same_refl. reflexivity. Qed.

(* members of a tuple of tuples *)
Lemma tt_members xs ms : opt_all tt_member xs = Some ms ->
  forallb (fun x => match x with MTuple ys => nums_lossless ys | _ => true end) xs = true ->
  list_eqb elem_equiv xs (map rd_member_tt ms) = true.
Proof.
  revert ms. induction xs as [|v r IH]; intros ms H Hc; cbn in H; [injection H as <-; reflexivity|].
  destruct (tt_member v) as [d|] eqn:Em; [|discriminate]. destruct (opt_all tt_member r) as [ms0|] eqn:Er; [|discriminate]. injection H as <-.
  cbn in Hc. apply andb_true_iff in Hc. destruct Hc as (Hv & Hr). cbn [map list_eqb]. rewrite (IH ms0 eq_refl Hr), andb_true_r.
  unfold tt_member in Em. destruct v as [| |x|x| |ys| | | |]; cbn in Em; try discriminate.
  - destruct (sc_storable x); [|discriminate]. injection Em as <-. cbn. apply sc_equiv_refl.
  - destruct x as [b|z|f|re im]; cbn in Em; try discriminate; try (destruct (in_int64 z); [|discriminate]); injection Em as <-; cbn; apply sc_equiv_refl.
  - destruct (vec_of_inv _ _ Em) as (l & Ha & ->). cbn [rd_member_tt elem_equiv]. rewrite <- list_eqb_go.
    apply all_numbers_equiv; [exact Ha|]. unfold nums_lossless in Hv. rewrite Ha in Hv. exact Hv.
Qed.
Lemma arr_members xs ms : opt_all arr_member xs = Some ms -> list_eqb elem_equiv xs (map rd_member_arr ms) = true.
Proof.
  revert ms. induction xs as [|v r IH]; intros ms H; cbn in H; [injection H as <-; reflexivity|].
  destruct (arr_member v) as [d|] eqn:Em; [|discriminate]. destruct (opt_all arr_member r) as [ms0|] eqn:Er; [|discriminate]. injection H as <-.
  cbn [map list_eqb]. rewrite (IH ms0 eq_refl), andb_true_r. destruct v; cbn in Em; try discriminate. destruct (h5_dtype_ok dt); [|discriminate]. injection Em as <-.
  cbn. rewrite String.eqb_refl, Z.eqb_refl, (list_eqb_refl Nat.eqb _ Nat.eqb_refl). reflexivity.
Qed.
Lemma str_members xs ms : opt_all str_member xs = Some ms -> list_eqb elem_equiv xs (map rd_member_str ms) = true.
Proof.
  revert ms. induction xs as [|v r IH]; intros ms H; cbn in H; [injection H as <-; reflexivity|].
  destruct (str_member v) as [d|] eqn:Em; [|discriminate]. destruct (opt_all str_member r) as [ms0|] eqn:Er; [|discriminate]. injection H as <-.
  cbn [map list_eqb]. rewrite (IH ms0 eq_refl), andb_true_r. destruct v; cbn in Em; try discriminate. destruct (has_char _ s); [discriminate|]. injection Em as <-.
  cbn. apply String.eqb_refl.
Qed.

Lemma seq_total tup xs it : save_seq tup xs = Ok it -> clean (if tup then MTuple xs else MList xs) = true ->
  exists v', read_item it = Ok v' /\ mequiv (if tup then MTuple xs else MList xs) v' = true.
Proof.
  intros Hs Hc. assert (nums_lossless xs = true /\ forallb (fun x => match x with MTuple ys => nums_lossless ys | _ => true end) xs = true) as (Hl & Ht).
  { destruct tup; cbn in Hc; apply andb_true_iff in Hc; exact Hc. }
  unfold save_seq in Hs. destruct xs as [|x0 r].
  - injection Hs as <-. destruct tup; cbn; eexists; split; reflexivity.
  - destruct (isinstance_number x0).
    + destruct (vec_of (x0 :: r)) as [d|] eqn:Ev; [|discriminate]. injection Hs as <-. destruct (vec_of_inv _ _ Ev) as (l & Ha & ->).
      unfold nums_lossless in Hl. rewrite Ha in Hl.
      destruct tup; cbn [read_item String.eqb Ascii.eqb Bool.eqb]; (eexists; split; [reflexivity|]); cbn [mequiv]; apply all_numbers_equiv; assumption.
    + destruct (tup && existsb is_tuple (x0 :: r)) eqn:Ett.
      * apply andb_true_iff in Ett. destruct Ett as (-> & _). destruct (opt_all tt_member (x0 :: r)) as [ms|] eqn:Em; [|discriminate]. injection Hs as <-.
        cbn [read_item String.eqb Ascii.eqb Bool.eqb]. eexists. split; [reflexivity|]. cbn [mequiv]. apply tt_members; assumption.
      * destruct x0; try discriminate.
        -- destruct (opt_all str_member _) as [ms|] eqn:Em; [|discriminate]. injection Hs as <-.
           destruct tup; cbn [read_item append String.eqb Ascii.eqb Bool.eqb]; (eexists; split; [reflexivity|]); cbn [mequiv]; apply str_members; exact Em.
        -- destruct (opt_all arr_member _) as [ms|] eqn:Em; [|discriminate]. injection Hs as <-.
           destruct tup; cbn [read_item append String.eqb Ascii.eqb Bool.eqb]; (eexists; split; [reflexivity|]); cbn [mequiv]; apply arr_members; exact Em.
Qed.

(* whatever save accepts, read returns: for EVERY value, including unsupported and reader-produced forms *)
Theorem md_total v : forall it, save_item v = Ok it -> clean v = true -> wf_dicts v = true ->
  exists v', read_item it = Ok v' /\ mequiv v v' = true.
Proof.
  induction v as [|s|x|x|dt sh t|xs|xs|kvs IH|s|] using mval_ind_dict; intros it Hs Hc Hw; cbn [save_item] in Hs; try discriminate.
  - injection Hs as <-. eexists. split; reflexivity.
  - destruct (has_char _ s); [discriminate|]. injection Hs as <-. cbn in Hc. apply negb_true_iff in Hc.
    cbn [read_item String.eqb Ascii.eqb Bool.eqb]. rewrite Hc. eexists. split; [reflexivity|]. cbn. apply String.eqb_refl.
  - destruct x as [b|z|f|re im]; [| destruct (sc_storable _); [|discriminate] | |]; injection Hs as <-;
      cbn [read_item String.eqb Ascii.eqb Bool.eqb]; (eexists; split; [reflexivity|]); apply sc_same_refl.
  - destruct x as [b|z|f|re im]; injection Hs as <-;
      cbn [read_item String.eqb Ascii.eqb Bool.eqb]; (eexists; split; [reflexivity|]); apply sc_same_refl.
  - destruct (h5_dtype_ok dt); [|discriminate]. injection Hs as <-. cbn [read_item String.eqb Ascii.eqb Bool.eqb].
    eexists. split; [reflexivity|]. cbn. rewrite String.eqb_refl, Z.eqb_refl, (list_eqb_refl Nat.eqb _ Nat.eqb_refl). reflexivity.
  - apply (seq_total true); assumption.
  - apply (seq_total false); assumption.
  - match type of Hs with match ?F kvs with _ => _ end = _ => destruct (F kvs) as [its|] eqn:Eg end; [|discriminate]. injection Hs as <-.
    cbn [clean] in Hc. cbn [wf_dicts] in Hw. apply andb_true_iff in Hw. destruct Hw as (Hnd & Hw).
    assert (exists vs',
      (fix go (l : list (string * item)) : res (list (string * mval)) :=
         match l with [] => Ok [] | (k, x) :: r => do v <- read_item x; do rest <- go r; Ok ((k, v) :: rest) end) its = Ok vs' /\
      Forall2 (fun kv kv' => fst kv = fst kv' /\ mequiv (snd kv) (snd kv') = true) kvs vs') as (vs' & Hr & Hf).
    { clear -IH Eg Hc Hw. revert its Eg. induction IH as [|[k x] r Hx _ IHr]; intros its Eg.
      - injection Eg as <-. exists []. split; [reflexivity|constructor].
      - destruct (valid_key k); [|discriminate]. destruct (save_item x) as [it|] eqn:Es; cbn [bind] in Eg; [|discriminate].
        match type of Eg with (do rest <- ?G; _) = _ => destruct G as [rest|] eqn:Er end; cbn [bind] in Eg; [|discriminate]. injection Eg as <-.
        apply andb_true_iff in Hc. destruct Hc as (Hcx & Hcr). apply andb_true_iff in Hw. destruct Hw as (Hwx & Hwr).
        destruct (IHr Hcr Hwr rest eq_refl) as (vs' & Hr & Hf).
        cbn [snd] in Hx. destruct (Hx it Es Hcx Hwx) as (v' & Hri & Hm). exists ((k, v') :: vs'). rewrite Hri. cbn [bind]. rewrite Hr. cbn [bind].
        split; [reflexivity|]. constructor; [split; [reflexivity|exact Hm]|exact Hf]. }
    cbn [read_item]. rewrite Hr. eexists. split; [reflexivity|]. cbn [mequiv].
    assert (length kvs = length vs') as Hlen by (clear -Hf; induction Hf; cbn; congruence).
    rewrite Hlen, Nat.eqb_refl. cbn [andb]. change (dict_cmp vs' kvs = true). apply dict_cmp_all. apply paired_lookup; assumption.
Qed.
