(* Root metadata on cut / graft (C13): what md_merge does per option, and that graft applies it
   to the receiving root only. *)
From Emd Require Import Base.Prelude Model.Forest.

Definition keys_sync (M : list (string * mdv)) : Prop := forall k v, In (k, v) M -> md_name v = k.

Lemma has_get {A} (l : list (string * A)) k : has l k = match get l k with Some _ => true | None => false end.
Proof. reflexivity. Qed.

Lemma merge_false Md Mr f : md_merge MFalse Md Mr f = (Mr, f).
Proof. destruct Md as [|[k v] r]; reflexivity. Qed.

Lemma merge_fresh_mono o Md : forall Mr f, f <= snd (md_merge o Md Mr f).
Proof.
  induction Md as [|[k v] r IH]; intros Mr f; [cbn; lia|]. destruct o; cbn [md_merge]; try (cbn; lia); try apply IH.
  - destruct (has Mr k); [apply IH|]. specialize (IH (md_assign Mr (md_copy v k f)) (S f)). lia.
  - specialize (IH (md_assign Mr (md_copy v k f)) (S f)). lia.
Qed.

(* entries whose key is not a donor key are never touched *)
Lemma merge_other o Md : forall Mr f k, keys_sync Md -> ~ In k (keys Md) -> get (fst (md_merge o Md Mr f)) k = get Mr k.
Proof.
  induction Md as [|[k0 v] r IH]; intros Mr f k Hs Hk; [reflexivity|].
  assert (keys_sync r) as Hs' by (intros a b H; apply Hs; right; exact H).
  assert (md_name v = k0) as Hv by (apply Hs; left; reflexivity).
  cbn [keys map fst] in Hk. assert (k <> k0) as Hne by (intros ->; apply Hk; left; reflexivity).
  assert (~ In k (keys r)) as Hk' by (intros H; apply Hk; right; exact H).
  destruct o; cbn [md_merge].
  - destruct (has Mr k0); rewrite IH by assumption; [reflexivity|]. unfold md_assign. rewrite Hv. apply get_set_other. exact Hne.
  - reflexivity.
  - destruct (has Mr k0); rewrite IH by assumption; [reflexivity|]. unfold md_assign, md_copy. cbn [md_name]. apply get_set_other. exact Hne.
  - rewrite IH by assumption. unfold md_assign. rewrite Hv. apply get_set_other. exact Hne.
  - rewrite IH by assumption. unfold md_assign, md_copy. cbn [md_name]. apply get_set_other. exact Hne.
Qed.

(* default and 'copy': every entry of the receiver survives *)
Lemma merge_keeps_receiver o Md : o = MTrue \/ o = MCopy -> forall Mr f k v, keys_sync Md ->
  get Mr k = Some v -> get (fst (md_merge o Md Mr f)) k = Some v.
Proof.
  intros Ho. induction Md as [|[k0 v0] r IH]; intros Mr f k v Hs Hg; [exact Hg|].
  assert (keys_sync r) as Hs' by (intros a b H; apply Hs; right; exact H).
  assert (md_name v0 = k0) as Hv by (apply Hs; left; reflexivity).
  destruct Ho as [-> | ->]; cbn [md_merge]; rewrite has_get.
  - destruct (get Mr k0) eqn:E0; [apply IH; assumption|]. apply IH; [assumption|]. unfold md_assign. rewrite Hv.
    rewrite get_set_other; [exact Hg|]. intros ->. congruence.
  - destruct (get Mr k0) eqn:E0; [apply IH; assumption|]. apply IH; [assumption|]. unfold md_assign, md_copy. cbn [md_name].
    rewrite get_set_other; [exact Hg|]. intros ->. congruence.
Qed.

Lemma get_cons_keys {A} (k0 : string) (v0 : A) r k v : get ((k0, v0) :: r) k = Some v ->
  (k = k0 /\ v = v0) \/ (k <> k0 /\ get r k = Some v).
Proof.
  cbn. destruct (String.eqb k k0) eqn:E.
  - apply String.eqb_eq in E. intros H; injection H as <-. auto.
  - intros H. right. split; [|exact H]. intros ->. rewrite String.eqb_refl in E. discriminate.
Qed.

(* what arrives for a donor key, per option *)
Lemma merge_donor_entry o Md : forall Mr f k v, keys_sync Md -> NoDup (keys Md) -> get Md k = Some v ->
  let '(M, f') := md_merge o Md Mr f in
  match o with
  | MFalse => get M k = get Mr k
  | MTrue => get M k = match get Mr k with Some w => Some w | None => Some v end
  | MOverwrite => get M k = Some v
  | MCopy => match get Mr k with Some w => get M k = Some w
             | None => exists i, f <= i < f' /\ get M k = Some (MD i k (md_tok v)) end
  | MCopyover => exists i, f <= i < f' /\ get M k = Some (MD i k (md_tok v))
  end.
Proof.
  induction Md as [|[k0 v0] r IH]; intros Mr f k v Hs Hnd Hg; [discriminate|].
  assert (keys_sync r) as Hs' by (intros a b H; apply Hs; right; exact H).
  assert (md_name v0 = k0) as Hv by (apply Hs; left; reflexivity).
  cbn [keys map fst] in Hnd. apply NoDup_cons_iff in Hnd. destruct Hnd as (Hni & Hnd').
  destruct (get_cons_keys _ _ _ _ _ Hg) as [(Hk & Hvv)|(Hne & Hg')]; [subst k v|].
  - (* this entry: the tail never touches k0 again *)
    destruct o; cbn [md_merge]; rewrite ?has_get.
    + destruct (get Mr k0) eqn:E0.
      * destruct (md_merge MTrue r Mr f) as [M f'] eqn:Em. change M with (fst (M, f')). rewrite <- Em. rewrite merge_other by assumption. exact E0.
      * destruct (md_merge MTrue r (md_assign Mr v0) f) as [M f'] eqn:Em. change M with (fst (M, f')). rewrite <- Em. rewrite merge_other by assumption.
        unfold md_assign. rewrite Hv. apply get_set_same.
    + reflexivity.
    + destruct (get Mr k0) eqn:E0.
      * destruct (md_merge MCopy r Mr f) as [M f'] eqn:Em. change M with (fst (M, f')). rewrite <- Em. rewrite merge_other by assumption. exact E0.
      * destruct (md_merge MCopy r (md_assign Mr (md_copy v0 k0 f)) (S f)) as [M f'] eqn:Em. exists f.
        pose proof (merge_fresh_mono MCopy r (md_assign Mr (md_copy v0 k0 f)) (S f)) as Hm. rewrite Em in Hm. cbn [snd] in Hm. split; [lia|].
        change M with (fst (M, f')). rewrite <- Em. rewrite merge_other by assumption. unfold md_assign, md_copy. cbn [md_name]. apply get_set_same.
    + destruct (md_merge MOverwrite r (md_assign Mr v0) f) as [M f'] eqn:Em. change M with (fst (M, f')). rewrite <- Em. rewrite merge_other by assumption.
      unfold md_assign. rewrite Hv. apply get_set_same.
    + destruct (md_merge MCopyover r (md_assign Mr (md_copy v0 k0 f)) (S f)) as [M f'] eqn:Em. exists f.
      pose proof (merge_fresh_mono MCopyover r (md_assign Mr (md_copy v0 k0 f)) (S f)) as Hm. rewrite Em in Hm. cbn [snd] in Hm. split; [lia|].
      change M with (fst (M, f')). rewrite <- Em. rewrite merge_other by assumption. unfold md_assign, md_copy. cbn [md_name]. apply get_set_same.
  - (* a later entry: the head only touched k0 <> k *)
    destruct o; cbn [md_merge]; rewrite ?has_get.
    + destruct (get Mr k0) eqn:E0.
      * specialize (IH Mr f k v Hs' Hnd' Hg'). cbn beta in IH. exact IH.
      * specialize (IH (md_assign Mr v0) f k v Hs' Hnd' Hg'). cbn beta in IH. destruct (md_merge MTrue r (md_assign Mr v0) f) as [M f'].
        unfold md_assign in IH. rewrite Hv in IH. rewrite get_set_other in IH by exact Hne. exact IH.
    + reflexivity.
    + destruct (get Mr k0) eqn:E0.
      * specialize (IH Mr f k v Hs' Hnd' Hg'). exact IH.
      * specialize (IH (md_assign Mr (md_copy v0 k0 f)) (S f) k v Hs' Hnd' Hg'). cbn beta in IH.
        destruct (md_merge MCopy r (md_assign Mr (md_copy v0 k0 f)) (S f)) as [M f'].
        unfold md_assign, md_copy in IH. cbn [md_name] in IH. rewrite get_set_other in IH by exact Hne.
        destruct (get Mr k); [exact IH|]. destruct IH as (i & Hi & Hgi). exists i. split; [lia|exact Hgi].
    + specialize (IH (md_assign Mr v0) f k v Hs' Hnd' Hg'). exact IH.
    + specialize (IH (md_assign Mr (md_copy v0 k0 f)) (S f) k v Hs' Hnd' Hg'). cbn beta in IH.
      destruct (md_merge MCopyover r (md_assign Mr (md_copy v0 k0 f)) (S f)) as [M f']. destruct IH as (i & Hi & Hgi). exists i. split; [lia|exact Hgi].
Qed.

(* ---------- graft applies the merge to the receiving root only *)
Definition rmds (F : forest) (x : nat) : option (list (string * mdv)) := option_map tmds (ftop F x).

Lemma tid_insert t y s : tid (insert_under t y s) = tid t.
Proof. destruct t as [i b n sr sp m ks]. cbn [insert_under]. destruct (Nat.eqb i y); reflexivity. Qed.
Lemma tmds_insert t y s : tmds (insert_under t y s) = tmds t.
Proof. destruct t as [i b n sr sp m ks]. cbn [insert_under]. destruct (Nat.eqb i y); reflexivity. Qed.

Lemma rmds_finsert F y s x : rmds (finsert F y s) x = rmds F x.
Proof.
  unfold rmds, finsert. induction F as [|t q IH]; [reflexivity|]. cbn [map ftop]. rewrite tid_insert.
  destruct (Nat.eqb (tid t) x); [cbn; rewrite tmds_insert; reflexivity|exact IH].
Qed.
Lemma rmds_attach F p s F' x : attach F p s = Some F' -> rmds F' x = rmds F x.
Proof.
  unfold attach. destruct (ffind F p) as [pn|]; [|discriminate]. destruct (tsroot pn); [|discriminate]. destruct (tspath pn); [|discriminate].
  intros H; injection H as <-. apply rmds_finsert.
Qed.
Lemma rmds_replace F T' x : (forall T, ftop F (tid T') = Some T -> tmds T' = tmds T) -> rmds (freplace_top F T') x = rmds F x.
Proof.
  unfold rmds. induction F as [|t q IH]; intros H; [reflexivity|]. cbn [freplace_top ftop] in *.
  destruct (Nat.eqb (tid t) (tid T')) eqn:E.
  - apply Nat.eqb_eq in E. cbn [ftop]. rewrite <- E. destruct (Nat.eqb (tid t) x); [|reflexivity]. cbn. f_equal. apply H. reflexivity.
  - cbn [ftop]. destruct (Nat.eqb (tid t) x); [reflexivity|]. apply IH. exact H.
Qed.
Lemma rmds_replace_set F T M x : ftop F (tid T) = Some T ->
  rmds (freplace_top F (set_mds T M)) x = if Nat.eqb x (tid T) then Some M else rmds F x.
Proof.
  unfold rmds. intros HT. induction F as [|t q IH]; [discriminate|]. cbn [freplace_top ftop] in *.
  assert (tid (set_mds T M) = tid T) as Et by (destruct T; reflexivity). rewrite Et.
  destruct (Nat.eqb (tid t) (tid T)) eqn:E.
  - apply Nat.eqb_eq in E. cbn [ftop]. rewrite Et, <- E. rewrite (Nat.eqb_sym x). destruct (Nat.eqb (tid t) x); [|reflexivity]. cbn. destruct T; reflexivity.
  - cbn [ftop]. destruct (Nat.eqb (tid t) x) eqn:Ex.
    + apply Nat.eqb_eq in Ex. subst x. rewrite E. reflexivity.
    + apply IH. exact HT.
Qed.

Lemma ftop_tid F x T : ftop F x = Some T -> tid T = x.
Proof. induction F as [|t q IH]; [discriminate|]. cbn. destruct (Nat.eqb (tid t) x) eqn:E; [intros H; injection H as <-; apply Nat.eqb_eq; exact E|exact IH]. Qed.

Lemma rmds_move_kids ks : forall F up recv F' x, move_kids F up recv ks = Some F' -> rmds F' x = rmds F x.
Proof.
  induction ks as [|k rest IH]; intros F up recv F' x; cbn [move_kids]; [intros H; injection H as <-; reflexivity|].
  destruct (attach F recv k) as [F1|] eqn:Ea; [|discriminate]. destruct (ftop F1 up) as [u|] eqn:Eu; [|discriminate].
  intros H. rewrite (IH _ _ _ _ x H). rewrite rmds_replace; [eapply rmds_attach; exact Ea|].
  intros T HT. assert (tid (set_kids u (kid_del (tkids u) (tnm k))) = tid u) as E by (destruct u; reflexivity).
  rewrite E in HT. rewrite (ftop_tid _ _ _ Eu) in HT. rewrite Eu in HT. injection HT as <-. destruct u; reflexivity.
Qed.

Lemma remove_at_mds t q b t' : remove_at t q b = Some t' -> tmds t' = tmds t /\ tid t' = tid t.
Proof.
  destruct t as [i r n sr sp m ks]. destruct q as [|k q']; cbn [remove_at].
  - destruct (kid_get ks b); [|discriminate]. intros H; injection H as <-. auto.
  - match goal with |- match ?x with Some _ => _ | None => _ end = _ -> _ => destruct x end; [|discriminate]. intros H; injection H as <-. auto.
Qed.

(* the receiving root's metadata become the merge of the donor root's into its own; no other root changes *)
Theorem graft_root_mds s recv d o s' :
  graft s recv d o = Some s' ->
  exists dn rn rd rr Md Mr,
    ffind (trees s) d = Some dn /\ ffind (trees s) recv = Some rn /\ tsroot dn = Some rd /\ tsroot rn = Some rr /\
    rmds (trees s) rd = Some Md /\ rmds (trees s) rr = Some Mr /\
    rmds (trees s') rr = Some (fst (md_merge o Md Mr (next_md s))) /\
    next_md s' = snd (md_merge o Md Mr (next_md s)) /\
    (forall x, x <> rr -> rmds (trees s') x = rmds (trees s) x).
Proof.
  unfold graft. destruct (ffind (trees s) d) as [dn|] eqn:Ed; [|discriminate]. destruct (ffind (trees s) recv) as [rn|] eqn:Er; [|discriminate].
  destruct (tsroot dn) as [rd|] eqn:Erd; [|discriminate]. destruct (tsroot rn) as [rr|] eqn:Err; [|discriminate].
  destruct (tspath dn) as [dp|] eqn:Edp; [|discriminate]. destruct (ftop (trees s) rd) as [old_root|] eqn:Et; [|discriminate].
  set (moved := match unsnoc dp with Some (q, b) => match remove_at old_root q b with Some old_root' => attach (freplace_top (trees s) old_root') recv dn | None => None end
                | None => move_kids (trees s) rd recv (tkids old_root) end).
  destruct moved as [F1|] eqn:Em; [|discriminate].
  assert (forall x, rmds F1 x = rmds (trees s) x) as Hsame.
  { intros x. unfold moved in Em. destruct (unsnoc dp) as [[q b]|].
    - destruct (remove_at old_root q b) as [old_root'|] eqn:Erem; [|discriminate]. rewrite (rmds_attach _ _ _ _ x Em).
      destruct (remove_at_mds _ _ _ _ Erem) as (Hm & Hi). apply rmds_replace. intros T HT. rewrite Hi in HT. rewrite (ftop_tid _ _ _ Et) in HT. rewrite Et in HT. injection HT as <-. exact Hm.
    - eapply rmds_move_kids. exact Em. }
  destruct (ftop F1 rr) as [recv_root|] eqn:Etr; [|discriminate].
  destruct (md_merge o (tmds old_root) (tmds recv_root) (next_md s)) as [M fresh] eqn:Emm.
  intros H; injection H as <-. cbn [trees next_md].
  exists dn, rn, rd, rr, (tmds old_root), (tmds recv_root). repeat split; auto.
  - unfold rmds. rewrite Et. reflexivity.
  - rewrite <- Hsame. unfold rmds. rewrite Etr. reflexivity.
  - pose proof (ftop_tid _ _ _ Etr) as Hid. rewrite rmds_replace_set by (rewrite Hid; exact Etr). rewrite Hid, Nat.eqb_refl, Emm. reflexivity.
  - rewrite Emm. reflexivity.
  - intros x Hx. pose proof (ftop_tid _ _ _ Etr) as Hid. rewrite rmds_replace_set by (rewrite Hid; exact Etr). rewrite Hid.
    destruct (Nat.eqb x rr) eqn:E; [apply Nat.eqb_eq in E; congruence|apply Hsame].
Qed.

Lemma ftop_app_fresh F T x : ftop F (tid T) = None -> ftop (F ++ [T]) x = if Nat.eqb x (tid T) then Some T else ftop F x.
Proof.
  induction F as [|t q IH]; cbn [app ftop]; intros H.
  - rewrite (Nat.eqb_sym x). destruct (Nat.eqb (tid T) x); reflexivity.
  - destruct (Nat.eqb (tid t) (tid T)) eqn:E; [discriminate|]. destruct (Nat.eqb (tid t) x) eqn:Ex.
    + apply Nat.eqb_eq in Ex. subst x. rewrite E. reflexivity.
    + apply IH. exact H.
Qed.
Lemma ffind_app_old F G x n : ffind F x = Some n -> ffind (F ++ G) x = Some n.
Proof. induction F as [|t q IH]; [discriminate|]. cbn. destruct (find t x); [auto|exact IH]. Qed.

Lemma find_self t : find t (tid t) = Some t.
Proof. destruct t as [i b n sr sp m ks]. cbn [find tid]. rewrite Nat.eqb_refl. reflexivity. Qed.
Lemma ffind_none_ftop F x : ffind F x = None -> ftop F x = None.
Proof.
  induction F as [|t q IH]; [reflexivity|]. cbn. destruct (find t x) eqn:E; [discriminate|]. intros H.
  destruct (Nat.eqb (tid t) x) eqn:Ex; [apply Nat.eqb_eq in Ex; subst x; rewrite find_self in E; discriminate|apply IH; exact H].
Qed.
Lemma ffind_app_fresh F T : ffind F (tid T) = None -> ffind (F ++ [T]) (tid T) = Some T.
Proof.
  induction F as [|t q IH]; cbn [app ffind]; [rewrite find_self; reflexivity|].
  destruct (find t (tid T)); [discriminate|exact IH].
Qed.

(* cut = graft onto a fresh, empty root *)
Theorem cut_root_mds s d o s' :
  ffind (trees s) (next_id s) = None ->
  cut s d o = Some s' ->
  exists dn rd Md,
    ffind (trees s) d = Some dn /\ tsroot dn = Some rd /\ rmds (trees s) rd = Some Md /\
    rmds (trees s') (next_id s) = Some (fst (md_merge o Md [] (next_md s))) /\
    (forall x, x <> next_id s -> rmds (trees s') x = rmds (trees s) x).
Proof.
  intros Hfresh. pose proof (ffind_none_ftop _ _ Hfresh) as Hfresh'. unfold cut. destruct (ffind (trees s) d) as [dn|] eqn:Ed; [|discriminate].
  destruct (tsroot dn) as [rd|] eqn:Erd; [|discriminate]. destruct (ftop (trees s) rd) as [old_root|] eqn:Et; [|discriminate].
  set (nr := TN (next_id s) true (tnm old_root +++ "_cut_" +++ tnm dn) (Some (next_id s)) (Some []) [] []).
  intros Hg. destruct (graft_root_mds _ _ _ _ _ Hg) as (dn' & rn & rd' & rr & Md & Mr & H1 & H2 & H3 & H4 & H5 & H6 & H7 & H8 & H9).
  cbn [trees next_md] in *.
  assert (forall x, rmds (trees s ++ [nr]) x = if Nat.eqb x (next_id s) then Some [] else rmds (trees s) x) as Hr.
  { intros x. unfold rmds. rewrite (ftop_app_fresh _ nr x Hfresh'). cbn [tid nr]. destruct (Nat.eqb x (next_id s)); reflexivity. }
  rewrite (ffind_app_old _ [nr] _ _ Ed) in H1. injection H1 as <-. rewrite Erd in H3. injection H3 as <-.
  pose proof (ffind_app_fresh (trees s) nr Hfresh) as Hn. cbn [tid nr] in Hn. rewrite Hn in H2. injection H2 as <-.
  cbn [tsroot nr] in H4. injection H4 as <-.
  rewrite Hr in H5, H6. rewrite Nat.eqb_refl in H6. injection H6 as <-.
  assert (rd <> next_id s) as Hne.
  { intros ->. rewrite Hfresh' in Et. discriminate. }
  destruct (Nat.eqb rd (next_id s)) eqn:E; [apply Nat.eqb_eq in E; congruence|].
  exists dn, rd, Md. repeat split; auto.
  intros x Hx. rewrite (H9 x Hx), Hr. destruct (Nat.eqb x (next_id s)) eqn:Ex; [apply Nat.eqb_eq in Ex; congruence|reflexivity].
Qed.
