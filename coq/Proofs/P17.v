(* C17: legacy import is faithful; everything else is refused. *)
From Coq Require Import List Arith Lia.
From Emd Require Import Base.Prelude Model.H5 Model.Emd Model.Legacy Proofs.PTree Proofs.PFault.

Lemma refuse_raw t : exists e, read_other (Raw t) = Err e. Proof. cbn. eauto. Qed.
Lemma refuse_absent : exists e, read_other Absent = Err e. Proof. cbn. eauto. Qed.
(* an HDF5 file that is not EMD 1.0 and holds no group tagged as EMD 0.1 data is refused *)
Lemma refuse_plain_h5 f : is_emd_file f = false -> scan (canon_links f) = [] -> exists e, read_other (H5 f) = Err e.
Proof. intros H1 H2. cbn. rewrite H1. unfold read_legacy. rewrite H2. eauto. Qed.

(* the scan finds every tagged group, at any depth below ordinary (or any) groups *)
Lemma scan_eq a l : scan (G a l) =
  (fix go (l : list (string * obj)) : list (string * obj) :=
     match l with [] => [] | (k, c) :: r => (if is_v01_group c then [(k, c)] else []) ++ scan c ++ go r end) l.
Proof. reflexivity. Qed.
Lemma scan_in_links a l k c x : In (k, c) l -> (x = (k, c) /\ is_v01_group c = true \/ In x (scan c)) -> In x (scan (G a l)).
Proof.
  rewrite scan_eq. induction l as [|[k' c'] r IH]; [intros []|]. intros [Heq|Hin] Hx.
  - injection Heq as -> ->. apply in_app_iff. destruct Hx as [(-> & Hv)|Hx]; [left; rewrite Hv; left; reflexivity|right; apply in_app_iff; left; exact Hx].
  - apply in_app_iff. right. apply in_app_iff. right. apply IH; assumption.
Qed.
Theorem scan_finds_every_data_group o : forall p k g, lookup o (p ++ [k]) = Some g -> is_v01_group g = true -> In (k, g) (scan o).
Proof.
  intros p. revert o. induction p as [|x q IH]; intros o k g Hl Hv; cbn [app lookup] in Hl.
  - destruct o as [a l|]; [|discriminate]. destruct (get l k) as [c|] eqn:Eg; [|discriminate]. cbn in Hl. injection Hl as ->.
    eapply scan_in_links; [apply get_In; exact Eg|left; auto].
  - destruct o as [a l|]; [|discriminate]. destruct (get l x) as [c|] eqn:Eg; [|discriminate].
    eapply scan_in_links; [apply get_In; exact Eg|right; eapply IH; eauto].
Qed.

(* one data group: its fields *)
Lemma read_dims01_spec g : forall shape i ds, read_dims01 g shape i = Ok ds ->
  length ds = length shape /\
  forall j, j < length shape -> exists at_ n t u nm,
    get (olinks g) ("dim" +++ nat_str (S (i + j))) = Some (D at_ [n] t) /\ get at_ "units" = Some (AStr u) /\ get at_ "name" = Some (AStr nm) /\
    nth j ds (LD 0 0 "" "") = LD t n nm u /\ (n = nth j shape 0 \/ n = 2).
Proof.
  induction shape as [|e s IH]; intros i ds; cbn [read_dims01]; [intros H; injection H as <-; split; [reflexivity|intros j Hj; cbn in Hj; lia]|].
  destruct (read_dim01 g i e) as [d|] eqn:Ed; cbn [bind]; [|discriminate]. destruct (read_dims01 g s (S i)) as [r|] eqn:Er; cbn [bind]; [|discriminate].
  intros H; injection H as <-. destruct (IH _ _ Er) as (Hlen & Hall). split; [cbn; rewrite Hlen; reflexivity|].
  intros [|j] Hj.
  - unfold read_dim01 in Ed. rewrite Nat.add_0_r. destruct (get (olinks g) _) as [[|at_ sh t]|]; try discriminate.
    destruct sh as [|n [|? ?]]; try discriminate. destruct (get at_ "units") as [[u|]|] eqn:Eu; try discriminate. destruct (get at_ "name") as [[nm|]|] eqn:En; try discriminate.
    destruct (Nat.eqb n e || Nat.eqb n 2) eqn:El; [|discriminate]. injection Ed as <-. exists at_, n, t, u, nm. repeat split; auto.
    apply Bool.orb_true_iff in El. destruct El as [El|El]; apply Nat.eqb_eq in El; cbn; auto.
  - cbn in Hj. destruct (Hall j ltac:(lia)) as (at_ & n & t & u & nm & H1 & H2 & H3 & H4 & H5). exists at_, n, t, u, nm.
    replace (i + S j) with (S i + j) by lia. repeat split; auto.
Qed.

(* an imported Array: the group's name, the same data, and for every axis the dim vector, name and units of the
   corresponding 1-based dim dataset *)
Theorem group_import_faithful name g a : read_group01 name g = Ok a ->
  la_name a = name /\
  (exists at_, get (olinks g) "data" = Some (D at_ (la_shape a) (la_tok a))) /\
  length (la_dims a) = length (la_shape a) /\
  forall j, j < length (la_shape a) -> exists at_ n t u nm,
    get (olinks g) ("dim" +++ nat_str (S j)) = Some (D at_ [n] t) /\ get at_ "units" = Some (AStr u) /\ get at_ "name" = Some (AStr nm) /\
    nth j (la_dims a) (LD 0 0 "" "") = LD t n nm u /\ (n = nth j (la_shape a) 0 \/ n = 2).
Proof.
  unfold read_group01. destruct (get (olinks g) "data") as [[|at_ shape t]|] eqn:Eg; try discriminate.
  destruct (read_dims01 g shape 0) as [ds|] eqn:Ed; cbn [bind]; [|discriminate]. intros H; injection H as <-. cbn.
  destruct (read_dims01_spec _ _ _ _ Ed) as (Hl & Hall). repeat split; eauto.
Qed.

(* one data group in the file: a single Array *)
Theorem single_group_gives_an_array f k g a : is_emd_file f = false -> scan (canon_links f) = [(k, g)] -> read_group01 k g = Ok a ->
  read_other (H5 f) = Ok (LArray a).
Proof. intros H1 H2 H3. cbn. rewrite H1. unfold read_legacy. rewrite H2. cbn [fold_left bind fst snd]. rewrite H3. reflexivity. Qed.

(* several: a root holding all of them (names pairwise distinct) *)
Lemma la_set_fresh l a : ~ In (la_name a) (map la_name l) -> la_set l a = l ++ [a].
Proof.
  induction l as [|x r IH]; [reflexivity|]. cbn. intros H. destruct (String.eqb (la_name a) (la_name x)) eqn:E.
  - apply String.eqb_eq in E. exfalso. apply H. left. symmetry. exact E.
  - rewrite IH by tauto. reflexivity.
Qed.
Lemma fold_la_set_nodup arrs : NoDup (map la_name arrs) -> forall acc, (forall a, In a arrs -> ~ In (la_name a) (map la_name acc)) ->
  fold_left la_set arrs acc = acc ++ arrs.
Proof.
  induction arrs as [|a r IH]; intros Hnd acc Hd; [cbn; rewrite app_nil_r; reflexivity|]. cbn [fold_left map] in *. inversion Hnd as [|? ? Ha Hr]; subst.
  rewrite la_set_fresh by (apply Hd; left; reflexivity). rewrite IH; [rewrite <- app_assoc; reflexivity|exact Hr|].
  intros b Hb. rewrite map_app. cbn. intros Hi. apply in_app_iff in Hi. destruct Hi as [Hi|[Hi|[]]]; [exact (Hd b (or_intror Hb) Hi)|].
  apply Ha. rewrite Hi. apply in_map. exact Hb.
Qed.
Lemma read_all_groups gs : forall acc arrs,
  fold_left (fun acc kg => do l <- acc; do a <- read_group01 (fst kg) (snd kg); Ok (l ++ [a])) gs (Ok acc) = Ok arrs ->
  exists news, arrs = acc ++ news /\ Forall2 (fun kg a => read_group01 (fst kg) (snd kg) = Ok a) gs news.
Proof.
  induction gs as [|kg r IH]; intros acc arrs H; cbn [fold_left] in H.
  - injection H as <-. exists []. rewrite app_nil_r. split; [reflexivity|constructor].
  - cbn [bind] in H. destruct (read_group01 (fst kg) (snd kg)) as [a|] eqn:Ea; cbn [bind] in H.
    + destruct (IH _ _ H) as (news & -> & Hf). exists (a :: news). rewrite <- app_assoc. split; [reflexivity|constructor; assumption].
    + exfalso. clear -H. induction r as [|x q IHq]; [discriminate|]. cbn in H. auto.
Qed.
Theorem several_groups_give_a_root_holding_all f gs arrs :
  is_emd_file f = false -> scan (canon_links f) = gs -> 2 <= length gs ->
  Forall2 (fun kg a => read_group01 (fst kg) (snd kg) = Ok a) gs arrs -> NoDup (map la_name arrs) ->
  read_other (H5 f) = Ok (LRoot arrs).
Proof.
  intros H1 H2 Hlen Hf Hnd. cbn. rewrite H1. unfold read_legacy. rewrite H2.
  assert (fold_left (fun acc kg => do l <- acc; do a <- read_group01 (fst kg) (snd kg); Ok (l ++ [a])) gs (Ok []) = Ok arrs) as Hfold.
  { assert (forall acc, fold_left (fun acc kg => do l <- acc; do a <- read_group01 (fst kg) (snd kg); Ok (l ++ [a])) gs (Ok acc) = Ok (acc ++ arrs)) as Hg.
    { clear -Hf. induction Hf as [|kg a gs arrs Ha _ IH]; intros acc; [cbn; rewrite app_nil_r; reflexivity|]. cbn [fold_left bind]. rewrite Ha. cbn [bind].
      rewrite IH. rewrite <- app_assoc. reflexivity. }
    apply (Hg []). }
  destruct gs as [|g1 [|g2 r]]; cbn in Hlen; try lia. rewrite Hfold. cbn [bind].
  rewrite (fold_la_set_nodup arrs Hnd []) by (intros a _ []). cbn [app].
  destruct arrs as [|a1 [|a2 ar]]; [inversion Hf|inversion Hf as [|? ? ? ? _ Hf']; inversion Hf'|reflexivity].
Qed.
