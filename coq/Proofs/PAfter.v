(* What a reader sees after an append: the union, node for node (C09 + C01), and the file stays a valid EMD file
   after an append-over as well (C05). *)
From Emd Require Import Base.Prelude Model.H5 Model.Emd Model.Reader Generated.Tables
     Proofs.PTree Proofs.P05 Proofs.P08 Proofs.PRead Proofs.PGen Proofs.PUnion Proofs.PUnionAO Proofs.PWf.

(* ---------- the union of readable trees is readable *)
Lemma rd_tree_merge m : forall n, rd_tree m -> rd_tree n -> rd_tree (merge m n).
Proof.
  induction m as [c nm t r md ks IH] using rnode_ind'. intros n Hm Hn. apply rd_tree_inv in Hm. apply rd_tree_inv in Hn. cbn [rkids] in Hm.
  apply rd_tree_inv. rewrite merge_eq. cbn [rkids]. apply Forall_app. split.
  - apply Forall_forall. intros x Hx. apply in_map_iff in Hx. destruct Hx as (km & <- & Hkm).
    rewrite Forall_forall in IH, Hm, Hn. destruct (Hm km Hkm) as (A & B & C). unfold upd.
    destruct (rget (rkids n) (rname km)) as [kn|] eqn:E; [|repeat split; assumption].
    rewrite rname_merge, rcls_merge. repeat split; try assumption. apply IH; [exact Hkm|exact C|].
    apply rget_in in E. destruct E as (Hin & _). apply (Hn kn Hin).
  - apply Forall_forall. intros x Hx. apply filter_In in Hx. destruct Hx as (Hx & _). rewrite Forall_forall in Hn. apply Hn. exact Hx.
Qed.
Lemma rd_tree_with_mds m mds : rd_tree m -> rd_tree (with_mds m mds).
Proof. destruct m; intros H; exact H. Qed.

(* save(path, root, mode = append) onto the file holding m, then read(path): the union of the two trees *)
Theorem append_then_read c c0 m root md tr :
  In md appendmode -> tr <> Some false ->
  rcls m = CRoot -> rname root = rname m -> ok_tree m -> compat m root ->
  (rmds m <> [] \/ rmds root = []) -> NoDup (keys (rmds root)) ->
  rd_tree m -> rd_tree root -> rname m <> "" -> no_slash (rname m) = true ->
  exists f, write_node c (H5 (whole_file c0 m)) root [] (WA md tr None) = (Ok tt, H5 f) /\
            read (H5 f) None None = Ok (RTree (canon (union_root m root)) RetRoot).
Proof.
  intros Hmd Htr Hc Hname Hok Hcompat Hmdc Hnd Hrm Hrr Hne Hns.
  exists (whole_file c0 (union_root m root)). split.
  - apply append_save_is_union; try assumption. intros k Hk. apply rd_tree_inv in Hrm. rewrite Forall_forall in Hrm. apply (Hrm k Hk).
  - assert (rname (union_root m root) = rname m) as Hn by (unfold union_root; rewrite rname_merge; destruct m; reflexivity).
    destruct (read_whole_file c0 (union_root m root)) as (_ & B & _).
    + unfold union_root. rewrite rcls_merge. destruct m; exact Hc.
    + unfold union_root. apply rd_tree_merge; [apply rd_tree_with_mds; exact Hrm|exact Hrr].
    + rewrite Hn. exact Hne.
    + rewrite Hn. exact Hns.
    + exact B.
Qed.

(* ---------- the file an append-over leaves passes the validator too *)
Lemma plain_tree_rsort_kids km : Forall (fun k => plain (rname k) = true /\ rname k <> "metadatabundle" /\ rcls k <> CRoot /\ plain_tree k) (rkids km) ->
  Forall (fun k => plain (rname k) = true /\ rname k <> "metadatabundle" /\ rcls k <> CRoot /\ plain_tree k) (rsort (rkids km)).
Proof. intros H. apply Forall_forall. intros x Hx. apply (proj1 (rsort_in _ _)) in Hx. rewrite Forall_forall in H. apply H. exact Hx. Qed.

Lemma plain_aom n : forall ks,
  Forall (fun k => plain (rname k) = true /\ rname k <> "metadatabundle" /\ rcls k <> CRoot /\ plain_tree k) ks -> plain_tree n ->
  Forall (fun k => plain (rname k) = true /\ rname k <> "metadatabundle" /\ rcls k <> CRoot /\ plain_tree k) (aom n ks).
Proof.
  induction n as [c nm t r md kn IH] using rnode_ind'. intros ks Hks Hn. apply plain_tree_inv in Hn. cbn [rkids] in Hn.
  rewrite aom_eq. cbn [rkids]. apply Forall_app. split.
  - apply Forall_forall. intros x Hx. apply filter_In in Hx. rewrite Forall_forall in Hks. apply Hks. apply Hx.
  - apply Forall_forall. intros x Hx. apply in_map_iff in Hx. destruct Hx as (k & <- & Hk).
    rewrite Forall_forall in IH, Hn, Hks. destruct (Hn k Hk) as (A & B & C & D).
    destruct (rget ks (rname k)) as [km|] eqn:E; [|repeat split; assumption].
    unfold replaced. cbn [rname rcls]. repeat split; try assumption. apply plain_tree_inv. cbn [rkids].
    apply IH; [exact Hk| |exact D]. apply plain_tree_rsort_kids. apply plain_tree_inv.
    apply rget_in in E. destruct E as (Hin & _). apply (Hks km Hin).
Qed.

Theorem wf_after_appendover c c0 m root md tr :
  In md appendovermode -> tr <> Some false ->
  rcls m = CRoot -> rname root = rname m -> rmds root = [] -> compat_ao root (shallow_links m) (rkids m) ->
  plain_tree m -> plain_tree root ->
  exists f, write_node c (H5 (whole_file c0 m)) root [] (WA md tr None) = (Ok tt, H5 f) /\ wf_emd c0 f = true.
Proof.
  intros Hmd Htr Hc Hname Hmds Hcompat Hpm Hpr.
  exists (whole_file c0 (with_kids m (aom root (rkids m)))). split; [apply appendover_save; assumption|].
  apply wf_whole_file; [destruct m; exact Hc|]. apply plain_tree_inv.
  assert (rkids (with_kids m (aom root (rkids m))) = aom root (rkids m)) as -> by (destruct m; reflexivity).
  apply plain_aom; [apply plain_tree_inv; exact Hpm|exact Hpr].
Qed.

(* ---------- files holding several trees pass the validator: successive saves, list saves *)
From Emd Require Import Proofs.PMulti Model.EmdList.
Theorem wf_forest_file c ts : ts <> [] -> Forall (fun t => rcls t = CRoot /\ plain_tree t) ts -> wf_emd c (forest_file c ts) = true.
Proof.
  intros Hne Hts. unfold wf_emd, forest_file.
  change (attr_is (G (header c) (tree_links ts)) "emd_group_type" "file") with true.
  change (get (header c) "version_major") with (Some (AInt 1)). change (get (header c) "version_minor") with (Some (AInt 0)).
  change (has (header c) "UUID") with true.
  change (get (header c) "authoring_program") with (Some (AStr (program c))). change (get (header c) "authoring_user") with (Some (AStr (user c))).
  cbv beta iota. rewrite !String.eqb_refl. cbn [andb].
  assert ((match tree_links ts with [] => true | _ => false end) = false) as -> by (destruct ts; [congruence|reflexivity]). cbn [negb andb].
  apply forallb_forall. intros kv Hkv. unfold tree_links in Hkv. apply in_map_iff in Hkv. destruct Hkv as (t & <- & Ht). cbn [snd].
  rewrite Forall_forall in Hts. destruct (Hts t Ht) as (Hc & Hp). apply (wf_node_enc t Hp true Hc).
Qed.

Theorem wf_list_save c tops items md tr :
  no_rooted_items items -> nodup_nat (list_unrooted_idx tops items) = true -> In md allmodes ->
  let trees := list_saved tops items ++ list_given tops items in
  trees <> [] -> Forall (fun t => rcls t = CRoot /\ plain_tree t) trees -> Forall ok_tree trees -> NoDup (map rname trees) ->
  exists f, write_list c Absent tops items (WA md tr None) = (Ok tt, H5 f) /\ wf_emd c f = true.
Proof.
  intros Hnr Hidx Hmd trees Hne Hr Hok Hnd. exists (forest_file c trees). split.
  - apply list_save_into_a_fresh_file; try assumption. eapply Forall_impl; [|exact Hr]. cbn. intros a Ha. apply Ha.
  - apply wf_forest_file; assumption.
Qed.

(* ---------- root metadata under append-over: entries of the runtime root replace same-named ones, the others stay *)
Definition md_over (mf mr : list (string * Z)) : list (string * Z) :=
  filter (fun e => negb (mem (fst e) (keys mr))) mf ++ mr.

Lemma del_filter_key (l : list (string * Z)) k : NoDup (keys l) ->
  del l k = filter (fun e => negb (String.eqb (fst e) k)) l.
Proof.
  induction l as [|[k' v] r IH]; intros Hnd; [reflexivity|]. cbn [keys map fst] in Hnd. apply NoDup_cons_iff in Hnd. destruct Hnd as (Hk & Hnd).
  cbn [del filter fst]. destruct (String.eqb k k') eqn:E.
  - apply String.eqb_eq in E. subst k'. rewrite String.eqb_refl. cbn [negb].
    clear IH. induction r as [|[k2 v2] q IHq]; [reflexivity|]. cbn [filter fst]. cbn [keys map fst] in Hk, Hnd.
    destruct (String.eqb k2 k) eqn:E2; [apply String.eqb_eq in E2; exfalso; apply Hk; left; exact E2|]. cbn [negb]. f_equal.
    apply IHq; [intros H; apply Hk; right; exact H|apply NoDup_cons_iff in Hnd; apply Hnd].
  - rewrite String.eqb_sym, E. cbn [negb]. f_equal. apply IH. exact Hnd.
Qed.

Lemma ao_md_fold_gen (mf : list (string * Z)) : NoDup (keys mf) -> forall (S P : list (string * Z)),
  NoDup (keys (P ++ S)) ->
  fold_left (fun acc kt => do b0 <- acc;
               if mem (fst kt) (keys mf)
               then do b1 <- del_link (fst kt) b0; add_link (fst kt) (md_group (snd kt)) b1
               else add_link (fst kt) (md_group (snd kt)) b0) S
            (Ok (bundle (filter (fun e => negb (mem (fst e) (keys P))) mf ++ P)))
  = Ok (bundle (filter (fun e => negb (mem (fst e) (keys (P ++ S)))) mf ++ P ++ S)).
Proof.
  intros Hmf. induction S as [|[k t] r IH]; intros P Hnd; [rewrite !app_nil_r; reflexivity|].
  cbn [fold_left bind fst snd].
  set (L := filter (fun e : string * Z => negb (mem (fst e) (keys P))) mf ++ P).
  assert (~ In k (keys P)) as HkP.
  { unfold keys in Hnd. rewrite map_app in Hnd. apply NoDup_app_inv in Hnd. destruct Hnd as (_ & _ & Hdis). intros H. apply (Hdis _ H). left. reflexivity. }
  assert (NoDup (keys L)) as HndL.
  { subst L. unfold keys. rewrite map_app. apply NoDup_app_intro.
    - clear -Hmf. induction mf as [|[k0 v0] q IHq]; [constructor|]. cbn [keys map fst] in Hmf. apply NoDup_cons_iff in Hmf. destruct Hmf as (Hk0 & Hq).
      cbn [filter fst]. match goal with |- context [if ?b then _ else _] => destruct b end; [|apply IHq; exact Hq]. cbn [map fst]. constructor; [|apply IHq; exact Hq].
      intros H. apply Hk0. apply in_map_iff in H. destruct H as (e & He & Hin). apply filter_In in Hin. apply in_map_iff. exists e. split; [exact He|apply Hin].
    - unfold keys in Hnd. rewrite map_app in Hnd. apply NoDup_app_inv in Hnd. apply Hnd.
    - intros x Hx Hx'. apply in_map_iff in Hx. destruct Hx as (e & <- & Hin). apply filter_In in Hin. destruct Hin as (_ & Hn).
      apply negb_true_iff in Hn. apply mem_false_iff in Hn. exact (Hn Hx'). }
  assert (forall e : string * Z, negb (mem (fst e) (keys (P ++ [(k, t)]))) = negb (mem (fst e) (keys P)) && negb (String.eqb (fst e) k)) as Hpred.
  { intros e. unfold keys. rewrite map_app, mem_app. cbn [map fst mem]. destruct (mem (fst e) (map fst P)); cbn [orb negb andb]; [reflexivity|].
    destruct (String.eqb (fst e) k); reflexivity. }
  assert (filter (fun e : string * Z => negb (mem (fst e) (keys (P ++ [(k, t)])))) mf ++ P ++ [(k, t)]
          = filter (fun e : string * Z => negb (String.eqb (fst e) k)) L ++ [(k, t)]) as Hnext.
  { subst L. rewrite filter_app. rewrite <- app_assoc. f_equal.
    - rewrite (filter_ext _ _ Hpred). clear. induction mf as [|e q IHq]; [reflexivity|]. cbn [filter].
      destruct (negb (mem (fst e) (keys P))); cbn [andb filter]; [destruct (negb (String.eqb (fst e) k)); [f_equal|]; exact IHq|exact IHq].
    - f_equal. clear -HkP. induction P as [|[k0 v0] q IHq]; [reflexivity|]. cbn [filter fst]. cbn [keys map fst] in HkP.
      destruct (String.eqb k0 k) eqn:E; [apply String.eqb_eq in E; exfalso; apply HkP; left; exact E|]. cbn [negb]. f_equal. apply IHq. intros H. apply HkP. right. exact H. }
  replace (P ++ (k, t) :: r) with ((P ++ [(k, t)]) ++ r) in * by (rewrite <- app_assoc; reflexivity).
  rewrite <- (IH (P ++ [(k, t)]) Hnd). f_equal. rewrite Hnext.
  destruct (mem k (keys mf)) eqn:Ek.
  - (* replaced: deleted where it was, added at the end *)
    assert (In k (keys L)) as HkL.
    { subst L. unfold keys. rewrite map_app. apply in_or_app. left. apply mem_In in Ek. apply in_map_iff in Ek. destruct Ek as (e & He & Hin).
      apply in_map_iff. exists e. split; [exact He|]. apply filter_In. split; [exact Hin|]. apply negb_true_iff. apply mem_false_iff. rewrite He. exact HkP. }
    unfold del_link, bundle at 1. cbn [olinks].
    assert (has (map (fun kt : string * Z => (fst kt, md_group (snd kt))) L) k = true) as ->.
    { unfold has. destruct (get (map (fun kt : string * Z => (fst kt, md_group (snd kt))) L) k) eqn:Eg; [reflexivity|]. exfalso.
      apply get_none_notin in Eg. apply Eg. unfold keys. rewrite map_map. exact HkL. }
    cbn [bind]. unfold add_link.
    assert (del (map (fun kt : string * Z => (fst kt, md_group (snd kt))) L) k = map (fun kt => (fst kt, md_group (snd kt))) (filter (fun e => negb (String.eqb (fst e) k)) L)) as ->.
    { rewrite <- (del_filter_key L k HndL). clear. induction L as [|[k0 v0] q IHq]; [reflexivity|]. cbn [map del fst snd]. destruct (String.eqb k k0); [reflexivity|]. cbn [map fst snd]. rewrite IHq. reflexivity. }
    assert (has (map (fun kt : string * Z => (fst kt, md_group (snd kt))) (filter (fun e => negb (String.eqb (fst e) k)) L)) k = false) as ->.
    { apply has_false_iff. unfold keys. rewrite map_map. cbn [fst]. intros H. apply in_map_iff in H. destruct H as (e & He & Hin). apply filter_In in Hin. destruct Hin as (_ & Hn).
      apply negb_true_iff in Hn. rewrite He, String.eqb_refl in Hn. discriminate. }
    unfold bundle. rewrite map_app. reflexivity.
  - (* new *)
    assert (~ In k (keys L)) as HkL.
    { subst L. unfold keys. rewrite map_app. intros H. apply in_app_or in H. destruct H as [H|H]; [|exact (HkP H)].
      apply in_map_iff in H. destruct H as (e & He & Hin). apply filter_In in Hin. apply mem_false_iff in Ek. apply Ek. apply in_map_iff. exists e. split; [exact He|apply Hin]. }
    unfold add_link, bundle at 1.
    assert (has (map (fun kt : string * Z => (fst kt, md_group (snd kt))) L) k = false) as ->.
    { apply has_false_iff. unfold keys. rewrite map_map. exact HkL. }
    assert (filter (fun e : string * Z => negb (String.eqb (fst e) k)) L = L) as ->.
    { clear -HkL. induction L as [|[k0 v0] q IHq]; [reflexivity|]. cbn [filter fst]. cbn [keys map fst] in HkL.
      destruct (String.eqb k0 k) eqn:E; [apply String.eqb_eq in E; exfalso; apply HkL; left; exact E|]. cbn [negb]. f_equal. apply IHq. intros H. apply HkL. right. exact H. }
    unfold bundle. rewrite map_app. reflexivity.
Qed.

Lemma filter_true {A} (l : list A) : filter (fun _ => true) l = l.
Proof. induction l as [|e q IH]; [reflexivity|]. cbn. rewrite IH. reflexivity. Qed.

Lemma append_root_md_over_enc m mr : rmds m <> [] -> NoDup (keys (rmds m)) -> NoDup (keys mr) ->
  append_root_metadata true mr (enc m) = Ok (enc (with_mds m (md_over (rmds m) mr))).
Proof.
  intros Hm Hndm Hnd. unfold append_root_metadata. destruct mr as [|m0 mq] eqn:Emr.
  - unfold md_over. cbn [keys map filter mem negb]. rewrite app_nil_r.
    rewrite filter_true. destruct m; reflexivity.
  - rewrite <- Emr in *. clear Emr m0 mq. rewrite enc_eq. cbn [olinks]. unfold shallow_links.
    destruct (rmds m) as [|x xs] eqn:Ex; [congruence|]. rewrite <- Ex in *. cbn [app]. unfold has. rewrite get_first. cbn [bind].
    unfold in_child. cbn [update_at]. rewrite get_first. cbn [update_at].
    change (olinks (bundle (rmds m))) with (map (fun kt : string * Z => (fst kt, md_group (snd kt))) (rmds m)). rewrite (bundle_existing (rmds m)).
    pose proof (ao_md_fold_gen (rmds m) Hndm mr [] Hnd) as Hf. cbn [keys map mem negb app] in Hf.
    rewrite filter_true in Hf. rewrite app_nil_r in Hf. rewrite Hf. cbn [bind set]. rewrite String.eqb_refl.
    destruct m as [c s t r md ks]. cbn [with_mds rmds rcls rtok rrank rkids] in *. rewrite enc_eq. unfold node_tags, shallow_links. cbn [rcls rmds rtok rrank rkids].
    unfold md_over, keys in *. destruct (filter (fun e : string * Z => negb (mem (fst e) (map fst mr))) md ++ mr) eqn:E; [|reflexivity].
    apply app_eq_nil in E. destruct E as (E1 & E2). subst mr. cbn [map mem negb] in E1. rewrite filter_true in E1. congruence.
Qed.

(* save(path, root, mode = append-over) with root metadata: entries of the runtime root replace the same-named ones *)
Definition over_root (m root : rnode) : rnode :=
  let m' := with_mds m (md_over (rmds m) (rmds root)) in with_kids m' (aom root (rkids m')).

Theorem appendover_save_with_root_metadata c c0 m root md tr :
  In md appendovermode -> tr <> Some false ->
  rcls m = CRoot -> rname root = rname m ->
  rmds m <> [] -> NoDup (keys (rmds m)) -> NoDup (keys (rmds root)) ->
  compat_ao root (shallow_links (with_mds m (md_over (rmds m) (rmds root)))) (rkids m) ->
  write_node c (H5 (whole_file c0 m)) root [] (WA md tr None) = (Ok tt, H5 (whole_file c0 (over_root m root))).
Proof.
  intros Hmd Htr Hc Hname Hm Hndm Hndr Hcompat.
  unfold write_node. cbn [mode emdpath tree slot_exists].
  assert (run_prelude prelude_order md None true = Ok md) as ->.
  { destruct Hmd as [<-|[<-|[<-|[<-|[<-|[]]]]]]; vm_compute; reflexivity. }
  assert (mem md overwritemode = false) as -> by (destruct Hmd as [<-|[<-|[<-|[<-|[<-|[]]]]]]; reflexivity).
  assert (mem md writemode = false) as -> by (destruct Hmd as [<-|[<-|[<-|[<-|[<-|[]]]]]]; reflexivity).
  assert (mem md appendovermode = true) as Hao by (destruct Hmd as [<-|[<-|[<-|[<-|[<-|[]]]]]]; reflexivity).
  cbn [slot_exists negb andb orb]. rewrite andb_false_r. cbn [orb].
  assert (is_emd_file (whole_file c0 m) = true) as -> by (apply fresh_file_detected; exact Hc).
  unfold append_existing. cbn [rwalk emdpath tree]. rewrite Hao.
  rewrite (rootgroups_whole c0 m Hc). rewrite Hname. cbn [mem]. rewrite String.eqb_refl.
  unfold in_child, whole_file. cbn [update_at]. rewrite get_first. cbn [update_at].
  rewrite (append_root_md_over_enc m (rmds root) Hm Hndm Hndr). cbn [bind set]. rewrite String.eqb_refl.
  set (m' := with_mds m (md_over (rmds m) (rmds root))) in *.
  assert (rkids m' = rkids m) as Hk by (destruct m; reflexivity).
  assert (rname (over_root m root) = rname m) as Hn by (destruct m; reflexivity).
  assert (append_branch true root (enc m') = Ok (enc (over_root m root))) as Hab.
  { unfold over_root. fold m'. apply appendover_on_enc. rewrite Hk. exact Hcompat. }
  destruct tr as [[|]|]; try congruence; rewrite get_first; cbn [update_at]; rewrite Hab; cbn [bind set];
    rewrite String.eqb_refl; rewrite Hn; reflexivity.
Qed.

(* ---------- a mixed list (roots, unrooted items, rooted nodes of several roots) saved into a fresh file passes the validator *)
From Emd Require Import Proofs.PMixed.

Lemma add_item_plain tops ts it :
  Forall (fun t => rcls t = CRoot /\ plain_tree t) ts ->
  (forall d, rwalk (nth (fst it) tops dummy) (snd it) = Some d -> plain (rname d) = true /\ rname d <> "metadatabundle" /\ rcls d <> CRoot) ->
  Forall (fun t => rcls t = CRoot /\ plain_tree t) (add_item tops ts it).
Proof.
  intros H Hd. unfold add_item. apply Forall_forall. intros T' HT'. apply in_map_iff in HT'. destruct HT' as (T & <- & HT).
  rewrite Forall_forall in H. destruct (H T HT) as (Hc & Hp).
  destruct (String.eqb (rname T) (rname (nth (fst it) tops dummy))); [|split; assumption].
  destruct (rwalk (nth (fst it) tops dummy) (snd it)) as [d|] eqn:Ew; [|split; assumption].
  destruct (Hd d eq_refl) as (A & B & C).
  split; [destruct T; exact Hc|]. apply plain_tree_inv. apply plain_tree_inv in Hp.
  assert (rkids (with_kids T (rkids T ++ [with_kids d []])) = rkids T ++ [with_kids d []]) as -> by (destruct T; reflexivity).
  apply Forall_app. split; [exact Hp|]. constructor; [|constructor].
  assert (rname (with_kids d []) = rname d /\ rcls (with_kids d []) = rcls d) as (-> & ->) by (destruct d; split; reflexivity).
  repeat (split; [assumption|]). apply plain_tree_inv. destruct d; constructor.
Qed.

Theorem wf_mixed_list_save c tops items md tr :
  nodup_nat (list_unrooted_idx tops items) = true -> list_conflict tops items = false -> In md allmodes ->
  let base := (list_saved tops items ++ list_given tops items) ++ list_copies tops items in
  base <> [] -> Forall (fun t => rcls t = CRoot /\ plain_tree t) base -> Forall ok_tree base -> NoDup (map rname base) ->
  Forall (fun it => let r := nth (fst it) tops dummy in
            rcls r = CRoot /\ rname r <> "" /\ no_slash (rname r) = true /\ NoDup (keys (rmds r)) /\
            exists x data, snd it = [x] /\ rwalk r [x] = Some data /\ rname data = x /\ x <> "metadatabundle" /\
                           plain x = true /\ rcls data <> CRoot) (list_rooted items) ->
  NoDup (map (fun it => (rname (nth (fst it) tops dummy), snd it)) (list_rooted items)) ->
  exists f, write_list c Absent tops items (WA md tr None) = (Ok tt, H5 f) /\ wf_emd c f = true.
Proof.
  intros Hidx Hconf Hmd base Hne Hr Hok Hnd Hitems Hpairs.
  exists (forest_file c (fold_left (add_item tops) (list_rooted items) base)). split.
  - apply mixed_list_into_a_fresh_file; try assumption.
    + eapply Forall_impl; [|exact Hr]. cbn. intros a Ha. apply Ha.
    + eapply Forall_impl; [|exact Hitems]. cbv zeta. intros it (A & B & C & D & x & data & E1 & E2 & E3 & E4 & _). repeat (split; [assumption|]). exists x, data. repeat split; assumption.
  - apply wf_forest_file.
    + assert (forall its ts, ts <> [] -> fold_left (add_item tops) its ts <> []) as Hnn.
      { induction its as [|it q IH]; intros ts Hts; [exact Hts|]. cbn [fold_left]. apply IH. unfold add_item. destruct ts; [congruence|discriminate]. }
      apply Hnn. exact Hne.
    + assert (forall its ts, Forall (fun t => rcls t = CRoot /\ plain_tree t) ts ->
                (forall it, In it its -> forall d, rwalk (nth (fst it) tops dummy) (snd it) = Some d -> plain (rname d) = true /\ rname d <> "metadatabundle" /\ rcls d <> CRoot) ->
                Forall (fun t => rcls t = CRoot /\ plain_tree t) (fold_left (add_item tops) its ts)) as Hall.
      { induction its as [|it q IH]; intros ts Hts Hd; [exact Hts|]. cbn [fold_left]. apply IH; [apply add_item_plain; [exact Hts|apply Hd; left; reflexivity]|].
        intros it2 Hit2. apply Hd. right. exact Hit2. }
      apply Hall; [exact Hr|]. intros it Hit d Hw. rewrite Forall_forall in Hitems.
      destruct (Hitems it Hit) as (_ & _ & _ & _ & x & data & E1 & E2 & E3 & E4 & E5 & E6). assert (Hw2 : rwalk (nth (fst it) tops dummy) [x] = Some d) by (rewrite <- E1; exact Hw). assert (Some data = Some d) as Hsd by (transitivity (rwalk (nth (fst it) tops dummy) [x]); [symmetry; exact E2|exact Hw2]). injection Hsd as <-. rewrite E3. repeat split; assumption.
Qed.

Theorem wf_mixed_list_into_an_existing_file c tops items md tr ts :
  In md (appendmode ++ appendovermode) -> ts <> [] -> Forall (fun t => rcls t = CRoot /\ plain_tree t) ts ->
  nodup_nat (list_unrooted_idx tops items) = true -> list_conflict tops items = false ->
  let base := (list_saved tops items ++ list_given tops items) ++ list_copies tops items in
  Forall (fun t => rcls t = CRoot /\ plain_tree t) base -> Forall ok_tree base -> NoDup (map rname (ts ++ base)) ->
  Forall (fun it => let r := nth (fst it) tops dummy in
            rcls r = CRoot /\ rname r <> "" /\ no_slash (rname r) = true /\ NoDup (keys (rmds r)) /\
            exists x data, snd it = [x] /\ rwalk r [x] = Some data /\ rname data = x /\ x <> "metadatabundle" /\
                           plain x = true /\ rcls data <> CRoot) (list_rooted items) ->
  NoDup (map (fun it => (rname (nth (fst it) tops dummy), snd it)) (list_rooted items)) ->
  exists f, write_list c (H5 (forest_file c ts)) tops items (WA md tr None) = (Ok tt, H5 f) /\ wf_emd c f = true.
Proof.
  intros Hmd Hts Hrts Hidx Hconf base Hr Hok Hnd Hitems Hpairs.
  exists (forest_file c (fold_left (add_item tops) (list_rooted items) (ts ++ base))). split.
  - apply mixed_list_into_an_existing_file; try assumption.
    + eapply Forall_impl; [|exact Hrts]. cbn. intros a Ha. apply Ha.
    + eapply Forall_impl; [|exact Hr]. cbn. intros a Ha. apply Ha.
    + eapply Forall_impl; [|exact Hitems]. cbv zeta. intros it (A & B & C & D & x & data & E1 & E2 & E3 & E4 & _). repeat (split; [assumption|]). exists x, data. repeat split; assumption.
  - apply wf_forest_file.
    + assert (forall its l, l <> [] -> fold_left (add_item tops) its l <> []) as Hnn.
      { induction its as [|it q IH]; intros l Hl; [exact Hl|]. cbn [fold_left]. apply IH. unfold add_item. destruct l; [congruence|discriminate]. }
      apply Hnn. destruct ts; [congruence|discriminate].
    + assert (forall its l, Forall (fun t => rcls t = CRoot /\ plain_tree t) l ->
                (forall it, In it its -> forall d, rwalk (nth (fst it) tops dummy) (snd it) = Some d -> plain (rname d) = true /\ rname d <> "metadatabundle" /\ rcls d <> CRoot) ->
                Forall (fun t => rcls t = CRoot /\ plain_tree t) (fold_left (add_item tops) its l)) as Hall.
      { induction its as [|it q IH]; intros l Hl Hd; [exact Hl|]. cbn [fold_left]. apply IH; [apply add_item_plain; [exact Hl|apply Hd; left; reflexivity]|].
        intros it2 Hit2. apply Hd. right. exact Hit2. }
      apply Hall; [apply Forall_app; split; assumption|]. intros it Hit d Hw. rewrite Forall_forall in Hitems.
      destruct (Hitems it Hit) as (_ & _ & _ & _ & x & data & E1 & E2 & E3 & E4 & E5 & E6).
      assert (Hw2 : rwalk (nth (fst it) tops dummy) [x] = Some d) by (rewrite <- E1; exact Hw).
      assert (Some data = Some d) as Hsd by (transitivity (rwalk (nth (fst it) tops dummy) [x]); [symmetry; exact E2|exact Hw2]). injection Hsd as <-.
      rewrite E3. repeat split; assumption.
Qed.

(* ---------- after any history of whole-tree saves the file passes the validator *)
Lemma happly_plain ts s :
  Forall (fun t => rcls t = CRoot /\ plain_tree t) ts -> rcls (hroot s) = CRoot -> plain_tree (hroot s) ->
  Forall (fun t => rcls t = CRoot /\ plain_tree t) (happly ts s).
Proof.
  intros Hts Hc Hp. destruct s as [r md tr|r md tr|r md tr]; cbn [happly hroot] in *.
  - apply Forall_app. split; [exact Hts|]. repeat constructor; assumption.
  - apply Forall_forall. intros t' Ht'. apply in_map_iff in Ht'. destruct Ht' as (t & <- & Ht). rewrite Forall_forall in Hts. destruct (Hts t Ht) as (A & B).
    destruct (String.eqb (rname t) (rname r)); [|split; assumption]. split; [unfold union_root; destruct t; exact A|].
    unfold union_root. apply plain_tree_merge; [apply plain_tree_with_mds; exact B|exact Hp].
  - apply Forall_forall. intros t' Ht'. apply in_map_iff in Ht'. destruct Ht' as (t & <- & Ht). rewrite Forall_forall in Hts. destruct (Hts t Ht) as (A & B).
    destruct (String.eqb (rname t) (rname r)); [|split; assumption]. split; [destruct t; exact A|].
    apply plain_tree_inv. assert (rkids (with_kids t (aom r (rkids t))) = aom r (rkids t)) as -> by (destruct t; reflexivity).
    apply plain_aom; [apply plain_tree_inv; exact B|exact Hp].
Qed.

Theorem wf_after_any_history c c0 steps ts :
  ts <> [] -> Forall (fun t => rcls t = CRoot /\ plain_tree t) ts -> NoDup (map rname ts) -> hgood ts steps ->
  Forall (fun st => rcls (hroot st) = CRoot /\ plain_tree (hroot st)) steps ->
  exists f, fold_left (fun s st => snd (write_node c s (hroot st) [] (WA (hmode st) (htree st) None))) steps (H5 (forest_file c0 ts)) = H5 f /\
            wf_emd c0 f = true.
Proof.
  intros Hne Hts Hnd Hg Hsteps. exists (forest_file c0 (fold_left happly steps ts)). split.
  - apply any_history_of_whole_tree_saves; try assumption. eapply Forall_impl; [|exact Hts]. cbn. intros a Ha. apply Ha.
  - apply wf_forest_file.
    + clear -Hne. revert ts Hne. induction steps as [|s rest IH]; intros ts Hne; [exact Hne|]. cbn [fold_left]. apply IH.
      destruct s; cbn [happly]; destruct ts; try congruence; discriminate.
    + clear -Hts Hsteps. revert ts Hts. induction steps as [|s rest IH]; intros ts Hts; [exact Hts|]. cbn [fold_left].
      inversion Hsteps as [|? ? (A & B) Hrest]; subst. apply IH; [exact Hrest|]. apply happly_plain; assumption.
Qed.

(* ---------- ... and every tree of the file is read back by its root name as the tree the history computes *)
Lemma rd_aom n : forall ks,
  Forall (fun k => rcls k <> CRoot /\ rname k <> "metadatabundle" /\ rd_tree k) ks -> rd_tree n ->
  Forall (fun k => rcls k <> CRoot /\ rname k <> "metadatabundle" /\ rd_tree k) (aom n ks).
Proof.
  induction n as [c nm t r md kn IH] using rnode_ind'. intros ks Hks Hn. apply rd_tree_inv in Hn. cbn [rkids] in Hn.
  rewrite aom_eq. cbn [rkids]. apply Forall_app. split.
  - apply Forall_forall. intros x Hx. apply filter_In in Hx. rewrite Forall_forall in Hks. apply Hks. apply Hx.
  - apply Forall_forall. intros x Hx. apply in_map_iff in Hx. destruct Hx as (k & <- & Hk).
    rewrite Forall_forall in IH, Hn, Hks. destruct (Hn k Hk) as (A & B & C).
    destruct (rget ks (rname k)) as [km|] eqn:E; [|repeat split; assumption].
    unfold replaced. cbn [rname rcls]. repeat split; try assumption. apply rd_tree_inv. cbn [rkids].
    apply IH; [exact Hk| |exact C].
    apply rget_in in E. destruct E as (Hin & _). destruct (Hks km Hin) as (_ & _ & Hkm). apply rd_tree_inv in Hkm.
    apply Forall_forall. intros y Hy. apply (proj1 (rsort_in _ _)) in Hy. rewrite Forall_forall in Hkm. apply Hkm. exact Hy.
Qed.

Lemma happly_rd ts s :
  Forall rd_tree ts -> rd_tree (hroot s) -> Forall rd_tree (happly ts s).
Proof.
  intros Hts Hp. destruct s as [r md tr|r md tr|r md tr]; cbn [happly hroot] in *.
  - apply Forall_app. split; [exact Hts|]. repeat constructor; assumption.
  - apply Forall_forall. intros t' Ht'. apply in_map_iff in Ht'. destruct Ht' as (t & <- & Ht). rewrite Forall_forall in Hts.
    destruct (String.eqb (rname t) (rname r)); [|apply Hts; exact Ht].
    unfold union_root. apply rd_tree_merge; [apply rd_tree_with_mds; apply Hts; exact Ht|exact Hp].
  - apply Forall_forall. intros t' Ht'. apply in_map_iff in Ht'. destruct Ht' as (t & <- & Ht). rewrite Forall_forall in Hts.
    destruct (String.eqb (rname t) (rname r)); [|apply Hts; exact Ht].
    apply rd_tree_inv. assert (rkids (with_kids t (aom r (rkids t))) = aom r (rkids t)) as -> by (destruct t; reflexivity).
    apply rd_aom; [apply rd_tree_inv; apply Hts; exact Ht|exact Hp].
Qed.

Lemma happly_invariants ts s : ts <> [] -> Forall (fun t => rcls t = CRoot) ts -> NoDup (map rname ts) -> hok ts s ->
  happly ts s <> [] /\ Forall (fun t => rcls t = CRoot) (happly ts s) /\ NoDup (map rname (happly ts s)).
Proof. intros A B C D. destruct (hstep_ok (CFG "" "") (CFG "" "") ts s A B C D) as (_ & X). exact X. Qed.

Theorem history_then_read c c0 steps ts t :
  ts <> [] -> Forall (fun t => rcls t = CRoot) ts -> NoDup (map rname ts) -> hgood ts steps ->
  Forall rd_tree ts -> Forall (fun st => rd_tree (hroot st)) steps ->
  In t (fold_left happly steps ts) -> rname t <> "" -> no_slash (rname t) = true ->
  exists f, fold_left (fun s st => snd (write_node c s (hroot st) [] (WA (hmode st) (htree st) None))) steps (H5 (forest_file c0 ts)) = H5 f /\
            read (H5 f) (Some (rname t)) (Some true) = Ok (RTree (canon t) (ret_of (canon t))).
Proof.
  intros Hne Hr Hnd Hg Hrd Hsteps Hin Hn1 Hn2. exists (forest_file c0 (fold_left happly steps ts)). split.
  - apply any_history_of_whole_tree_saves; assumption.
  - assert (forall steps ts, ts <> [] -> Forall (fun t => rcls t = CRoot) ts -> NoDup (map rname ts) -> hgood ts steps ->
              Forall rd_tree ts -> Forall (fun st => rd_tree (hroot st)) steps ->
              Forall (fun t => rcls t = CRoot) (fold_left happly steps ts) /\ NoDup (map rname (fold_left happly steps ts)) /\ Forall rd_tree (fold_left happly steps ts)) as Hall.
    { clear. induction steps as [|s rest IH]; intros ts Hne Hr Hnd Hg Hrd Hsteps; [repeat split; assumption|].
      destruct Hg as (Hs & Hrest). cbn [fold_left]. inversion Hsteps as [|? ? Hs1 Hs2]; subst.
      destruct (happly_invariants ts s Hne Hr Hnd Hs) as (A & B & C). apply IH; try assumption. apply happly_rd; assumption. }
    destruct (Hall steps ts Hne Hr Hnd Hg Hrd Hsteps) as (A & B & C). rewrite Forall_forall in C.
    destruct (read_tree_by_name c0 (fold_left happly steps ts) t B Hin A (C t Hin) Hn1 Hn2) as (R & _). exact R.
Qed.

(* ... and a read without a path reports exactly the root names the history leaves (two trees or more) *)
From Coq Require Import Permutation Lia.
Lemma happly_names_perm ts s : hok ts s ->
  Permutation (map rname (happly ts s)) (map rname ts ++ match s with HNew r _ _ => [rname r] | _ => [] end).
Proof.
  intros _. destruct s as [r md tr|r md tr|r md tr]; cbn [happly].
  - rewrite map_app. apply Permutation_refl.
  - rewrite app_nil_r. rewrite map_map. erewrite map_ext; [apply Permutation_refl|].
    intros t. cbn. destruct (String.eqb (rname t) (rname r)); [apply rname_union_root|reflexivity].
  - rewrite app_nil_r. rewrite map_map. erewrite map_ext; [apply Permutation_refl|].
    intros t. cbn. destruct (String.eqb (rname t) (rname r)); [destruct t; reflexivity|reflexivity].
Qed.

Theorem history_then_read_names c c0 steps ts tr :
  ts <> [] -> Forall (fun t => rcls t = CRoot) ts -> NoDup (map rname ts) -> hgood ts steps ->
  2 <= length (fold_left happly steps ts) ->
  exists f names, fold_left (fun s st => snd (write_node c s (hroot st) [] (WA (hmode st) (htree st) None))) steps (H5 (forest_file c0 ts)) = H5 f /\
                  read (H5 f) None tr = Ok (RNames names) /\ Permutation names (map rname (fold_left happly steps ts)).
Proof.
  intros Hne Hr Hnd Hg Hlen. exists (forest_file c0 (fold_left happly steps ts)).
  assert (forall steps ts, ts <> [] -> Forall (fun t => rcls t = CRoot) ts -> NoDup (map rname ts) -> hgood ts steps ->
            Forall (fun t => rcls t = CRoot) (fold_left happly steps ts)) as Hall.
  { clear. induction steps as [|s rest IH]; intros ts Hne Hr Hnd Hg; [exact Hr|]. destruct Hg as (Hs & Hrest). cbn [fold_left].
    destruct (happly_invariants ts s Hne Hr Hnd Hs) as (A & B & C). apply IH; assumption. }
  pose proof (Hall steps ts Hne Hr Hnd Hg) as Hrf.
  destruct (fold_left happly steps ts) as [|t1 [|t2 rest]] eqn:E; [cbn in Hlen; lia|cbn in Hlen; lia|].
  destruct (read_reports_root_names c0 (t1 :: t2 :: rest) tr t1 t2 rest eq_refl Hrf) as (names & Hread & Hperm).
  exists names. split; [|split; [exact Hread|exact Hperm]].
  rewrite <- E. apply any_history_of_whole_tree_saves; assumption.
Qed.
