(* C09: root metadata first.  A save into an existing tree with a runtime root that carries metadata is the metadata merge on
   the file root followed by the same save with a metadata-free root -- so the theorems stated for roots without metadata
   apply to every root.  md_of ao = md_union (append: file entries win) / md_over (append-over: runtime entries replace). *)
From Emd Require Import Base.Prelude Model.H5 Model.Emd Model.Reader Generated.Tables Proofs.PTree Proofs.PAppend Proofs.PRead
     Proofs.P05 Proofs.PUnion Proofs.PUnionAO Proofs.PTarget Proofs.PAfter.

Definition md_of (ao : bool) (mf mr : list (string * Z)) : list (string * Z) := if ao then md_over mf mr else md_union mf mr.

Lemma root_md_step c0 m ao mr : rmds m <> [] -> NoDup (keys (rmds m)) -> NoDup (keys mr) ->
  (forall k, In k (rkids m) -> rname k <> "metadatabundle") ->
  in_child (rname m) (append_root_metadata ao mr) (whole_file c0 m) = Ok (whole_file c0 (with_mds m (md_of ao (rmds m) mr))).
Proof.
  intros Hm Hndm Hnd Hk. unfold in_child, whole_file. cbn [update_at]. rewrite get_first. cbn [update_at].
  assert (append_root_metadata ao mr (enc m) = Ok (enc (with_mds m (md_of ao (rmds m) mr)))) as ->.
  { destruct ao; [apply append_root_md_over_enc|apply append_root_md_enc]; assumption. }
  cbn [bind set]. rewrite String.eqb_refl. destruct m; reflexivity.
Qed.

Lemma rwalk_with_mds m mds : forall p, p <> [] -> rwalk (with_mds m mds) p = rwalk m p.
Proof. intros p Hp. destruct m as [c s t r md ks]. destruct p; [congruence|reflexivity]. Qed.

Lemma md_of_nonempty ao mf mr : mf <> [] -> md_of ao mf mr <> [].
Proof.
  intros Hm. unfold md_of, md_over, md_union. destruct ao.
  - destruct mr as [|e q]; [cbn [keys map mem negb]; rewrite filter_true, app_nil_r; exact Hm|]. intros H. apply app_eq_nil in H. destruct H as (_ & H). discriminate.
  - destruct mf; [congruence|discriminate].
Qed.

Theorem root_metadata_first c0 m root tp md tr ep :
  rcls m = CRoot -> rname root = rname m -> ok_tree m ->
  rmds m <> [] -> NoDup (keys (rmds m)) -> NoDup (keys (rmds root)) ->
  (match ep with
   | None => True
   | Some e => exists p k, e = join_slash (rname m :: p) /\ rwalk m p = Some k /\ Forall (fun s => s <> "" /\ no_slash s = true) (rname m :: p)
   end) ->
  append_existing root tp (WA md tr ep) md (whole_file c0 m)
  = append_existing (with_mds root []) tp (WA md tr ep) md
      (whole_file c0 (with_mds m (md_of (mem md appendovermode) (rmds m) (rmds root)))).
Proof.
  intros Hc Hname Hok Hm Hndm Hnd Hep.
  set (m' := with_mds m (md_of (mem md appendovermode) (rmds m) (rmds root))).
  assert (rname m' = rname m) as Hn' by (destruct m; reflexivity).
  assert (rcls m' = CRoot) as Hc' by (destruct m; exact Hc).
  assert (ok_tree m') as Hok'.
  { apply ok_tree_with_mds; [|exact Hok]. split; [intros E; congruence|intros E; exfalso; exact (md_of_nonempty _ _ _ Hm E)]. }
  assert (forall k, In k (rkids m) -> rname k <> "metadatabundle") as Hk.
  { intros k Hin E. apply ok_tree_inv in Hok. destruct Hok as (_ & Hkb & _). apply (Hkb k Hin). rewrite E.
    unfold shallow_links. destruct (rmds m); [congruence|]. left. reflexivity. }
  pose proof (root_md_step c0 m (mem md appendovermode) (rmds root) Hm Hndm Hnd Hk) as Hstep. fold m' in Hstep.
  assert (in_child (rname m) (append_root_metadata (mem md appendovermode) []) (whole_file c0 m') = Ok (whole_file c0 m')) as Hnil.
  { unfold in_child, whole_file. cbn [update_at]. rewrite Hn', get_first. destruct (mem md appendovermode); cbn [update_at append_root_metadata bind set]; rewrite String.eqb_refl; reflexivity. }
  unfold append_existing.
  assert (rname (with_mds root []) = rname root /\ rmds (with_mds root []) = []) as (-> & ->) by (destruct root; split; reflexivity).
  rewrite (rootgroups_whole c0 m Hc), (rootgroups_whole c0 m' Hc'). rewrite Hn', Hname. cbn [mem]. rewrite String.eqb_refl.
  cbn [emdpath tree].
  destruct tp as [|x q].
  - (* the whole tree *)
    cbn [rwalk].
    destruct ep as [e|].
    + destruct Hep as (p & k & -> & Hwp & Hnames).
      inversion Hnames as [|? ? (Hrne & Hrns) Hnp]; subst.
      assert (Forall (fun s => no_slash s = true) (rname m :: p)) as Hns.
      { constructor; [exact Hrns|]. eapply Forall_impl; [|exact Hnp]. cbn. intros a Ha. apply Ha. }
      destruct (join_slash (rname m :: p)) eqn:Ej; [reflexivity|]. rewrite <- Ej.
      rewrite (parse_emdpath_join (rname m) p Hrne Hns).
      rewrite (emd_target_enc c0 m p k Hok Hwp Hnp).
      assert (rwalk m' p = Some (match p with [] => m' | _ => k end)) as Hwp'.
      { destruct p; [reflexivity|]. unfold m'. rewrite rwalk_with_mds by discriminate. exact Hwp. }
      pose proof (emd_target_enc c0 m' p _ Hok' Hwp' Hnp) as Ht'. rewrite Hn' in Ht'. rewrite Ht'.
      cbn [bind]. rewrite Hstep, Hnil. cbn [bind tl].
      destruct root as [rc rs rt rr rm rk]. cbn [with_mds rwalk]. destruct p; reflexivity.
    + rewrite Hstep, Hnil. cbn [bind]. destruct root as [rc rs rt rr rm rk]. cbn [with_mds]. destruct tr as [[|]|]; reflexivity.
  - rewrite rwalk_with_mds by discriminate.
    destruct (rwalk root (x :: q)) as [data|]; [|reflexivity].
    destruct ep as [e|].
    + destruct Hep as (p & k & -> & Hwp & Hnames).
      inversion Hnames as [|? ? (Hrne & Hrns) Hnp]; subst.
      assert (Forall (fun s => no_slash s = true) (rname m :: p)) as Hns.
      { constructor; [exact Hrns|]. eapply Forall_impl; [|exact Hnp]. cbn. intros a Ha. apply Ha. }
      destruct (join_slash (rname m :: p)) eqn:Ej; [reflexivity|]. rewrite <- Ej.
      rewrite (parse_emdpath_join (rname m) p Hrne Hns).
      rewrite (emd_target_enc c0 m p k Hok Hwp Hnp).
      assert (rwalk m' p = Some (match p with [] => m' | _ => k end)) as Hwp'.
      { destruct p; [reflexivity|]. unfold m'. rewrite rwalk_with_mds by discriminate. exact Hwp. }
      pose proof (emd_target_enc c0 m' p _ Hok' Hwp' Hnp) as Ht'. rewrite Hn' in Ht'. rewrite Ht'.
      cbn [bind]. rewrite Hstep, Hnil. reflexivity.
    + rewrite Hstep, Hnil. reflexivity.
Qed.
