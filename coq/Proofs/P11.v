(* C11: mode handling of write(), over the generated mode tables and prelude order. *)
From Emd Require Import Base.Prelude Model.H5 Model.Emd Model.EmdList Generated.Tables.

Definition with_mode (a : wargs) (m : string) : wargs := WA m (tree a) (emdpath a).

Lemma mem_cases s l : mem s l = true -> In s l.
Proof. apply mem_In. Qed.

Ltac mode_cases H :=
  apply mem_In in H; cbn in H;
  repeat (destruct H as [H|H]; [subst|]); try contradiction.

(* write mode onto anything that exists: refused, nothing touched *)
Lemma write_exists_refused c s root tp a :
  mem (mode a) writemode = true -> emdpath a = None -> s <> Absent ->
  write_node c s root tp a = (Err EAssert, s).
Proof.
  intros Hm He Hs. destruct a as [m t e]. cbn [mode emdpath tree] in *. subst e.
  assert (slot_exists s = true) as Hx by (destruct s; [congruence|reflexivity|reflexivity]).
  unfold write_node. cbn [mode emdpath]. mode_cases Hm; cbn; rewrite Hx; reflexivity.
Qed.

(* an unknown mode: refused before anything is touched, whatever the other arguments *)
Lemma unknown_mode_refused c s root tp a :
  mem (mode a) allmodes = false -> exists e, write_node c s root tp a = (Err e, s).
Proof.
  intros Hm. destruct a as [m t e]. cbn [mode emdpath tree] in *. unfold write_node. cbn [mode emdpath].
  unfold prelude_order. cbn [run_prelude]. rewrite Hm. eexists. reflexivity.
Qed.
Lemma unknown_mode_refused_list c s tops items a :
  mem (mode a) allmodes = false -> exists e, write_list c s tops items a = (Err e, s).
Proof.
  intros Hm. destruct a as [m t e]. cbn [mode emdpath tree] in *. unfold write_list. cbn [mode emdpath].
  unfold prelude_order. cbn [run_prelude]. rewrite Hm. eexists. reflexivity.
Qed.

(* overwrite = the same save into a fresh path *)
Lemma overwrite_is_fresh c s root tp a :
  mem (mode a) overwritemode = true -> emdpath a = None ->
  write_node c s root tp a = write_node c Absent root tp (with_mode a "w").
Proof.
  intros Hm He. destruct a as [m t e]. cbn [mode emdpath tree] in *. subst e. unfold write_node, with_mode. cbn [mode emdpath tree].
  mode_cases Hm; cbn; destruct (fresh_file c root tp t); reflexivity.
Qed.

(* append / append-over to a path that does not exist = write *)
Lemma append_absent_is_write c root tp a :
  mem (mode a) appendmode = true \/ mem (mode a) appendovermode = true ->
  write_node c Absent root tp a = write_node c Absent root tp (with_mode a "w").
Proof.
  intros Hm. destruct a as [m t e]. cbn [mode emdpath tree] in *. unfold write_node, with_mode. cbn [mode emdpath tree].
  destruct Hm as [Hm|Hm]; mode_cases Hm; destruct e; cbn; destruct (fresh_file c root tp t); reflexivity.
Qed.

(* with an emdpath, write and overwrite spellings behave as append (documented) *)
Lemma emdpath_turns_write_into_append c s root tp a ep :
  emdpath a = Some ep -> mem (mode a) writemode = true \/ mem (mode a) overwritemode = true ->
  write_node c s root tp a = write_node c s root tp (with_mode a "a").
Proof.
  intros He Hm. destruct a as [m t e]. cbn [mode emdpath tree] in *. subst e. unfold write_node, with_mode. cbn [mode emdpath tree].
  destruct Hm as [Hm|Hm]; mode_cases Hm; reflexivity.
Qed.
