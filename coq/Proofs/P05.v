(* C05: layout facts of what the writer produces. *)
From Emd Require Import Base.Prelude Model.H5 Model.Emd Generated.Tables Proofs.PTree.

Lemma gtype_valid c : mem (gtype c) EMD_group_types = true.
Proof. destruct c; vm_compute; reflexivity. Qed.
Lemma gtype_data c : c <> CRoot -> mem (gtype c) EMD_data_group_types = true.
Proof. destruct c; intros H; try congruence; vm_compute; reflexivity. Qed.

(* every node group carries a valid EMD group type and its Python class *)
Lemma node_group_tagged root p k : ok_tree root -> rwalk root p = Some k ->
  exists g, lookup (enc root) p = Some g /\
    attr_str g "emd_group_type" = Some (gtype (rcls k)) /\ mem (gtype (rcls k)) EMD_group_types = true /\
    attr_str g "python_class" = Some (pyclass (rcls k)).
Proof.
  intros Hok Hw. exists (enc k). split; [apply lookup_enc; assumption|]. destruct k as [c nm t r m ks].
  split; [reflexivity|]. split; [apply gtype_valid|reflexivity].
Qed.

(* metadata sits in a tagged bundle of tagged, typed items *)
Lemma bundle_wellformed m :
  attr_is (bundle m) "emd_group_type" "metadatabundle" = true /\
  forallb (fun kv => attr_is (snd kv) "emd_group_type" "metadata" && has (oattrs (snd kv)) "python_class"
                     && forallb (fun it => has (oattrs (snd it)) "type") (olinks (snd kv))) (olinks (bundle m)) = true.
Proof.
  split; [reflexivity|]. unfold bundle. cbn [olinks]. induction m as [|[k t] r IH]; [reflexivity|]. cbn [map forallb]. rewrite IH. reflexivity.
Qed.
Lemma node_bundle n : rmds n <> [] -> get (olinks (enc n)) "metadatabundle" = Some (bundle (rmds n)).
Proof.
  intros H. rewrite enc_eq. cbn [olinks]. unfold shallow_links. destruct (rmds n) as [|x r] eqn:E; [congruence|]. reflexivity.
Qed.

(* the header written on creation passes the package detector; version 1.0.0 *)
Lemma fresh_file_detected c root : is_emd_file (G (header c) [(rname root, enc root)]) = true <-> rcls root = CRoot.
Proof.
  unfold is_emd_file. assert (forallb (htest_ok (G (header c) [(rname root, enc root)])) header_tested = true) as -> by (vm_compute; reflexivity).
  cbn [andb]. unfold rootgroups. cbn [olinks ksort fold_right kinsert filter snd]. destruct root as [cl nm t r m ks].
  destruct cl; cbn; split; intros H; try reflexivity; try discriminate.
Qed.

(* the bundle the append path creates itself is tagged (F7) *)
Lemma appended_bundle_tagged ao mds rg rg' : mds <> [] -> has (olinks rg) "metadatabundle" = false ->
  append_root_metadata ao mds rg = Ok rg' ->
  exists b, get (olinks rg') "metadatabundle" = Some b /\ attr_is b "emd_group_type" "metadatabundle" = true.
Proof.
  intros Hm Hh. unfold append_root_metadata. destruct mds as [|x r]; [congruence|]. rewrite Hh.
  unfold add_link. destruct rg as [a l|]; [|discriminate]. cbn [olinks] in Hh. rewrite Hh. cbn [bind].
  unfold in_child. cbn [update_at]. assert (get l "metadatabundle" = None) as Hg by (unfold has in Hh; destruct (get l "metadatabundle"); [discriminate|reflexivity]).
  rewrite get_app_r by exact Hg. cbn [get String.eqb Ascii.eqb Bool.eqb]. cbn [update_at].
  match goal with |- (do c' <- ?F; _) = _ -> _ => destruct F as [b'|] eqn:EF end; cbn [bind]; [|discriminate].
  intros H; injection H as <-. cbn [olinks]. rewrite get_set_same. exists b'. split; [reflexivity|].
  (* the fold only adds / deletes links of the bundle: its attributes are those of bundle [] *)
  assert (forall (l0 : list (string * Z)) acc b0, (forall g0, acc = Ok g0 -> oattrs g0 = [("emd_group_type", AStr "metadatabundle")]) ->
     fold_left (fun acc kt => do b0 <- acc;
        if mem (fst kt) (map fst (filter (fun kv => attr_is (snd kv) "emd_group_type" "metadata") (olinks (bundle []))))
        then if ao then do b1 <- del_link (fst kt) b0; add_link (fst kt) (md_group (snd kt)) b1 else Ok b0
        else add_link (fst kt) (md_group (snd kt)) b0) l0 acc = Ok b0 -> oattrs b0 = [("emd_group_type", AStr "metadatabundle")]) as Hgen.
  { induction l0 as [|kt q IHq]; intros acc b0 Hacc Hf; [apply Hacc; exact Hf|]. cbn [fold_left] in Hf. eapply IHq; [|exact Hf].
    intros g0 E0. destruct acc as [g1|]; cbn [bind] in E0; [|discriminate]. specialize (Hacc g1 eq_refl).
    cbn [bundle map olinks filter mem] in E0. unfold add_link in E0. destruct g1 as [a1 l1|]; [|discriminate].
    destruct (has l1 (fst kt)); [discriminate|]. injection E0 as <-. exact Hacc. }
  unfold attr_is, attr_str. erewrite Hgen; [reflexivity| |exact EF]. intros g0 E; injection E as <-. reflexivity.
Qed.
