(* C08: a path that is not a path of the saved tree is an error, at the level of read() -- the root's name is wrong, or some
   component names no node where it stands (and no dataset / bundle of the node it would hang under). *)
From Emd Require Import Base.Prelude Model.H5 Model.Emd Model.Reader Generated.Tables Proofs.PTree Proofs.P05 Proofs.PRead.

Lemma walk_groups_app g a : forall b, walk_groups g (a ++ b) = do g' <- walk_groups g a; walk_groups g' b.
Proof.
  revert g. induction a as [|x q IH]; intros g b; [reflexivity|]. cbn [app walk_groups]. destruct g as [at_ l|]; [|reflexivity].
  destruct (get l x) as [c|]; [apply IH|reflexivity].
Qed.

Lemma rget_none_notin ks x : rget ks x = None -> ~ In x (map rname ks).
Proof.
  induction ks as [|k q IH]; intros H; [intros []|]. cbn [rget] in H. destruct (String.eqb x (rname k)) eqn:E; [discriminate|].
  apply String.eqb_neq in E. intros [Hk|Hq]; [congruence|]. exact (IH H Hq).
Qed.

Lemma keys_enc_kids ks : keys (enc_kids ks) = map rname ks.
Proof. unfold keys, enc_kids. rewrite map_map. reflexivity. Qed.

Lemma no_such_link k x : rget (rkids k) x = None -> ~ In x (keys (shallow_links k)) -> get (olinks (enc k)) x = None.
Proof.
  intros Hr Hs. rewrite enc_eq. cbn [olinks]. apply get_none_notin. unfold keys. rewrite map_app. intros Hin. apply in_app_or in Hin. destruct Hin as [Hin|Hin].
  - exact (Hs Hin).
  - fold (keys (enc_kids (rkids k))) in Hin. rewrite keys_enc_kids in Hin. exact (rget_none_notin _ _ Hr Hin).
Qed.

Theorem read_missing_node c root pre x q k tr :
  rcls root = CRoot -> ok_tree root -> rwalk root pre = Some k ->
  rget (rkids k) x = None -> ~ In x (keys (shallow_links k)) ->
  Forall (fun s => s <> "" /\ no_slash s = true) (rname root :: pre ++ x :: q) ->
  read (H5 (whole_file c root)) (Some (join_slash (rname root :: pre ++ x :: q))) tr = Err EAssert.
Proof.
  intros Hc Hok Hw Hr Hs Hnames. unfold read.
  assert (is_emd_file (whole_file c root) = true) as -> by (apply fresh_file_detected; exact Hc).
  unfold read_emd. set (p := pre ++ x :: q) in *.
  assert (Forall (fun s => no_slash s = true) (rname root :: p)) as Hns by (eapply Forall_impl; [|exact Hnames]; cbn; intros a Ha; apply Ha).
  assert (Forall (fun s => s <> "") (rname root :: p)) as Hnn by (eapply Forall_impl; [|exact Hnames]; cbn; intros a Ha; apply Ha).
  assert (rname root :: p <> []) as Hcons by discriminate. rewrite (split_join _ Hcons Hns). rewrite (remove_first_empty_none _ Hnn).
  assert (get (olinks (whole_file c root)) (rname root) = Some (enc root)) as Hg by (unfold whole_file; cbn [olinks]; apply get_first).
  rewrite !Hg. inversion Hns as [|? ? _ Hnsp]; subst. inversion Hnn as [|? ? _ Hnnp]; subst.
  assert (p <> []) as Hne by (subst p; destruct pre; discriminate).
  rewrite (split_join p Hne Hnsp).
  assert ((match p with [y] => String.eqb y "" | _ => false end) = false) as ->.
  { destruct p as [|y [|z r]]; try reflexivity. inversion Hnnp as [|? ? Hy _]; subst. destruct (String.eqb y "") eqn:E; [apply String.eqb_eq in E; contradiction|reflexivity]. }
  subst p. rewrite walk_groups_app, (walk_groups_enc root Hok pre k Hw). cbn [bind walk_groups].
  pose proof (no_such_link k x Hr Hs) as Hn. rewrite enc_eq in Hn |- *. cbn [olinks] in Hn. rewrite Hn. reflexivity.
Qed.

Theorem read_missing_root c root rp names tr :
  rcls root = CRoot -> rp <> rname root ->
  Forall (fun s => s <> "" /\ no_slash s = true) (rp :: names) ->
  read (H5 (whole_file c root)) (Some (join_slash (rp :: names))) tr = Err EAssert.
Proof.
  intros Hc Hrp Hnames. unfold read.
  assert (is_emd_file (whole_file c root) = true) as -> by (apply fresh_file_detected; exact Hc).
  unfold read_emd.
  assert (Forall (fun s => no_slash s = true) (rp :: names)) as Hns by (eapply Forall_impl; [|exact Hnames]; cbn; intros a Ha; apply Ha).
  assert (Forall (fun s => s <> "") (rp :: names)) as Hnn by (eapply Forall_impl; [|exact Hnames]; cbn; intros a Ha; apply Ha).
  assert (rp :: names <> []) as Hcons by discriminate. rewrite (split_join _ Hcons Hns). rewrite (remove_first_empty_none _ Hnn).
  assert (get (olinks (whole_file c root)) rp = None) as ->; [|reflexivity].
  unfold whole_file. cbn [olinks get]. destruct (String.eqb rp (rname root)) eqn:E; [apply String.eqb_eq in E; contradiction|reflexivity].
Qed.

(* the premises are met: a tree r/{a/{b}} -- 'r/a/zz', 'r/zz/b', and 'a/b' (the root's name left out) are refused *)
Example missing_paths_refused :
  let c := CFG "emdfile" "" in
  let t := RN CRoot "r" 0%Z 0 [] [RN CNode "a" 0%Z 0 [("m", 1%Z)] [RN CArray "b" 5%Z 1 [] []]] in
  read (H5 (whole_file c t)) (Some "r/a/zz") (Some true) = Err EAssert /\
  read (H5 (whole_file c t)) (Some "r/zz/b") None = Err EAssert /\
  read (H5 (whole_file c t)) (Some "a/b") (Some false) = Err EAssert /\
  exists v, read (H5 (whole_file c t)) (Some "r/a/b") (Some false) = Ok v.
Proof. vm_compute. repeat split. eexists. reflexivity. Qed.
