(* Writer side of the tree round trip: what write_tree / fresh_file produce (enc), the frame property
   of update_at.  Used by C01, C07, C10. *)
From Emd Require Import Base.Prelude Model.H5 Model.Emd Generated.Tables.

Section rind.
  Variable P : rnode -> Prop.
  Hypothesis H : forall c n t r m ks, Forall P ks -> P (RN c n t r m ks).
  Fixpoint rnode_ind' (x : rnode) : P x :=
    match x with RN c n t r m ks =>
      H c n t r m ks ((fix go l : Forall P l := match l with [] => Forall_nil _ | k :: q => Forall_cons _ (rnode_ind' k) (go q) end) ks) end.
End rind.

(* what a node writes, children excluded *)
Definition shallow_links (n : rnode) : list (string * obj) :=
  (match rmds n with [] => [] | m => [("metadatabundle", bundle m)] end) ++ own (rcls n) (rtok n) (rrank n).
Definition node_tags (n : rnode) := tags (gtype (rcls n)) (pyclass (rcls n)).
Lemma node_shallow_eq n : node_shallow n = G (node_tags n) (shallow_links n). Proof. reflexivity. Qed.

(* the whole encoded tree below (and including) a node *)
Fixpoint enc (n : rnode) : obj :=
  G (node_tags n) (shallow_links n ++ map (fun k => (rname k, enc k)) (rkids n)).
Definition enc_kids (ks : list rnode) : list (string * obj) := map (fun k => (rname k, enc k)) ks.
Lemma enc_eq n : enc n = G (node_tags n) (shallow_links n ++ enc_kids (rkids n)).
Proof. destruct n; reflexivity. Qed.

(* writable trees: sibling names pairwise distinct and distinct from what the parent itself writes *)
Fixpoint ok_tree (n : rnode) : Prop :=
  NoDup (map rname (rkids n)) /\
  (forall k, In k (rkids n) -> ~ In (rname k) (keys (shallow_links n))) /\
  (fix go (l : list rnode) : Prop := match l with [] => True | k :: q => ok_tree k /\ go q end) (rkids n).
Lemma ok_tree_inv n : ok_tree n <->
  NoDup (map rname (rkids n)) /\ (forall k, In k (rkids n) -> ~ In (rname k) (keys (shallow_links n))) /\ Forall ok_tree (rkids n).
Proof.
  destruct n as [c nm t r m ks]. cbn [ok_tree rkids]. split; intros (A & B & C); repeat split; auto.
  - clear -C. induction ks as [|k q IH]; constructor; destruct C; auto.
  - clear -C. induction C; cbn; auto.
Qed.

Lemma get_app_l {A} (l1 l2 : list (string * A)) k v : get l1 k = Some v -> get (l1 ++ l2) k = Some v.
Proof. induction l1 as [|[k' v'] r IH]; cbn; [discriminate|]. destruct (String.eqb k k'); auto. Qed.
Lemma get_app_r {A} (l1 l2 : list (string * A)) k : get l1 k = None -> get (l1 ++ l2) k = get l2 k.
Proof. induction l1 as [|[k' v'] r IH]; cbn; [reflexivity|]. destruct (String.eqb k k'); [discriminate|auto]. Qed.
Lemma has_app {A} (l1 l2 : list (string * A)) k : has (l1 ++ l2) k = has l1 k || has l2 k.
Proof. unfold has. destruct (get l1 k) eqn:E; [rewrite (get_app_l _ l2 _ _ E); reflexivity|rewrite get_app_r by exact E; reflexivity]. Qed.
Lemma has_false_iff {A} (l : list (string * A)) k : has l k = false <-> ~ In k (keys l).
Proof. unfold has. destruct (get l k) eqn:E; [split; [discriminate|intros H; exfalso; apply H; eapply get_in_keys; eauto]|split; [intros _; apply get_none_notin; exact E|reflexivity]]. Qed.
Lemma set_app_last {A} (l : list (string * A)) k v w : get l k = None -> set (l ++ [(k, v)]) k w = l ++ [(k, w)].
Proof.
  induction l as [|[k' v'] r IH]; cbn; [rewrite String.eqb_refl; reflexivity|].
  destruct (String.eqb k k') eqn:E; [discriminate|]. intros H. rewrite IH by exact H. reflexivity.
Qed.
Lemma keys_app {A} (l1 l2 : list (string * A)) : keys (l1 ++ l2) = keys l1 ++ keys l2.
Proof. unfold keys. apply map_app. Qed.
Lemma keys_enc_kids ks : keys (enc_kids ks) = map rname ks.
Proof. unfold keys, enc_kids. rewrite map_map. reflexivity. Qed.

(* _write_tree: the children of n, each with its whole branch, appended to the group's links *)
Lemma write_tree_spec n : ok_tree n -> forall a l,
  (forall k, In k (rkids n) -> ~ In (rname k) (keys l)) ->
  write_tree n (G a l) = Ok (G a (l ++ enc_kids (rkids n))).
Proof.
  induction n as [c nm t r m ks IH] using rnode_ind'. intros Hok a l Hl. apply ok_tree_inv in Hok. destruct Hok as (Hnd & _ & Hoks).
  cbn [rkids] in *. cbn [write_tree rkids].
  assert (forall done todo, ks = done ++ todo ->
            fold_left (fun acc k => do g0 <- acc; do g1 <- write_single_node k g0; in_child (rname k) (write_tree k) g1) todo
                      (Ok (G a (l ++ enc_kids done))) = Ok (G a (l ++ enc_kids ks))) as Hgen.
  { intros done todo. revert done. induction todo as [|k q IHq]; intros done E.
    - rewrite app_nil_r in E. subst. reflexivity.
    - cbn [fold_left bind].
      assert (In k ks) as Hk by (rewrite E; apply in_app_iff; right; left; reflexivity).
      assert (has (l ++ enc_kids done) (rname k) = false) as Hnot.
      { apply has_false_iff. rewrite keys_app, keys_enc_kids. intros Hi. apply in_app_iff in Hi. destruct Hi as [Hi|Hi]; [exact (Hl k Hk Hi)|].
        rewrite E, map_app in Hnd. cbn [map] in Hnd. apply NoDup_remove_2 in Hnd. apply Hnd. apply in_app_iff. left. exact Hi. }
      unfold write_single_node, add_link. rewrite Hnot. cbn [bind]. unfold in_child. cbn [update_at].
      rewrite Forall_forall in IH, Hoks.
      assert (get (l ++ enc_kids done) (rname k) = None) as Hg by (unfold has in Hnot; destruct (get (l ++ enc_kids done) (rname k)); [discriminate|reflexivity]).
      rewrite get_app_r by exact Hg. cbn [get]. rewrite String.eqb_refl. rewrite node_shallow_eq.
      pose proof (Hoks k Hk) as Hokk. pose proof Hokk as Hokk'. apply ok_tree_inv in Hokk'. destruct Hokk' as (_ & Hk2 & _).
      rewrite (IH k Hk Hokk (node_tags k) (shallow_links k) Hk2). cbn [bind]. rewrite <- enc_eq.
      rewrite set_app_last by exact Hg.
      specialize (IHq (done ++ [k])). rewrite <- app_assoc in IHq. cbn [app] in IHq. specialize (IHq E).
      unfold enc_kids in IHq at 1. rewrite map_app in IHq. cbn [map] in IHq. rewrite app_assoc in IHq. exact IHq. }
  specialize (Hgen [] ks eq_refl). cbn [enc_kids map] in Hgen. rewrite app_nil_r in Hgen. exact Hgen.
Qed.

Lemma write_tree_enc n : ok_tree n -> write_tree n (node_shallow n) = Ok (enc n).
Proof.
  intros H. rewrite node_shallow_eq, enc_eq. apply write_tree_spec; [exact H|]. apply ok_tree_inv in H. tauto.
Qed.

(* ---------- a fresh file *)
Lemma root_tag_noop n : rcls n = CRoot -> set_attr "emd_group_type" (AStr "root") (node_shallow n) = node_shallow n.
Proof. intros H. rewrite node_shallow_eq. unfold node_tags. rewrite H. reflexivity. Qed.

Lemma root_written c root : rcls root = CRoot ->
  (do f1 <- write_single_node root (G (header c) []); set_root_tag (rname root) f1)
  = Ok (G (header c) [(rname root, node_shallow root)]).
Proof.
  intros Hc. unfold write_single_node, add_link. cbn [has get bind app].
  unfold set_root_tag, in_child. cbn [update_at get]. rewrite String.eqb_refl. cbn [update_at]. rewrite (root_tag_noop _ Hc).
  cbn [bind set]. rewrite String.eqb_refl. reflexivity.
Qed.

Lemma in_root_group c root w g' :
  rcls root = CRoot -> w (node_shallow root) = Ok g' ->
  (do f1 <- write_single_node root (G (header c) []); do f2 <- set_root_tag (rname root) f1; in_child (rname root) w f2)
  = Ok (G (header c) [(rname root, g')]).
Proof.
  intros Hc Hw. pose proof (root_written c root Hc) as E.
  destruct (write_single_node root (G (header c) [])) as [f1|e]; cbn [bind] in *; [|discriminate].
  rewrite E. cbn [bind]. unfold in_child. cbn [update_at get]. rewrite String.eqb_refl. cbn [update_at]. rewrite Hw.
  cbn [bind set]. rewrite String.eqb_refl. reflexivity.
Qed.

(* save(path, root) : header, one top-level group holding the whole encoded tree *)
Theorem fresh_file_whole_tree c root tr : rcls root = CRoot -> ok_tree root -> tr <> Some false ->
  fresh_file c root [] tr = Ok (G (header c) [(rname root, enc root)]).
Proof.
  intros Hc Hok Htr. unfold fresh_file, write_from_root.
  destruct tr as [[|]|]; [|congruence|]; apply in_root_group; auto using write_tree_enc.
Qed.

(* the root alone (tree=False) *)
Theorem fresh_file_root_only c root : rcls root = CRoot ->
  fresh_file c root [] (Some false) = Ok (G (header c) [(rname root, node_shallow root)]).
Proof.
  intros Hc. unfold fresh_file, write_from_root. pose proof (root_written c root Hc) as E.
  destruct (write_single_node root (G (header c) [])) as [f1|e]; cbn [bind] in *; [|discriminate]. rewrite E. reflexivity.
Qed.

(* ---------- every node is the group at /<root name><node path> *)
Lemma get_enc_kids ks nm : get (enc_kids ks) nm = option_map enc (rget ks nm).
Proof. induction ks as [|k q IH]; [reflexivity|]. cbn. destruct (String.eqb nm (rname k)); [reflexivity|exact IH]. Qed.
Lemma rget_in ks nm k : rget ks nm = Some k -> In k ks /\ rname k = nm.
Proof.
  induction ks as [|x q IH]; [discriminate|]. cbn. destruct (String.eqb nm (rname x)) eqn:E.
  - intros H; injection H as <-. apply String.eqb_eq in E. auto.
  - intros H. destruct (IH H). auto.
Qed.

Theorem lookup_enc n : ok_tree n -> forall p k, rwalk n p = Some k -> lookup (enc n) p = Some (enc k).
Proof.
  induction n as [c nm t r m ks IH] using rnode_ind'. intros Hok p. destruct p as [|x q]; intros k Hw.
  - cbn in Hw. injection Hw as <-. reflexivity.
  - cbn [rwalk rkids] in Hw. destruct (rget ks x) as [kid|] eqn:Eg; [|discriminate].
    destruct (rget_in _ _ _ Eg) as (Hin & Hnm). apply ok_tree_inv in Hok. destruct Hok as (_ & Hsh & Hoks). cbn [rkids] in *.
    rewrite enc_eq. cbn [lookup rkids]. rewrite get_app_r.
    + rewrite get_enc_kids, Eg. cbn [option_map]. rewrite Forall_forall in IH, Hoks. apply IH; auto.
    + apply get_none_notin. rewrite <- Hnm. apply Hsh. exact Hin.
Qed.

(* in the file: /<root name>/<path> is the node's group, tagged with its group type and Python class *)
Theorem file_layout c root p k : rcls root = CRoot -> ok_tree root -> rwalk root p = Some k ->
  exists f, fresh_file c root [] (Some true) = Ok f /\
            lookup f (rname root :: p) = Some (enc k) /\
            oattrs (enc k) = tags (gtype (rcls k)) (pyclass (rcls k)).
Proof.
  intros Hc Hok Hw. eexists. split; [apply fresh_file_whole_tree; [exact Hc|exact Hok|discriminate]|].
  split; [|destruct k; reflexivity]. cbn [lookup get]. rewrite String.eqb_refl. apply lookup_enc; assumption.
Qed.

(* and nothing else: the link names of a node's group are its own datasets/bundle and its children *)
Theorem enc_links n : keys (olinks (enc n)) = keys (shallow_links n) ++ map rname (rkids n).
Proof. rewrite enc_eq. cbn [olinks]. rewrite keys_app, keys_enc_kids. reflexivity. Qed.

(* ---------- partial saves into a fresh file (C07) *)
Definition root_with (root : rnode) (extra : list (string * obj)) : obj := G (node_tags root) (shallow_links root ++ extra).

(* tree=False: the root (name, all its metadata) and the node alone *)
Theorem partial_save_node_alone c root tp data :
  rcls root = CRoot -> tp <> [] -> rwalk root tp = Some data -> ~ In (rname data) (keys (shallow_links root)) ->
  fresh_file c root tp (Some false) = Ok (G (header c) [(rname root, root_with root [(rname data, node_shallow data)])]).
Proof.
  intros Hc Htp Hw Hn. unfold fresh_file, write_from_root. destruct tp as [|x q]; [congruence|]. rewrite Hw.
  apply in_root_group; [exact Hc|]. rewrite node_shallow_eq. unfold write_single_node, add_link.
  apply has_false_iff in Hn. rewrite Hn. reflexivity.
Qed.

(* tree=True: the root and the node with its whole branch, relative shape unchanged *)
Theorem partial_save_node_and_branch c root tp data :
  rcls root = CRoot -> tp <> [] -> rwalk root tp = Some data -> ~ In (rname data) (keys (shallow_links root)) -> ok_tree data ->
  fresh_file c root tp (Some true) = Ok (G (header c) [(rname root, root_with root [(rname data, enc data)])]).
Proof.
  intros Hc Htp Hw Hn Hok. unfold fresh_file, write_from_root. destruct tp as [|x q]; [congruence|]. rewrite Hw.
  apply in_root_group; [exact Hc|]. rewrite node_shallow_eq. unfold write_single_node, add_link.
  pose proof Hn as Hn'. apply has_false_iff in Hn'. rewrite Hn'. cbn [bind]. unfold in_child. cbn [update_at].
  rewrite get_app_r by (apply get_none_notin; exact Hn). cbn [get]. rewrite String.eqb_refl. cbn [update_at].
  rewrite (write_tree_enc _ Hok). cbn [bind]. rewrite set_app_last by (apply get_none_notin; exact Hn). reflexivity.
Qed.

(* tree=None: the root and only the branch below the node, attached at root level *)
Theorem partial_save_branch_only c root tp data :
  rcls root = CRoot -> tp <> [] -> rwalk root tp = Some data -> ok_tree data ->
  (forall k, In k (rkids data) -> ~ In (rname k) (keys (shallow_links root))) ->
  fresh_file c root tp None = Ok (G (header c) [(rname root, root_with root (enc_kids (rkids data)))]).
Proof.
  intros Hc Htp Hw Hok Hn. unfold fresh_file, write_from_root. destruct tp as [|x q]; [congruence|]. rewrite Hw.
  apply in_root_group; [exact Hc|]. rewrite node_shallow_eq. apply write_tree_spec; assumption.
Qed.
