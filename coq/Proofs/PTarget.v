(* C09: a foreign node / branch / tree appended under an emdpath target goes exactly there. *)
From Emd Require Import Base.Prelude Model.H5 Model.Emd Model.Reader Generated.Tables Proofs.PTree Proofs.PAppend Proofs.PRead.

(* ---------- update_at: the object at h is transformed, nothing off that path changes *)
Fixpoint is_pref (a b : path) : bool :=
  match a, b with
  | [], _ => true
  | x :: a', y :: b' => String.eqb x y && is_pref a' b'
  | _ :: _, [] => false
  end.

Lemma update_at_spec : forall h f g w g', lookup f h = Some g -> w g = Ok g' ->
  exists f', update_at f h w = Ok f' /\ lookup f' h = Some g' /\
             (forall q, is_pref q h = false -> is_pref h q = false -> lookup f' q = lookup f q) /\
             oattrs f' = match h with [] => oattrs g' | _ => oattrs f end.
Proof.
  induction h as [|k h IH]; intros f g w g' Hl Hw.
  - cbn in Hl. injection Hl as <-. exists g'. cbn. repeat split; auto. intros q H. destruct q; discriminate.
  - cbn [lookup] in Hl. destruct f as [a l|]; [|discriminate]. destruct (get l k) as [c|] eqn:Ek; [|discriminate].
    destruct (IH c g w g' Hl Hw) as (c' & Hu & Hl' & Hfr & _).
    exists (G a (set l k c')). cbn [update_at]. rewrite Ek, Hu. cbn [bind]. split; [reflexivity|]. split.
    + cbn [lookup]. rewrite get_set_same. exact Hl'.
    + split; [|reflexivity]. intros q H1 H2. destruct q as [|k' q']; [discriminate|]. cbn [is_pref] in H1, H2. cbn [lookup].
      destruct (String.eqb k' k) eqn:E.
      * rewrite String.eqb_sym, E in H2. cbn [andb] in H1, H2.
        apply String.eqb_eq in E. subst k'. rewrite get_set_same, Ek. apply Hfr; assumption.
      * rewrite get_set_other by (intros ->; rewrite String.eqb_refl in E; discriminate). reflexivity.
Qed.

(* ---------- a foreign tree (a root name the file does not have) placed under an emdpath *)
Theorem foreign_node_with_branch_under_emdpath root tp data a m f ep rn treepath h ga gl :
  mem (rname root) (rootgroups f) = false -> emdpath a = Some ep -> ep <> "" ->
  parse_emdpath ep = (rn, treepath) -> emd_target f rn treepath = Ok h -> lookup f h = Some (G ga gl) ->
  tp <> [] -> rwalk root tp = Some data -> tree a = Some true -> ok_tree data -> ~ In (rname data) (keys gl) ->
  exists f', append_existing root tp a m f = Ok f' /\
             lookup f' h = Some (G ga (gl ++ [(rname data, enc data)])) /\
             (forall q, is_pref q h = false -> is_pref h q = false -> lookup f' q = lookup f q).
Proof.
  intros Hroot Hep Hne Hparse Htarget Hl Htp Hw Htree Hok Hnew.
  destruct (update_at_spec h f (G ga gl) (fun g => do g1 <- write_single_node data g; in_child (rname data) (write_tree data) g1)
              (G ga (gl ++ [(rname data, enc data)])) Hl (new_child_written_whole data ga gl Hok Hnew)) as (f' & Hu & Hl' & Hfr & _).
  exists f'. split; [|split; [exact Hl'|exact Hfr]].
  unfold append_existing. rewrite Hw, Hroot, Hep.
  destruct ep as [|c0 r0]; [congruence|]. rewrite Hparse. rewrite Htarget. cbn [bind].
  destruct tp as [|x q]; [congruence|]. rewrite Htree. exact Hu.
Qed.

Theorem foreign_whole_tree_under_emdpath root a m f ep rn treepath h ga gl :
  mem (rname root) (rootgroups f) = false -> emdpath a = Some ep -> ep <> "" ->
  parse_emdpath ep = (rn, treepath) -> emd_target f rn treepath = Ok h -> lookup f h = Some (G ga gl) ->
  tree a <> Some false -> ok_tree root -> (forall k, In k (rkids root) -> ~ In (rname k) (keys gl)) ->
  exists f', append_existing root [] a m f = Ok f' /\
             lookup f' h = Some (G ga (gl ++ enc_kids (rkids root))) /\
             (forall q, is_pref q h = false -> is_pref h q = false -> lookup f' q = lookup f q).
Proof.
  intros Hroot Hep Hne Hparse Htarget Hl Htree Hok Hnew.
  destruct (update_at_spec h f (G ga gl) (write_tree root) (G ga (gl ++ enc_kids (rkids root))) Hl (write_tree_spec root Hok ga gl Hnew)) as (f' & Hu & Hl' & Hfr & _).
  exists f'. split; [|split; [exact Hl'|exact Hfr]].
  unfold append_existing. cbn [rwalk]. rewrite Hroot, Hep.
  destruct ep as [|c0 r0]; [congruence|]. rewrite Hparse. rewrite Htarget. cbn [bind].
  destruct (tree a) as [[|]|]; [exact Hu|congruence|exact Hu].
Qed.
